#!/bin/bash
# usage: regress.sh [seeded|refactors|all] [name-filter]
# Development regression for the checker itself (not a registered check):
#  - every /verif/seeded/<id>/patch.diff must still be reported for its owning property
#    (/verif/seeded/EXPECTED overrides: "<id> missed" or "<id> <other property that reports it>");
#  - every /verif/refactors/<name>/patch.diff (behaviour-preserving edits) must stay silent.
# Each patch is applied in its own detached worktree of /repo under /tmp (removed afterwards);
# /repo itself is never touched.
set -u
what="${1:-all}"; filt="${2:-}"
export GOFLAGS=-mod=mod GOPROXY=off GOSUMDB=off GOTOOLCHAIN=local; unset GOWORK
root=/tmp/rg.$$; mkdir -p $root
trap 'for d in $root/wt-*; do [ -d "$d" ] && git -C /repo worktree remove --force "$d" >/dev/null 2>&1; done; git -C /repo worktree prune; rm -rf $root' EXIT
jobs=()
if [ "$what" = seeded ] || [ "$what" = all ]; then for d in /verif/seeded/C*/; do jobs+=("S:$(basename $d)"); done; fi
if [ "$what" = refactors ] || [ "$what" = all ]; then for d in /verif/refactors/*/; do jobs+=("R:$(basename $d)"); done; fi
run_one() {
  kind="${1%%:*}"; id="${1#*:}"
  wt=$root/wt-$id
  git -C /repo worktree add --detach -q $wt HEAD >/dev/null 2>&1 || { echo "FAIL $id: worktree"; return; }
  if [ $kind = S ]; then patch=/verif/seeded/$id/patch.diff; else patch=/verif/refactors/$id/patch.diff; fi
  if [ $kind = S ] && [ "$(awk -v id=$id '$1==id{print $2}' /verif/seeded/EXPECTED 2>/dev/null)" = obsolete ]; then echo "ok   $id obsolete (see its meta.json)"; git -C /repo worktree remove --force $wt >/dev/null 2>&1; return; fi
  if ! git -C $wt apply $patch 2>/dev/null; then echo "FAIL $id: patch does not apply"; return; fi
  mkdir -p $root/v-$id; cp /verif/known_findings.json $root/v-$id/
  /verif/bin/larkcheck -scan -repo $wt -verif $root/v-$id > $root/$id.out 2>&1
  if [ $kind = S ]; then
    prop=${id%%-*}
    exp=$(awk -v id=$id '$1==id{print $2}' /verif/seeded/EXPECTED 2>/dev/null)
    if [ -n "$exp" ] && [ "$exp" != missed ]; then prop=$exp; fi
    if grep -E "^(VIOLATED|UNDECIDED) [C0-9,]*$prop[ ,]" $root/$id.out >/dev/null; then
      echo "ok   $id caught by $prop: $(grep -E "^(VIOLATED|UNDECIDED) [C0-9,]*$prop[ ,]" $root/$id.out | sed 's/.*\[\([A-Z0-9-]*\)\].*/\1/' | sort -u | tr '\n' ' ')"
    elif [ "$exp" = missed ]; then
      echo "ok   $id missed (expected, see seeded/README.md)"
    else
      echo "FAIL $id: not reported for $prop"; grep -E "^(VIOLATED|UNDECIDED|LOAD-ERROR|ERROR)" $root/$id.out | cut -c1-200 | head -5
    fi
  else
    if grep -q "^SCAN: 0 not discharged" $root/$id.out; then echo "ok   $id silent"
    elif grep -q "^$id " /verif/refactors/KNOWN-ALARMS 2>/dev/null; then echo "ok   $id known alarms (refactors/KNOWN-ALARMS): $(grep -E "^(VIOLATED|UNDECIDED)" $root/$id.out | sed 's/.*\[\([A-Z0-9-]*\)\].*/\1/' | sort -u | tr '\n' ' ')"
    else echo "FAIL $id: false alarms:"; grep -E "^(VIOLATED|UNDECIDED|LOAD-ERROR|ERROR)" $root/$id.out | cut -c1-330; fi
  fi
  git -C /repo worktree remove --force $wt >/dev/null 2>&1
}
export -f run_one; export root
printf '%s\n' "${jobs[@]}" | grep -- "$filt" | xargs -P ${REGRESS_JOBS:-6} -I{} bash -c 'run_one {} > $root/res-$(echo {} | tr ":" "_") 2>&1'
cat $root/res-* 
