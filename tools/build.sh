#!/bin/bash
# builds the checker (dev aid; MANIFEST.setup_cmd does the same build)
cd /verif/checker && export GOFLAGS=-mod=vendor GOPROXY=off GOSUMDB=off GOTOOLCHAIN=local; unset GOWORK; gofmt -l .; go vet . && go build -o /verif/bin/larkcheck .
