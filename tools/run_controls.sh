#!/bin/bash
# usage: run_controls.sh [filter]   — every overlay control must fire (development regression)
filt="${1:-}"
/verif/bin/larkcheck -list | awk '$1=="control"{print $2}' | grep -- "$filt" | xargs -P 8 -I{} sh -c '/verif/bin/larkcheck -control {} 2>&1 | grep "^CONTROL" | cut -c1-200' | sort | awk '{print} $3!="fired"{bad++} END{print "controls not fired:", bad+0}' | grep -v " fired " 
