#!/bin/bash
# usage: cross.sh [seed-filter] [refactor-filter]
# Development regression (not a registered check): a seeded change must still be reported for its owning property
# when it is applied ON TOP OF a behaviour-preserving refactor of the same file(s) - the generalisations made for
# the refactor corpus must not have blinded a rule on the refactored shape. Only pairs whose two patches touch a
# common file and apply cleanly one after the other are run. Worktrees under /tmp, removed afterwards.
set -u
sf="${1:-}"; rf="${2:-}"
export GOFLAGS=-mod=mod GOPROXY=off GOSUMDB=off GOTOOLCHAIN=local; unset GOWORK
root=/tmp/cx.$$; mkdir -p $root
trap 'for d in $root/wt-*; do [ -d "$d" ] && git -C /repo worktree remove --force "$d" >/dev/null 2>&1; done; git -C /repo worktree prune; rm -rf $root' EXIT
pairs=()
for s in /verif/seeded/C*/; do sid=$(basename $s); echo "$sid" | grep -q -- "$sf" || continue
  [ "$(awk -v id=$sid '$1==id{print $2}' /verif/seeded/EXPECTED 2>/dev/null)" = obsolete ] && continue
  sfiles=$(grep '^+++ b/' $s/patch.diff | sed 's|+++ b/||' | sort -u)
  for r in /verif/refactors/*/; do rid=$(basename $r); echo "$rid" | grep -q -- "$rf" || continue
    rfiles=$(grep '^+++ b/' $r/patch.diff | sed 's|+++ b/||' | sort -u)
    common=$(comm -12 <(echo "$sfiles") <(echo "$rfiles") | head -1)
    [ -n "$common" ] && pairs+=("$sid:$rid")
  done
done
run_pair() {
  sid="${1%%:*}"; rid="${1#*:}"; wt=$root/wt-$sid-$rid
  git -C /repo worktree add --detach -q $wt HEAD >/dev/null 2>&1 || { echo "skip $1 worktree"; return; }
  if ! git -C $wt apply /verif/refactors/$rid/patch.diff 2>/dev/null; then git -C /repo worktree remove --force $wt >/dev/null 2>&1; return; fi
  if ! git -C $wt apply /verif/seeded/$sid/patch.diff 2>/dev/null; then git -C /repo worktree remove --force $wt >/dev/null 2>&1; return; fi
  if ! (cd $wt && go build ./larking ./health >/dev/null 2>&1); then echo "skip $1 does-not-build"; git -C /repo worktree remove --force $wt >/dev/null 2>&1; return; fi
  mkdir -p $root/v-$sid-$rid; cp /verif/known_findings.json $root/v-$sid-$rid/
  /verif/bin/larkcheck -scan -repo $wt -verif $root/v-$sid-$rid > $root/$sid-$rid.out 2>&1
  prop=${sid%%-*}
  exp=$(awk -v id=$sid '$1==id{print $2}' /verif/seeded/EXPECTED 2>/dev/null)
  if [ -n "$exp" ] && [ "$exp" != missed ]; then prop=$exp; fi
  if grep -E "^(VIOLATED|UNDECIDED) [C0-9,]*$prop[ ,]" $root/$sid-$rid.out >/dev/null; then
    echo "ok   $sid on $rid: $(grep -E "^(VIOLATED|UNDECIDED) [C0-9,]*$prop[ ,]" $root/$sid-$rid.out | sed 's/.*\[\([A-Z0-9-]*\)\].*/\1/' | sort -u | tr '\n' ' ')"
  else
    echo "MISS $sid on $rid: not reported for $prop"
  fi
  git -C /repo worktree remove --force $wt >/dev/null 2>&1
}
export -f run_pair; export root
echo "pairs with a common file: ${#pairs[@]}" >&2
printf '%s\n' "${pairs[@]}" | xargs -P 8 -I{} bash -c 'run_pair {} > $root/res-$(echo {} | tr ":" "_") 2>&1'
cat $root/res-* 2>/dev/null
