#!/bin/bash
# usage: rebase_patch.sh <dir-with-patch.diff>   — re-create patch.diff against /repo HEAD with a 3-way apply (dev tool)
d="$1"; wt=/tmp/rb.$$; export GOFLAGS=-mod=mod GOPROXY=off GOSUMDB=off GOTOOLCHAIN=local
git -C /repo worktree add --detach -q $wt HEAD || exit 1
cd $wt
if git apply -3 $d/patch.diff >/dev/null 2>&1 && ! grep -rl '^<<<<<<< ' larking health >/dev/null 2>&1; then
  if go build ./larking ./health >/dev/null 2>&1; then
    git diff HEAD -- larking health > $d/patch.diff.new && mv $d/patch.diff.new $d/patch.diff && echo "rebased $(basename $d)"
  else echo "BUILD-FAIL $(basename $d)"; fi
else
  echo "CONFLICT $(basename $d): $(git diff --name-only --diff-filter=U | tr '\n' ' ')"
fi
cd /; git -C /repo worktree remove --force $wt >/dev/null 2>&1
