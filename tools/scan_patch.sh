#!/bin/bash
# usage: scan_patch.sh <patch.diff>   - applies the patch in a scratch worktree under /tmp, runs larkcheck -scan on it, removes the worktree
set -u
export GOFLAGS=-mod=mod GOPROXY=off GOSUMDB=off GOTOOLCHAIN=local; unset GOWORK
wt=/tmp/sp.$$; v=/tmp/spv.$$
git -C /repo worktree add --detach -q $wt HEAD || exit 2
trap 'git -C /repo worktree remove --force $wt >/dev/null 2>&1; git -C /repo worktree prune; rm -rf $v' EXIT
git -C $wt apply "$(realpath $1)" || { echo "patch does not apply"; exit 2; }
mkdir -p $v; cp /verif/known_findings.json $v/
/verif/bin/larkcheck -scan -repo $wt -verif $v 2>&1 | grep -E "^(VIOLATED|UNDECIDED|SCAN|LOAD-ERROR|ERROR)"
