#!/bin/bash
# usage: process_seed.sh <id> (e.g. C08-c): verify the sub-agent's delivery in /tmp/mut/<id>, keep it, and run the checks on it
id="$1"; prop="${id%%-*}"
/verif/tools/verify_seeded.sh /tmp/mut/$id $id $prop 2>&1 | tail -4
[ -d /verif/seeded/$id ] && /verif/tools/regress.sh seeded "$id"
