#!/bin/bash
# usage: import_refactor.sh <name> (worktree /tmp/mut/<name> with patch.diff, meta.json): store under /verif/refactors and evaluate
n="$1"; mkdir -p /verif/refactors/$n
(cd /tmp/mut/$n && git diff HEAD -- larking health > /verif/refactors/$n/patch.diff; cp meta.json /verif/refactors/$n/ 2>/dev/null)
/verif/tools/regress.sh refactors "$n" | cut -c1-420
