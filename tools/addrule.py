#!/usr/bin/env python3
# usage: addrule.py Cxx RULE ["text appended to Decides"]  - lists a rule for a property in checker/proptable.go (dev aid)
import re,sys
pid,rule=sys.argv[1],sys.argv[2]
text=sys.argv[3] if len(sys.argv)>3 else None
p='/verif/checker/proptable.go'
s=open(p).read()
m=re.search(r'ID:\s+"%s",\n\s+Rules:\s+\[\]string\{([^}]*)\}'%pid,s)
rules=m.group(1)
if '"%s"'%rule not in rules:
    s=s[:m.end(1)]+', "%s"'%rule+s[m.end(1):]
if text:
    m=re.search(r'ID:\s+"%s",.*?Decides:\s+"((?:[^"\\]|\\.)*)"'%pid,s,re.S)
    s=s[:m.end(1)]+' '+text.replace('"','\\"')+s[m.end(1):]
open(p,'w').write(s)
