#!/bin/bash
# usage: verify_seeded.sh <worktree-dir> <seed-id> <property>
# Confirms a seeded change independently: builds, suite passes with it, demo fails with it, demo passes without it.
# On success copies patch.diff, the demo and meta.json (+ verification record) to /verif/seeded/<seed-id>/.
set -u
wt="$1"; id="$2"; prop="$3"
export GOFLAGS=-mod=mod GOPROXY=off GOSUMDB=off GOTOOLCHAIN=local
cd "$wt" || exit 2
[ -f patch.diff ] && [ -f larking/zz_demo_test.go ] || { echo "missing deliverables"; exit 2; }
# normalise: start from a clean tree + demo, then apply the patch
cp larking/zz_demo_test.go /tmp/zz_demo_$id.go; cp patch.diff /tmp/patch_$id.diff; cp meta.json /tmp/meta_$id.json 2>/dev/null
git checkout -q -- . ; git clean -fdq -e patch.diff -e meta.json
cp /tmp/zz_demo_$id.go larking/zz_demo_test.go
r_without=$(go test -vet=off -count=1 -run '^TestDemo$' ./larking 2>&1 | tail -1)
git apply /tmp/patch_$id.diff || { echo "patch does not apply to clean tree"; exit 2; }
go build ./... || { echo "BUILD FAILED with change"; exit 1; }
r_with=$(go test -vet=off -count=1 -run '^TestDemo$' ./larking 2>&1 | tail -1)
r_suite=$(go test -vet=off -count=1 -skip '^TestDemo$' ./larking 2>&1 | tail -1)
echo "demo without change: $r_without"; echo "demo with change:    $r_with"; echo "suite with change:    $r_suite"
ok=1
case "$r_without" in ok*) ;; *) ok=0;; esac
case "$r_with" in FAIL*|*FAIL*) ;; *) ok=0;; esac
case "$r_suite" in ok*) ;; *) ok=0;; esac
if [ $ok = 1 ]; then
  d=/verif/seeded/$id; mkdir -p $d
  cp /tmp/patch_$id.diff $d/patch.diff; cp /tmp/zz_demo_$id.go $d/zz_demo_test.go
  python3 - "$d" "$id" "$prop" "$r_without" "$r_with" "$r_suite" <<'PY'
import json,sys
d,id,prop,rw,rc,rs=sys.argv[1:7]
try: meta=json.load(open('/tmp/meta_%s.json'%id))
except Exception: meta={}
meta.update({"seed_id":id,"property":prop,"verified_by_me":{"scratch_worktree":"git worktree of /repo HEAD under /tmp/mut (removed afterwards)","commands":["go build ./...","go test -vet=off -count=1 -run '^TestDemo$' ./larking  (clean tree + demo)","git apply patch.diff","go test -vet=off -count=1 -run '^TestDemo$' ./larking","go test -vet=off -count=1 -skip '^TestDemo$' ./larking"],"demo_without_change":rw,"demo_with_change":rc,"suite_with_change":rs}})
json.dump(meta,open(d+'/meta.json','w'),indent=1)
PY
  echo "KEPT $id"
else
  echo "REJECTED $id"
fi
rm -f /tmp/zz_demo_$id.go /tmp/patch_$id.diff /tmp/meta_$id.json
