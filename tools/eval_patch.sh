#!/bin/bash
# usage: eval_patch.sh <patch.diff> [properties...]
# Applies a seeded change to /repo, runs the quick checks (8 at a time), prints the VIOLATION lines per property, and restores /repo.
set -u
patch="$1"; shift
props="${*:-C01 C02 C03 C04 C05 C06 C07 C08 C09 C10 C11 C12 C13 C14 C15 C16 C17 C18 C19 C20}"
cd /repo || exit 2
if ! git diff --quiet; then echo "/repo has uncommitted changes"; exit 2; fi
if ! git apply "$patch"; then echo "patch does not apply"; exit 2; fi
trap 'git -C /repo checkout -- . ' EXIT
export GOFLAGS=-mod=mod GOPROXY=off GOSUMDB=off GOTOOLCHAIN=local
go build ./... || { echo "BUILD FAILED"; exit 2; }
tmp=$(mktemp -d /tmp/evalpatch.XXXXXX); mkdir -p $tmp/v; cp /verif/known_findings.json $tmp/v/
echo $props | tr ' ' '\n' | xargs -P 8 -I{} sh -c "/verif/bin/larkcheck -property {} -tier quick -nocontrols -verif $tmp/v > $tmp/{}.out 2>&1"
caught=""
for p in $props; do
  if grep -q "^VIOLATION" $tmp/$p.out; then
    caught="$caught $p"
    echo "== $p"
    grep -E "^(VIOLATED|UNDECIDED)" $tmp/$p.out | cut -c1-400
  fi
done
rm -rf $tmp
echo "CAUGHT-BY:$caught"
