#!/bin/bash
# usage: eval_patch.sh <patch.diff> [properties...]
# Applies a seeded change to /repo, runs the quick checks, prints the VIOLATION lines per property, and restores /repo.
set -u
patch="$1"; shift
props="${*:-C01 C02 C03 C04 C05 C06 C07 C08 C09 C10 C11 C12 C13 C14 C15 C16 C17 C18 C19 C20}"
cd /repo || exit 2
if ! git diff --quiet; then echo "/repo has uncommitted changes"; exit 2; fi
if ! git apply "$patch"; then echo "patch does not apply"; exit 2; fi
trap 'git -C /repo checkout -- . ' EXIT
export GOFLAGS=-mod=mod GOPROXY=off GOSUMDB=off GOTOOLCHAIN=local
go build ./... || { echo "BUILD FAILED"; exit 2; }
caught=""
for p in $props; do
  out=$(/verif/bin/larkcheck -property $p -tier quick -nocontrols -verif /tmp/evalverif 2>&1)
  if echo "$out" | grep -q "^VIOLATION"; then
    caught="$caught $p"
    echo "== $p"
    echo "$out" | grep -E "^(VIOLATED|UNDECIDED)" | cut -c1-400
  fi
done
echo "CAUGHT-BY:$caught"
