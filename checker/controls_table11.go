package main

// Controls for the rules and clauses added after the eleventh round of seeded changes.
func init() {
	control(&Control{ID: "jsonmarshal-handmade-empty", Rule: "JSON-MARSHAL-DELEGATES", File: "larking/codec.go",
		Old: "\treturn c.MarshalOptions.MarshalAppend(b, m)\n}\n\nfunc (c CodecJSON) Unmarshal", New: "\tif proto.Size(m) == 0 {\n\t\treturn append(b, '{', '}'), nil\n\t}\n\treturn c.MarshalOptions.MarshalAppend(b, m)\n}\n\nfunc (c CodecJSON) Unmarshal",
		Expect: "bytes-from-protojson", Why: "hand-made {} for empty messages"})
	control(&Control{ID: "errbody-through-writeall", Rule: "ERR-BODY-UNCONDITIONAL", File: "larking/http.go",
		Old: "\tw.Write(b) //nolint\n", New: "\t_ = m.opts.writeAll(w, b)\n",
		Expect: "body-written-unconditionally", Why: "error body subject to the send limit"})
	control(&Control{ID: "statsfanout-original-ctx", Rule: "STATS-FANOUT-THREADS", File: "larking/mux.go",
		Old: "type muxOptions struct {\n", New: "type demoFan []stats.Handler\n\nvar _ = demoFan(nil).TagRPC\n\nfunc (f demoFan) TagRPC(ctx context.Context, i *stats.RPCTagInfo) context.Context {\n\tout := ctx\n\tfor _, h := range f {\n\t\tout = h.TagRPC(ctx, i)\n\t}\n\treturn out\n}\n\ntype muxOptions struct {\n",
		Expect: "context-threaded", Why: "every inner handler tags the original context"})
	control(&Control{ID: "removalloop-forward", Rule: "REMOVAL-LOOP-DIRECTION", File: "larking/rules.go",
		Old: "\tfor i := len(p.variables) - 1; i >= 0; i-- {\n", New: "\tfor i := 0; i < len(p.variables); i++ {\n",
		Expect: "removal-in-index-loop", Why: "forward walk with in-place removal"})
	control(&Control{ID: "decodedlen-as-content-length", Rule: "DECODEDLEN-IS-A-BOUND", File: "larking/web.go",
		Old: "\tif typ == grpcWebText {\n\t\tbody := base64.NewDecoder(base64.StdEncoding, r.Body)\n", New: "\tif typ == grpcWebText {\n\t\tr.ContentLength = int64(base64.StdEncoding.DecodedLen(int(r.ContentLength)))\n\t\tbody := base64.NewDecoder(base64.StdEncoding, r.Body)\n",
		Expect: "decodedlen-as-length", Why: "upper bound stored as the length"})
	control(&Control{ID: "bodyaftertimeout-read-first", Rule: "BODY-AFTER-TIMEOUT", File: "larking/web.go",
		Old: "\tww := newWebWriter(w, typ, enc)\n", New: "\tif raw, err := io.ReadAll(r.Body); err == nil {\n\t\tr.Body = io.NopCloser(bytes.NewReader(raw))\n\t}\n\tww := newWebWriter(w, typ, enc)\n",
		Expect: "no-body-read-before-serveGRPC", Why: "whole body read before the timeout is installed"})
	control(&Control{ID: "gzip-fixed-count-read", Rule: "GZIP-WHOLE-BODY", File: "larking/grpc.go",
		Old: "\tif _, err := dst.ReadFrom(io.LimitReader(r, limit)); err != nil {\n", New: "\tif _, err := io.CopyN(dst, r, limit); err != nil && err != io.EOF {\n",
		Expect: "fixed-count-read", Why: "decompressed data read for a byte count"})
	control(&Control{ID: "removefilter-skip-when-last", Rule: "REMOVE-FILTER", File: "larking/mux.go",
		Old: "\t\tfor _, mhd := range s.handlers[name] {\n\t\t\t// Compare if handler belongs to this connection.\n\t\t\tif mhd != hd {\n\t\t\t\thds = append(hds, mhd)\n\t\t\t}\n\t\t}\n", New: "\t\tif len(s.conns) > 1 {\n\t\t\tfor _, mhd := range s.handlers[name] {\n\t\t\t\t// Compare if handler belongs to this connection.\n\t\t\t\tif mhd != hd {\n\t\t\t\t\thds = append(hds, mhd)\n\t\t\t\t}\n\t\t\t}\n\t\t}\n",
		Expect: "filter-always-runs", Why: "filter skipped when no other connection is registered"})
	control(&Control{ID: "bodyrelease-deferred-put", Rule: "BODY-RELEASE-NEEDS-JOIN", File: "larking/http.go",
		Old: "\t\tz, err := cz.Decompress(r.Body)\n\t\tif err != nil {\n\t\t\treturn err\n\t\t}\n", New: "\t\tz, err := cz.Decompress(r.Body)\n\t\tif err != nil {\n\t\t\treturn err\n\t\t}\n\t\tif zr, ok := z.(*gzipReader); ok {\n\t\t\tdefer func() {\n\t\t\t\tif zr.Reader != nil {\n\t\t\t\t\tzr.pool.Put(zr.Reader)\n\t\t\t\t\tzr.Reader = nil\n\t\t\t\t}\n\t\t\t}()\n\t\t}\n",
		Expect: "deferred-decompressor-release", Why: "decompressor returned to the pool at handler return"})
}

func init() {
	control(&Control{ID: "limitnonpos-zero-means-unlimited", Rule: "LIMIT-NONPOS", File: "larking/codec.go",
		Old: "\tif size > math.MaxInt || limit < 0 || size > uint64(limit) {\n", New: "\tif size > math.MaxInt || (limit > 0 && size > uint64(limit)) {\n",
		Expect: "limit<=0-is-a-limit", Why: "a limit of zero or less switches the size check off (D56)"})
}
