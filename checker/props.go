package main

import "encoding/json"

func jsonUnmarshal(b []byte, v interface{}) error { return json.Unmarshal(b, v) }

// Rule is one static rule: a function from the loaded program to obligations.
type Rule struct {
	Name  string
	Doc   string // what the rule decides
	Floor int    // minimum number of non-info obligations confirmed by hand on the reviewed tree
	Run   func(r *Run)
}

// Property binds a property id to the rules that decide its structural clauses.
type Property struct {
	ID          string
	Rules       []string
	Decides     string
	NotDecided  string
	Assumptions []string
}

var ruleTable = map[string]*Rule{}

func register(rl *Rule) {
	if _, dup := ruleTable[rl.Name]; dup {
		panic("duplicate rule " + rl.Name)
	}
	ruleTable[rl.Name] = rl
}

var propertyTable = map[string]*Property{}

func property(p *Property) {
	propertyTable[p.ID] = p
}

// thoroughConfigs are loaded in addition to linux/amd64 in the thorough tier so
// that build-tagged or platform files cannot hide a writer or a panic.
var thoroughConfigs = []BuildConfig{
	{GOOS: "linux", GOARCH: "amd64", Tags: "verif"},
	{GOOS: "linux", GOARCH: "386"},
	{GOOS: "darwin", GOARCH: "arm64"},
	{GOOS: "windows", GOARCH: "amd64"},
}

// widthSensitive rules give a verdict that depends on the width of int (a
// uint32 -> int conversion is exact on amd64 and wraps on 386): a property that
// uses one is also evaluated for linux/386 in the quick tier, and that result gates.
var widthSensitive = map[string]bool{"SIGNCONV": true, "TABLE-GUARD": true, "SLICE-CAP": true, "LIMIT-STRICT": true, "LIMIT-IMPL": true, "TIMEOUT-CLAMP": true}

var commonAssumptions = []string{
	"go/types, go/ssa and the VTA call graph are sound for this program (no unsafe/reflect writes: checked by rule NO-UNSAFE where COW is claimed)",
	"library contracts listed in DESIGN.md section 8 (grpc ClientStream/stats.Handler, protoreflect Kind/Value, net/http trailers, Codec.Unmarshal does not retain its input)",
	"the check decides structural necessary conditions only; it does not establish the behaviour itself",
}
