package main

import (
	"fmt"
	"go/token"
	"go/types"
	"strings"

	"golang.org/x/tools/go/ssa"
)

func init() {
	register(&Rule{Name: "FIELDPATH-SINGULAR", Floor: 8,
		Doc: "protoreflect allows Mutable(fd).Message() only for singular message fields: fieldPath refuses to walk through list/map/scalar fields, addRule validates the last element of body/response_body before registering the method, params.set tests IsList/IsMap before Set, and every consumer walks only validated lists",
		Run: ruleFieldPathSingular})
	register(&Rule{Name: "DESC-ROLE", Floor: 7,
		Doc: "descriptor roles agree: vars/body/query resolve on the method's Input and by their own selector string, response_body on its Output; request-side code reads only body/vars and reply-side code only resp; proxied inbound messages are built from Input and backend replies from Output",
		Run: ruleDescRole})
}

func isInvokeNamed(v ssa.Value, names ...string) (*ssa.Call, bool) {
	c, ok := v.(*ssa.Call)
	if !ok || !c.Common().IsInvoke() {
		return nil, false
	}
	for _, n := range names {
		if c.Common().Method.Name() == n {
			return c, true
		}
	}
	return nil, false
}

// impliesSingular: module predicate f(fd) whose true result implies !fd.IsList() && !fd.IsMap().
func (p *Program) impliesSingular(fn *ssa.Function) bool {
	if fn == nil || len(fn.Blocks) == 0 || len(fn.Params) != 1 {
		return false
	}
	par := fn.Params[0]
	onParam := func(c *ssa.Call) bool { return c.Common().Value == ssa.Value(par) }
	ok := true
	nret := 0
	eachInstr(fn, func(in ssa.Instruction) {
		rt, isRet := in.(*ssa.Return)
		if !isRet || len(rt.Results) != 1 {
			return
		}
		nret++
		// what holds whenever this return yields true: the facts of the returned expression and the guards of the return
		fs, impossible := p.factsWhen(rt.Results[0], true)
		if impossible {
			return
		}
		fs = append(fs, p.expandFacts(guardsOf(rt.Block()))...)
		list, mp := false, false
		for _, g := range fs {
			if c, isInv := isInvokeNamed(g.Cond, "IsList", "IsMap"); isInv && onParam(c) && !g.True {
				if c.Common().Method.Name() == "IsList" {
					list = true
				} else {
					mp = true
				}
			}
			// Cardinality() != Repeated
			if bo, isB := g.Cond.(*ssa.BinOp); isB {
				if c, isInv := isInvokeNamed(bo.X, "Cardinality"); isInv && onParam(c) {
					if k, isC := constInt(bo.Y); isC && k == 3 && ((bo.Op == token.NEQ && g.True) || (bo.Op == token.EQL && !g.True)) {
						list, mp = true, true
					}
				}
			}
		}
		if !list || !mp {
			ok = false
		}
	})
	return ok && nret > 0
}

// elementOf: v is an element *(&S[i]) of a slice S that is `stored`, shares an origin with it, or is a load of field f.
func (p *Program) elementOf(v, stored ssa.Value, f *types.Var) bool {
	u, ok := v.(*ssa.UnOp)
	if !ok {
		return false
	}
	ia, ok := u.X.(*ssa.IndexAddr)
	if !ok {
		return false
	}
	for _, o := range p.origins(ia.X, originOpts{local: true}) {
		if o == stored || (f != nil && loadsField(o, f)) {
			return true
		}
		for _, so := range p.origins(stored, originOpts{local: true}) {
			if so == o {
				return true
			}
		}
	}
	return false
}

// storedValidatedOrNil: every origin of v is a call to a transparent helper
// each of whose returns yields nil or a list whose element passed (on every
// path to that return) a module predicate implying "singular message".
func (p *Program) storedValidatedOrNil(v ssa.Value) bool {
	os := p.origins(v, originOpts{local: true})
	if len(os) == 0 {
		return false
	}
	for _, o := range os {
		c, ok := o.(*ssa.Call)
		if !ok {
			return false
		}
		callee := c.Call.StaticCallee()
		if callee == nil || !p.isTransparent(callee) || callee.Signature.Results().Len() != 1 {
			return false
		}
		nret := 0
		good := true
		eachInstr(callee, func(in ssa.Instruction) {
			rt, isRet := in.(*ssa.Return)
			if !isRet {
				return
			}
			nret++
			allNil := true
			for _, ro := range p.origins(rt.Results[0], originOpts{local: true}) {
				if !isNilConst(ro) {
					allNil = false
				}
			}
			if allNil {
				return
			}
			validated := false
			for _, g := range p.expandFacts(guardsOf(rt.Block())) {
				if gc, isCall := g.Cond.(*ssa.Call); isCall && g.True {
					if pred := staticCallee(gc); pred != nil && p.impliesSingular(pred) && len(gc.Call.Args) == 1 && p.elementOf(gc.Call.Args[0], rt.Results[0], nil) {
						validated = true
					}
				}
			}
			if !validated {
				good = false
			}
		})
		if !good || nret == 0 {
			return false
		}
	}
	return true
}

// singularGuardFacts: at block b, is value fd known to be a singular (non-list, non-map) field?
func (p *Program) knownSingular(fd ssa.Value, b *ssa.BasicBlock) bool {
	list, mp := false, false
	same := func(v ssa.Value) bool {
		if v == fd || p.sameValue(v, fd) {
			return true
		}
		for _, a := range p.origins(v, originOpts{}) {
			for _, c := range p.origins(fd, originOpts{}) {
				if a == c {
					return true
				}
			}
		}
		return false
	}
	// in every calling context (the test may sit at the call site of a transparent helper)
	for _, ctx := range p.guardContexts(b) {
		list, mp = false, false
		for _, g := range ctx {
			if c, ok := isInvokeNamed(g.Cond, "IsList", "IsMap"); ok && same(c.Common().Value) && !g.True {
				if c.Common().Method.Name() == "IsList" {
					list = true
				} else {
					mp = true
				}
			}
			if c, ok := g.Cond.(*ssa.Call); ok && g.True {
				if callee := staticCallee(c); callee != nil && p.impliesSingular(callee) && len(c.Call.Args) == 1 && same(c.Call.Args[0]) {
					list, mp = true, true
				}
			}
		}
		if !list || !mp {
			return false
		}
	}
	return list && mp
}

func ruleFieldPathSingular(r *Run) {
	p := r.P
	// ---- P1: fieldPath ----
	fp := p.Func("fieldPath")
	if fp == nil {
		r.missing("func fieldPath")
	} else {
		n := 0
		eachInstr(fp, func(in ssa.Instruction) {
			c, ok := in.(*ssa.Call)
			if !ok || !c.Common().IsInvoke() || c.Common().Method.Name() != "Fields" {
				return
			}
			mc, ok := isInvokeNamed(c.Common().Value, "Message")
			if !ok {
				// Fields() of something that is not fd.Message(): the initial descriptors, ignore
				return
			}
			n++
			fd := mc.Common().Value
			r.check(p.knownSingular(fd, c.Block()), "fieldPath/P1:advance-only-through-singular-message", in.Pos(),
				"the walk advances into fd.Message().Fields() only where fd is known to be neither a list nor a map",
				"fieldPath advances into fd.Message().Fields() for any field with a message type, including repeated and map fields: a dotted path through such a field resolves, and every consumer then calls Mutable(fd).Message() on a list/map value (panic per request)")
		})
		if n == 0 {
			r.undecided("fieldPath/P1", fp.Pos(), "no fd.Message().Fields() advance found in fieldPath")
		}
	}
	// ---- P2/P3: addRule ----
	ar := p.Method("path", "addRule")
	if ar == nil {
		r.missing("method (*path).addRule")
	} else {
		methodT := p.NamedType("method")
		isRegistration := func(in ssa.Instruction) bool {
			switch x := in.(type) {
			case *ssa.MapUpdate:
				if mt, ok := x.Map.Type().Underlying().(*types.Map); ok && namedOf(mt.Elem()) == methodT {
					return true
				}
			case *ssa.Store:
				if fa, ok := x.Addr.(*ssa.FieldAddr); ok && fieldOfAddr(fa).Name() == "methodAll" {
					return true
				}
			}
			return false
		}
		for _, fname := range []string{"body", "resp"} {
			f := p.StructField("method", fname)
			n := 0
			eachInstr(ar, func(in ssa.Instruction) {
				st, ok := in.(*ssa.Store)
				if !ok {
					return
				}
				fa, ok := st.Addr.(*ssa.FieldAddr)
				if !ok || fieldOfAddr(fa) != f {
					return
				}
				n++
				stored := st.Val
				derives := func(v ssa.Value) bool { return p.elementOf(v, stored, f) }
				key := "(*path).addRule/P:" + fname + "-last-element-singular-message"
				// the resolution and its validation may live in a helper that returns nil unless the last element is a singular message
				if p.storedValidatedOrNil(stored) {
					r.ok(key, in.Pos(), "the stored list comes from a helper that returns nil unless its last element passed the singular-message validation")
					return
				}
				q := pathQuery{fn: ar, start: in, target: isRegistration,
					edgeOK: func(b *ssa.BasicBlock, succ int) bool {
						ifi := blockIf(b)
						if ifi == nil {
							return true
						}
						if c, ok := ifi.Cond.(*ssa.Call); ok {
							if callee := staticCallee(c); callee != nil && p.impliesSingular(callee) && len(c.Call.Args) == 1 && derives(c.Call.Args[0]) {
								return succ != 0 // the validated (true) edge is what we want every path to take
							}
						}
						return true
					}}
				if w, _ := q.find(); w != nil {
					r.bad(key, in.Pos(), "method.%s is stored and the method registered without checking that the selected field is a singular message field: a rule naming a scalar, repeated or map field registers fine and every request then panics in Mutable(fd).Message() (%s)", fname, p.describePath(w))
				} else {
					r.ok(key, in.Pos(), "every path from the store to the registration of the method passes the singular-message validation of the selected field")
				}
			})
			if n == 0 {
				r.undecided("(*path).addRule/P:"+fname, ar.Pos(), "no store to method.%s in addRule", fname)
			}
		}
	}
	// ---- P4: params.set ----
	ps := p.Method("params", "set")
	if ps == nil {
		r.missing("method (params).set")
	} else {
		n := 0
		p.eachInstrRegion(ps, func(_ *ssa.Function, in ssa.Instruction) {
			c, ok := in.(ssa.CallInstruction)
			if !ok || !c.Common().IsInvoke() || c.Common().Method.Pkg() == nil || c.Common().Method.Pkg().Path() != protoreflect {
				return
			}
			switch c.Common().Method.Name() {
			case "Set":
				n++
				fd := c.Common().Args[0]
				r.check(p.knownSingular(fd, in.Block()), "(params).set/P4:Set-on-singular", in.Pos(), "Set runs only where the field is known to be neither list nor map",
					"Set is called without excluding list and map fields: protoreflect panics when a scalar value is Set on a repeated field")
			}
		})
		// List() only under IsList true
		p.eachInstrRegion(ps, func(_ *ssa.Function, in ssa.Instruction) {
			c, ok := in.(*ssa.Call)
			if !ok || !strings.HasSuffix(calleeName(c), "protoreflect.Value).List") {
				return
			}
			n++
			isList := p.guardedInEveryContext(c.Block(), func(g guardFact) bool {
				_, ok := isInvokeNamed(g.Cond, "IsList")
				return ok && g.True
			})
			r.check(isList, "(params).set/P4:List-on-list", in.Pos(), "List() is used only where IsList() is true", "Value.List() is called where the field is not known to be a list (panics for other kinds)")
		})
		if n == 0 {
			r.undecided("(params).set/P4", ps.Pos(), "no Set/List call found")
		}
	}
	// ---- consumers: every Mutable(fd).Message() walks a validated list ----
	validated := map[*types.Var]string{}
	if f := p.StructField("method", "body"); f != nil {
		validated[f] = "method.body (validated by addRule P2 and fieldPath P1)"
	}
	if f := p.StructField("method", "resp"); f != nil {
		validated[f] = "method.resp (validated by addRule P3 and fieldPath P1)"
	}
	if f := p.StructField("param", "fds"); f != nil {
		validated[f] = "param.fds (intermediate elements validated by fieldPath P1, last element tested by params.set P4)"
	}
	for _, fn := range p.ModuleFuncs() {
		site := 0
		eachInstr(fn, func(in ssa.Instruction) {
			c, ok := in.(*ssa.Call)
			if !ok || !strings.HasSuffix(calleeName(c), "protoreflect.Value).Message") {
				return
			}
			mc, ok := isInvokeNamed(c.Call.Args[0], "Mutable", "Get", "NewField")
			if !ok {
				return
			}
			site++
			key := fmt.Sprintf("%s/consumer#%d", shortFunc(fn), site)
			fd := mc.Common().Args[0]
			// look through a localiser (fieldOf(cur, fd)): it yields the same field of the message's own descriptor
			for _, o := range p.origins(fd, originOpts{}) {
				if lc, ok := o.(*ssa.Call); ok {
					if callee := staticCallee(lc); callee != nil && p.isLocaliser(callee) {
						fd = lc.Call.Args[1]
					}
				}
			}
			src := ""
			for _, o := range p.origins(fd, originOpts{}) {
				// range element: *(&S[i]) or Extract of Next over S, with S a load of a validated field
				var seq ssa.Value
				switch x := o.(type) {
				case *ssa.UnOp:
					if ia, ok := x.X.(*ssa.IndexAddr); ok {
						seq = ia.X
					}
				case *ssa.Extract:
					if nx, ok := x.Tuple.(*ssa.Next); ok {
						if rg, ok := nx.Iter.(*ssa.Range); ok {
							seq = rg.X
						}
					}
				}
				if seq == nil {
					continue
				}
				for _, so := range p.origins(seq, originOpts{throughSlice: true}) {
					if f := loadedField(so); f != nil {
						if why, ok := validated[f]; ok {
							src = why
						}
					}
				}
			}
			if src != "" {
				r.ok(key, in.Pos(), "walks %s", src)
			} else {
				r.undecided(key, in.Pos(), "Mutable(fd).Message() on a field descriptor that does not come from a validated list (method.body, method.resp, param.fds): a new consumer needs its producer checked")
			}
		})
	}
}

// ---------------------------------------------------------------------------
// DESC-ROLE
// ---------------------------------------------------------------------------

// descRole: "In" / "Out" if v derives from MethodDescriptor.Input()/Output() (through Fields()), else "".
func (p *Program) descRole(v ssa.Value) string { return p.descRoleCtx(v, nil) }

// descRoleCtx: as descRole, for a value seen in the calling context ctx.
func (p *Program) descRoleCtx(v ssa.Value, ctx *originCtx) string {
	role := ""
	seen := map[ssa.Value]bool{}
	var walk func(v ssa.Value, ctx *originCtx)
	walk = func(v ssa.Value, ctx *originCtx) {
		for _, ro := range p.originsCtx(v, ctx, originOpts{}) {
			o := ro.v
			if seen[o] {
				continue
			}
			seen[o] = true
			c, ok := o.(*ssa.Call)
			if !ok || !c.Common().IsInvoke() {
				continue
			}
			switch c.Common().Method.Name() {
			case "Input":
				role += "In"
			case "Output":
				role += "Out"
			case "Fields", "Message":
				walk(c.Common().Value, ro.ctx)
			}
		}
	}
	walk(v, ctx)
	switch role {
	case "In", "Out":
		return role
	case "":
		return ""
	}
	return "mixed"
}

func ruleDescRole(r *Run) {
	p := r.P
	ar := p.Method("path", "addRule")
	if ar == nil {
		r.missing("method (*path).addRule")
	} else {
		want := map[string]struct{ role, sel string }{
			"body": {"In", "Body"},
			"resp": {"Out", "ResponseBody"},
		}
		for fname, w := range want {
			f := p.StructField("method", fname)
			n := 0
			eachInstr(ar, func(in ssa.Instruction) {
				st, ok := in.(*ssa.Store)
				if !ok {
					return
				}
				fa, ok := st.Addr.(*ssa.FieldAddr)
				if !ok || fieldOfAddr(fa) != f {
					return
				}
				for _, ro := range p.originsCtx(st.Val, nil, originOpts{}) {
					c, ok := ro.v.(*ssa.Call)
					if !ok || calleeName(c) != nFieldPath {
						continue
					}
					n++
					role := p.descRoleCtx(c.Call.Args[0], ro.ctx)
					key := "(*path).addRule/method." + fname + "/descriptor"
					r.check(role == w.role, key, c.Pos(), "resolved against the method's "+w.role+"put message",
						fmt.Sprintf("method.%s is resolved against the method's %q descriptor, it must be the %sput message", fname, role, w.role))
					// selector string
					sel := ""
					for _, no := range p.originsCtx(c.Call.Args[1], ro.ctx, originOpts{}) {
						sc, ok := no.v.(*ssa.Call)
						if !ok || calleeName(sc) != "strings.Split" {
							continue
						}
						for _, so := range p.originsCtx(sc.Call.Args[0], no.ctx, originOpts{}) {
							if lf := loadedField(so.v); lf != nil {
								sel = lf.Name()
							}
						}
					}
					r.check(sel == w.sel, "(*path).addRule/method."+fname+"/selector", c.Pos(), "names come from rule."+w.sel,
						fmt.Sprintf("method.%s is resolved from rule.%s, it must be resolved from rule.%s", fname, sel, w.sel))
				}
			})
			if n == 0 {
				r.undecided("(*path).addRule/method."+fname, ar.Pos(), "no fieldPath call feeding method.%s", fname)
			}
		}
		// vars: every fieldPath call whose result is appended to the slice stored in method.vars
		nv := 0
		eachInstr(ar, func(in ssa.Instruction) {
			c, ok := in.(*ssa.Call)
			if !ok || calleeName(c) != nFieldPath {
				return
			}
			// skip the ones already judged (feeding body/resp): those are stored directly into a method field
			direct := false
			for _, ref := range *c.Referrers() {
				if st, ok := ref.(*ssa.Store); ok {
					if fa, ok := st.Addr.(*ssa.FieldAddr); ok && (fieldOfAddr(fa).Name() == "body" || fieldOfAddr(fa).Name() == "resp") {
						direct = true
					}
				}
			}
			if direct {
				return
			}
			nv++
			r.check(p.descRole(c.Call.Args[0]) == "In", "(*path).addRule/vars/descriptor", c.Pos(), "path variables resolve against the Input message",
				"path variables are resolved against a descriptor that is not the method's Input message")
		})
		if nv == 0 {
			r.undecided("(*path).addRule/vars", ar.Pos(), "no fieldPath call for path variables found")
		}
	}
	// query parameters
	if pq := p.Method("method", "parseQueryParams"); pq != nil {
		n := 0
		eachInstr(pq, func(in ssa.Instruction) {
			if c, ok := in.(*ssa.Call); ok && calleeName(c) == nFieldPath {
				n++
				r.check(p.descRole(c.Call.Args[0]) == "In", "(*method).parseQueryParams/descriptor", c.Pos(), "query keys resolve against the Input message",
					"query keys are resolved against a descriptor that is not the method's Input message")
			}
		})
		if n == 0 {
			r.undecided("(*method).parseQueryParams", pq.Pos(), "no fieldPath call found")
		}
	} else {
		r.missing("method (*method).parseQueryParams")
	}
	// request side reads body/vars, reply side reads resp
	side := map[string]string{}
	for _, t := range []string{"streamHTTP", "streamWS"} {
		side["(*"+t+").SendMsg"] = "reply"
		side["(*"+t+").RecvMsg"] = "request"
	}
	side["(*streamHTTP).decodeRequestArgs"] = "request"
	side["AsHTTPBodyReader"] = "request"
	side["AsHTTPBodyWriter"] = "reply"
	for _, fn := range p.ModuleFuncs() {
		sd, ok := side[shortFunc(fn)]
		if !ok {
			continue
		}
		bad := ""
		uses := 0
		eachInstr(fn, func(in ssa.Instruction) {
			u, ok := in.(*ssa.UnOp)
			if !ok {
				return
			}
			f := loadedField(u)
			if f == nil || p.fieldOwner(f) != "method" {
				return
			}
			switch f.Name() {
			case "resp":
				uses++
				if sd == "request" {
					bad = "resp"
				}
			case "body", "vars":
				uses++
				if sd == "reply" {
					bad = f.Name()
				}
			}
		})
		if uses == 0 {
			continue
		}
		if bad != "" {
			r.bad(shortFunc(fn)+"/side", fn.Pos(), "%s-side code walks method.%s: the %s message is navigated with field descriptors of the other message type (wrong field or panic)", sd, bad, sd)
		} else {
			r.ok(shortFunc(fn)+"/side", fn.Pos(), "%s-side code reads only the %s-side descriptor lists", sd, sd)
		}
	}
	// proxy: inbound messages from Input, backend replies from Output
	cch := p.Func("createConnHandler")
	if cch == nil {
		r.missing("func createConnHandler")
		return
	}
	n := 0
	eachInstrDeep(cch, func(g *ssa.Function, in ssa.Instruction) {
		c, ok := in.(ssa.CallInstruction)
		if !ok || !c.Common().IsInvoke() || c.Common().Method.Name() != "RecvMsg" {
			return
		}
		recvT := typeString(c.Common().Value.Type())
		wantRole := ""
		switch {
		case strings.Contains(recvT, "ServerStream"):
			wantRole = "In"
		case strings.Contains(recvT, "ClientStream"):
			wantRole = "Out"
		default:
			return
		}
		n++
		role := ""
		for _, o := range p.origins(c.Common().Args[0], defaultOrigin) {
			if nc, ok := o.(*ssa.Call); ok && strings.HasSuffix(calleeName(nc), "dynamicpb.NewMessage") {
				role = p.descRole(nc.Call.Args[0])
			}
		}
		which := "inbound (client → proxy)"
		if wantRole == "Out" {
			which = "backend reply"
		}
		r.check(role == wantRole, fmt.Sprintf("%s/RecvMsg:%s", shortFunc(g), recvT), in.Pos(), which+" message is a dynamic message of the method's "+wantRole+"put type",
			fmt.Sprintf("%s message is built from the method's %q descriptor, it must be the %sput type: messages are decoded with the wrong schema", which, role, wantRole))
	})
	// unary forwarder: args for Invoke comes from the handler (args) and reply from Output
	eachInstrDeep(cch, func(g *ssa.Function, in ssa.Instruction) {
		c, ok := in.(ssa.CallInstruction)
		if !ok || calleeName(c) != "(*google.golang.org/grpc.ClientConn).Invoke" {
			return
		}
		n++
		role := ""
		for _, o := range p.origins(c.Common().Args[4], defaultOrigin) {
			if nc, ok := o.(*ssa.Call); ok && strings.HasSuffix(calleeName(nc), "dynamicpb.NewMessage") {
				role = p.descRole(nc.Call.Args[0])
			}
		}
		r.check(role == "Out", shortFunc(g)+"/Invoke:reply", in.Pos(), "the reply of the unary backend call is a dynamic message of the Output type",
			fmt.Sprintf("the unary reply message is built from the %q descriptor, not the Output type", role))
	})
	if n == 0 {
		r.undecided("createConnHandler", cch.Pos(), "no RecvMsg/Invoke calls found in the proxy closures")
	}
}

// ---------------------------------------------------------------------------
// FD-LOCAL
// ---------------------------------------------------------------------------

func init() {
	register(&Rule{Name: "FD-LOCAL", Floor: 4,
		Doc: "a field descriptor taken from the routing tree (method.vars/body/resp, param.fds: registered once per method name, possibly by another backend) is used on a message only after being localised to that message's own descriptor (a stored descriptor of another registration is foreign to the message: protoreflect panics)",
		Run: ruleFDLocal})
}

// localising functions: module functions (m protoreflect.Message, fd FieldDescriptor) FieldDescriptor whose results are fd itself
// under an identity test against m.Descriptor(), or a lookup in m.Descriptor().Fields().
func (p *Program) isLocaliser(fn *ssa.Function) bool {
	if fn == nil || len(fn.Blocks) == 0 || len(fn.Params) != 2 || fn.Signature.Results().Len() != 1 {
		return false
	}
	m, fd := fn.Params[0], fn.Params[1]
	ok := true
	nret := 0
	eachInstr(fn, func(in ssa.Instruction) {
		rt, isRet := in.(*ssa.Return)
		if !isRet {
			return
		}
		nret++
		for _, o := range p.origins(rt.Results[0], originOpts{}) {
			switch x := o.(type) {
			case *ssa.Parameter:
				if x != fd {
					ok = false
				}
			case *ssa.Call:
				// ByNumber/ByName on m.Descriptor().Fields()
				bn, isBN := isInvokeNamed(x, "ByNumber", "ByName", "ByJSONName", "ByTextName")
				if !isBN {
					ok = false
					continue
				}
				fromM := false
				if fc, isF := isInvokeNamed(bn.Common().Value, "Fields"); isF {
					if dc, isD := isInvokeNamed(fc.Common().Value, "Descriptor"); isD {
						for _, mo := range p.origins(dc.Common().Value, originOpts{}) {
							if mo == ssa.Value(m) {
								fromM = true
							}
						}
					}
				}
				if !fromM {
					ok = false
				}
			default:
				ok = false
			}
		}
	})
	return ok && nret > 0
}

// throughLocaliser: fieldOf(m, fd) -> fd (the stored descriptor behind a localised one).
func (p *Program) throughLocaliser(v ssa.Value) ssa.Value {
	for _, o := range p.origins(v, originOpts{}) {
		if lc, ok := o.(*ssa.Call); ok {
			if callee := staticCallee(lc); callee != nil && p.isLocaliser(callee) {
				return lc.Call.Args[1]
			}
		}
	}
	return v
}

func ruleFDLocal(r *Run) {
	p := r.P
	stored := map[*types.Var]bool{}
	for _, spec := range [][2]string{{"method", "body"}, {"method", "resp"}, {"method", "vars"}, {"param", "fds"}} {
		if f := p.StructField(spec[0], spec[1]); f != nil {
			stored[f] = true
		}
	}
	// fromStored: fd is an element of a stored list (directly or through a parameter of a helper whose call sites pass stored lists)
	var fromStored func(fd ssa.Value, fn *ssa.Function, depth int) bool
	fromStored = func(fd ssa.Value, fn *ssa.Function, depth int) bool {
		for _, o := range p.origins(fd, originOpts{}) {
			var seq ssa.Value
			switch x := o.(type) {
			case *ssa.UnOp:
				if ia, ok := x.X.(*ssa.IndexAddr); ok {
					seq = ia.X
				}
			case *ssa.Extract:
				if nx, ok := x.Tuple.(*ssa.Next); ok {
					if rg, ok := nx.Iter.(*ssa.Range); ok {
						seq = rg.X
					}
				}
			}
			if seq == nil {
				continue
			}
			for _, so := range p.origins(seq, originOpts{}) {
				if f := loadedField(so); f != nil && stored[f] {
					return true
				}
				if par, ok := so.(*ssa.Parameter); ok && depth < 2 {
					// helper: look at the call sites
					idx := -1
					for i, q := range par.Parent().Params {
						if q == par {
							idx = i
						}
					}
					if node := p.CallGraph().Nodes[par.Parent()]; node != nil && idx >= 0 {
						for _, e := range node.In {
							if e.Site != nil && idx < len(e.Site.Common().Args) {
								for _, ao := range p.origins(e.Site.Common().Args[idx], originOpts{}) {
									if f := loadedField(ao); f != nil && stored[f] {
										return true
									}
								}
							}
						}
					}
				}
			}
		}
		return false
	}
	n := 0
	for _, fn := range p.ModuleFuncs() {
		site := 0
		eachInstr(fn, func(in ssa.Instruction) {
			c, ok := in.(ssa.CallInstruction)
			if !ok || !c.Common().IsInvoke() || c.Common().Method.Pkg() == nil || c.Common().Method.Pkg().Path() != protoreflect {
				return
			}
			switch c.Common().Method.Name() {
			case "Set", "Mutable", "Get", "Has", "Clear", "NewField":
			default:
				return
			}
			if !strings.HasSuffix(typeString(c.Common().Value.Type()), "protoreflect.Message") {
				return
			}
			fd := c.Common().Args[0]
			// localised?
			local := false
			for _, o := range p.origins(fd, originOpts{}) {
				if lc, ok := o.(*ssa.Call); ok {
					if callee := staticCallee(lc); callee != nil && p.isLocaliser(callee) {
						// the message argument of the localiser is the receiver of this use
						if lc.Call.Args[0] == c.Common().Value || p.sameValue(lc.Call.Args[0], c.Common().Value) {
							local = true
							fd = lc.Call.Args[1]
						}
					}
					if bn, ok := isInvokeNamed(lc, "ByNumber", "ByName", "ByJSONName"); ok {
						_ = bn
						local = true // resolved on a descriptor at the point of use (e.g. HttpBody's content_type/data)
					}
				}
			}
			if !local && !fromStored(fd, fn, 0) {
				return // not a stored routing descriptor
			}
			if local && !fromStored(fd, fn, 0) {
				return
			}
			site++
			n++
			key := fmt.Sprintf("%s/%s#%d", shortFunc(fn), c.Common().Method.Name(), site)
			r.check(local, key, in.Pos(), "the stored descriptor is localised to the message it is used on",
				"a field descriptor stored in the routing tree is used directly on the message: the tree keeps the descriptors of the FIRST registration of a method name, so with a second backend (or a local service plus a backend) for the same service the message belongs to other descriptors and protoreflect panics ('field descriptor does not belong to this message')")
		})
	}
	if n == 0 {
		r.undecided("uses of stored field descriptors", token.NoPos, "no use of a routing-tree field descriptor on a message found")
	}
}
