package main

import (
	"fmt"
	"go/token"
	"go/types"
	"strings"

	"golang.org/x/tools/go/ssa"
)

// Rules added after the eleventh round of seeded changes (DESIGN.md section 10.5b).

func init() {
	register(&Rule{Name: "JSON-MARSHAL-DELEGATES", Floor: 2,
		Doc: "what CodecJSON.Marshal / MarshalAppend return with a nil error is what protojson produced: no hand-made JSON text for 'simple' messages (the JSON form of a well-known type is not an object: a zero Duration is \"0s\", not {})",
		Run: ruleJSONMarshalDelegates})
	register(&Rule{Name: "ERR-BODY-UNCONDITIONAL", Floor: 1,
		Doc: "encError writes the encoded status with the response writer's own Write: not through a helper that can refuse on size grounds (the send limit is a limit on replies; an error body dropped after the status line leaves the client without code, message and details)",
		Run: ruleErrBodyUnconditional})
	register(&Rule{Name: "STATS-FANOUT-THREADS", Floor: 0,
		Doc: "a module type that implements stats.Handler by calling several handlers threads the context: each inner TagRPC / TagConn receives the context the previous one returned (a fan-out that tags the original context every time loses every handler's tag but the last)",
		Run: ruleStatsFanoutThreads})
	register(&Rule{Name: "REMOVAL-LOOP-DIRECTION", Floor: 1,
		Doc: "a loop that removes elements from the slice it indexes (append(s[:i], s[i+1:]...) / slices.Delete(s, i, i+1)) runs from the end to the start, or steps the index back after a removal: walking forward, the element that moves into the vacated slot is skipped (delRule then leaves the sibling's rules of the method in the trie)",
		Run: ruleRemovalLoopDirection})
	register(&Rule{Name: "DECODEDLEN-IS-A-BOUND", Floor: 0,
		Doc: "base64's DecodedLen is the maximum decoded length, not the length: it is neither stored as a request's ContentLength nor compared with a size limit on a refusing guard (padding makes it 1-2 bytes too large: a message exactly at the limit is refused)",
		Run: ruleDecodedLenIsABound})
	register(&Rule{Name: "BODY-AFTER-TIMEOUT", Floor: 1,
		Doc: "serveGRPCWeb does not read the request body before it hands over to serveGRPC, which installs the grpc-timeout: a body read up front (decode the whole text body first) starts the deadline only when the upload is complete",
		Run: ruleBodyAfterTimeout})
}

func ruleJSONMarshalDelegates(r *Run) {
	p := r.P
	n := 0
	for _, name := range []string{"Marshal", "MarshalAppend"} {
		fn := p.Method("CodecJSON", name)
		if fn == nil {
			r.missing("method (CodecJSON)." + name)
			continue
		}
		key := shortFunc(fn) + "/bytes-from-protojson"
		good, some := true, false
		var pos token.Pos
		eachInstr(fn, func(in ssa.Instruction) {
			rt, ok := in.(*ssa.Return)
			if !ok || len(rt.Results) != 2 {
				return
			}
			if p.certainlyNonNilError(rt.Results[1], 0) {
				return
			}
			if isNilConst(rt.Results[0]) {
				return
			}
			some = true
			n++
			for _, o := range p.origins(rt.Results[0], originOpts{local: true}) {
				ex, ok := o.(*ssa.Extract)
				if ok && ex.Index == 0 {
					if c, ok := ex.Tuple.(*ssa.Call); ok && strings.Contains(calleeName(c), "protojson.MarshalOptions).Marshal") {
						continue
					}
				}
				if c, ok := o.(*ssa.Call); ok && strings.Contains(calleeName(c), "protojson.MarshalOptions).Marshal") {
					continue
				}
				good = false
				pos = rt.Pos()
			}
		})
		if !some {
			r.undecided(key, fn.Pos(), "no successful return found")
			continue
		}
		r.check(good, key, pos, "every successful return yields the bytes protojson produced", "a successful return yields bytes that protojson did not produce (a hand-written JSON literal for 'empty' messages): well-known types whose JSON form is not an object - a zero Duration, the epoch Timestamp, a false BoolValue - go out as {} and the client cannot decode the reply")
	}
	_ = n
}

func ruleErrBodyUnconditional(r *Run) {
	p := r.P
	fn := p.Method("Mux", "encError")
	if fn == nil {
		r.missing("method (*Mux).encError")
		return
	}
	key := shortFunc(fn) + "/body-written-unconditionally"
	nWrites := 0
	bad := false
	var pos token.Pos
	eachInstr(fn, func(in ssa.Instruction) {
		c, ok := in.(ssa.CallInstruction)
		if !ok {
			return
		}
		if c.Common().IsInvoke() && c.Common().Method.Name() == "Write" {
			nWrites++
			return
		}
		callee := c.Common().StaticCallee()
		if callee == nil || !p.InModule(callee) {
			return
		}
		// a helper that writes to the response and may refuse on size grounds
		writes := p.callMay(c, func(x ssa.Instruction) bool {
			cc, ok := x.(ssa.CallInstruction)
			return ok && cc.Common().IsInvoke() && cc.Common().Method.Name() == "Write"
		})
		if !writes {
			return
		}
		refuses := false
		p.eachInstrRegion(callee, func(g *ssa.Function, _ ssa.Instruction) {
			for _, lc := range p.limitCompares(g) {
				if (lc.kind == "send" || lc.kind == "recv") && p.refusalEdge(lc.ifi) >= 0 {
					refuses = true
				}
			}
		})
		if refuses {
			bad = true
			pos = in.Pos()
		} else {
			nWrites++
		}
	})
	if bad {
		r.bad(key, pos, "the encoded status is written through a helper that refuses bodies larger than a configured message limit: an error whose body exceeds it is dropped after the status line was sent, and the HTTP/JSON, HTTP/protobuf or Twirp client gets no code, message or details")
		return
	}
	if nWrites == 0 {
		r.undecided(key, fn.Pos(), "no write of the error body found in encError")
		return
	}
	r.ok(key, fn.Pos(), "the error body is written with the response writer's Write (%d writes), not subject to a message size limit", nWrites)
}

func ruleStatsFanoutThreads(r *Run) {
	p := r.P
	n, bad := 0, 0
	for _, fn := range p.ModuleFuncs() {
		if fn.Signature.Recv() == nil || (fn.Name() != "TagRPC" && fn.Name() != "TagConn") || len(fn.Blocks) == 0 || len(fn.Params) < 2 {
			continue
		}
		ctxParam := ssa.Value(fn.Params[1])
		var inner []ssa.CallInstruction
		eachInstr(fn, func(in ssa.Instruction) {
			c, ok := in.(ssa.CallInstruction)
			if ok && c.Common().IsInvoke() && c.Common().Method.Name() == fn.Name() {
				inner = append(inner, c)
			}
		})
		if len(inner) == 0 {
			continue
		}
		// more than one inner call, or one inside a loop
		multi := len(inner) > 1
		for _, c := range inner {
			in := c.(ssa.Instruction)
			if w, _ := (pathQuery{fn: fn, start: in, target: func(x ssa.Instruction) bool { return x == in }}).find(); w != nil {
				multi = true
			}
		}
		if !multi {
			continue
		}
		n++
		for _, c := range inner {
			if len(c.Common().Args) == 0 {
				continue
			}
			arg := c.Common().Args[0]
			threaded := false
			for _, o := range p.origins(arg, originOpts{local: true}) {
				if oc, ok := o.(*ssa.Call); ok && oc.Call.IsInvoke() && oc.Call.Method.Name() == fn.Name() {
					threaded = true
				}
			}
			onlyParam := true
			for _, o := range p.origins(arg, originOpts{local: true}) {
				if o != ctxParam {
					onlyParam = false
				}
			}
			if onlyParam && !threaded && (len(inner) > 1 || multi) {
				// the first of several straight-line calls legitimately gets the parameter; in a loop every call does
				inLoop := false
				in := c.(ssa.Instruction)
				if w, _ := (pathQuery{fn: fn, start: in, target: func(x ssa.Instruction) bool { return x == in }}).find(); w != nil {
					inLoop = true
				}
				if inLoop || c != inner[0] {
					bad++
					r.bad(fmt.Sprintf("%s/context-threaded#%d", shortFunc(fn), bad), in.Pos(), "%s calls several stats handlers with the context it was given instead of the context the previous handler returned: all but the last handler receive their later events in a context that lacks their own tag", shortFunc(fn))
				}
			}
		}
	}
	if bad == 0 {
		r.ok("module/stats-fan-out", token.NoPos, "%d fan-out implementations of stats.Handler tagging methods, each threading the context", n)
	}
}

func ruleRemovalLoopDirection(r *Run) {
	p := r.P
	fn := p.Method("path", "delRule")
	if fn == nil {
		r.missing("method (*path).delRule")
		return
	}
	key := shortFunc(fn)
	n := 0
	for _, b := range fn.Blocks {
		for _, in := range b.Instrs {
			phi, ok := in.(*ssa.Phi)
			if !ok {
				break
			}
			if bt, ok := phi.Type().Underlying().(*types.Basic); !ok || bt.Info()&types.IsInteger == 0 {
				continue
			}
			// direction of the counter
			dir := 0
			var latch []*ssa.BinOp
			for i, e := range phi.Edges {
				if !b.Dominates(b.Preds[i]) {
					continue
				}
				if bo, ok := e.(*ssa.BinOp); ok && bo.X == ssa.Value(phi) {
					if c, ok := constInt(bo.Y); ok && c > 0 {
						if bo.Op == token.ADD {
							dir = 1
						} else if bo.Op == token.SUB {
							dir = -1
						}
						latch = append(latch, bo)
					}
				}
			}
			if dir == 0 {
				continue
			}
			// removals at this index inside the loop
			eachInstr(fn, func(x ssa.Instruction) {
				c, ok := x.(*ssa.Call)
				if !ok || !b.Dominates(c.Block()) {
					return
				}
				isRemoval := false
				cn := calleeName(c)
				if strings.HasPrefix(cn, "slices.Delete") && len(c.Call.Args) >= 2 && c.Call.Args[1] == ssa.Value(phi) {
					isRemoval = true
				}
				if bi, ok := c.Call.Value.(*ssa.Builtin); ok && bi.Name() == "append" && len(c.Call.Args) == 2 {
					if sl, ok := c.Call.Args[0].(*ssa.Slice); ok && sl.High == ssa.Value(phi) && sl.Low == nil {
						isRemoval = true
					}
				}
				if !isRemoval {
					return
				}
				n++
				k := fmt.Sprintf("%s/removal-in-index-loop#%d", key, n)
				if dir < 0 {
					r.ok(k, c.Pos(), "the loop runs from the end to the start: a removal moves only elements already visited")
					return
				}
				// forward: the index must be stepped back on the way from the removal to the latch
				stepsBack := func(y ssa.Instruction) bool {
					bo, ok := y.(*ssa.BinOp)
					return ok && bo.Op == token.SUB && bo.X == ssa.Value(phi)
				}
				skipped := false
				for _, l := range latch {
					if w, _ := (pathQuery{fn: fn, start: c, target: func(y ssa.Instruction) bool { return y == ssa.Instruction(l) }, barrier: stepsBack}).find(); w != nil {
						skipped = true
					}
				}
				if skipped {
					r.bad(k, c.Pos(), "an element is removed at the loop index while the loop walks forward and the index is not stepped back: the element that moves into the vacated slot is never visited - delRule leaves the rules of the method below the next sibling variable in the trie, and requests keep being routed to a method whose rule set no longer covers them")
				} else {
					r.ok(k, c.Pos(), "the index is stepped back after the removal")
				}
			})
		}
	}
	if n == 0 {
		r.undecided(key+"/removal-in-index-loop", fn.Pos(), "no in-place removal at a loop index found in delRule")
	}
}

func ruleDecodedLenIsABound(r *Run) {
	p := r.P
	n, bad := 0, 0
	isDecodedLen := func(v ssa.Value) bool {
		for _, o := range p.origins(v, originOpts{local: true, throughConvert: true}) {
			var walk func(x ssa.Value, d int) bool
			walk = func(x ssa.Value, d int) bool {
				if d > 6 {
					return false
				}
				switch y := x.(type) {
				case *ssa.Call:
					return calleeName(y) == "(*encoding/base64.Encoding).DecodedLen"
				case *ssa.Convert:
					return walk(y.X, d+1)
				case *ssa.BinOp:
					return walk(y.X, d+1) || walk(y.Y, d+1)
				}
				return false
			}
			if walk(o, 0) {
				return true
			}
		}
		return false
	}
	for _, fn := range sortedFuncs(p.reachRequest()) {
		fn := fn
		eachInstr(fn, func(in ssa.Instruction) {
			if st, ok := in.(*ssa.Store); ok {
				if fa, ok := st.Addr.(*ssa.FieldAddr); ok && fieldOfAddr(fa).Name() == "ContentLength" && isDecodedLen(st.Val) {
					n++
					bad++
					r.bad(fmt.Sprintf("%s/decodedlen-as-length#%d", shortFunc(fn), bad), in.Pos(), "the request's ContentLength is set to base64's DecodedLen, which is an upper bound (up to 2 bytes more than the decoded size): a size check made on it refuses a message that is exactly at, or one byte under, the limit")
				}
			}
		})
		for _, lc := range p.limitCompares(fn) {
			if p.refusalEdge(lc.ifi) >= 0 && isDecodedLen(lc.other) {
				n++
				bad++
				r.bad(fmt.Sprintf("%s/decodedlen-as-length#%d", shortFunc(fn), bad), lc.bo.Pos(), "a size refusal compares base64's DecodedLen (an upper bound) with the limit: a message within the limit is refused")
			}
		}
	}
	if bad == 0 {
		r.ok("request paths/decodedlen", token.NoPos, "DecodedLen is used as a buffer bound only")
	}
}

func ruleBodyAfterTimeout(r *Run) {
	p := r.P
	fn := p.Method("Mux", "serveGRPCWeb")
	if fn == nil {
		r.missing("method (*Mux).serveGRPCWeb")
		return
	}
	key := shortFunc(fn) + "/no-body-read-before-serveGRPC"
	var hand ssa.Instruction
	eachInstr(fn, func(in ssa.Instruction) {
		if c, ok := in.(ssa.CallInstruction); ok && calleeName(c) == "(*larking.io/larking.Mux).serveGRPC" {
			hand = in
		}
	})
	if hand == nil {
		r.undecided(key, fn.Pos(), "serveGRPCWeb does not call serveGRPC")
		return
	}
	isRead := func(x ssa.Instruction) bool {
		c, ok := x.(ssa.CallInstruction)
		if !ok {
			return false
		}
		switch calleeName(c) {
		case "io.ReadAll", "io.ReadFull", "io.ReadAtLeast", "io.Copy", "io.CopyN", "(*bytes.Buffer).ReadFrom", "io/ioutil.ReadAll":
			return true
		}
		return c.Common().IsInvoke() && c.Common().Method.Name() == "Read" && c.Common().Method.Pkg() != nil && c.Common().Method.Pkg().Path() == "io"
	}
	var hit ssa.Instruction
	eachInstr(fn, func(in ssa.Instruction) {
		if hit != nil || in == hand {
			return
		}
		c, ok := in.(ssa.CallInstruction)
		if !ok {
			return
		}
		if !(isRead(in) || p.callMay(c, isRead)) {
			return
		}
		// before the hand-over?
		if w, _ := (pathQuery{fn: fn, start: in, target: func(x ssa.Instruction) bool { return x == hand }}).find(); w != nil {
			hit = in
		}
	})
	if hit != nil {
		r.bad(key, hit.Pos(), "serveGRPCWeb reads from the request body before it hands the request to serveGRPC, which decodes grpc-timeout and installs the deadline: the deadline starts when the upload is complete, not at receipt - a slow or stalled grpc-web-text client runs the call past its timeout (or without one)")
	} else {
		r.ok(key, hand.Pos(), "nothing is read from the request before serveGRPC installs the timeout")
	}
}

func init() {
	register(&Rule{Name: "BODY-RELEASE-NEEDS-JOIN", Floor: 0,
		Doc: "serveHTTP has no join of handler-spawned goroutines before it returns (unlike serveGRPC): it therefore defers no call that gives the request's decompressor back to a pool - a proxied streaming handler can return while its pump is still inside that reader, and the next request would be handed an object another goroutine is using",
		Run: ruleBodyReleaseNeedsJoin})
}

func ruleBodyReleaseNeedsJoin(r *Run) {
	p := r.P
	fn := p.Method("Mux", "serveHTTP")
	if fn == nil {
		r.missing("method (*Mux).serveHTTP")
		return
	}
	isPut := func(x ssa.Instruction) bool {
		c, ok := x.(ssa.CallInstruction)
		return ok && calleeName(c) == "(*sync.Pool).Put"
	}
	bad := 0
	for _, g := range allFuncsDeep(fn) {
		g := g
		eachInstr(g, func(in ssa.Instruction) {
			d, ok := in.(*ssa.Defer)
			if !ok {
				return
			}
			// does the deferred call (an interface Close, a method, a closure) release something into a pool?
			may := false
			if d.Call.IsInvoke() {
				for _, callee := range p.calleesOf(d) {
					if p.InModule(callee) {
						p.eachInstrRegion(callee, func(_ *ssa.Function, x ssa.Instruction) {
							if isPut(x) {
								may = true
							}
						})
					}
				}
			} else if p.callMay(d, isPut) {
				may = true
			}
			if !may {
				return
			}
			// of the request's decompressor?
			fromDecompress := false
			vals := append([]ssa.Value{}, d.Call.Args...)
			if d.Call.IsInvoke() {
				vals = append(vals, d.Call.Value)
			}
			if mc, ok := d.Call.Value.(*ssa.MakeClosure); ok {
				for _, bnd := range mc.Bindings {
					vals = append(vals, bnd)
					// a captured variable cell: what was stored into it
					if al, ok := bnd.(*ssa.Alloc); ok && al.Referrers() != nil {
						for _, ref := range *al.Referrers() {
							if st, ok := ref.(*ssa.Store); ok && st.Addr == ssa.Value(al) {
								vals = append(vals, st.Val)
							}
						}
					}
				}
			}
			for _, v := range vals {
				for _, o := range p.origins(v, originOpts{local: true, throughConvert: true, throughAssert: true}) {
					var c *ssa.Call
					switch x := o.(type) {
					case *ssa.Call:
						c = x
					case *ssa.Extract:
						c, _ = x.Tuple.(*ssa.Call)
					}
					if c != nil && c.Call.IsInvoke() && c.Call.Method.Name() == "Decompress" {
						fromDecompress = true
					}
				}
			}
			if !fromDecompress {
				return
			}
			bad++
			r.bad(fmt.Sprintf("%s/deferred-decompressor-release#%d", shortFunc(fn), bad), in.Pos(), "serveHTTP defers a call that returns the request's decompressor to its pool, but nothing joins the goroutines a handler may have started (the forwarder's pump reads the body concurrently and can outlive the handler's return over HTTP): the pooled reader is handed to the next request while the old goroutine is still inside it, and one request corrupts or reads the other's body")
		})
	}
	if bad == 0 {
		r.ok(shortFunc(fn)+"/deferred-decompressor-release", fn.Pos(), "serveHTTP defers no release of the request's decompressor")
	}
}

// calleesOf: the functions the (VTA) call graph gives for a call site.
func (p *Program) calleesOf(site ssa.CallInstruction) []*ssa.Function {
	var out []*ssa.Function
	n := p.CallGraph().Nodes[site.Parent()]
	if n == nil {
		return nil
	}
	for _, e := range n.Out {
		if e.Site == site && e.Callee != nil && e.Callee.Func != nil {
			out = append(out, e.Callee.Func)
		}
	}
	return out
}
