package main

import (
	"bytes"
	"fmt"
	"go/ast"
	"go/constant"
	"go/printer"
	"go/token"
	"go/types"
	"sort"
	"strings"

	"golang.org/x/tools/go/ssa"
)

func init() {
	register(&Rule{Name: "MD-GATE-OUT", Floor: 3,
		Doc: "every module function that copies a metadata.MD into an http.Header skips reserved keys (header write unreachable when the reserved test is true) and passes '-bin' values through encodeBinHeader; the reserved test sees the key in the case the reserved table is written in",
		Run: ruleMDGateOut})
	register(&Rule{Name: "MD-GATE-IN", Floor: 4,
		Doc: "every module function that builds a metadata.MD from an http.Header lower-cases keys, applies the reserved filter, base64-decodes '-bin' values and keeps all values of a key",
		Run: ruleMDGateIn})
	register(&Rule{Name: "MD-RESERVED-TABLE", Floor: 6,
		Doc: "every constant key the transport code itself sets on a response header is refused by the reserved-key test of the outgoing metadata gate (handlers cannot forge or override it)",
		Run: ruleMDReservedTable})
	register(&Rule{Name: "BIN-PADDING", Floor: 1,
		Doc: "decodeBinHeader reaches a padded and an unpadded base64 decoder (or strips padding before a raw decode)",
		Run: ruleBinPadding})
	register(&Rule{Name: "IDENT-BRANCH", Floor: 1,
		Doc: "no if/else in the module has two textually identical arms (one of them is wrong, or the test is pointless)",
		Run: ruleIdentBranch})
	register(&Rule{Name: "TRAILER-PHASE", Floor: 3,
		Doc: "in serveGRPC every header write after the handler invocation uses a key announced in the Trailer header or carries http.TrailerPrefix (otherwise net/http drops it)",
		Run: ruleTrailerPhase})
	register(&Rule{Name: "STS-ROUTING", Floor: 3,
		Doc: "serverTransportStream routes SetHeader/SendHeader/SetTrailer to the wrapped stream with the same metadata",
		Run: ruleSTSRouting})
}

func isMDType(t types.Type) bool     { return isNamed(t, "google.golang.org/grpc/metadata", "MD") }
func isHeaderType(t types.Type) bool { return isNamed(t, "net/http", "Header") }

// reservedSet evaluates a module predicate func(string) bool into the set of constant strings
// for which it returns true: a switch/if chain of `k == "const"` whose true edge returns true,
// possibly or-ed with calls to other such predicates on the same parameter.
func (p *Program) reservedSet(fn *ssa.Function, depth int) (map[string]bool, bool) {
	if fn == nil || len(fn.Blocks) == 0 || depth > 3 || len(fn.Params) != 1 {
		return nil, false
	}
	res := fn.Signature.Results()
	if res.Len() != 1 {
		return nil, false
	}
	if b, ok := res.At(0).Type().Underlying().(*types.Basic); !ok || b.Kind() != types.Bool {
		return nil, false
	}
	par := fn.Params[0]
	out := map[string]bool{}
	// which blocks return (possibly) true
	returnsTrue := func(b *ssa.BasicBlock) bool {
		// follow empty jumps
		for i := 0; i < 8; i++ {
			for _, in := range b.Instrs {
				if rt, ok := in.(*ssa.Return); ok {
					for _, o := range p.origins(rt.Results[0], originOpts{local: true}) {
						if c, ok := o.(*ssa.Const); ok && c.Value != nil && c.Value.String() == "false" {
							continue
						}
						return true
					}
					return false
				}
			}
			if len(b.Succs) == 1 {
				b = b.Succs[0]
				continue
			}
			return true // unknown: conservative
		}
		return true
	}
	eachInstr(fn, func(in ssa.Instruction) {
		ifi, ok := in.(*ssa.If)
		if !ok {
			return
		}
		switch c := ifi.Cond.(type) {
		case *ssa.BinOp:
			if c.Op != token.EQL {
				return
			}
			var s string
			var okc bool
			if c.X == ssa.Value(par) {
				s, okc = constString(c.Y)
			} else if c.Y == ssa.Value(par) {
				s, okc = constString(c.X)
			}
			if okc && returnsTrue(ifi.Block().Succs[0]) {
				out[s] = true
			}
		case *ssa.Call:
			if callee := staticCallee(c); callee != nil && len(c.Call.Args) == 1 && c.Call.Args[0] == ssa.Value(par) {
				if sub, ok := p.reservedSet(callee, depth+1); ok && returnsTrue(ifi.Block().Succs[0]) {
					for k := range sub {
						out[k] = true
					}
				}
			}
		case *ssa.Lookup, *ssa.Extract:
			// `set[k] || …` : the branch on a constant-set membership
			if returnsTrue(ifi.Block().Succs[0]) {
				for k := range p.constSetKeys(c, par) {
					out[k] = true
				}
			}
		}
	})
	// `return f(k) || k == "x"` without branches on f: calls whose result is returned
	eachInstr(fn, func(in ssa.Instruction) {
		rt, ok := in.(*ssa.Return)
		if !ok {
			return
		}
		for _, o := range p.origins(rt.Results[0], originOpts{local: true}) {
			if c, ok := o.(*ssa.Call); ok {
				if callee := staticCallee(c); callee != nil && len(c.Call.Args) == 1 && c.Call.Args[0] == ssa.Value(par) {
					if sub, ok := p.reservedSet(callee, depth+1); ok {
						for k := range sub {
							out[k] = true
						}
					}
				}
			}
			if bo, ok := o.(*ssa.BinOp); ok && bo.Op == token.EQL {
				if s, okc := constString(bo.Y); okc && bo.X == ssa.Value(par) {
					out[s] = true
				}
			}
			// membership in a package-level constant set: `return reserved[k]` (map[string]bool) or
			// `_, ok := reserved[k]; return ok` (map[string]struct{})
			for k := range p.constSetKeys(o, par) {
				out[k] = true
			}
		}
	})
	return out, len(out) > 0
}

// constSetKeys: v is the membership test of key in a package-level constant set - `set[key]` of a map[string]bool
// (keys mapped to true) or the comma-ok flag of `set[key]` (all keys); nil otherwise.
func (p *Program) constSetKeys(v ssa.Value, key ssa.Value) map[string]bool {
	lk, _ := v.(*ssa.Lookup)
	commaOK := false
	if ex, isEx := v.(*ssa.Extract); isEx && ex.Index == 1 {
		if l2, isLk := ex.Tuple.(*ssa.Lookup); isLk && l2.CommaOk {
			lk, commaOK = l2, true
		}
	}
	if lk == nil || lk.Index != key {
		return nil
	}
	u, isU := lk.X.(*ssa.UnOp)
	if !isU || u.Op != token.MUL {
		return nil
	}
	g, isG := u.X.(*ssa.Global)
	if !isG {
		return nil
	}
	t := p.constTableOf(g)
	if t == nil || !t.isMap {
		return nil
	}
	out := map[string]bool{}
	for k, c := range t.byStr {
		if commaOK || (c.Kind() == constant.Bool && constant.BoolVal(c)) {
			out[k] = true
		}
	}
	return out
}

type mdGate struct {
	fn       *ssa.Function
	update   *ssa.MapUpdate
	rangeKey ssa.Value // Extract #1 of the Next over the source map
}

// findGates: functions with a range over `src` typed map and a MapUpdate on a `dst` typed map.
func (p *Program) findGates(srcIs, dstIs func(types.Type) bool) []mdGate {
	var out []mdGate
	for _, fn := range p.ModuleFuncs() {
		var key ssa.Value
		eachInstr(fn, func(in ssa.Instruction) {
			rg, ok := in.(*ssa.Range)
			if !ok || !srcIs(rg.X.Type()) {
				return
			}
			for _, ref := range *rg.Referrers() {
				nx, ok := ref.(*ssa.Next)
				if !ok {
					continue
				}
				for _, r2 := range *nx.Referrers() {
					if ex, ok := r2.(*ssa.Extract); ok && ex.Index == 1 {
						key = ex
					}
				}
			}
		})
		if key == nil {
			continue
		}
		eachInstr(fn, func(in ssa.Instruction) {
			mu, ok := in.(*ssa.MapUpdate)
			if ok && dstIs(mu.Map.Type()) {
				out = append(out, mdGate{fn, mu, key})
			}
		})
	}
	return out
}

// derivedFromKey: v is the range key, possibly through ToLower / Canonical / concatenation / cells.
func (p *Program) derivedFromKey(v, key ssa.Value) bool {
	seen := map[ssa.Value]bool{}
	var walk func(v ssa.Value) bool
	walk = func(v ssa.Value) bool {
		if v == key {
			return true
		}
		if seen[v] {
			return false
		}
		seen[v] = true
		for _, o := range p.origins(v, originOpts{throughConvert: true}) {
			if o == key {
				return true
			}
			switch x := o.(type) {
			case *ssa.Call:
				for _, a := range x.Call.Args {
					if walk(a) {
						return true
					}
				}
			case *ssa.BinOp:
				if walk(x.X) || walk(x.Y) {
					return true
				}
			}
		}
		return false
	}
	return walk(v)
}

// reservedCalls: calls in fn of module predicates with a non-empty reserved set, applied to (a derivative of) key.
func (p *Program) reservedCalls(fn *ssa.Function, key ssa.Value) []*ssa.Call {
	var out []*ssa.Call
	eachInstr(fn, func(in ssa.Instruction) {
		c, ok := in.(*ssa.Call)
		if !ok {
			return
		}
		callee := staticCallee(c)
		if callee == nil || !p.InModule(callee) || len(c.Call.Args) != 1 {
			return
		}
		if _, ok := p.reservedSet(callee, 0); !ok {
			return
		}
		if p.derivedFromKey(c.Call.Args[0], key) {
			out = append(out, c)
		}
	})
	return out
}

// reservedArgCaseOK: none of the reserved-predicate calls is applied to a key that went through a function that
// changes its case away from lower case.
func (p *Program) reservedArgCaseOK(rcs []*ssa.Call) bool {
	ok := true
	for _, rc := range rcs {
		seen := map[ssa.Value]bool{}
		var walk func(v ssa.Value, d int)
		walk = func(v ssa.Value, d int) {
			if d > 6 || seen[v] {
				return
			}
			seen[v] = true
			for _, o := range p.origins(v, originOpts{}) {
				c, isCall := o.(*ssa.Call)
				if !isCall {
					continue
				}
				switch calleeName(c) {
				case "net/textproto.CanonicalMIMEHeaderKey", "net/http.CanonicalHeaderKey", "strings.ToUpper", "strings.Title", "strings.ToTitle":
					ok = false
				case "strings.ToLower", "strings.TrimSpace", "strings.TrimPrefix", "strings.TrimSuffix":
					walk(c.Call.Args[0], d+1)
				}
			}
		}
		walk(rc.Call.Args[0], 0)
	}
	return ok
}

// reservedArgFolded: every reserved test is applied to a key that went through strings.ToLower, or the predicate folds
// case itself (ToLower / EqualFold on its parameter).
func (p *Program) reservedArgFolded(rcs []*ssa.Call) bool {
	for _, rc := range rcs {
		folded := false
		seen := map[ssa.Value]bool{}
		var walk func(v ssa.Value, d int)
		walk = func(v ssa.Value, d int) {
			if d > 6 || seen[v] {
				return
			}
			seen[v] = true
			for _, o := range p.origins(v, originOpts{}) {
				c, isCall := o.(*ssa.Call)
				if !isCall {
					continue
				}
				switch calleeName(c) {
				case "strings.ToLower":
					folded = true
				case "strings.TrimSpace", "strings.TrimPrefix", "strings.TrimSuffix":
					walk(c.Call.Args[0], d+1)
				}
			}
		}
		walk(rc.Call.Args[0], 0)
		if !folded {
			if callee := rc.Call.StaticCallee(); callee != nil && p.InModule(callee) {
				p.eachInstrRegion(callee, func(_ *ssa.Function, in ssa.Instruction) {
					if c, ok := in.(ssa.CallInstruction); ok {
						switch calleeName(c) {
						case "strings.ToLower", "strings.EqualFold":
							folded = true
						}
					}
				})
			}
		}
		if !folded {
			return false
		}
	}
	return true
}

func ruleMDGateOut(r *Run) {
	p := r.P
	gates := p.findGates(isMDType, isHeaderType)
	if len(gates) == 0 {
		r.missing("a function copying metadata.MD into http.Header")
		return
	}
	for i, g := range gates {
		key := fmt.Sprintf("%s/md->header#%d", shortFunc(g.fn), i+1)
		// (a) reserved filter: with the reserved test true, the header write is unreachable
		rcs := p.reservedCalls(g.fn, g.rangeKey)
		if len(rcs) == 0 {
			r.bad(key+"/reserved-filter", g.update.Pos(), "handler metadata is copied into the response header without any reserved-key test: a handler can forge grpc-status, content-type, …")
		} else {
			filtered := false
			for _, rc := range rcs {
				q := pathQuery{fn: g.fn, start: rc, target: func(x ssa.Instruction) bool { return x == ssa.Instruction(g.update) },
					edgeOK: func(b *ssa.BasicBlock, succ int) bool {
						if ifi := blockIf(b); ifi != nil && ifi.Cond == ssa.Value(rc) {
							return succ == 0 // assume reserved == true
						}
						return true
					},
					barrier: func(x ssa.Instruction) bool { _, isNext := x.(*ssa.Next); return isNext }}
				if w, _ := q.find(); w == nil {
					filtered = true
				}
			}
			r.check(filtered, key+"/reserved-filter", g.update.Pos(), "the header write is unreachable for a key the reserved test refuses",
				"the header write is still reachable when the reserved-key test is true: reserved keys set by a handler reach the response header")
		}
		// (a') the key is tested in the case the reserved table is written in (lower case): a canonicalised or
		// upper-cased key never equals an entry and the filter lets everything through
		if len(rcs) > 0 {
			r.check(p.reservedArgCaseOK(rcs), key+"/reserved-filter-case", g.update.Pos(), "the reserved test is applied to the key as the table spells it (raw metadata key / lower-cased)",
				"the reserved-key test is applied to a canonicalised or upper-cased key (textproto.CanonicalMIMEHeaderKey, http.CanonicalHeaderKey, strings.ToUpper/Title) while the reserved table is lower-case: no key ever matches, handler metadata named content-type, content-encoding, grpc-status … overrides the transport's own headers")
		}
		// (a'') … and folded to it: the keys of handler metadata are whatever the handler wrote (metadata.MD{"Content-Type": …}
		// is a legal Go value), and the header map canonicalises them afterwards, so an unfolded test lets a mixed-case
		// reserved key through
		if len(rcs) > 0 {
			r.check(p.reservedArgFolded(rcs), key+"/reserved-filter-folds-case", g.update.Pos(), "the key is lower-cased before the reserved test (or the test folds case itself)",
				"the reserved-key test is applied to the handler's metadata key as given: the table is lower-case and the header map canonicalises the key afterwards, so metadata.MD{\"Content-Type\": …} or {\"Grpc-Status\": …} passes the filter and overrides the transport's own header")
		}
		// (b) -bin values are encoded
		r.check(p.binTransform(g, "larking.io/larking.encodeBinHeader"), key+"/bin-encode", g.update.Pos(), "values of '-bin' keys pass through encodeBinHeader",
			"values of '-bin' keys are written without base64 encoding (or the encoder is not applied under the '-bin' suffix test): binary metadata is not byte-exact on the wire")
		// (c) header key derives from the metadata key
		r.check(p.derivedFromKey(g.update.Key, g.rangeKey), key+"/key", g.update.Pos(), "header key derives from the metadata key", "header key does not derive from the metadata key")
	}
}

// binTransform: a call of `codec` is guarded by strings.HasSuffix(key, "-bin") true, its results are stored into a slice that flows into the MapUpdate value.
func (p *Program) binTransform(g mdGate, codec string) bool {
	ok := false
	// the transformation loop may live in a transparent helper called under the suffix test
	p.eachInstrRegion(g.fn, func(_ *ssa.Function, in ssa.Instruction) {
		c, isCall := in.(*ssa.Call)
		if !isCall || !p.isBase64Call(c, strings.Contains(codec, "encode")) {
			return
		}
		guarded := p.guardedInEveryContext(c.Block(), func(gf guardFact) bool {
			hc, isC := gf.Cond.(*ssa.Call)
			if !isC || !gf.True || calleeName(hc) != "strings.HasSuffix" {
				return false
			}
			s, isS := constString(hc.Call.Args[1])
			return isS && s == "-bin" && p.derivedFromKey(hc.Call.Args[0], g.rangeKey)
		})
		if !guarded {
			return
		}
		// result stored into a made slice
		var cv ssa.Value = c
		for _, ref := range *c.Referrers() {
			if ex, isEx := ref.(*ssa.Extract); isEx && ex.Index == 0 {
				cv = ex
			}
		}
		var dst ssa.Value
		var find func(v ssa.Value, depth int)
		find = func(v ssa.Value, depth int) {
			if depth > 3 || v.Referrers() == nil {
				return
			}
			for _, ref := range *v.Referrers() {
				switch x := ref.(type) {
				case *ssa.Store:
					if ia, isIA := x.Addr.(*ssa.IndexAddr); isIA && x.Val == v {
						dst = ia.X
					}
				case *ssa.Phi:
					find(x, depth+1)
				}
			}
		}
		find(cv, 0)
		if dst == nil {
			return
		}
		for _, o := range p.origins(g.update.Value, originOpts{}) {
			if o == dst {
				ok = true
			}
		}
		for _, o := range p.origins(dst, originOpts{}) {
			for _, o2 := range p.origins(g.update.Value, originOpts{}) {
				if o == o2 {
					ok = true
				}
			}
		}
	})
	return ok
}

// isBase64Call: c encodes (or decodes) with encoding/base64 itself, or calls a module function that does
// (encodeBinHeader / decodeBinHeader, or the same logic spelled out at the call site).
func (p *Program) isBase64Call(c *ssa.Call, encode bool) bool {
	direct := func(x ssa.CallInstruction) bool {
		n := calleeName(x)
		if !strings.HasPrefix(n, "(*encoding/base64.Encoding).") {
			return false
		}
		m := strings.TrimPrefix(n, "(*encoding/base64.Encoding).")
		if encode {
			return m == "EncodeToString" || m == "Encode" || m == "AppendEncode"
		}
		return m == "DecodeString" || m == "Decode" || m == "AppendDecode"
	}
	if direct(c) {
		return true
	}
	callee := c.Call.StaticCallee()
	if callee == nil || c.Call.IsInvoke() || !p.InModule(callee) {
		return false
	}
	found := false
	for _, g := range p.staticReach(callee) {
		eachInstr(g, func(in ssa.Instruction) {
			if x, ok := in.(ssa.CallInstruction); ok && direct(x) {
				found = true
			}
		})
	}
	return found
}

func ruleMDGateIn(r *Run) {
	p := r.P
	gates := p.findGates(isHeaderType, isMDType)
	if len(gates) == 0 {
		r.missing("a function building metadata.MD from http.Header")
		return
	}
	for i, g := range gates {
		key := fmt.Sprintf("%s/header->md#%d", shortFunc(g.fn), i+1)
		// keys lower-cased
		lower := false
		for _, o := range p.origins(g.update.Key, originOpts{}) {
			if c, ok := o.(*ssa.Call); ok && calleeName(c) == "strings.ToLower" && p.derivedFromKey(c.Call.Args[0], g.rangeKey) {
				lower = true
			}
		}
		r.check(lower, key+"/lower-case", g.update.Pos(), "metadata keys are the lower-cased header names", "metadata keys are not lower-cased: handlers looking up md[\"x-key\"] miss canonical-cased headers")
		// reserved filter: with reserved true and whitelisted false the insert is unreachable
		rcs := p.reservedCalls(g.fn, g.rangeKey)
		if len(rcs) == 0 {
			r.bad(key+"/reserved-filter", g.update.Pos(), "no reserved-key filter on incoming headers")
		} else {
			// which predicate is the reserved test and which the exception list is read off the code: some predicate,
			// taken as "reserved" (true) with every other one false, makes the insert unreachable from the head of
			// the loop body (the predicates may be tested in either order, in one condition or in a switch)
			var start ssa.Instruction = rcs[0]
			if ex, ok := g.rangeKey.(*ssa.Extract); ok {
				if nx, ok := ex.Tuple.(*ssa.Next); ok {
					start = nx
				}
			}
			var w []*ssa.BasicBlock
			resv := rcs[0]
			for ri, cand := range rcs {
				var exc []*ssa.Call
				for j, c := range rcs {
					if j != ri {
						exc = append(exc, c)
					}
				}
				cand := cand
				q := pathQuery{fn: g.fn, start: start, target: func(x ssa.Instruction) bool { return x == ssa.Instruction(g.update) },
					barrier: func(x ssa.Instruction) bool { _, isNext := x.(*ssa.Next); return isNext },
					edgeOK: func(b *ssa.BasicBlock, succ int) bool {
						ifi := blockIf(b)
						if ifi == nil {
							return true
						}
						if ifi.Cond == ssa.Value(cand) {
							return succ == 0
						}
						for _, e := range exc {
							if ifi.Cond == ssa.Value(e) {
								return succ == 1
							}
						}
						return true
					}}
				w, _ = q.find()
				if w == nil {
					resv = cand
					break
				}
			}
			r.check(w == nil, key+"/reserved-filter", g.update.Pos(), "reserved (non-whitelisted) headers never become metadata",
				"a reserved, non-whitelisted header still reaches the metadata insert")
			// what is withheld from the handler is an enumerated list of protocol keys: the reserved test answers
			// true only under an equality of the key with a constant (a prefix or pattern test swallows custom
			// headers nobody listed: grpc-trace-bin, grpc-tags-bin, …)
			if callee := staticCallee(resv); callee != nil {
				why := p.nonEnumeratedTrue(callee, 0)
				r.check(why == "", key+"/reserved-enumerated", resv.Pos(), "the reserved test is a membership test in an enumerated set of constant keys",
					fmt.Sprintf("the reserved-key test %s can answer true for keys outside an enumerated list (%s): custom headers matching it never reach the handler or the proxied backend", shortFunc(callee), why))
			}
		}
		r.check(p.binTransform(g, "larking.io/larking.decodeBinHeader"), key+"/bin-decode", g.update.Pos(), "values of '-bin' keys pass through decodeBinHeader",
			"values of '-bin' keys are not base64-decoded (or not under the '-bin' suffix test)")
		// all values kept: the inserted slice is the range value or a make of the same length
		keep := true
		for _, o := range p.origins(g.update.Value, originOpts{}) {
			switch x := o.(type) {
			case *ssa.MakeSlice:
				lc, ok := x.Len.(*ssa.Call)
				if !ok || calleeName(lc) != "builtin.len" {
					keep = false
				}
			case *ssa.Extract: // the range value itself
			case *ssa.Slice:
				keep = false
			default:
				_ = x
			}
		}
		r.check(keep, key+"/all-values", g.update.Pos(), "all values of a header are kept, in order", "not all values of a multi-valued header are kept")
	}
	// every serve function builds its handler context from the request's headers
	for _, name := range []string{"serveHTTP", "serveGRPC"} {
		fn := p.Method("Mux", name)
		if fn == nil {
			r.missing("method (*Mux)." + name)
			continue
		}
		found := false
		eachInstr(fn, func(in ssa.Instruction) {
			c, ok := in.(*ssa.Call)
			if !ok {
				return
			}
			callee := staticCallee(c)
			if callee == nil {
				return
			}
			for _, g := range gates {
				if g.fn == callee {
					// header argument is r.Header
					for _, a := range c.Call.Args {
						if isHeaderType(a.Type()) {
							if f := loadedField(a); f != nil && f.Name() == "Header" {
								found = true
							}
						}
					}
				}
			}
		})
		r.check(found, shortFunc(fn)+"/incoming-metadata", fn.Pos(), "the handler context's metadata is built from r.Header by the incoming gate",
			"the serve function does not build incoming metadata from r.Header: request headers never reach the handler")
	}
}

// nonEnumeratedTrue: for a predicate f(key string) bool, describe a way it can answer true that is not under an
// equality test of its parameter with a constant; "" if there is none.
func (p *Program) nonEnumeratedTrue(fn *ssa.Function, depth int) string {
	if fn == nil || len(fn.Blocks) == 0 || len(fn.Params) != 1 || depth > 3 {
		return "cannot read " + shortFunc(fn)
	}
	par := fn.Params[0]
	constEq := func(g guardFact) bool {
		x, y, op, ok := g.cmp()
		if !ok || op != token.EQL {
			return false
		}
		if y == ssa.Value(par) {
			x, y = y, x
		}
		if x != ssa.Value(par) {
			return false
		}
		_, isC := constString(y)
		return isC
	}
	why := ""
	eachInstr(fn, func(in ssa.Instruction) {
		rt, ok := in.(*ssa.Return)
		if !ok || len(rt.Results) != 1 {
			return
		}
		for _, l := range p.guardedLeaves(rt.Results[0]) {
			if c, isC := l.v.(*ssa.Const); isC && c.Value != nil && c.Value.String() == "false" {
				continue
			}
			okHere := false
			for _, g := range p.expandFacts(l.facts) {
				if constEq(g) {
					okHere = true
				}
			}
			if !okHere && p.guardedInEveryContext(rt.Block(), constEq) {
				okHere = true
			}
			if okHere {
				continue
			}
			// membership in a package-level constant table keyed by the parameter (var reserved = map[string]bool{…})
			if t, idx := p.tableLoad(l.v); t != nil && idx == ssa.Value(par) {
				continue
			}
			if ex, isEx := l.v.(*ssa.Extract); isEx {
				if lk, isLk := ex.Tuple.(*ssa.Lookup); isLk && lk.Index == ssa.Value(par) {
					if u, ok := lk.X.(*ssa.UnOp); ok && u.Op == token.MUL {
						if g, ok := u.X.(*ssa.Global); ok && p.constTableOf(g) != nil {
							continue
						}
					}
				}
			}
			if _, isC := l.v.(*ssa.Const); !isC {
				// a computed answer: fine when whatever makes it true is itself such an equality, or a nested
				// predicate of the same kind
				fs, never := p.factsWhen(l.v, true)
				if never {
					continue
				}
				for _, g := range fs {
					if constEq(g) {
						okHere = true
					}
					if cc, isCall := g.Cond.(*ssa.Call); isCall && g.True {
						if callee := cc.Call.StaticCallee(); callee != nil && p.InModule(callee) && len(cc.Call.Args) == 1 && cc.Call.Args[0] == ssa.Value(par) && p.nonEnumeratedTrue(callee, depth+1) == "" {
							okHere = true
						}
					}
				}
				if okHere {
					continue
				}
				why = "its answer at " + p.Pos(rt.Pos()) + " is " + describeValue(l.v)
				if n := sourceCall(l.v); n != "" {
					why = "its answer at " + p.Pos(rt.Pos()) + " is the result of " + shortName(n)
				}
				continue
			}
			why = "it answers true at " + p.Pos(rt.Pos()) + " without comparing the key with a constant"
		}
	})
	return why
}

func ruleMDReservedTable(r *Run) {
	p := r.P
	gates := p.findGates(isMDType, isHeaderType)
	reserved := map[string]bool{}
	for _, g := range gates {
		for _, rc := range p.reservedCalls(g.fn, g.rangeKey) {
			set, _ := p.reservedSet(staticCallee(rc), 0)
			for k := range set {
				reserved[k] = true
			}
		}
	}
	if len(reserved) == 0 {
		r.missing("reserved-key set of the outgoing metadata gate")
		return
	}
	// constant keys set on a response header by module code
	type site struct {
		key string
		pos token.Pos
		fn  string
	}
	var sites []site
	for _, fn := range p.ModuleFuncs() {
		eachInstr(fn, func(in ssa.Instruction) {
			c, ok := in.(ssa.CallInstruction)
			if !ok {
				return
			}
			n := calleeName(c)
			if n != "(net/http.Header).Set" && n != "(net/http.Header).Add" {
				return
			}
			k, ok := constString(c.Common().Args[1])
			if !ok {
				return
			}
			if !p.isResponseHeader(c.Common().Args[0]) {
				return
			}
			sites = append(sites, site{strings.ToLower(k), in.Pos(), shortFunc(fn)})
		})
	}
	seen := map[string]bool{}
	sort.Slice(sites, func(i, j int) bool { return sites[i].key < sites[j].key })
	for _, s := range sites {
		if seen[s.key] {
			continue
		}
		seen[s.key] = true
		r.check(reserved[s.key], "reserved:"+s.key, s.pos, "set by the transport ("+s.fn+") and refused by the outgoing metadata gate",
			fmt.Sprintf("the transport sets response header %q itself (%s) but the outgoing metadata gate does not treat it as reserved: handler metadata of that name overrides or forges it", s.key, s.fn))
	}
	if len(seen) == 0 {
		r.undecided("transport-set response keys", token.NoPos, "no constant response header key found")
	}
}

// isResponseHeader: the header value comes from ResponseWriter.Header() or a field that stores it (wHeader), not from the request.
func (p *Program) isResponseHeader(v ssa.Value) bool {
	for _, o := range p.origins(v, originOpts{}) {
		switch x := o.(type) {
		case *ssa.Call:
			if x.Common().IsInvoke() && x.Common().Method.Name() == "Header" {
				return true
			}
			if callee := staticCallee(x); callee != nil && callee.Name() == "Header" {
				return true
			}
		case *ssa.UnOp:
			if f := loadedField(x); f != nil {
				if f.Name() == "wHeader" {
					return true
				}
				if f.Name() == "Header" && isNamed(f.Type(), "net/http", "Header") {
					// http.Request.Header / http.Response.Header: request side
					return false
				}
			}
		}
	}
	return false
}

func ruleBinPadding(r *Run) {
	p := r.P
	fd := p.FuncDecl("", "decodeBinHeader")
	if fd == nil {
		r.missing("func decodeBinHeader")
		return
	}
	uses := map[string]bool{}
	ast.Inspect(fd.Body, func(n ast.Node) bool {
		id, ok := n.(*ast.Ident)
		if !ok {
			return true
		}
		if obj := p.Lark.TypesInfo.Uses[id]; obj != nil && obj.Pkg() != nil && (obj.Pkg().Path() == "encoding/base64" || obj.Pkg().Path() == "strings") {
			uses[obj.Name()] = true
		}
		return true
	})
	padded := uses["StdEncoding"] || uses["URLEncoding"]
	raw := uses["RawStdEncoding"] || uses["RawURLEncoding"] || (uses["WithPadding"] && uses["NoPadding"])
	// stripping must remove ALL padding characters ("==" is legal padding): TrimRight does, TrimSuffix removes only one "="
	strips := (uses["TrimRight"] || uses["TrimRightFunc"]) && raw
	r.check((padded && raw) || strips, "decodeBinHeader/padded-and-unpadded", fd.Pos(), "reaches a padded and an unpadded decoder",
		"only one base64 padding variant is ever used: '-bin' header values in the other form (gRPC allows both) fail to decode and are dropped")
}

func ruleIdentBranch(r *Run) {
	p := r.P
	n, bad := 0, 0
	for _, pk := range []*struct {
		files []*ast.File
	}{{p.Lark.Syntax}, {p.Health.Syntax}} {
		for _, f := range pk.files {
			ast.Inspect(f, func(nd ast.Node) bool {
				is, ok := nd.(*ast.IfStmt)
				if !ok || is.Else == nil {
					return true
				}
				eb, ok := is.Else.(*ast.BlockStmt)
				if !ok {
					return true
				}
				n++
				var a, b bytes.Buffer
				_ = printer.Fprint(&a, token.NewFileSet(), is.Body)
				_ = printer.Fprint(&b, token.NewFileSet(), eb)
				if a.String() == b.String() && len(is.Body.List) > 0 {
					bad++
					fn := enclosingFuncName(f, is.Pos())
					r.bad(fn+"/identical-if-else", is.Pos(), "both arms of this if/else are identical: the test selects nothing, one arm was meant to differ")
				}
				return true
			})
		}
	}
	if bad == 0 {
		r.ok("module", token.NoPos, "%d if/else statements, none with identical arms", n)
	}
}

func enclosingFuncName(f *ast.File, pos token.Pos) string {
	for _, d := range f.Decls {
		if fd, ok := d.(*ast.FuncDecl); ok && fd.Pos() <= pos && pos <= fd.End() {
			return fd.Name.Name
		}
	}
	return "?"
}

// ---------------------------------------------------------------------------
// TRAILER-PHASE
// ---------------------------------------------------------------------------

func ruleTrailerPhase(r *Run) {
	p := r.P
	fn := p.Method("Mux", "serveGRPC")
	if fn == nil {
		r.missing("method (*Mux).serveGRPC")
		return
	}
	hf := p.StructField("handler", "handler")
	var hcall ssa.Instruction
	eachInstr(fn, func(in ssa.Instruction) {
		if c, ok := in.(ssa.CallInstruction); ok && calledField(c) == hf {
			hcall = in
		}
	})
	if hcall == nil {
		r.missing("handler invocation in serveGRPC")
		return
	}
	// the trailer phase begins once the response headers are flushed: the first Flush after the handler returned
	// (a SendHeader before that flush is still in the header phase)
	{
		q := pathQuery{fn: fn, start: hcall, target: func(x ssa.Instruction) bool {
			c, ok := x.(ssa.CallInstruction)
			return ok && c.Common().IsInvoke() && c.Common().Method.Name() == "Flush"
		}}
		if w, hit := q.find(); w != nil {
			hcall = hit
		}
	}
	// announced trailer keys: h.Add("Trailer", K) anywhere in the module on a response header
	announced := map[string]bool{}
	for _, g := range p.ModuleFuncs() {
		eachInstr(g, func(in ssa.Instruction) {
			c, ok := in.(ssa.CallInstruction)
			if !ok {
				return
			}
			n := calleeName(c)
			if n != "(net/http.Header).Add" && n != "(net/http.Header).Set" {
				return
			}
			if k, ok := constString(c.Common().Args[1]); ok && strings.EqualFold(k, "Trailer") {
				if v, ok := constString(c.Common().Args[2]); ok {
					for _, part := range strings.Split(v, ",") {
						announced[strings.ToLower(strings.TrimSpace(part))] = true
					}
				}
			}
		})
	}
	n := 0
	constKeyWrite := func(in ssa.Instruction, c ssa.CallInstruction) {
		n++
		k, isC := constString(c.Common().Args[1])
		key := "serveGRPC/after-handler:" + strings.ToLower(k)
		if !isC {
			r.bad("serveGRPC/after-handler:dynamic-key", in.Pos(), "trailer-phase header write with a non-constant key")
			return
		}
		good := announced[strings.ToLower(k)] || strings.HasPrefix(k, "Trailer:")
		r.check(good, key, in.Pos(), "key is announced in the Trailer header (or carries the trailer prefix)",
			fmt.Sprintf("header %q is written after the response headers were flushed but is neither announced in Trailer nor prefixed with http.TrailerPrefix: net/http silently drops it", k))
	}
	isHeaderWrite := func(c ssa.CallInstruction) bool {
		cn := calleeName(c)
		return cn == "(net/http.Header).Set" || cn == "(net/http.Header).Add"
	}
	eachInstr(fn, func(in ssa.Instruction) {
		c, ok := in.(ssa.CallInstruction)
		if !ok {
			return
		}
		// is it after the handler call?
		if w, _ := (pathQuery{fn: fn, start: hcall, target: func(x ssa.Instruction) bool { return x == in }}).find(); w == nil {
			return
		}
		switch {
		case isHeaderWrite(c):
			constKeyWrite(in, c)
		default:
			callee := staticCallee(c)
			if callee == nil || !p.InModule(callee) {
				return
			}
			// a transparent helper called in the trailer phase: its constant-key writes happen in the trailer phase too
			if p.isTransparent(callee) {
				p.eachInstrRegion(callee, func(_ *ssa.Function, hin ssa.Instruction) {
					if hc, ok := hin.(ssa.CallInstruction); ok && isHeaderWrite(hc) {
						constKeyWrite(hin, hc)
					}
				})
			}
			// does the callee write headers with dynamic keys?
			prefixes, writes := p.headerKeyPrefixes(callee, c.Common().Args, 0)
			if !writes {
				return
			}
			n++
			key := "serveGRPC/after-handler:" + shortFunc(callee)
			all := len(prefixes) > 0
			for _, pf := range prefixes {
				if pf != "Trailer:" {
					all = false
				}
			}
			r.check(all, key, in.Pos(), "metadata keys written in the trailer phase carry http.TrailerPrefix",
				fmt.Sprintf("%s writes handler-chosen keys into the header map after the headers were flushed, without http.TrailerPrefix (prefixes seen: %q): undeclared trailers are dropped by net/http and never reach a gRPC client", shortFunc(callee), prefixes))
		}
	})
	if n == 0 {
		r.undecided("serveGRPC/after-handler", fn.Pos(), "no header write found after the handler invocation")
	}
}

// headerKeyPrefixes: for a callee (with actual arguments), the constant prefixes of the keys of its http.Header map
// updates; "" for an unprefixed key. writes=false if it performs no dynamic-key header write.
func (p *Program) headerKeyPrefixes(fn *ssa.Function, actuals []ssa.Value, depth int) ([]string, bool) {
	if depth > 2 {
		return nil, false
	}
	bind := map[ssa.Value]ssa.Value{}
	for i, par := range fn.Params {
		if i < len(actuals) {
			bind[par] = actuals[i]
		}
	}
	resolve := func(v ssa.Value) ssa.Value {
		if a, ok := bind[v]; ok {
			return a
		}
		return v
	}
	var out []string
	writes := false
	eachInstr(fn, func(in ssa.Instruction) {
		switch x := in.(type) {
		case *ssa.MapUpdate:
			if !isHeaderType(x.Map.Type()) {
				return
			}
			if _, isC := constString(x.Key); isC {
				return
			}
			writes = true
			pf := ""
			if bo, ok := x.Key.(*ssa.BinOp); ok && bo.Op == token.ADD {
				if s, ok := constString(resolve(bo.X)); ok {
					pf = s
				} else {
					pf = "?"
				}
			}
			out = append(out, pf)
		case ssa.CallInstruction:
			callee := staticCallee(x)
			if callee == nil || !p.InModule(callee) || callee == fn {
				return
			}
			var acts []ssa.Value
			for _, a := range x.Common().Args {
				acts = append(acts, resolve(a))
			}
			if sub, w := p.headerKeyPrefixes(callee, acts, depth+1); w {
				writes = true
				out = append(out, sub...)
			}
		}
	})
	return out, writes
}

func ruleSTSRouting(r *Run) {
	p := r.P
	for _, m := range []string{"SetHeader", "SendHeader", "SetTrailer"} {
		fn := p.Method("serverTransportStream", m)
		if fn == nil {
			r.missing("method (*serverTransportStream)." + m)
			continue
		}
		good := false
		eachInstr(fn, func(in ssa.Instruction) {
			c, ok := in.(ssa.CallInstruction)
			if !ok || !c.Common().IsInvoke() || c.Common().Method.Name() != m {
				return
			}
			// receiver is the embedded ServerStream field, argument is the method's md parameter
			if f := loadedField(c.Common().Value); f != nil && f.Name() == "ServerStream" && len(c.Common().Args) == 1 && c.Common().Args[0] == ssa.Value(fn.Params[1]) {
				good = true
			}
		})
		r.check(good, shortFunc(fn), fn.Pos(), "forwards to the wrapped stream's "+m+" with the same metadata",
			"does not forward to the wrapped stream's "+m+" with its own argument: grpc.SetHeader/SendHeader/SetTrailer from handler code are lost")
	}
}
