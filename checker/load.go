package main

import (
	"fmt"
	"go/ast"
	"go/token"
	"go/types"
	"os"
	"path/filepath"
	"sort"
	"strings"

	"golang.org/x/tools/go/callgraph"
	"golang.org/x/tools/go/callgraph/cha"
	"golang.org/x/tools/go/callgraph/vta"
	"golang.org/x/tools/go/packages"
	"golang.org/x/tools/go/ssa"
	"golang.org/x/tools/go/ssa/ssautil"
)

const (
	larkPath   = "larking.io/larking"
	healthPath = "larking.io/health"
	modPrefix  = "larking.io/"
)

// BuildConfig names one (GOOS, GOARCH, tags) combination the tree is loaded under.
type BuildConfig struct {
	GOOS, GOARCH, Tags string
}

func (b BuildConfig) String() string {
	s := b.GOOS + "/" + b.GOARCH
	if b.Tags != "" {
		s += "+" + b.Tags
	}
	return s
}

var defaultConfig = BuildConfig{GOOS: "linux", GOARCH: "amd64"}

// Program is the loaded, type-checked, SSA-built view of /repo.
type Program struct {
	// minLenScope: when set, minLenAtLeast resolves a helper parameter used as a slice bound only through the
	// call sites inside these functions (the region of the function under judgement)
	minLenScope map[*ssa.Function]bool
	Dir         string
	Config      BuildConfig
	Fset        *token.FileSet
	Roots       []*packages.Package
	Lark        *packages.Package
	Health      *packages.Package
	ByPath      map[string]*packages.Package
	SSA         *ssa.Program
	LarkSSA     *ssa.Package
	HlthSSA     *ssa.Package

	cg        *callgraph.Graph
	effects   *Effects
	reachReq  map[*ssa.Function]reachInfo
	reachReg  map[*ssa.Function]reachInfo
	modFuncs  []*ssa.Function // all functions (incl. anonymous) of module packages
	nAllFuncs int

	helperTab       *helperTable
	tables          map[*ssa.Global]*constTable
	poolGetAcc      map[*ssa.Function]poolAccessor
	poolPutAcc      map[*ssa.Function]poolAccessor
	fieldOwnerCache map[*types.Var]string // per program: *types.Var identities differ between loads
}

// Load type-checks ./larking and ./health in dir (with an optional overlay) and
// builds SSA for the whole program. Any load or type error in a module package
// is an error: a check must never pass because it could not see the code.
func Load(dir string, bc BuildConfig, overlay map[string][]byte) (*Program, error) {
	env := append(os.Environ(),
		"GOFLAGS=-mod=mod", "GOPROXY=off", "GOSUMDB=off", "GOTOOLCHAIN=local", "GOWORK=off",
		"GOOS="+bc.GOOS, "GOARCH="+bc.GOARCH, "CGO_ENABLED=0",
	)
	cfg := &packages.Config{
		Mode:    packages.LoadAllSyntax,
		Dir:     dir,
		Env:     env,
		Tests:   false,
		Overlay: overlay,
	}
	if bc.Tags != "" {
		cfg.BuildFlags = []string{"-tags=" + bc.Tags}
	}
	pkgs, err := packages.Load(cfg, "./larking", "./health")
	if err != nil {
		return nil, fmt.Errorf("packages.Load: %w", err)
	}
	if len(pkgs) == 0 {
		return nil, fmt.Errorf("packages.Load: zero packages")
	}
	p := &Program{Dir: dir, Config: bc, Roots: pkgs, ByPath: map[string]*packages.Package{}}
	var loadErrs []string
	packages.Visit(pkgs, nil, func(pk *packages.Package) {
		p.ByPath[pk.PkgPath] = pk
		if strings.HasPrefix(pk.PkgPath, modPrefix) || pk.PkgPath == "larking.io" {
			for _, e := range pk.Errors {
				loadErrs = append(loadErrs, e.Error())
			}
		}
		if pk.IllTyped && (strings.HasPrefix(pk.PkgPath, modPrefix)) {
			loadErrs = append(loadErrs, pk.PkgPath+": ill-typed")
		}
	})
	if len(loadErrs) > 0 {
		sort.Strings(loadErrs)
		return nil, fmt.Errorf("load/type errors in module packages:\n  %s", strings.Join(loadErrs, "\n  "))
	}
	p.Lark = p.ByPath[larkPath]
	p.Health = p.ByPath[healthPath]
	if p.Lark == nil || p.Health == nil {
		return nil, fmt.Errorf("packages %s / %s not found in load result", larkPath, healthPath)
	}
	p.Fset = p.Lark.Fset
	if len(p.Lark.Syntax) == 0 {
		return nil, fmt.Errorf("%s has no syntax", larkPath)
	}

	prog, _ := ssautil.AllPackages(pkgs, ssa.InstantiateGenerics)
	prog.Build()
	p.SSA = prog
	p.LarkSSA = prog.Package(p.Lark.Types)
	p.HlthSSA = prog.Package(p.Health.Types)
	if p.LarkSSA == nil || p.HlthSSA == nil {
		return nil, fmt.Errorf("no SSA for module packages")
	}
	all := ssautil.AllFunctions(prog)
	p.nAllFuncs = len(all)
	for fn := range all {
		if p.InModule(fn) {
			p.modFuncs = append(p.modFuncs, fn)
		}
	}
	sort.Slice(p.modFuncs, func(i, j int) bool { return p.modFuncs[i].String() < p.modFuncs[j].String() })
	return p, nil
}

// InModule reports whether fn (or its enclosing function) is declared in a
// package of the larking.io module.
func (p *Program) InModule(fn *ssa.Function) bool {
	for fn.Parent() != nil {
		fn = fn.Parent()
	}
	if fn.Pkg != nil {
		return strings.HasPrefix(fn.Pkg.Pkg.Path(), modPrefix)
	}
	// wrappers / instantiations: look at the origin or the object.
	if o := fn.Origin(); o != nil && o != fn {
		return p.InModule(o)
	}
	if obj := fn.Object(); obj != nil && obj.Pkg() != nil {
		return strings.HasPrefix(obj.Pkg().Path(), modPrefix)
	}
	return false
}

// ModuleFuncs returns every SSA function (including closures) of the module.
func (p *Program) ModuleFuncs() []*ssa.Function { return p.modFuncs }

// CallGraph returns the VTA call graph (built on first use).
func (p *Program) CallGraph() *callgraph.Graph {
	if p.cg == nil {
		all := ssautil.AllFunctions(p.SSA)
		p.cg = vta.CallGraph(all, cha.CallGraph(p.SSA))
	}
	return p.cg
}

// Pos renders a position as repo-relative file:line.
func (p *Program) Pos(pos token.Pos) string {
	if !pos.IsValid() {
		return "-"
	}
	ps := p.Fset.Position(pos)
	rel, err := filepath.Rel(p.Dir, ps.Filename)
	if err != nil {
		rel = ps.Filename
	}
	return fmt.Sprintf("%s:%d", rel, ps.Line)
}

// ---- lookup helpers (by types.Object, never by text) ----

// Func returns the package-level function `name` of the larking package, or nil.
func (p *Program) Func(name string) *ssa.Function {
	if !anchorTable[name] && os.Getenv("LARKCHECK_ANCHORS") != "" {
		fmt.Fprintf(os.Stderr, "ANCHOR-MISSING %q\n", name)
		return p.LarkSSA.Func(name)
	}
	must(anchorTable[name], "function %q is looked up by a rule but missing from anchorTable", name)
	return p.LarkSSA.Func(name)
}

// Method returns method `name` declared on named type `typ` (pointer or value
// receiver) of the larking package, or nil.
func (p *Program) Method(typ, name string) *ssa.Function {
	if !anchorTable[typ+"."+name] && os.Getenv("LARKCHECK_ANCHORS") != "" {
		fmt.Fprintf(os.Stderr, "ANCHOR-MISSING %q\n", typ+"."+name)
		return p.methodIn(p.Lark.Types, typ, name)
	}
	must(anchorTable[typ+"."+name], "method %s.%s is looked up by a rule but missing from anchorTable", typ, name)
	return p.methodIn(p.Lark.Types, typ, name)
}

func (p *Program) methodIn(pkg *types.Package, typ, name string) *ssa.Function {
	obj := pkg.Scope().Lookup(typ)
	if obj == nil {
		return nil
	}
	tn, ok := obj.(*types.TypeName)
	if !ok {
		return nil
	}
	named, ok := tn.Type().(*types.Named)
	if !ok {
		return nil
	}
	for i := 0; i < named.NumMethods(); i++ {
		m := named.Method(i)
		if m.Name() == name {
			return p.SSA.FuncValue(m)
		}
	}
	return nil
}

// NamedType returns the named type `name` of the larking package.
func (p *Program) NamedType(name string) *types.Named {
	obj := p.Lark.Types.Scope().Lookup(name)
	if obj == nil {
		return nil
	}
	n, _ := obj.Type().(*types.Named)
	return n
}

// StructField returns the field object of struct type `typ`.
func (p *Program) StructField(typ, field string) *types.Var {
	n := p.NamedType(typ)
	if n == nil {
		return nil
	}
	st, ok := n.Underlying().(*types.Struct)
	if !ok {
		return nil
	}
	for i := 0; i < st.NumFields(); i++ {
		if st.Field(i).Name() == field {
			return st.Field(i)
		}
	}
	return nil
}

// FuncDecl finds the syntax of a package-level function or method in larking.
func (p *Program) FuncDecl(recv, name string) *ast.FuncDecl {
	return findFuncDecl(p.Lark, recv, name)
}

func findFuncDecl(pk *packages.Package, recv, name string) *ast.FuncDecl {
	for _, f := range pk.Syntax {
		for _, d := range f.Decls {
			fd, ok := d.(*ast.FuncDecl)
			if !ok || fd.Name.Name != name {
				continue
			}
			if recv == "" {
				if fd.Recv == nil {
					return fd
				}
				continue
			}
			if fd.Recv == nil || len(fd.Recv.List) == 0 {
				continue
			}
			t := fd.Recv.List[0].Type
			if st, ok := t.(*ast.StarExpr); ok {
				t = st.X
			}
			if id, ok := t.(*ast.Ident); ok && id.Name == recv {
				return fd
			}
		}
	}
	return nil
}

// allFuncsDeep returns fn and all its (transitively) nested closures.
func allFuncsDeep(fn *ssa.Function) []*ssa.Function {
	out := []*ssa.Function{fn}
	for _, a := range fn.AnonFuncs {
		out = append(out, allFuncsDeep(a)...)
	}
	return out
}
