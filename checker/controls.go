package main

import (
	"fmt"
	"os"
	"os/exec"
	"path/filepath"
	"strings"
	"sync"
)

// Control is an overlay mutant: one small text substitution applied in memory
// (go/packages Overlay; nothing is written to disk) that breaks exactly one
// rule instance while the tree still type-checks. The rule must then report a
// violation whose construct contains Expect. Controls show that a rule whose
// expected violation count is zero is not blind. A control never turns a
// passing tree into a failing one: "skipped" (anchor text not present any
// more) and "control_failed" are recorded in the evidence and printed only.
type Control struct {
	ID     string
	Rule   string
	File   string // relative to the repo root
	Old    string
	New    string
	Expect string
	Why    string
}

var controlTable []*Control

func control(c *Control) { controlTable = append(controlTable, c) }

func controlByID(id string) *Control {
	for _, c := range controlTable {
		if c.ID == id {
			return c
		}
	}
	return nil
}

// evalControl applies the control and evaluates its rule. Returns status
// (fired|skipped|control_failed) and a detail line.
func evalControl(c *Control) (string, string) {
	path := filepath.Join(*flagRepo, c.File)
	src, err := os.ReadFile(path)
	if err != nil {
		return "skipped", "cannot read " + c.File
	}
	n := strings.Count(string(src), c.Old)
	if n != 1 {
		return "skipped", fmt.Sprintf("anchor text occurs %d times in %s (the tree was edited); control not applicable", n, c.File)
	}
	mut := strings.Replace(string(src), c.Old, c.New, 1)
	prog, err := Load(*flagRepo, defaultConfig, map[string][]byte{path: []byte(mut)})
	if err != nil {
		return "skipped", "mutant does not type-check on this tree: " + firstLine(err.Error())
	}
	run := runRules(prog, []string{c.Rule})
	for _, o := range run.Obs {
		if (o.Status == stViolated || o.Status == stUndecided) && strings.Contains(o.Construct, c.Expect) {
			return "fired", fmt.Sprintf("%s %s: %s", o.Rule, o.Construct, firstLine(o.Detail))
		}
	}
	return "control_failed", fmt.Sprintf("rule %s did not report a violation containing %q on the mutant", c.Rule, c.Expect)
}

func runControlCLI(id string) int {
	c := controlByID(id)
	if c == nil {
		fmt.Println("unknown control", id)
		return 2
	}
	st, detail := evalControl(c)
	fmt.Printf("CONTROL %s %s %s\n", c.ID, st, detail)
	if st == "control_failed" {
		return 3
	}
	return 0
}

// runControls: quick = the first applicable control of the property's rules,
// in-process; thorough = all controls of the property's rules, one
// sub-process per control (bounded parallelism, bounded memory).
func runControls(prop, tier string, rules []string) []map[string]interface{} {
	inProp := map[string]bool{}
	for _, r := range rules {
		inProp[r] = true
	}
	var cs []*Control
	for _, c := range controlTable {
		if inProp[c.Rule] {
			cs = append(cs, c)
		}
	}
	var out []map[string]interface{}
	rec := func(c *Control, st, detail string) {
		out = append(out, map[string]interface{}{"id": c.ID, "rule": c.Rule, "edit": c.Why, "status": st, "detail": detail})
		if st == "control_failed" {
			fmt.Printf("CONTROL-FAILED property=%s control=%s rule=%s: %s\n", prop, c.ID, c.Rule, detail)
		}
	}
	if tier != "thorough" {
		// rotate with the seed so that repeated quick runs exercise different controls
		if len(cs) == 0 {
			return out
		}
		start := seed() % len(cs)
		if start < 0 {
			start = 0
		}
		for i := 0; i < len(cs); i++ {
			c := cs[(start+i)%len(cs)]
			st, detail := evalControl(c)
			rec(c, st, detail)
			if st != "skipped" {
				break
			}
		}
		return out
	}
	self, err := os.Executable()
	if err != nil {
		self = "/verif/bin/larkcheck"
	}
	type res struct{ st, detail string }
	results := make([]res, len(cs))
	sem := make(chan struct{}, 6)
	var wg sync.WaitGroup
	for i, c := range cs {
		wg.Add(1)
		go func(i int, c *Control) {
			defer wg.Done()
			sem <- struct{}{}
			defer func() { <-sem }()
			cmd := exec.Command(self, "-control", c.ID, "-repo", *flagRepo, "-verif", *flagVerif)
			b, _ := cmd.CombinedOutput()
			st, detail := "control_failed", "no output from sub-process: "+firstLine(string(b))
			for _, ln := range strings.Split(string(b), "\n") {
				if strings.HasPrefix(ln, "CONTROL ") {
					f := strings.SplitN(ln, " ", 4)
					if len(f) >= 3 {
						st = f[2]
						detail = ""
						if len(f) == 4 {
							detail = f[3]
						}
					}
				}
			}
			results[i] = res{st, detail}
		}(i, c)
	}
	wg.Wait()
	for i, c := range cs {
		rec(c, results[i].st, results[i].detail)
	}
	return out
}
