package main

import (
	"go/token"
	"go/types"

	"golang.org/x/tools/go/ssa"
)

// Round 12: a limit of zero or less is still a limit (D56).
func init() {
	register(&Rule{Name: "LIMIT-NONPOS", Floor: 3,
		Doc: "no StreamCodec.ReadNext switches its size check off for a limit of zero or less: from the edge of a `limit > 0` style test that is taken only when limit <= 0, no return delivering a message (error possibly nil, length not the constant 0) is reachable without passing a comparison with the limit. LIMIT-IMPL assumes limit > 0; with MaxReceiveMessageSizeOption(0) the bypass let a length prefix near 2^62 reach make() ('makeslice: cap out of range')",
		Run: ruleLimitNonPos})
}

func ruleLimitNonPos(r *Run) {
	p := r.P
	sc := p.lookupIface(larkPath, "StreamCodec")
	if sc == nil {
		r.missing("interface StreamCodec")
		return
	}
	scope := p.Lark.Types.Scope()
	n := 0
	for _, name := range scope.Names() {
		tn, ok := scope.Lookup(name).(*types.TypeName)
		if !ok {
			continue
		}
		named, ok := tn.Type().(*types.Named)
		if !ok {
			continue
		}
		if _, isIface := named.Underlying().(*types.Interface); isIface {
			continue
		}
		if !types.Implements(named, sc) && !types.Implements(types.NewPointer(named), sc) {
			continue
		}
		fn := p.Method(name, "ReadNext")
		if fn == nil || len(fn.Blocks) == 0 || len(fn.Params) != 4 {
			continue
		}
		n++
		key := shortFunc(fn) + "/limit<=0-is-a-limit"
		limit := fn.Params[3]
		isLimitCmp := map[ssa.Instruction]bool{}
		type conv struct {
			ifi  *ssa.If
			succ int // the successor taken only when limit <= 0
		}
		var convs []conv
		eachInstr(fn, func(in ssa.Instruction) {
			if c, ok := in.(*ssa.Call); ok && calleeName(c) == "builtin.min" {
				for _, a := range c.Call.Args {
					if p.stripConvAll(a) == ssa.Value(limit) {
						isLimitCmp[in] = true
					}
				}
				return
			}
			ifi, ok := in.(*ssa.If)
			if !ok {
				return
			}
			bo, ok := ifi.Cond.(*ssa.BinOp)
			if !ok {
				return
			}
			lx, ly := p.stripConvAll(bo.X) == ssa.Value(limit), p.stripConvAll(bo.Y) == ssa.Value(limit)
			if !lx && !ly {
				return
			}
			other := bo.Y
			if ly {
				other = bo.X
			}
			k, isConst := constInt(other)
			if !isConst || p.isPeeledLoopTest(ifi, other, limit) {
				isLimitCmp[ifi] = true
				return
			}
			if k != 0 {
				return
			}
			op := bo.Op
			if ly { // 0 OP limit => limit OP' 0
				switch op {
				case token.LSS:
					op = token.GTR
				case token.LEQ:
					op = token.GEQ
				case token.GTR:
					op = token.LSS
				case token.GEQ:
					op = token.LEQ
				}
			}
			switch op {
			case token.GTR, token.GEQ, token.NEQ:
				convs = append(convs, conv{ifi, 1})
			case token.LEQ, token.LSS, token.EQL:
				convs = append(convs, conv{ifi, 0})
			}
		})
		bad := false
		for _, c := range convs {
			c := c
			var hit ssa.Instruction
			q := pathQuery{fn: fn, start: c.ifi,
				barrier: func(x ssa.Instruction) bool { return isLimitCmp[x] },
				edgeOK: func(b *ssa.BasicBlock, succ int) bool {
					return b != c.ifi.Block() || succ == c.succ
				},
				target: func(x ssa.Instruction) bool {
					rt, ok := x.(*ssa.Return)
					if !ok || len(rt.Results) != 3 {
						return false
					}
					if k, ok := constInt(rt.Results[1]); ok && k == 0 {
						return false
					}
					for _, o := range p.origins(rt.Results[2], originOpts{}) {
						if isNilConst(o) {
							hit = x
							return true
						}
					}
					return false
				}}
			if w, _ := q.find(); w != nil {
				bad = true
				r.bad(key, c.ifi.Cond.Pos(), "with limit <= 0 this test lets ReadNext deliver a message (return at %s) without comparing anything with the limit: zero means 'unlimited' here and 'nothing' in the unary size check and the sibling codecs, and an attacker-chosen length prefix reaches the allocation: %s", p.Fset.Position(hit.Pos()), p.describePath(w))
			}
		}
		if !bad {
			r.ok(key, fn.Pos(), "no edge taken only for limit <= 0 reaches a delivering return without a limit comparison (%d convention tests, %d limit comparisons)", len(convs), len(isLimitCmp))
		}
	}
	if n == 0 {
		r.undecided("StreamCodec implementations", token.NoPos, "no ReadNext implementation found")
	}
}
