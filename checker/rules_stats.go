package main

import (
	"fmt"
	"go/token"
	"go/types"
	"strings"

	"golang.org/x/tools/go/ssa"
)

const statsPkg = "google.golang.org/grpc/stats"

func init() {
	register(&Rule{Name: "STATS-PAIR", Floor: 2,
		Doc: "on the projection where a stats handler is installed, every path from the Begin event to a function exit of serveHTTP/serveGRPC passes exactly one End event",
		Run: ruleStatsPair})
	register(&Rule{Name: "STATS-ERR", Floor: 2,
		Doc: "End.Error is the value returned by the handler invocation",
		Run: ruleStatsErr})
	register(&Rule{Name: "STATS-ORDER", Floor: 6,
		Doc: "TagRPC < InHeader < Begin < handler < End by dominance on the stats projection; later events receive the context TagRPC returned",
		Run: ruleStatsOrder})
	register(&Rule{Name: "STATS-PURE", Floor: 4,
		Doc: "code that runs only when a stats handler is installed cannot change or crash the RPC: no return, no response header/body write, no unjustified slicing inside stats-guarded regions; a closure that exists only with a stats handler assigns nothing the function reads outside stats-only code",
		Run: ruleStatsPure})
	register(&Rule{Name: "IC-ONCE", Floor: 4,
		Doc: "in each handler closure every path to a non-error return contains exactly one interceptor-mediated invocation (opts.stream, opts.unary, or a generated handler given opts.unaryInterceptor)",
		Run: ruleICOnce})
	register(&Rule{Name: "IC-PASSTHRU", Floor: 2,
		Doc: "muxOptions.unary/stream call the interceptor iff it is non-nil, with their own arguments, and return its results unchanged",
		Run: ruleICPassthru})
	register(&Rule{Name: "ROLE-AGREE", Floor: 8,
		Doc: "in StreamDesc/StreamServerInfo/stats.Begin the client-streaming flag is fed by the client-streaming descriptor bit and the server flag by the server bit; FullMethod is the handler's method key",
		Run: ruleRoleAgree})
}

// statsEvent: if in is sh.HandleRPC(ctx, &stats.X{…}) return X.
func statsEvent(in ssa.Instruction) (string, *ssa.Alloc) {
	c, ok := in.(ssa.CallInstruction)
	if !ok || !c.Common().IsInvoke() || c.Common().Method.Name() != "HandleRPC" {
		return "", nil
	}
	if c.Common().Method.Pkg() == nil || c.Common().Method.Pkg().Path() != statsPkg {
		return "", nil
	}
	arg := c.Common().Args[1]
	if mi, ok := arg.(*ssa.MakeInterface); ok {
		arg = mi.X
	}
	if n := namedOf(arg.Type()); n != nil && n.Obj().Pkg() != nil && n.Obj().Pkg().Path() == statsPkg {
		al, _ := arg.(*ssa.Alloc)
		if al == nil {
			// value produced by a helper (outPayload/inPayload)
			return n.Obj().Name(), nil
		}
		return n.Obj().Name(), al
	}
	return "", nil
}

// statsProjection: edge filter that assumes opts.statsHandler != nil.
func (p *Program) statsProjection(fn *ssa.Function) func(*ssa.BasicBlock, int) bool {
	f := p.StructField("muxOptions", "statsHandler")
	return func(b *ssa.BasicBlock, succ int) bool {
		ifi := blockIf(b)
		if ifi == nil {
			return true
		}
		pol, ok := p.statsTest(ifi.Cond, f)
		if !ok {
			return true
		}
		// pol: true if cond true means handler installed
		if pol {
			return succ == 0
		}
		return succ == 1
	}
}

// statsTest: cond is `load(statsHandler) != nil` (returns true,true) or `== nil` (false,true).
func (p *Program) statsTest(cond ssa.Value, f *types.Var) (bool, bool) {
	bo, ok := cond.(*ssa.BinOp)
	if !ok || (bo.Op != token.NEQ && bo.Op != token.EQL) {
		return false, false
	}
	var x ssa.Value
	if isNilConst(bo.Y) {
		x = bo.X
	} else if isNilConst(bo.X) {
		x = bo.Y
	} else {
		return false, false
	}
	is := false
	for _, o := range p.origins(x, originOpts{}) {
		if loadsField(o, f) {
			is = true
		}
	}
	if !is {
		return false, false
	}
	return bo.Op == token.NEQ, true
}

// statsGuarded: block runs only when a stats handler is installed.
func (p *Program) statsGuarded(b *ssa.BasicBlock) bool {
	f := p.StructField("muxOptions", "statsHandler")
	for _, g := range guardsOf(b) {
		if pol, ok := p.statsTest(g.Cond, f); ok && pol == g.True {
			return true
		}
	}
	return false
}

// failingCallee: the callee whose error leads to this return (return sits under `err != nil` with err from a call).
func (p *Program) failingCallee(rt ssa.Instruction) string {
	errT := types.Universe.Lookup("error").Type()
	best := ""
	for _, g := range guardsOf(rt.Block()) {
		bo, ok := g.Cond.(*ssa.BinOp)
		if !ok || !types.Identical(bo.X.Type(), errT) || !isNilConst(bo.Y) {
			continue
		}
		if !((bo.Op == token.NEQ && g.True) || (bo.Op == token.EQL && !g.True)) {
			continue
		}
		for _, o := range p.origins(bo.X, originOpts{}) {
			if n := sourceCall(o); n != "" {
				// innermost (latest) guard wins: prefer the one whose If is closest (dominated by previous ones)
				if best == "" || true {
					best = shortName(n)
				}
			}
		}
	}
	return best
}

func ruleStatsPair(r *Run) {
	p := r.P
	for _, name := range []string{"serveHTTP", "serveGRPC"} {
		fn := p.Method("Mux", name)
		if fn == nil {
			r.missing("method (*Mux)." + name)
			continue
		}
		key := shortFunc(fn)
		var begins, ends []ssa.Instruction
		for _, g := range allFuncsDeep(fn) {
			eachInstr(g, func(in ssa.Instruction) {
				switch ev, _ := statsEvent(in); ev {
				case "Begin":
					if g == fn {
						begins = append(begins, in)
					}
				case "End":
					if g == fn {
						ends = append(ends, in)
					} else {
						ends = append(ends, in) // End emitted from a deferred closure: handled below
					}
				}
			})
		}
		if len(begins) == 0 {
			r.bad(key+"/begin", fn.Pos(), "no stats.Begin event is emitted")
			continue
		}
		proj := p.statsProjection(fn)
		isEnd := map[ssa.Instruction]bool{}
		deferredEnd := false
		for _, e := range ends {
			if e.Parent() == fn {
				isEnd[e] = true
			} else if closureOnlyDeferred(fn, e.Parent()) {
				deferredEnd = true
			}
		}
		// a deferred closure that emits End counts as an End at its defer statement for all later exits
		if deferredEnd {
			eachInstr(fn, func(in ssa.Instruction) {
				if d, ok := in.(*ssa.Defer); ok {
					if mc, ok := d.Call.Value.(*ssa.MakeClosure); ok {
						for _, e := range ends {
							if e.Parent() == mc.Fn {
								isEnd[in] = true
							}
						}
					}
				}
			})
		}
		for _, bg := range begins {
			nBad := 0
			seenKey := map[string]int{}
			eachInstr(fn, func(in ssa.Instruction) {
				if !isExit(in) {
					return
				}
				q := pathQuery{fn: fn, start: bg, edgeOK: proj,
					barrier: func(x ssa.Instruction) bool { return isEnd[x] },
					target:  func(x ssa.Instruction) bool { return x == in }}
				w, _ := q.find()
				if w == nil {
					return
				}
				nBad++
				callee := p.failingCallee(in)
				if callee == "" {
					callee = "?"
				}
				k := key + "/exit-after:" + callee
				seenKey[k]++
				if seenKey[k] > 1 {
					k = fmt.Sprintf("%s#%d", k, seenKey[k])
				}
				r.bad(k, in.Pos(), "with a stats handler installed this exit is reached after the Begin event without any End event (the RPC never ends for the stats handler); reached when %s fails: %s", callee, p.describePath(w))
			})
			if nBad == 0 {
				r.ok(key+"/begin-has-end", bg.Pos(), "every exit after Begin passes an End event (stats projection)")
			}
		}
		// at most one End on any path
		for e := range isEnd {
			q := pathQuery{fn: fn, start: e, edgeOK: proj, target: func(x ssa.Instruction) bool { return isEnd[x] }}
			if w, hit := q.find(); w != nil {
				r.bad(key+"/end-once", hit.Pos(), "a second End event is reachable after an End event: the RPC ends twice for the stats handler")
			} else {
				r.ok(key+"/end-once", e.Pos(), "no second End event is reachable")
			}
		}
	}
}

func ruleStatsErr(r *Run) {
	p := r.P
	hf := p.StructField("handler", "handler")
	n := 0
	for _, fn := range p.ModuleFuncs() {
		site := 0
		eachInstr(fn, func(in ssa.Instruction) {
			ev, _ := statsEvent(in)
			if ev != "End" {
				return
			}
			// the literal is written at the call or in a constructor helper (endRPC(beginTime, err)): each literal the
			// argument can be, with the call chain that leads to it, so that the helper's parameters resolve to this
			// call's arguments
			arg := in.(ssa.CallInstruction).Common().Args[1]
			var lits []ctxValue
			for _, o := range p.originsCtx(arg, nil, originOpts{}) {
				if _, ok := o.v.(*ssa.Alloc); !ok {
					lits = nil
					break
				}
				lits = append(lits, o)
			}
			site++
			n++
			key := fmt.Sprintf("%s/End.Error#%d", shortFunc(fn), site)
			if len(lits) == 0 {
				r.undecided(key, in.Pos(), "the stats.End event passed to HandleRPC is not a literal written here or in a constructor helper: its Error field cannot be read")
				return
			}
			var storedVals []ctxValue
			missing := false
			for _, l := range lits {
				var stored ssa.Value
				for _, ref := range *l.v.(*ssa.Alloc).Referrers() {
					fa, ok := ref.(*ssa.FieldAddr)
					if !ok || fieldOfAddr(fa).Name() != "Error" {
						continue
					}
					for _, r2 := range *fa.Referrers() {
						if st, ok := r2.(*ssa.Store); ok {
							stored = st.Val
						}
					}
				}
				if stored == nil {
					missing = true
					continue
				}
				storedVals = append(storedVals, ctxValue{stored, l.ctx})
			}
			if missing || len(storedVals) == 0 {
				r.bad(key, in.Pos(), "stats.End is emitted without its Error field: a failing RPC is reported as successful")
				return
			}
			// Allowed: the handler invocation's result; and, when the End is emitted by a deferred closure that also
			// covers the exits before/around the handler, nil (handler not run, or succeeded) and the errors the
			// serving function itself returns on those exits. The handler's result must be among the origins.
			top := fn
			for top.Parent() != nil {
				top = top.Parent()
			}
			returned := map[ssa.Value]bool{}
			if top != fn {
				ei := errResultIndex(top)
				eachInstr(top, func(x ssa.Instruction) {
					if rt, ok := x.(*ssa.Return); ok && ei >= 0 && ei < len(rt.Results) {
						for _, o := range p.origins(rt.Results[ei], originOpts{}) {
							returned[o] = true
						}
					}
				})
			}
			good, fromHandler := true, false
			what := ""
			var errOrigins []ssa.Value
			for _, sv := range storedVals {
				for _, o := range p.originsCtx(sv.v, sv.ctx, originOpts{}) {
					errOrigins = append(errOrigins, o.v)
				}
			}
			for _, o := range errOrigins {
				c, ok := o.(*ssa.Call)
				if ok && calledField(c) == hf {
					fromHandler = true
					continue
				}
				if top != fn && (isNilConst(o) || returned[o]) {
					continue
				}
				good = false
				what = describeValue(o)
				if n := sourceCall(o); n != "" {
					what = "result of " + shortName(n)
				}
			}
			if good && !fromHandler {
				good, what = false, "never the handler's result"
			}
			// every invocation of the handler in the serving function feeds this End (a branch that keeps the result
			// in a variable of its own - `if herr := hd.handler(…); herr != nil` - reports success for a failed RPC)
			if good && top != fn {
				inEnd := map[ssa.Value]bool{}
				for _, o := range errOrigins {
					inEnd[o] = true
				}
				p.eachInstrRegion(top, func(_ *ssa.Function, x ssa.Instruction) {
					if c, ok := x.(*ssa.Call); ok && calledField(c) == hf && !inEnd[c] {
						good, what = false, "missing the result of the handler invocation at "+p.Pos(c.Pos())
					}
				})
			}
			r.check(good, key, in.Pos(), "End.Error is the handler invocation's result (or, in the deferred End, nil / the error the serving function returns before the handler ran)",
				"End.Error is "+what+", not the error returned by the handler invocation: the stats handler sees the wrong outcome")
		})
	}
	if n == 0 {
		r.undecided("End.Error", token.NoPos, "no stats.End literal found")
	}
}

func ruleStatsOrder(r *Run) {
	p := r.P
	hf := p.StructField("handler", "handler")
	for _, name := range []string{"serveHTTP", "serveGRPC"} {
		fn := p.Method("Mux", name)
		if fn == nil {
			r.missing("method (*Mux)." + name)
			continue
		}
		key := shortFunc(fn)
		var tag ssa.Instruction
		ev := map[string][]ssa.Instruction{}
		var handlerCalls []ssa.Instruction
		eachInstr(fn, func(in ssa.Instruction) {
			if c, ok := in.(ssa.CallInstruction); ok {
				if c.Common().IsInvoke() && c.Common().Method.Name() == "TagRPC" {
					tag = in
				}
				if calledField(c) == hf {
					handlerCalls = append(handlerCalls, in)
				}
			}
			if e, _ := statsEvent(in); e != "" {
				ev[e] = append(ev[e], in)
			}
		})
		// events emitted by a closure that is only deferred happen at function exit
		atExit := map[ssa.Instruction]bool{}
		for _, g := range allFuncsDeep(fn) {
			if g == fn || !closureOnlyDeferred(fn, g) {
				continue
			}
			eachInstr(g, func(in ssa.Instruction) {
				if e, _ := statsEvent(in); e != "" {
					ev[e] = append(ev[e], in)
					atExit[in] = true
				}
			})
		}
		if tag == nil || len(ev["InHeader"]) == 0 || len(ev["Begin"]) == 0 || len(handlerCalls) == 0 {
			r.bad(key+"/events", fn.Pos(), "missing stats events or handler call (TagRPC:%v InHeader:%d Begin:%d handler:%d)", tag != nil, len(ev["InHeader"]), len(ev["Begin"]), len(handlerCalls))
			continue
		}
		proj := p.statsProjection(fn)
		// a ≺ b : on the projection no path from entry reaches b avoiding a
		precedes := func(a, b ssa.Instruction) bool {
			q := pathQuery{fn: fn, edgeOK: proj, barrier: func(x ssa.Instruction) bool { return x == a }, target: func(x ssa.Instruction) bool { return x == b }}
			w, _ := q.find()
			return w == nil
		}
		r.check(precedes(tag, ev["InHeader"][0]), key+"/TagRPC<InHeader", ev["InHeader"][0].Pos(), "TagRPC precedes InHeader", "InHeader can be emitted before TagRPC")
		r.check(precedes(ev["InHeader"][0], ev["Begin"][0]), key+"/InHeader<Begin", ev["Begin"][0].Pos(), "InHeader precedes Begin", "Begin can be emitted before InHeader")
		for i, h := range handlerCalls {
			r.check(precedes(ev["Begin"][0], h), fmt.Sprintf("%s/Begin<handler#%d", key, i+1), h.Pos(), "Begin precedes the handler invocation", "the handler can run before the Begin event")
		}
		for i, e := range ev["End"] {
			ok := atExit[e] // emitted when the function returns: after any handler invocation
			for _, h := range handlerCalls {
				if !atExit[e] && precedes(h, e) {
					ok = true
				}
			}
			r.check(ok, fmt.Sprintf("%s/handler<End#%d", key, i+1), e.Pos(), "a handler invocation precedes End", "End can be emitted before the handler ran")
		}
		// context of later events derives from TagRPC's result
		tagVal := tag.(ssa.Value)
		for en, ins := range ev {
			for i, in := range ins {
				ctx := in.(ssa.CallInstruction).Common().Args[0]
				from := false
				for _, o := range p.ctxAncestors(ctx) {
					if o == tagVal {
						from = true
					}
				}
				r.check(from, fmt.Sprintf("%s/ctx:%s#%d", key, en, i+1), in.Pos(), "event context descends from TagRPC's result",
					"the context passed to the "+en+" event does not descend from the one TagRPC returned")
			}
		}
	}
}

// ctxAncestors: values a context value derives from through context-deriving calls.
func (p *Program) ctxAncestors(v ssa.Value) []ssa.Value {
	seen := map[ssa.Value]bool{}
	var out []ssa.Value
	var walk func(v ssa.Value)
	walk = func(v ssa.Value) {
		for _, o := range p.origins(v, originOpts{}) {
			if seen[o] {
				continue
			}
			seen[o] = true
			out = append(out, o)
			var c *ssa.Call
			switch x := o.(type) {
			case *ssa.Call:
				c = x
			case *ssa.Extract:
				c, _ = x.Tuple.(*ssa.Call)
			}
			if c == nil {
				continue
			}
			if isCtxDeriving(calleeName(c)) && len(c.Call.Args) > 0 {
				// the parent context is the first context-typed argument
				for _, a := range c.Call.Args {
					if isContextType(a.Type()) {
						walk(a)
						break
					}
				}
			}
		}
	}
	walk(v)
	return out
}

func isContextType(t types.Type) bool { return isNamed(t, "context", "Context") }

func isCtxDeriving(n string) bool {
	switch n {
	case "context.WithCancel", "context.WithTimeout", "context.WithDeadline", "context.WithValue", "context.WithCancelCause", "context.WithoutCancel",
		"google.golang.org/grpc/metadata.NewIncomingContext", "google.golang.org/grpc/metadata.NewOutgoingContext",
		"google.golang.org/grpc/metadata.AppendToOutgoingContext",
		"google.golang.org/grpc.NewContextWithServerTransportStream",
		"(google.golang.org/grpc/stats.Handler).TagRPC", "(google.golang.org/grpc/stats.Handler).TagConn",
		"larking.io/larking.newIncomingContext":
		return true
	}
	return false
}

// sameAsNoHandlerReturn: rt lies behind a `statsHandler != nil` test whose other (no handler) edge leads straight to
// a return of the very same constant results.
func (p *Program) sameAsNoHandlerReturn(rt *ssa.Return) bool {
	fn := rt.Parent()
	found := false
	for _, b := range fn.Blocks {
		ifi := blockIf(b)
		if ifi == nil {
			continue
		}
		for succ := 0; succ < 2; succ++ {
			// the edge into the stats region …
			if !p.statsGuarded(b.Succs[succ]) || p.statsGuarded(b) || !b.Succs[succ].Dominates(rt.Block()) {
				continue
			}
			// … and the other edge: a block that only returns
			o := b.Succs[1-succ]
			for hop := 0; hop < 3 && o != nil; hop++ {
				// a block that does nothing but (run the defers and) return or jump on
				only := true
				for _, x := range o.Instrs[:len(o.Instrs)-1] {
					switch y := x.(type) {
					case *ssa.RunDefers:
					case *ssa.Store:
						// the spill of a constant result before the deferred calls run
						if _, isAlloc := y.Addr.(*ssa.Alloc); !isAlloc {
							only = false
						}
						if _, isConst := y.Val.(*ssa.Const); !isConst {
							only = false
						}
					case *ssa.UnOp:
						if _, isAlloc := y.X.(*ssa.Alloc); !isAlloc || y.Op != token.MUL {
							only = false
						}
					default:
						only = false
					}
				}
				if only && len(o.Instrs) > 0 {
					last := o.Instrs[len(o.Instrs)-1]
					if r0, ok := last.(*ssa.Return); ok {
						if len(r0.Results) != len(rt.Results) {
							return false
						}
						single := func(v ssa.Value) (*ssa.Const, bool) {
							// the value itself, or what the defer-spill cell holds at this return
							os := p.origins(v, originOpts{local: true})
							if len(os) != 1 {
								return nil, false
							}
							c, ok := os[0].(*ssa.Const)
							return c, ok
						}
						for i := range r0.Results {
							c0, ok0 := single(r0.Results[i])
							c1, ok1 := single(rt.Results[i])
							if !ok0 || !ok1 {
								return false
							}
							if (c0.Value == nil) != (c1.Value == nil) {
								return false
							}
							if c0.Value != nil && c0.Value.ExactString() != c1.Value.ExactString() {
								return false
							}
						}
						found = true
					}
					if _, isJump := last.(*ssa.Jump); isJump && len(o.Succs) == 1 {
						o = o.Succs[0]
						continue
					}
				}
				o = nil
			}
		}
	}
	return found
}

func ruleStatsPure(r *Run) {
	p := r.P
	reach := p.reachRequest()
	nRegions := 0
	for _, fn := range sortedFuncs(reach) {
		// collect stats-guarded blocks
		var blocks []*ssa.BasicBlock
		for _, b := range fn.Blocks {
			if p.statsGuarded(b) {
				blocks = append(blocks, b)
			}
		}
		if len(blocks) == 0 {
			continue
		}
		nRegions++
		key := shortFunc(fn) + "/stats-region"
		nbad := 0
		p.minLenScope = map[*ssa.Function]bool{}
		for _, g := range p.region(fn) {
			p.minLenScope[g] = true
		}
		for _, b := range blocks {
			for _, in := range b.Instrs {
				switch x := in.(type) {
				case *ssa.Return:
					// guard-clause form: `if sh == nil { return nil }; …stats…; return nil` - the function ends the
					// same way with and without a handler when the return on the no-handler edge yields the same constants
					if p.sameAsNoHandlerReturn(x) {
						continue
					}
					nbad++
					r.bad(key+"/return", in.Pos(), "a return inside a stats-only block: installing a stats handler changes the control flow of the RPC")
				case *ssa.Panic:
					nbad++
					r.bad(key+"/panic", in.Pos(), "a panic inside a stats-only block")
				case *ssa.Slice:
					// slicing with a non-zero constant low bound on a []byte whose length is not known to cover it
					if lo, ok := constInt(x.Low); ok && lo > 0 {
						if !p.minLenAtLeast(x.X, lo) {
							nbad++
							r.bad(key+"/slice", in.Pos(), "stats-only code slices a buffer at constant offset %d without knowing it is that long: with a stats handler installed a short message crashes the RPC (slice bounds out of range)", lo)
						}
					}
				case ssa.CallInstruction:
					n := calleeName(x)
					switch {
					case n == "larking.io/larking.setOutgoingHeader" || n == "larking.io/larking.setOutgoingTrailer" || n == "larking.io/larking.setOutgoingMetadata":
						if p.sameCallDominatesUnguarded(x) {
							continue // idempotent repetition of a call made unconditionally just before: the outcome is the same
						}
						nbad++
						r.bad(key+"/header-write", in.Pos(), "%s is called only when a stats handler is installed: the response headers differ with and without stats", shortName(n))
					case n == "(net/http.Header).Set" || n == "(net/http.Header).Add" || n == "(net/http.Header).Del":
						nbad++
						r.bad(key+"/header-write", in.Pos(), "response header is modified only when a stats handler is installed")
					case x.Common().IsInvoke() && (x.Common().Method.Name() == "Write" || x.Common().Method.Name() == "WriteHeader") && x.Common().Method.Pkg() != nil && (x.Common().Method.Pkg().Path() == "net/http" || x.Common().Method.Pkg().Path() == "io"):
						nbad++
						r.bad(key+"/body-write", in.Pos(), "response is written only when a stats handler is installed")
					}
				case *ssa.Store:
					// assignment to a stream field that steers the RPC
					if fa, ok := x.Addr.(*ssa.FieldAddr); ok {
						if owner := namedOf(fa.X.Type()); owner != nil && strings.HasPrefix(owner.Obj().Name(), "stream") {
							nbad++
							r.bad(key+"/state-write:"+fieldOfAddr(fa).Name(), in.Pos(), "stream state %s.%s is written only when a stats handler is installed", owner.Obj().Name(), fieldOfAddr(fa).Name())
						}
					}
				}
			}
		}
		// closures created in a stats-only block (the deferred End): their whole body is stats-only. A store into a
		// variable of the enclosing function that the function reads outside stats-only code (a named result, …)
		// lets the presence of a handler decide the RPC's outcome
		isStats := map[*ssa.BasicBlock]bool{}
		for _, b := range blocks {
			isStats[b] = true
		}
		for _, b := range blocks {
			for _, in := range b.Instrs {
				mc, ok := in.(*ssa.MakeClosure)
				if !ok {
					continue
				}
				body := mc.Fn.(*ssa.Function)
				for _, bf := range allFuncsDeep(body) {
					eachInstr(bf, func(x ssa.Instruction) {
						st, ok := x.(*ssa.Store)
						if !ok {
							return
						}
						al, ok := p.cellRoot(st.Addr).(*ssa.Alloc)
						if !ok || al.Parent() != fn {
							return
						}
						// read by fn outside stats-only blocks?
						readOutside := false
						eachInstr(fn, func(y ssa.Instruction) {
							if u, ok := y.(*ssa.UnOp); ok && u.Op == token.MUL && p.cellRoot(u.X) == ssa.Value(al) && !isStats[y.Block()] {
								readOutside = true
							}
						})
						if readOutside {
							nbad++
							r.bad(key+"/outcome-write:"+al.Comment, x.Pos(), "a closure that exists only when a stats handler is installed assigns %s, which %s reads outside stats-only code (its result / control flow): the RPC ends differently with and without a stats handler", al.Comment, shortFunc(fn))
						}
					})
				}
			}
		}
		// a value chosen by the presence of a handler and used by code that runs either way (`resp = wire` under
		// `if statsHandler != nil`, then `w: resp`): as a phi one of whose edges comes out of a stats-only block (or
		// straight from the stats test), or as a store into a local cell made in a stats-only block and read outside
		sf := p.StructField("muxOptions", "statsHandler")
		statsEdge := func(pred, succ *ssa.BasicBlock) bool {
			if isStats[pred] {
				return true
			}
			if ifi := blockIf(pred); ifi != nil && len(pred.Succs) == 2 && pred.Succs[0] != pred.Succs[1] {
				if pol, ok := p.statsTest(ifi.Cond, sf); ok {
					return (pol && pred.Succs[0] == succ) || (!pol && pred.Succs[1] == succ)
				}
			}
			return false
		}
		usedOutside := func(v ssa.Value) bool {
			refs := v.Referrers()
			if refs == nil {
				return false
			}
			for _, ref := range *refs {
				if _, isDbg := ref.(*ssa.DebugRef); isDbg {
					continue
				}
				if !isStats[ref.Block()] {
					return true
				}
			}
			return false
		}
		// grpc's stats contract: the context TagRPC / TagConn returns replaces the RPC's context
		isTagged := func(v ssa.Value) bool {
			os := p.origins(v, originOpts{local: true})
			if len(os) == 0 {
				return false
			}
			for _, o := range os {
				c, ok := o.(*ssa.Call)
				if !ok || !c.Call.IsInvoke() || (c.Call.Method.Name() != "TagRPC" && c.Call.Method.Name() != "TagConn") {
					return false
				}
			}
			return true
		}
		eachInstr(fn, func(x ssa.Instruction) {
			switch y := x.(type) {
			case *ssa.Phi:
				if isStats[y.Block()] {
					return
				}
				var statsVals, otherVals []ssa.Value
				for i, e := range y.Edges {
					if statsEdge(y.Block().Preds[i], y.Block()) {
						statsVals = append(statsVals, e)
					} else {
						otherVals = append(otherVals, e)
					}
				}
				if len(statsVals) == 0 || len(otherVals) == 0 || !usedOutside(y) {
					return
				}
				for _, sv := range statsVals {
					same := false
					for _, ov := range otherVals {
						if sv == ov || p.sameExpr(sv, ov, 0) {
							same = true
						}
					}
					if !same && !isTagged(sv) {
						nbad++
						r.bad(key+"/value-choice:"+y.Comment, y.Pos(), "the value of %s is chosen by whether a stats handler is installed and then used by code that runs either way: the RPC is served with a different object (writer, buffer, flag) when stats are on - a wrapper that hides http.Flusher, for one, stops streamed replies from being flushed", y.Comment)
						return
					}
				}
			case *ssa.Store:
				if !isStats[y.Block()] {
					return
				}
				al, ok := y.Addr.(*ssa.Alloc)
				if !ok || al.Parent() != fn || isTagged(y.Val) {
					return
				}
				readOutside := false
				eachInstr(fn, func(z ssa.Instruction) {
					if u, ok := z.(*ssa.UnOp); ok && u.Op == token.MUL && u.X == ssa.Value(al) && !isStats[z.Block()] {
						// the spill cell of a result (functions with defers return through one): what a return
						// inside stats-only code yields is the Return clause's subject above
						onlyReturned := u.Referrers() != nil && len(*u.Referrers()) > 0
						if onlyReturned {
							for _, ref := range *u.Referrers() {
								if _, isRet := ref.(*ssa.Return); !isRet {
									onlyReturned = false
								}
							}
						}
						if !onlyReturned {
							readOutside = true
						}
					}
				})
				for _, g := range allFuncsDeep(fn)[1:] {
					if p.statsGuardedClosure(g, isStats) {
						continue
					}
					eachInstr(g, func(z ssa.Instruction) {
						if u, ok := z.(*ssa.UnOp); ok && u.Op == token.MUL && p.cellRoot(u.X) == ssa.Value(al) {
							readOutside = true
						}
					})
				}
				if readOutside {
					nbad++
					r.bad(key+"/value-choice:"+al.Comment, y.Pos(), "%s is assigned only when a stats handler is installed and read by code that runs either way: the RPC is served with a different object when stats are on", al.Comment)
				}
			}
		})
		if nbad == 0 {
			r.ok(key, fn.Pos(), "%d stats-only blocks: no return, response write, stream-state write or unjustified slicing", len(blocks))
		}
	}
	if nRegions == 0 {
		r.undecided("stats-regions", token.NoPos, "no stats-guarded region found in request-reachable code")
	}
}

// sameCallDominatesUnguarded: an identical call (same callee, same argument values) that is not stats-guarded dominates c.
func (p *Program) sameCallDominatesUnguarded(c ssa.CallInstruction) bool {
	fn := c.Parent()
	found := false
	eachInstr(fn, func(in ssa.Instruction) {
		o, ok := in.(ssa.CallInstruction)
		if !ok || in == c.(ssa.Instruction) || calleeName(o) != calleeName(c) {
			return
		}
		if p.statsGuarded(in.Block()) || !instrDominates(in, c.(ssa.Instruction)) {
			return
		}
		a, b := o.Common().Args, c.Common().Args
		if len(a) != len(b) {
			return
		}
		for i := range a {
			if !p.sameExpr(a[i], b[i], 0) {
				return
			}
		}
		found = true
	})
	return found
}

// sameExpr: structurally the same pure expression (same SSA value, or same pure call/load on the same operands).
func (p *Program) sameExpr(a, b ssa.Value, depth int) bool {
	if a == b || p.sameValue(a, b) {
		return true
	}
	if depth > 4 {
		return false
	}
	switch x := a.(type) {
	case *ssa.Call:
		y, ok := b.(*ssa.Call)
		if !ok || calleeName(x) != calleeName(y) || len(x.Call.Args) != len(y.Call.Args) {
			return false
		}
		switch calleeName(x) {
		case "(net/http.ResponseWriter).Header":
		default:
			return false
		}
		if x.Call.IsInvoke() && !p.sameExpr(x.Call.Value, y.Call.Value, depth+1) {
			return false
		}
		for i := range x.Call.Args {
			if !p.sameExpr(x.Call.Args[i], y.Call.Args[i], depth+1) {
				return false
			}
		}
		return true
	case *ssa.UnOp:
		y, ok := b.(*ssa.UnOp)
		if !ok || x.Op != token.MUL || y.Op != token.MUL {
			return false
		}
		fx, ok1 := x.X.(*ssa.FieldAddr)
		fy, ok2 := y.X.(*ssa.FieldAddr)
		return ok1 && ok2 && fx.Field == fy.Field && p.sameExpr(fx.X, fy.X, depth+1)
	}
	return false
}

// minLenAtLeast: forward min-length fact for a byte slice value: is len(v) >= k provable from its construction?
func (p *Program) minLenAtLeast(v ssa.Value, k int64) bool {
	for _, o := range p.origins(v, originOpts{throughConvert: true, throughAssert: true}) {
		// pointer to an array (the backing store of a composite literal): the length is in the type
		if pt, ok := o.Type().Underlying().(*types.Pointer); ok {
			if arr, ok := pt.Elem().Underlying().(*types.Array); ok {
				if arr.Len() < k {
					return false
				}
				continue
			}
		}
		switch x := o.(type) {
		case *ssa.Slice:
			// x[:h] with constant h >= k  (len = h - lo)
			lo := int64(0)
			if x.Low != nil {
				l, ok := constInt(x.Low)
				if !ok {
					return false
				}
				lo = l
			}
			if x.High == nil {
				if !p.minLenAtLeast(x.X, k+lo) {
					return false
				}
				continue
			}
			h, ok := constInt(x.High)
			if !ok {
				// b[:n+5] style: high = something + const >= k
				if bo, ok := x.High.(*ssa.BinOp); ok && bo.Op == token.ADD {
					if c, ok := constInt(bo.Y); ok && c-lo >= k && p.nonNegative(bo.X) {
						continue
					}
				}
				// the bound is a helper's parameter (resize(b, n)): every value passed for it in the region under
				// judgement is a constant >= k or something non-negative plus such a constant
				if par, isPar := x.High.(*ssa.Parameter); isPar && lo == 0 && p.minLenScope != nil {
					helper := par.Parent()
					idx := -1
					for i, fp := range helper.Params {
						if fp == par {
							idx = i
						}
					}
					all, some := true, false
					for g := range p.minLenScope {
						eachInstr(g, func(in ssa.Instruction) {
							c, ok := in.(ssa.CallInstruction)
							if !ok || c.Common().IsInvoke() || c.Common().StaticCallee() != helper || idx < 0 || idx >= len(c.Common().Args) {
								return
							}
							some = true
							a := c.Common().Args[idx]
							if v, isC := constInt(a); isC && v >= k {
								return
							}
							if bo, isB := a.(*ssa.BinOp); isB && bo.Op == token.ADD {
								if v, isC := constInt(bo.Y); isC && v >= k && p.nonNegative(bo.X) {
									return
								}
								if v, isC := constInt(bo.X); isC && v >= k && p.nonNegative(bo.Y) {
									return
								}
							}
							all = false
						})
					}
					if all && some {
						continue
					}
				}
				return false
			}
			if h-lo < k {
				return false
			}
		case *ssa.Call:
			// append-like results are at least as long as their first argument
			n := calleeName(x)
			if n == "builtin.append" {
				if !p.minLenAtLeast(x.Call.Args[0], k) {
					return false
				}
				continue
			}
			return false
		case *ssa.Extract:
			// MarshalAppend(b, …) returns b + data: at least len(b)
			if c, ok := x.Tuple.(*ssa.Call); ok && x.Index == 0 && c.Common().Method != nil && c.Common().Method.Name() == "MarshalAppend" {
				if !p.minLenAtLeast(c.Common().Args[0], k) {
					return false
				}
				continue
			}
			return false
		default:
			return false
		}
	}
	return true
}

func (p *Program) nonNegative(v ssa.Value) bool {
	v = p.stripConvAll(v)
	if c, ok := v.(*ssa.Call); ok {
		n := calleeName(c)
		return n == "builtin.len" || n == "builtin.cap" || n == "(*bytes.Buffer).Len"
	}
	return false
}

// ---------------------------------------------------------------------------
// interceptors
// ---------------------------------------------------------------------------

const (
	nOptsUnary  = "(*larking.io/larking.muxOptions).unary"
	nOptsStream = "(*larking.io/larking.muxOptions).stream"
)

// handlerClosures: the closures stored in handler.handler.
func (p *Program) handlerClosures() []*ssa.Function {
	hf := p.StructField("handler", "handler")
	var out []*ssa.Function
	for _, fn := range p.ModuleFuncs() {
		eachInstr(fn, func(in ssa.Instruction) {
			st, ok := in.(*ssa.Store)
			if !ok {
				return
			}
			fa, ok := st.Addr.(*ssa.FieldAddr)
			if !ok || fieldOfAddr(fa) != hf {
				return
			}
			for _, o := range p.origins(st.Val, defaultOrigin) {
				switch x := o.(type) {
				case *ssa.MakeClosure:
					if f, ok := x.Fn.(*ssa.Function); ok {
						out = append(out, f)
					}
				case *ssa.Function:
					out = append(out, x)
				}
			}
		})
	}
	return dedupFuncs(out)
}

func (p *Program) isMediated(in ssa.Instruction) (bool, string) {
	c, ok := in.(ssa.CallInstruction)
	if !ok {
		return false, ""
	}
	n := calleeName(c)
	if n == nOptsUnary || n == nOptsStream {
		return true, shortName(n)
	}
	// generated method handler: d.Handler(srv, ctx, dec, interceptor) with interceptor = opts.unaryInterceptor
	if f := calledField(c); f != nil && f.Name() == "Handler" && len(c.Common().Args) == 4 {
		ui := p.StructField("muxOptions", "unaryInterceptor")
		for _, o := range p.origins(c.Common().Args[3], originOpts{}) {
			if loadsField(o, ui) {
				return true, "MethodDesc.Handler(…, opts.unaryInterceptor)"
			}
		}
	}
	return false, ""
}

func ruleICOnce(r *Run) {
	p := r.P
	hcs := p.handlerClosures()
	if len(hcs) < 4 {
		r.undecided("handler closures", token.NoPos, "found %d closures stored in handler.handler, expected the 4 of registerService and createConnHandler", len(hcs))
	}
	for _, fn := range hcs {
		key := shortFunc(fn)
		med := map[ssa.Instruction]bool{}
		eachInstr(fn, func(in ssa.Instruction) {
			if ok, _ := p.isMediated(in); ok {
				med[in] = true
			}
		})
		ei := errResultIndex(fn)
		var hitRet ssa.Instruction
		q := pathQuery{fn: fn, barrier: func(x ssa.Instruction) bool { return med[x] },
			target: func(x ssa.Instruction) bool {
				rt, ok := x.(*ssa.Return)
				if !ok {
					return false
				}
				if ei >= 0 && p.returnUnderErrTest(rt) {
					return false // error return before the RPC ran
				}
				hitRet = x
				return true
			}}
		if w, _ := q.find(); w != nil {
			r.bad(key+"/mediated", hitRet.Pos(), "a path reaches a non-error return without any interceptor-mediated invocation (opts.stream / opts.unary / generated handler given opts.unaryInterceptor): the RPC bypasses the configured interceptor (%s)", p.describePath(w))
		} else {
			r.ok(key+"/mediated", fn.Pos(), "every non-error return follows an interceptor-mediated invocation (%d site(s))", len(med))
		}
		twice := false
		for m := range med {
			if w, _ := (pathQuery{fn: fn, start: m, target: func(x ssa.Instruction) bool { return med[x] }}).find(); w != nil {
				twice = true
				r.bad(key+"/once", m.Pos(), "a second interceptor-mediated invocation is reachable after the first: the interceptor sees the RPC twice")
			}
		}
		if !twice && len(med) > 0 {
			r.ok(key+"/once", fn.Pos(), "no path passes two mediated invocations")
		}
		// what the interceptor returns is what the client gets: a reply sent by the closure is the mediated
		// invocation's own result, not a converted, re-made or substituted message
		for m := range med {
			mc, ok := m.(*ssa.Call)
			if !ok {
				continue
			}
			if tup, isTup := mc.Type().(*types.Tuple); !isTup || tup.Len() != 2 {
				continue
			}
			nSend, badSend := 0, ""
			var sendPos token.Pos
			p.eachInstrRegion(fn, func(_ *ssa.Function, in ssa.Instruction) {
				c, ok := in.(ssa.CallInstruction)
				if !ok || !c.Common().IsInvoke() || c.Common().Method.Name() != "SendMsg" || len(c.Common().Args) != 1 {
					return
				}
				nSend++
				for _, o := range p.origins(c.Common().Args[0], originOpts{}) {
					if ex, isEx := o.(*ssa.Extract); isEx && ex.Tuple == ssa.Value(mc) && ex.Index == 0 {
						continue
					}
					badSend = describeValue(o)
					if n := sourceCall(o); n != "" {
						badSend = "the result of " + shortName(n)
					}
					sendPos = in.Pos()
				}
			})
			if nSend > 0 {
				r.check(badSend == "", key+"/reply-unchanged", func() token.Pos {
					if sendPos != token.NoPos {
						return sendPos
					}
					return m.Pos()
				}(), "the reply sent is the mediated invocation's result itself",
					"the message sent to the client can be "+badSend+" instead of the reply the interceptor-mediated invocation returned: an interceptor that answers with its own message is overruled")
			}
		}
		// direct invocation of a user handler: dynamic call of a grpc.UnaryHandler / grpc.StreamHandler / MethodDesc.Handler that is not mediated
		eachInstr(fn, func(in ssa.Instruction) {
			c, ok := in.(ssa.CallInstruction)
			if !ok || c.Common().IsInvoke() || staticCallee(c) != nil {
				return
			}
			if _, isB := c.Common().Value.(*ssa.Builtin); isB {
				return
			}
			if med[in] {
				return
			}
			t := typeString(c.Common().Value.Type())
			if strings.Contains(t, "grpc.UnaryHandler") || strings.Contains(t, "grpc.StreamHandler") || (calledField(c) != nil && calledField(c).Name() == "Handler") {
				r.bad(key+"/direct-handler-call", in.Pos(), "the user handler (%s) is invoked directly, not through the configured interceptor", t)
			}
		})
	}
}

func ruleICPassthru(r *Run) {
	p := r.P
	for _, spec := range []struct{ name, field string }{{"unary", "unaryInterceptor"}, {"stream", "streamInterceptor"}} {
		fn := p.Method("muxOptions", spec.name)
		if fn == nil {
			r.missing("method (*muxOptions)." + spec.name)
			continue
		}
		key := shortFunc(fn)
		f := p.StructField("muxOptions", spec.field)
		var icCall, plainCall *ssa.Call
		eachInstr(fn, func(in ssa.Instruction) {
			c, ok := in.(*ssa.Call)
			if !ok || c.Common().IsInvoke() || staticCallee(c) != nil {
				return
			}
			isIC := false
			for _, o := range p.origins(c.Call.Value, originOpts{}) {
				if loadsField(o, f) {
					isIC = true
				}
			}
			if isIC {
				icCall = c
			} else if par, ok := c.Call.Value.(*ssa.Parameter); ok && par.Parent() == fn {
				plainCall = c
			}
		})
		if icCall == nil || plainCall == nil {
			r.bad(key+"/shape", fn.Pos(), "expected one call of the configured interceptor and one direct call of the handler parameter (interceptor call: %v, handler call: %v)", icCall != nil, plainCall != nil)
			continue
		}
		// interceptor called iff non-nil
		guarded := false
		for _, g := range guardsOf(icCall.Block()) {
			if bo, ok := g.Cond.(*ssa.BinOp); ok && isNilConst(bo.Y) && ((bo.Op == token.NEQ && g.True) || (bo.Op == token.EQL && !g.True)) {
				for _, o := range p.origins(bo.X, originOpts{}) {
					if loadsField(o, f) {
						guarded = true
					}
				}
			}
		}
		plainOnNil := false
		for _, g := range guardsOf(plainCall.Block()) {
			if bo, ok := g.Cond.(*ssa.BinOp); ok && isNilConst(bo.Y) && ((bo.Op == token.NEQ && !g.True) || (bo.Op == token.EQL && g.True)) {
				for _, o := range p.origins(bo.X, originOpts{}) {
					if loadsField(o, f) {
						plainOnNil = true
					}
				}
			}
		}
		r.check(guarded && plainOnNil, key+"/iff-non-nil", icCall.Pos(), "the interceptor is called iff it is non-nil; otherwise the handler is called directly",
			"the interceptor call is not exactly on the non-nil edge (or the direct handler call not exactly on the nil edge): an RPC can skip the interceptor or call a nil one")
		// arguments are the wrapper's own parameters, in order
		argsOK := true
		params := fn.Params[1:] // skip receiver
		for i, a := range icCall.Call.Args {
			if i >= len(params) || a != ssa.Value(params[i]) {
				argsOK = false
			}
		}
		r.check(argsOK && len(icCall.Call.Args) == len(params), key+"/args", icCall.Pos(), "the interceptor receives the wrapper's arguments unchanged (info and handler included)",
			"the interceptor does not receive the wrapper's own arguments in order: it sees a different request, info or handler")
		// results returned unchanged
		resOK := true
		eachInstr(fn, func(in ssa.Instruction) {
			rt, ok := in.(*ssa.Return)
			if !ok {
				return
			}
			for _, res := range rt.Results {
				for _, o := range p.origins(res, originOpts{}) {
					var c *ssa.Call
					switch x := o.(type) {
					case *ssa.Call:
						c = x
					case *ssa.Extract:
						c, _ = x.Tuple.(*ssa.Call)
					}
					if c != icCall && c != plainCall {
						resOK = false
					}
				}
			}
		})
		r.check(resOK, key+"/results", fn.Pos(), "returns the interceptor's (or handler's) results unchanged", "the wrapper's results are not exactly those of the interceptor / handler call: what the interceptor returns is not what the client gets")
	}
}

func ruleRoleAgree(r *Run) {
	p := r.P
	type want struct{ method, field string }
	roles := map[string]want{
		"IsClientStream": {"IsStreamingClient", "ClientStreams"},
		"ClientStreams":  {"IsStreamingClient", "ClientStreams"},
		"IsServerStream": {"IsStreamingServer", "ServerStreams"},
		"ServerStreams":  {"IsStreamingServer", "ServerStreams"},
	}
	n := 0
	for _, fn := range p.ModuleFuncs() {
		site := map[string]int{}
		eachInstr(fn, func(in ssa.Instruction) {
			st, ok := in.(*ssa.Store)
			if !ok {
				return
			}
			fa, ok := st.Addr.(*ssa.FieldAddr)
			if !ok {
				return
			}
			owner := namedOf(fa.X.Type())
			if owner == nil || owner.Obj().Pkg() == nil {
				return
			}
			on := owner.Obj().Pkg().Name() + "." + owner.Obj().Name()
			if on != "grpc.StreamDesc" && on != "grpc.StreamServerInfo" && on != "stats.Begin" {
				return
			}
			fname := fieldOfAddr(fa).Name()
			w, ok := roles[fname]
			if !ok {
				return
			}
			n++
			site[on+"."+fname]++
			key := fmt.Sprintf("%s/%s.%s#%d", shortFunc(fn), on, fname, site[on+"."+fname])
			good := true
			what := ""
			for _, o := range p.origins(st.Val, originOpts{}) {
				switch x := o.(type) {
				case *ssa.Call:
					if x.Common().IsInvoke() && x.Common().Method.Name() == w.method {
						continue
					}
					what = "call " + shortName(calleeName(x))
				case *ssa.UnOp:
					if f := loadedField(x); f != nil && f.Name() == w.field {
						continue
					}
					if f := loadedField(x); f != nil {
						what = "field " + f.Name()
					}
				case *ssa.Const:
					what = "constant " + x.String()
				default:
					what = describeValue(o)
				}
				good = false
			}
			r.check(good, key, in.Pos(), fname+" is fed by the "+w.method+"/"+w.field+" bit of the method",
				fmt.Sprintf("%s is fed by %s, not by the method's %s bit: interceptors / stats handlers / the backend see the wrong streaming shape", fname, what, w.method))
		})
	}
	if n == 0 {
		r.undecided("streaming flags", token.NoPos, "no StreamDesc/StreamServerInfo/Begin streaming flag store found")
	}
	// FullMethod of the info structs = the handler's method key
	hm := p.StructField("handler", "method")
	for _, fn := range p.ModuleFuncs() {
		eachInstr(fn, func(in ssa.Instruction) {
			st, ok := in.(*ssa.Store)
			if !ok {
				return
			}
			fa, ok := st.Addr.(*ssa.FieldAddr)
			if !ok || fieldOfAddr(fa).Name() != "FullMethod" {
				return
			}
			owner := namedOf(fa.X.Type())
			if owner == nil || owner.Obj().Pkg() == nil || owner.Obj().Pkg().Name() != "grpc" {
				return
			}
			// the same value must be stored into handler.method in the enclosing function tree
			top := fn
			for top.Parent() != nil {
				top = top.Parent()
			}
			same := false
			src := p.origins(st.Val, originOpts{})
			// in the function that builds the handler (the info struct may be filled by a helper that returns the closure)
			for _, owner := range p.regionOwners(top) {
				for _, a := range p.fieldValuesIn(owner, hm) {
					for _, b := range src {
						if a == b {
							same = true
						}
					}
				}
			}
			r.check(same, shortFunc(fn)+"/"+owner.Obj().Name()+".FullMethod", in.Pos(), "FullMethod is the value registered as the handler's method key",
				"FullMethod is not the value registered as the handler's method key: interceptors see another method name than the one dispatched")
		})
	}
}

// statsGuardedClosure: g (or an enclosing closure) is created in one of the given stats-only blocks.
func (p *Program) statsGuardedClosure(g *ssa.Function, isStats map[*ssa.BasicBlock]bool) bool {
	for f := g; f != nil && f.Parent() != nil; f = f.Parent() {
		made := false
		guarded := true
		eachInstr(f.Parent(), func(in ssa.Instruction) {
			if mc, ok := in.(*ssa.MakeClosure); ok && mc.Fn == ssa.Value(f) {
				made = true
				if !isStats[in.Block()] && !p.statsGuarded(in.Block()) {
					guarded = false
				}
			}
		})
		if made && guarded {
			return true
		}
	}
	return false
}
