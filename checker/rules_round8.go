package main

import (
	"fmt"
	"go/token"
	"go/types"
	"strings"

	"golang.org/x/tools/go/ssa"
)

// Rules added after the eighth round of seeded changes (DESIGN.md section 10.6).

func init() {
	register(&Rule{Name: "GZIP-WHOLE-BODY", Floor: 1,
		Doc: "the gzip decompressor reads the whole compressed body: no (*gzip.Reader).Multistream(false) on the readers Decompress hands out (a sender that compresses in pieces produces several gzip members; stopping at the first trailer silently drops the rest of the message)",
		Run: ruleGzipWholeBody})
	register(&Rule{Name: "STATS-MD-COPY", Floor: 2,
		Doc: "metadata placed into a stats event (InHeader.Header, OutHeader.Header, OutTrailer.Trailer, …) is a copy (MD.Copy / Join / New), never the map the RPC itself goes on using: a stats handler that redacts or edits its event would change what interceptors and the handler see - installing a stats handler must not change an RPC's outcome",
		Run: ruleStatsMDCopy})
	register(&Rule{Name: "CALL-FRESH-MESSAGE", Floor: 3,
		Doc: "the messages a proxy closure receives into and sends on (Invoke reply, RecvMsg/SendMsg arguments) are made inside that closure, once per call or per iteration: a message made in the enclosing function is shared by every call of the method, and overlapping calls read each other's replies",
		Run: ruleCallFreshMessage})
	register(&Rule{Name: "DONE-BEFORE-WRITE", Floor: 1,
		Doc: "streamGRPC.SendMsg asks whether the call is done (isDone / the context) before it writes a frame, on every path to the write: checked only after a failed write, a Send after the client cancelled reports success as long as the bytes fit the response buffer",
		Run: ruleDoneBeforeWrite})
	register(&Rule{Name: "TOKEN-LITERAL-TEXT", Floor: 1,
		Doc: "a token the registration code makes itself (the '*' of a bare {field}) carries the text of its kind: trie nodes of variables are named by the concatenated token texts, so an empty text puts {field} and {field=*} into different nodes and a conflicting binding of the same paths goes unnoticed",
		Run: ruleTokenLiteralText})
	register(&Rule{Name: "SCAN-INDEX-GUARDED", Floor: 1,
		Doc: "the byte the JSON scanner reads (b[i]) is read only where i < len(b) holds for that very slice value on every path - the refill is a loop that repeats until enough bytes are there, not a single Read (an io.Reader may return 0, nil)",
		Run: ruleScanIndexGuarded})
}

func ruleGzipWholeBody(r *Run) {
	p := r.P
	n, bad := 0, 0
	for _, fn := range p.ModuleFuncs() {
		eachInstr(fn, func(in ssa.Instruction) {
			c, ok := in.(ssa.CallInstruction)
			if !ok {
				return
			}
			switch calleeName(c) {
			case "compress/gzip.NewReader", "(*compress/gzip.Reader).Reset":
				n++
			case "(*compress/gzip.Reader).Multistream":
				if len(c.Common().Args) == 2 {
					if k, isC := c.Common().Args[1].(*ssa.Const); isC && k.Value != nil && k.Value.String() == "false" {
						bad++
						r.bad(fmt.Sprintf("%s/multistream-off#%d", shortFunc(fn), bad), in.Pos(), "the gzip reader is switched to single-member mode: a compressed body made of several gzip members is decoded only up to the first trailer and the rest of the message is dropped without an error")
					}
				}
			}
		})
	}
	// … and the decompressed message is read to its end, not for a byte count taken from somewhere else (the size
	// field of a gzip trailer describes the last member only)
	for _, fn := range p.ModuleFuncs() {
		fn := fn
		var dec []ssa.Value
		eachInstr(fn, func(in ssa.Instruction) {
			if c, ok := in.(*ssa.Call); ok && c.Call.IsInvoke() && c.Call.Method.Name() == "Decompress" {
				if ex := extractOf(c, 0); ex != nil {
					dec = append(dec, ex)
				}
			}
		})
		if len(dec) == 0 {
			continue
		}
		eachInstr(fn, func(in ssa.Instruction) {
			c, ok := in.(*ssa.Call)
			if !ok {
				return
			}
			switch calleeName(c) {
			case "io.CopyN", "io.ReadFull", "io.ReadAtLeast":
			default:
				return
			}
			for _, a := range c.Call.Args {
				for _, o := range p.origins(a, originOpts{local: true, throughConvert: true, throughAssert: true}) {
					for _, d := range dec {
						if o == d {
							bad++
							r.bad(fmt.Sprintf("%s/fixed-count-read#%d", shortFunc(fn), bad), in.Pos(), "the decompressed message is read for a fixed number of bytes (%s) instead of to the end of the stream: where that count comes from the compressed data itself (the size field of the gzip trailer) a frame made of several gzip members is cut to the size of its last member - a truncated or rejected message", shortName(calleeName(c)))
						}
					}
				}
			}
		})
	}
	if n == 0 {
		r.undecided("gzip readers", token.NoPos, "no gzip reader construction found")
	} else if bad == 0 {
		r.ok("gzip readers/whole-body", token.NoPos, "%d gzip reader constructions/resets, none limited to a single member", n)
	}
}

func ruleStatsMDCopy(r *Run) {
	p := r.P
	n := 0
	site := map[string]int{}
	for _, fn := range p.ModuleFuncs() {
		eachInstr(fn, func(in ssa.Instruction) {
			st, ok := in.(*ssa.Store)
			if !ok {
				return
			}
			fa, ok := st.Addr.(*ssa.FieldAddr)
			if !ok || !isMDType(fieldOfAddr(fa).Type()) {
				return
			}
			owner := namedOf(fa.X.Type())
			if pt, isPtr := fa.X.Type().Underlying().(*types.Pointer); isPtr {
				owner = namedOf(pt.Elem())
			}
			if owner == nil || owner.Obj().Pkg() == nil || owner.Obj().Pkg().Path() != statsPkg {
				return
			}
			n++
			k := shortFunc(fn) + "/" + owner.Obj().Name() + "." + fieldOfAddr(fa).Name()
			site[k]++
			key := fmt.Sprintf("%s#%d", k, site[k])
			bad := ""
			for _, o := range p.origins(st.Val, originOpts{}) {
				if c, isCall := o.(*ssa.Call); isCall {
					switch calleeName(c) {
					case "(google.golang.org/grpc/metadata.MD).Copy", "google.golang.org/grpc/metadata.Join", "google.golang.org/grpc/metadata.New", "google.golang.org/grpc/metadata.Pairs":
						continue
					}
					bad = "the result of " + shortName(calleeName(c))
					continue
				}
				if isNilConst(o) {
					continue
				}
				bad = describeValue(o)
			}
			r.check(bad == "", key, in.Pos(), "the event carries a copy of the metadata",
				fmt.Sprintf("the stats event carries %s itself, not a copy: a stats handler editing its event edits the metadata the RPC goes on using", bad))
		})
	}
	if n == 0 {
		r.undecided("stats events with metadata", token.NoPos, "no metadata field of a stats event is assigned")
	}
}

func ruleCallFreshMessage(r *Run) {
	p := r.P
	n := 0
	for _, g := range p.proxyClosures() {
		// the closure that runs per call: g or, for helpers, whatever; a message is fresh when made in g's own tree
		inTree := map[*ssa.Function]bool{}
		for _, f := range p.region(g) {
			inTree[f] = true
		}
		site := 0
		p.eachInstrRegion(g, func(f *ssa.Function, in ssa.Instruction) {
			c, ok := in.(ssa.CallInstruction)
			if !ok {
				return
			}
			var msgs []ssa.Value
			switch {
			case c.Common().IsInvoke() && (c.Common().Method.Name() == "RecvMsg" || c.Common().Method.Name() == "SendMsg") && len(c.Common().Args) == 1:
				msgs = append(msgs, c.Common().Args[0])
			case calleeName(c) == "(*google.golang.org/grpc.ClientConn).Invoke" && len(c.Common().Args) >= 5:
				msgs = append(msgs, c.Common().Args[3], c.Common().Args[4])
			default:
				return
			}
			for _, m := range msgs {
				for _, o := range p.origins(m, defaultOrigin) {
					mk, ok := o.(*ssa.Call)
					if !ok || !strings.HasSuffix(calleeName(mk), "dynamicpb.NewMessage") {
						continue
					}
					n++
					site++
					key := fmt.Sprintf("%s/message#%d", shortFunc(g), site)
					owner := mk.Parent()
					r.check(inTree[owner] && !isAncestor(owner, g), key, in.Pos(), "the message is made inside the per-call closure",
						fmt.Sprintf("the message handed to %s is made in %s, outside the closure that runs per call: every call of the method shares it, and overlapping calls overwrite each other's message", shortName(calleeName(c)), shortFunc(owner)))
				}
			}
		})
	}
	if n == 0 {
		r.undecided("proxy messages", token.NoPos, "no dynamicpb message used by a proxy closure found")
	}
}

// isAncestor: a is a proper lexical ancestor of f.
func isAncestor(a, f *ssa.Function) bool {
	for x := f.Parent(); x != nil; x = x.Parent() {
		if x == a {
			return true
		}
	}
	return false
}

func ruleDoneBeforeWrite(r *Run) {
	p := r.P
	fn := p.Method("streamGRPC", "SendMsg")
	if fn == nil {
		r.missing("method (*streamGRPC).SendMsg")
		return
	}
	isDoneCheck := func(in ssa.Instruction) bool {
		c, ok := in.(ssa.CallInstruction)
		if !ok {
			return false
		}
		switch calleeName(c) {
		case "(*larking.io/larking.streamGRPC).isDone":
			return true
		}
		if c.Common().IsInvoke() && c.Common().Method.Name() == "Err" && strings.HasSuffix(typeString(c.Common().Value.Type()), "context.Context") {
			return true
		}
		return p.callMust(c, func(x ssa.Instruction) bool {
			cc, ok := x.(ssa.CallInstruction)
			return ok && calleeName(cc) == "(*larking.io/larking.streamGRPC).isDone"
		})
	}
	wF := p.StructField("streamGRPC", "w")
	n := 0
	var hit ssa.Instruction
	isWrite := func(in ssa.Instruction) bool {
		c, ok := in.(ssa.CallInstruction)
		if !ok || !c.Common().IsInvoke() || c.Common().Method.Name() != "Write" {
			return false
		}
		for _, o := range p.origins(c.Common().Value, originOpts{}) {
			if loadsField(o, wF) {
				return true
			}
		}
		return false
	}
	eachInstr(fn, func(in ssa.Instruction) {
		if isWrite(in) {
			n++
		}
	})
	if n == 0 {
		r.undecided("(*streamGRPC).SendMsg/write", fn.Pos(), "no write to the response found")
		return
	}
	q := pathQuery{fn: fn, barrier: isDoneCheck, target: func(in ssa.Instruction) bool {
		if isWrite(in) {
			hit = in
			return true
		}
		return false
	}}
	if w, _ := q.find(); w != nil {
		r.bad("(*streamGRPC).SendMsg/done-checked-before-write", hit.Pos(), "a frame can be written without the call having been asked whether it is done (%s): after a cancel the Send reports success while the bytes only reach a buffer", p.describePath(w))
	} else {
		r.ok("(*streamGRPC).SendMsg/done-checked-before-write", fn.Pos(), "every path to a response write passes the done check")
	}
}

func ruleTokenLiteralText(r *Run) {
	p := r.P
	scope := p.Lark.Types.Scope()
	text := map[int64]string{}
	names := map[int64]string{}
	for name, t := range map[string]string{"tokenSlash": "/", "tokenStar": "*", "tokenStarStar": "**", "tokenVariableStart": "{", "tokenVariableEnd": "}", "tokenEqual": "=", "tokenDot": ".", "tokenVerb": ":"} {
		if c, ok := scope.Lookup(name).(*types.Const); ok {
			if k, ok := constToInt(c.Val()); ok {
				text[k] = t
				names[k] = name
			}
		}
	}
	tokT := p.NamedType("token")
	_ = tokT
	typF, valF := p.StructField("token", "typ"), p.StructField("token", "val")
	if tokT == nil || typF == nil || valF == nil || len(text) == 0 {
		r.missing("type token / its fields / the token kind constants")
		return
	}
	n := 0
	for _, fn := range p.ModuleFuncs() {
		site := 0
		eachInstr(fn, func(in ssa.Instruction) {
			// a literal: the typ field of some token object (a variable, or an element of a tokens{…} literal)
			// stored from a constant
			st, ok := in.(*ssa.Store)
			if !ok {
				return
			}
			fa, ok := st.Addr.(*ssa.FieldAddr)
			if !ok || fieldOfAddr(fa) != typF {
				return
			}
			kind, isC := constInt(st.Val)
			if !isC {
				return
			}
			want, fixed := text[kind]
			if !fixed {
				return
			}
			base := fa.X
			var val ssa.Value
			hasVal := false
			if base.Referrers() != nil {
				for _, ref := range *base.Referrers() {
					fa2, ok := ref.(*ssa.FieldAddr)
					if !ok || fieldOfAddr(fa2) != valF || fa2.Referrers() == nil {
						continue
					}
					for _, r2 := range *fa2.Referrers() {
						if st2, ok := r2.(*ssa.Store); ok {
							val, hasVal = st2.Val, true
						}
					}
				}
			}
			n++
			site++
			key := fmt.Sprintf("%s/token-literal:%s#%d", shortFunc(fn), names[kind], site)
			got, isConst := "", false
			if hasVal {
				got, isConst = constString(val)
			}
			switch {
			case !hasVal:
				r.bad(key, st.Pos(), "a %s token is made without its text %q: the variable node it belongs to is named by the concatenated token texts, so this spelling and the explicit one end up in different nodes and conflicting bindings are not detected", names[kind], want)
			case isConst && got != want:
				r.bad(key, st.Pos(), "a %s token is made with the text %q, its kind's text is %q", names[kind], got, want)
			default:
				r.ok(key, st.Pos(), "made with the text of its kind (or a text taken from the input)")
			}
		})
	}
	if n == 0 {
		r.undecided("token literals", token.NoPos, "no token literal of a fixed-text kind found outside the lexer")
	}
}

func ruleScanIndexGuarded(r *Run) {
	p := r.P
	fn := p.Method("CodecJSON", "ReadNext")
	if fn == nil {
		r.missing("method (CodecJSON).ReadNext")
		return
	}
	n := 0
	p.eachInstrRegion(fn, func(g *ssa.Function, in ssa.Instruction) {
		u, ok := in.(*ssa.UnOp)
		if !ok || u.Op != token.MUL {
			return
		}
		ia, ok := u.X.(*ssa.IndexAddr)
		if !ok {
			return
		}
		if bt, ok := u.Type().Underlying().(*types.Basic); !ok || bt.Kind() != types.Uint8 {
			return
		}
		if _, isSlice := ia.X.Type().Underlying().(*types.Slice); !isSlice {
			return
		}
		if _, isConst := ia.Index.(*ssa.Const); isConst {
			return
		}
		n++
		key := fmt.Sprintf("%s/byte-read#%d", shortFunc(g), n)
		var judge func(sl ssa.Value, blk *ssa.BasicBlock, edge *guardFact, depth int) bool
		judge = func(sl ssa.Value, blk *ssa.BasicBlock, edge *guardFact, depth int) bool {
			inRange := func(f guardFact) bool {
				x, y, op, ok := f.cmp()
				if !ok {
					return false
				}
				isLen := func(v ssa.Value) bool {
					c, ok := v.(*ssa.Call)
					return ok && calleeName(c) == "builtin.len" && len(c.Call.Args) == 1 && (c.Call.Args[0] == sl || p.sameValue(c.Call.Args[0], sl))
				}
				if x == ia.Index && isLen(y) && op == token.LSS {
					return true
				}
				if y == ia.Index && isLen(x) && op == token.GTR {
					return true
				}
				return false
			}
			established := p.guardedInEveryContext(blk, inRange)
			if edge != nil && inRange(*edge) {
				established = true
			}
			if !established {
				// the refill is a helper's job (buf, err = readThrough(buf, r, pos); if err != nil { return }): the slice
				// read is the helper's result, used only where its error is nil, and the helper returns a nil error only
				// where its index parameter is below the length of the slice it returns
				for _, o := range p.origins(sl, originOpts{local: true}) {
					ex, ok := o.(*ssa.Extract)
					if !ok {
						continue
					}
					hc, ok := ex.Tuple.(*ssa.Call)
					if !ok || hc.Call.IsInvoke() {
						continue
					}
					h := hc.Call.StaticCallee()
					if h == nil || !p.InModule(h) || len(h.Blocks) == 0 {
						continue
					}
					pi := -1
					for i, a := range hc.Call.Args {
						if a == ia.Index {
							pi = i
						}
					}
					hei := errResultIndex(h)
					if pi < 0 || pi >= len(h.Params) || hei < 0 {
						continue
					}
					// used only where the helper's error is nil
					var herr ssa.Value
					if hc.Referrers() != nil {
						for _, ref := range *hc.Referrers() {
							if e2, ok := ref.(*ssa.Extract); ok && e2.Index == hei {
								herr = e2
							}
						}
					}
					errNil := func(f guardFact) bool {
						x, y, op, ok := f.cmp()
						return ok && op == token.EQL && ((x == herr && isNilConst(y)) || (y == herr && isNilConst(x)))
					}
					if herr == nil || !(p.guardedInEveryContext(blk, errNil) || (edge != nil && errNil(*edge))) {
						continue
					}
					all, some := true, false
					eachInstr(h, func(x ssa.Instruction) {
						rt, ok := x.(*ssa.Return)
						if !ok || ex.Index >= len(rt.Results) {
							return
						}
						nilable := false
						for _, eo := range p.origins(rt.Results[hei], originOpts{local: true}) {
							if isNilConst(eo) {
								nilable = true
							}
						}
						if !nilable {
							return
						}
						some = true
						ret := rt.Results[ex.Index]
						post := func(f guardFact) bool {
							x, y, op, ok := f.cmp()
							if !ok {
								return false
							}
							isLen := func(v ssa.Value) bool {
								c, ok := v.(*ssa.Call)
								return ok && calleeName(c) == "builtin.len" && len(c.Call.Args) == 1 && (c.Call.Args[0] == ret || p.sameValue(c.Call.Args[0], ret))
							}
							return (x == ssa.Value(h.Params[pi]) && isLen(y) && op == token.LSS) || (y == ssa.Value(h.Params[pi]) && isLen(x) && op == token.GTR)
						}
						if !p.guardedOnAllPathsOpt(rt.Block(), post, 0, false) {
							all = false
						}
					})
					if all && some {
						established = true
					}
				}
			}

			if established || depth > 2 {
				return established
			}
			// the slice is a choice between values (refilled only when needed): each alternative is judged where it
			// comes from, with the fact of the edge it arrives on
			if phi, ok := sl.(*ssa.Phi); ok {
				for k, e := range phi.Edges {
					pred := phi.Block().Preds[k]
					var ef *guardFact
					if ifi := blockIf(pred); ifi != nil && len(pred.Succs) == 2 && pred.Succs[0] != pred.Succs[1] {
						ef = &guardFact{Cond: ifi.Cond, True: pred.Succs[0] == phi.Block(), If: ifi}
					}
					if !judge(e, pred, ef, depth+1) {
						return false
					}
				}
				return len(phi.Edges) > 0
			}
			return false
		}
		established := judge(ia.X, in.Block(), nil, 0)
		r.check(established, key, in.Pos(), "read only where the index is below the length of that slice, on every path",
			"the byte is read on a path on which the index was not found below the length of the slice after the last refill (a single Read instead of a loop: a reader returning 0, nil leaves the index at len(b) and the read panics)")
	})
	if n == 0 {
		r.undecided("(CodecJSON).ReadNext/byte-reads", fn.Pos(), "no indexed byte read found")
	}
}

func init() {
	register(&Rule{Name: "READ-DATA-FIRST", Floor: 2,
		Doc: "an io.Reader may return n > 0 together with io.EOF (net/http bodies with a Content-Length, gzip readers): where a stream codec's ReadNext gives up after a Read with a zero length (dropping what it has buffered), the failed Read is known to have returned no bytes (n == 0) or an error other than io.EOF, on every path (found D45: the last messages of a stream were lost)",
		Run: ruleReadDataFirst})
	register(&Rule{Name: "CARRY-COUNTED", Floor: 1,
		Doc: "a chunking ReadNext (one that reports how many bytes it gathered, not a framed length) starts its count from the bytes already in the buffer it was handed - len(b), the carry-over of the previous call - not from zero (found D44: carried-over bytes were never delivered)",
		Run: ruleCarryCounted})
}

func (p *Program) streamCodecReadNexts() []*ssa.Function {
	sc := p.lookupIface(larkPath, "StreamCodec")
	if sc == nil {
		return nil
	}
	var out []*ssa.Function
	scope := p.Lark.Types.Scope()
	for _, name := range scope.Names() {
		tn, ok := scope.Lookup(name).(*types.TypeName)
		if !ok {
			continue
		}
		named, ok := tn.Type().(*types.Named)
		if !ok {
			continue
		}
		if _, isIface := named.Underlying().(*types.Interface); isIface {
			continue
		}
		if !types.Implements(named, sc) && !types.Implements(types.NewPointer(named), sc) {
			continue
		}
		if fn := p.Method(name, "ReadNext"); fn != nil && len(fn.Blocks) > 0 {
			out = append(out, fn)
		}
	}
	return out
}

func ruleReadDataFirst(r *Run) {
	p := r.P
	fns := p.streamCodecReadNexts()
	if len(fns) == 0 {
		r.missing("StreamCodec implementations")
		return
	}
	n := 0
	for _, fn := range fns {
		p.eachInstrRegion(fn, func(g *ssa.Function, in ssa.Instruction) {
			c, ok := in.(*ssa.Call)
			if !ok || !c.Call.IsInvoke() || c.Call.Method.Name() != "Read" || c.Referrers() == nil {
				return
			}
			var nv, ev ssa.Value
			for _, ref := range *c.Referrers() {
				if ex, ok := ref.(*ssa.Extract); ok {
					if ex.Index == 0 {
						nv = ex
					} else {
						ev = ex
					}
				}
			}
			if ev == nil {
				return
			}
			n++
			key := fmt.Sprintf("%s/read#%d", shortFunc(g), n)
			safe := func(f guardFact) bool {
				x, y, op, ok := f.cmp()
				if !ok {
					return false
				}
				if nv != nil && x == nv {
					if k, isC := constInt(y); isC && ((op == token.EQL && k == 0) || (op == token.LEQ && k == 0) || (op == token.LSS && k == 1)) {
						return true
					}
				}
				if op == token.NEQ && ((x == ev && isIOEOF(y)) || (y == ev && isIOEOF(x))) {
					return true
				}
				return false
			}
			bad := false
			var pos token.Pos = in.Pos()
			eachInstr(g, func(x ssa.Instruction) {
				rt, ok := x.(*ssa.Return)
				if !ok || len(rt.Results) != 3 {
					return
				}
				if k, isC := constInt(rt.Results[1]); !isC || k != 0 {
					return // reports a length: the bytes are not dropped here
				}
				fromRead := false
				for _, o := range p.origins(rt.Results[2], originOpts{local: true}) {
					if o == ev {
						fromRead = true
					}
				}
				if !fromRead {
					return
				}
				if !p.guardedInEveryContext(rt.Block(), safe) {
					bad = true
					pos = rt.Pos()
				}
			})
			r.check(!bad, key, pos, "gives up with length 0 only where the Read returned no bytes or an error other than io.EOF",
				"after this Read the function can return length 0 with the Read's error although the Read may have delivered bytes together with io.EOF: those bytes - the end of the stream - are dropped")
		})
	}
	if n == 0 {
		r.undecided("ReadNext/reads", token.NoPos, "no Read call found in the stream codecs")
	}
}

func ruleCarryCounted(r *Run) {
	p := r.P
	n := 0
	for _, fn := range p.streamCodecReadNexts() {
		bpar := fn.Params[1]
		eachInstr(fn, func(in ssa.Instruction) {
			ph, ok := in.(*ssa.Phi)
			if !ok || !blockInLoop(ph.Block()) {
				return
			}
			// a counter to which the result of a Read is added on the way back
			accum := false
			var init []ssa.Value
			for i, e := range ph.Edges {
				if !blockReaches(ph.Block(), ph.Block().Preds[i]) {
					init = append(init, e)
					continue
				}
				for _, o := range p.origins(e, originOpts{local: true, throughConvert: true}) {
					add, ok := o.(*ssa.BinOp)
					if !ok || add.Op != token.ADD {
						continue
					}
					for _, pair := range [][2]ssa.Value{{add.X, add.Y}, {add.Y, add.X}} {
						if pair[0] != ssa.Value(ph) {
							continue
						}
						// (the Read may sit in a helper that hands its count back: b, n, err = readMore(b, r))
						for _, oo := range p.origins(pair[1], originOpts{throughConvert: true}) {
							if ex, ok := oo.(*ssa.Extract); ok && ex.Index == 0 {
								if c, ok := ex.Tuple.(*ssa.Call); ok && c.Call.IsInvoke() && c.Call.Method.Name() == "Read" {
									accum = true
								}
							}
						}
					}
				}
			}
			if !accum {
				return
			}
			// … and that is (part of) the reported length
			reported := false
			eachInstr(fn, func(x ssa.Instruction) {
				if rt, ok := x.(*ssa.Return); ok && len(rt.Results) == 3 {
					for _, o := range p.origins(rt.Results[1], originOpts{local: true, throughConvert: true}) {
						if o == ssa.Value(ph) {
							reported = true
						}
						if bo, ok := o.(*ssa.BinOp); ok && (bo.X == ssa.Value(ph) || bo.Y == ssa.Value(ph)) {
							reported = true
						}
						// min(total, limit)
						if c, ok := o.(*ssa.Call); ok && (calleeName(c) == "builtin.min" || calleeName(c) == "builtin.max") {
							for _, a := range c.Call.Args {
								for _, ao := range p.origins(a, originOpts{local: true, throughConvert: true}) {
									if ao == ssa.Value(ph) {
										reported = true
									}
									if bo, ok := ao.(*ssa.BinOp); ok && (bo.X == ssa.Value(ph) || bo.Y == ssa.Value(ph)) {
										reported = true
									}
								}
							}
						}
					}
				}
			})
			if !reported {
				return
			}
			n++
			key := fmt.Sprintf("%s/count-starts-from-buffer#%d", shortFunc(fn), n)
			good := len(init) > 0
			for _, iv := range init {
				isLen := false
				for _, o := range p.origins(iv, originOpts{local: true, throughConvert: true}) {
					if c, ok := o.(*ssa.Call); ok && calleeName(c) == "builtin.len" && len(c.Call.Args) == 1 {
						for _, ao := range p.origins(c.Call.Args[0], originOpts{local: true, throughSlice: true}) {
							if ao == ssa.Value(bpar) {
								isLen = true
							}
						}
					}
				}
				good = good && isLen
			}
			r.check(good, key, ph.Pos(), "the reported byte count starts from len(b), the bytes carried over from the previous call",
				"the byte count this ReadNext reports starts from a value other than len(b): bytes already in the buffer on entry (read past the limit by the previous call) are never counted and never delivered")
		})
	}
	if n == 0 {
		r.undecided("chunking ReadNext", token.NoPos, "no ReadNext that reports an accumulated byte count found (codecHTTPBody)")
	}
}
