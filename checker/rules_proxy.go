package main

import (
	"fmt"
	"go/constant"
	"go/token"
	"go/types"
	"strings"

	"golang.org/x/tools/go/ssa"
)

func init() {
	register(&Rule{Name: "FWD-MD", Floor: 4,
		Doc: "the context given to the backend call derives from metadata.NewOutgoingContext(ctx, md) with md = metadata.FromIncomingContext of the inbound context; the method string is the handler's method key",
		Run: ruleFwdMD})
	register(&Rule{Name: "FWD-CLOSESEND", Floor: 1,
		Doc: "in the forwarder of a client-streaming method, every path on which the inbound RecvMsg ended with io.EOF passes clientStream.CloseSend() (the client's half-close is forwarded); and CloseSend runs only where the inbound error is io.EOF (never deferred / after a failed inbound stream)",
		Run: ruleFwdCloseSend})
	register(&Rule{Name: "FWD-PAIR", Floor: 3,
		Doc: "in each forwarding loop the message sent on is the one the preceding receive filled, allocated fresh per iteration",
		Run: ruleFwdPair})
	register(&Rule{Name: "FWD-ERR-IDENTITY", Floor: 3,
		Doc: "every error a forwarder returns is the unmodified result of a stream/connection/interceptor call, never a fresh error (code, message and details survive); the predicate that filters stream errors sets aside only nil, io.EOF and context.Canceled by identity",
		Run: ruleFwdErrIdentity})
	register(&Rule{Name: "GO-SHARED", Floor: 3,
		Doc: "for every goroutine spawned on a request path: what it writes and the spawner reads is read only after the join (under the spawn condition); on the inbound stream it calls only RecvMsg/Context; its Done is reached on every path",
		Run: ruleGoShared})
}

func (p *Program) proxyClosures() []*ssa.Function {
	cch := p.Func("createConnHandler")
	if cch == nil {
		return nil
	}
	// the closures createConnHandler returns, and the module functions they call or spawn (a pump or reply loop
	// moved out of the closure into a named function)
	seen := map[*ssa.Function]bool{cch: true}
	var out []*ssa.Function
	var add func(f *ssa.Function)
	add = func(f *ssa.Function) {
		for _, g := range allFuncsDeep(f) {
			if seen[g] {
				continue
			}
			seen[g] = true
			out = append(out, g)
			eachInstr(g, func(in ssa.Instruction) {
				c, ok := in.(ssa.CallInstruction)
				if !ok || c.Common().IsInvoke() {
					return
				}
				callee := c.Common().StaticCallee()
				if callee == nil || !p.InModule(callee) || callee.Parent() != nil || p.helpers().anchors[callee] || len(callee.Blocks) == 0 {
					return
				}
				// only helpers private to the proxy: every static call site lies in what was collected so far
				for _, s := range p.helpers().sites[callee] {
					top := s.Parent()
					for top.Parent() != nil {
						top = top.Parent()
					}
					if !seen[s.Parent()] && top != cch {
						return
					}
				}
				add(callee)
			})
		}
	}
	for _, g := range allFuncsDeep(cch)[1:] {
		add(g)
	}
	return out
}

func ruleFwdMD(r *Run) {
	p := r.P
	cch := p.Func("createConnHandler")
	if cch == nil {
		r.missing("func createConnHandler")
		return
	}
	hm := p.StructField("handler", "method")
	methodVals := p.fieldValuesIn(cch, hm)
	n := 0
	for _, g := range p.proxyClosures() {
		eachInstr(g, func(in ssa.Instruction) {
			c, ok := in.(ssa.CallInstruction)
			if !ok {
				return
			}
			cn := calleeName(c)
			var ctxArg, methodArg ssa.Value
			switch cn {
			case "(*google.golang.org/grpc.ClientConn).NewStream":
				ctxArg, methodArg = c.Common().Args[1], c.Common().Args[3]
			case "(*google.golang.org/grpc.ClientConn).Invoke":
				ctxArg, methodArg = c.Common().Args[1], c.Common().Args[2]
			default:
				return
			}
			n++
			key := shortFunc(g) + "/" + shortName(cn)
			// ctx derives from NewOutgoingContext(ctx0, FromIncomingContext(ctx0))
			good, why := false, "no metadata.NewOutgoingContext in the context's ancestry"
			for _, a := range p.ctxAncestors(ctxArg) {
				oc, ok := a.(*ssa.Call)
				if !ok || calleeName(oc) != "google.golang.org/grpc/metadata.NewOutgoingContext" {
					continue
				}
				why = "the outgoing metadata is not the inbound context's incoming metadata"
				for _, mo := range p.origins(oc.Call.Args[1], originOpts{}) {
					ex, ok := mo.(*ssa.Extract)
					if !ok {
						continue
					}
					fc, ok := ex.Tuple.(*ssa.Call)
					if ok && calleeName(fc) == "google.golang.org/grpc/metadata.FromIncomingContext" && ex.Index == 0 {
						good = true
					}
				}
			}
			// and the inbound context is an ancestor at all
			inbound := false
			for _, a := range p.ctxAncestors(ctxArg) {
				if ic, ok := isInvokeNamed(a, "Context"); ok && strings.Contains(typeString(ic.Common().Value.Type()), "ServerStream") {
					inbound = true
				}
				if par, ok := a.(*ssa.Parameter); ok && isContextType(par.Type()) {
					inbound = true
				}
			}
			r.check(good, key+"/metadata", in.Pos(), "the backend call carries the inbound metadata as outgoing metadata", "the backend call's context does not carry the inbound request metadata: "+why)
			r.check(inbound, key+"/context", in.Pos(), "the backend call's context descends from the inbound call's context (deadline/cancellation propagate)",
				"the backend call's context does not descend from the inbound call's context")
			mOK := false
			for _, o := range p.origins(methodArg, originOpts{}) {
				for _, mv := range methodVals {
					if o == mv {
						mOK = true
					}
				}
			}
			r.check(mOK, key+"/method", in.Pos(), "the backend is called under the handler's own method name", "the backend is called under another method name than the one the handler is registered for")
		})
	}
	if n == 0 {
		r.undecided("createConnHandler/backend-calls", cch.Pos(), "no NewStream/Invoke call found")
	}
}

func isIOEOF(v ssa.Value) bool {
	u, ok := v.(*ssa.UnOp)
	if !ok || u.Op != token.MUL {
		return false
	}
	g, ok := u.X.(*ssa.Global)
	return ok && g.Pkg != nil && g.Pkg.Pkg.Path() == "io" && g.Name() == "EOF"
}

func ruleFwdCloseSend(r *Run) {
	p := r.P
	n := 0
	for _, g := range p.proxyClosures() {
		// inbound RecvMsg calls inside a loop (the pump)
		eachInstr(g, func(in ssa.Instruction) {
			c, ok := in.(*ssa.Call)
			if !ok || !c.Common().IsInvoke() || c.Common().Method.Name() != "RecvMsg" || !strings.Contains(typeString(c.Common().Value.Type()), "ServerStream") {
				return
			}
			// in a loop?
			if w, _ := (pathQuery{fn: g, start: in, target: func(x ssa.Instruction) bool { return x == in }}).find(); w == nil {
				return
			}
			n++
			key := shortFunc(g) + "/inbound-EOF-forwarded"
			derivesFromRecv := func(v ssa.Value) bool {
				for _, o := range p.origins(v, originOpts{}) {
					if o == ssa.Value(c) {
						return true
					}
				}
				return false
			}
			isClose := func(x ssa.Instruction) bool {
				cc, ok := x.(ssa.CallInstruction)
				return ok && cc.Common().IsInvoke() && cc.Common().Method.Name() == "CloseSend"
			}
			q := pathQuery{fn: g, start: in, target: isReturn, barrier: func(x ssa.Instruction) bool { return isClose(x) || x == in },
				edgeOK: func(b *ssa.BasicBlock, succ int) bool {
					ifi := blockIf(b)
					if ifi == nil {
						return true
					}
					bo, ok := ifi.Cond.(*ssa.BinOp)
					if !ok {
						return true
					}
					// the receive failed …
					if isNilConst(bo.Y) && derivesFromRecv(bo.X) {
						if bo.Op == token.NEQ {
							return succ == 0
						}
						if bo.Op == token.EQL {
							return succ == 1
						}
					}
					// … with io.EOF
					if (isIOEOF(bo.Y) && derivesFromRecv(bo.X)) || (isIOEOF(bo.X) && derivesFromRecv(bo.Y)) {
						if bo.Op == token.EQL {
							return succ == 0
						}
						if bo.Op == token.NEQ {
							return succ == 1
						}
					}
					return true
				}}
			if w, _ := q.find(); w != nil {
				r.bad(key, in.Pos(), "when the inbound stream ends (RecvMsg returns io.EOF) the pump reaches its end without clientStream.CloseSend(): the backend never sees the client's half-close, so proxied client-streaming and bidi calls hang until the deadline (%s)", p.describePath(w))
			} else {
				r.ok(key, in.Pos(), "every path from an inbound io.EOF to the end of the pump passes clientStream.CloseSend()")
			}
			// … and only then: a half-close after a failed inbound stream (truncated body, over-limit or malformed
			// message) tells the backend "complete" where the client's stream was cut
			key2 := shortFunc(g) + "/half-close-only-on-clean-end"
			onlyEOF := true
			var badPos token.Pos
			nClose := 0
			eachInstr(g, func(x ssa.Instruction) {
				if !isClose(x) {
					return
				}
				nClose++
				if _, deferred := x.(*ssa.Defer); deferred {
					onlyEOF, badPos = false, x.Pos()
					return
				}
				if !p.guardedInEveryContext(x.Block(), func(gf guardFact) bool {
					a, b, op, ok := gf.cmp()
					return ok && op == token.EQL && ((isIOEOF(b) && derivesFromRecv(a)) || (isIOEOF(a) && derivesFromRecv(b)))
				}) {
					onlyEOF, badPos = false, x.Pos()
				}
			})
			if nClose > 0 {
				if onlyEOF {
					r.ok(key2, in.Pos(), "CloseSend runs only where the inbound RecvMsg error is io.EOF")
				} else {
					r.bad(key2, badPos, "clientStream.CloseSend() also runs when the inbound stream did not end with io.EOF (deferred, or not under `err == io.EOF`): after a truncated or failed client stream the backend receives the complete messages followed by a clean end-of-stream instead of an error")
				}
			}
		})
	}
	if n == 0 {
		r.undecided("createConnHandler/pump", token.NoPos, "no inbound receive loop found in the proxy closures")
	}
}

func ruleFwdPair(r *Run) {
	p := r.P
	n := 0
	for _, g := range p.proxyClosures() {
		eachInstr(g, func(in ssa.Instruction) {
			c, ok := in.(*ssa.Call)
			if !ok || !c.Common().IsInvoke() || c.Common().Method.Name() != "SendMsg" {
				return
			}
			sendT := typeString(c.Common().Value.Type())
			var wantRecvT string
			switch {
			case strings.Contains(sendT, "ClientStream"):
				wantRecvT = "ServerStream"
			case strings.Contains(sendT, "ServerStream"):
				wantRecvT = "ClientStream"
			default:
				return
			}
			msg := c.Common().Args[0]
			var roots []ssa.Value
			for _, o := range p.origins(msg, defaultOrigin) {
				roots = append(roots, o)
			}
			// unary reply path: stream.SendMsg(reply) with reply from opts.unary — not a forwarding loop
			isDyn := false
			for _, o := range roots {
				if nc, ok := o.(*ssa.Call); ok && strings.HasSuffix(calleeName(nc), "dynamicpb.NewMessage") {
					isDyn = true
				}
			}
			if !isDyn {
				return
			}
			n++
			key := fmt.Sprintf("%s/forward:%s->%s", shortFunc(g), wantRecvT, strings.TrimPrefix(sendT, "grpc."))
			// a RecvMsg on the opposite stream with the same message value dominates the send
			paired := false
			eachInstr(g, func(x ssa.Instruction) {
				rc, ok := x.(*ssa.Call)
				if !ok || !rc.Common().IsInvoke() || rc.Common().Method.Name() != "RecvMsg" || !strings.Contains(typeString(rc.Common().Value.Type()), wantRecvT) {
					return
				}
				same := false
				for _, o := range p.origins(rc.Common().Args[0], defaultOrigin) {
					for _, m := range roots {
						if o == m {
							same = true
						}
					}
				}
				if same && instrDominates(x, in) {
					paired = true
				}
			})
			r.check(paired, key+"/same-message", in.Pos(), "the message sent on is the one the preceding receive on the opposite stream filled",
				"the message sent on is not the one filled by the preceding receive on the opposite stream: a stale or empty message is forwarded")
			// fresh per iteration when in a loop
			inLoop := false
			if w, _ := (pathQuery{fn: g, start: in, target: func(x ssa.Instruction) bool { return x == in }}).find(); w != nil {
				inLoop = true
			}
			if inLoop {
				fresh := true
				for _, m := range roots {
					mi, ok := m.(ssa.Instruction)
					if !ok {
						continue
					}
					if w, _ := (pathQuery{fn: g, start: mi, target: func(x ssa.Instruction) bool { return x == mi }}).find(); w == nil {
						fresh = false
					}
				}
				r.check(fresh, key+"/fresh-per-iteration", in.Pos(), "a fresh message is allocated in every iteration", "the forwarding loop reuses one message across iterations: fields of an earlier message leak into later ones (proto merge semantics)")
			}
		})
	}
	if n == 0 {
		r.undecided("createConnHandler/forwarding", token.NoPos, "no forwarding SendMsg found")
	}
}

func ruleFwdErrIdentity(r *Run) {
	p := r.P
	n := 0
	for _, g := range p.proxyClosures() {
		ei := errResultIndex(g)
		if ei < 0 {
			continue
		}
		bad := ""
		var badPos token.Pos
		eachInstr(g, func(in ssa.Instruction) {
			rt, ok := in.(*ssa.Return)
			if !ok {
				return
			}
			for _, o := range p.origins(rt.Results[ei], originOpts{}) {
				if isNilConst(o) {
					continue
				}
				var c *ssa.Call
				switch x := o.(type) {
				case *ssa.Call:
					c = x
				case *ssa.Extract:
					c, _ = x.Tuple.(*ssa.Call)
				case *ssa.Alloc:
					continue // zero value of an error variable
				}
				if c == nil {
					bad, badPos = describeValue(o), rt.Pos()
					continue
				}
				cn := calleeName(c)
				switch {
				case c.Common().IsInvoke() && (c.Common().Method.Name() == "RecvMsg" || c.Common().Method.Name() == "SendMsg" || c.Common().Method.Name() == "CloseSend" || c.Common().Method.Name() == "Header"):
				case cn == "(*google.golang.org/grpc.ClientConn).NewStream" || cn == "(*google.golang.org/grpc.ClientConn).Invoke":
				case cn == nOptsStream || cn == nOptsUnary:
				case cn == "(*google.golang.org/grpc/internal/status.Status).Err" || cn == "(*google.golang.org/grpc/status.Status).Err":
				default:
					bad, badPos = "call "+shortName(cn), rt.Pos()
				}
			}
		})
		n++
		key := shortFunc(g) + "/errors-unmodified"
		if bad != "" {
			r.bad(key, badPos, "the forwarder returns an error produced by %s instead of the backend's / stream's own error: the client does not see the backend's status code, message and details", bad)
		} else {
			r.ok(key, g.Pos(), "every returned error is the unmodified result of a stream, connection or interceptor call")
		}
	}
	if n == 0 {
		r.undecided("createConnHandler/errors", token.NoPos, "no forwarder closure with an error result found")
	}
	// the filter that decides which stream errors end the forwarder with an error: it may set aside only the
	// end-of-stream sentinels (nil, io.EOF, context.Canceled by identity); anything else it lets through as "no
	// error" is a backend status the client never sees
	seenPred := map[*ssa.Function]bool{}
	for _, g := range p.proxyClosures() {
		eachInstr(g, func(in ssa.Instruction) {
			ifi, ok := in.(*ssa.If)
			if !ok {
				return
			}
			fs, _ := p.factsWhen(ifi.Cond, true)
			for _, f := range fs {
				c, ok := f.Cond.(*ssa.Call)
				if !ok {
					continue
				}
				callee := c.Call.StaticCallee()
				if callee == nil || c.Call.IsInvoke() || !p.InModule(callee) || len(callee.Params) != 1 || !isErrorType(callee.Params[0].Type()) || seenPred[callee] {
					continue
				}
				res := callee.Signature.Results()
				if res.Len() != 1 {
					continue
				}
				if b, ok := res.At(0).Type().Underlying().(*types.Basic); !ok || b.Kind() != types.Bool {
					continue
				}
				seenPred[callee] = true
				key := shortFunc(callee) + "/filters-only-end-of-stream"
				bad := p.errFilterLeak(callee)
				if bad != "" {
					r.bad(key, callee.Pos(), "the error filter of the forwarder treats more than nil / io.EOF / context.Canceled (by identity) as \"no error\": %s — a backend that ends the stream with such a status is reported as OK to the client", bad)
				} else {
					r.ok(key, callee.Pos(), "only nil, io.EOF and context.Canceled (by identity) are set aside; every other error ends the forwarder with that error")
				}
			}
		})
	}
}

// errFilterLeak: for a predicate f(err) bool used as "is this a real error", describe a way it can answer false for
// an error other than the end-of-stream sentinels; "" if there is none.
func (p *Program) errFilterLeak(fn *ssa.Function) string {
	par := fn.Params[0]
	sentinel := func(g guardFact) bool {
		x, y, op, ok := g.cmp()
		if !ok || op != token.EQL {
			return false
		}
		if y == ssa.Value(par) {
			x, y = y, x
		}
		if x != ssa.Value(par) {
			return false
		}
		if isNilConst(y) {
			return true
		}
		if u, ok := y.(*ssa.UnOp); ok && u.Op == token.MUL {
			if gl, ok := u.X.(*ssa.Global); ok && gl.Pkg != nil {
				switch gl.Pkg.Pkg.Path() + "." + gl.Name() {
				case "io.EOF", "context.Canceled":
					return true
				}
			}
		}
		return false
	}
	leak := ""
	eachInstr(fn, func(in ssa.Instruction) {
		rt, ok := in.(*ssa.Return)
		if !ok || len(rt.Results) != 1 {
			return
		}
		for _, l := range p.guardedLeaves(rt.Results[0]) {
			c, isC := l.v.(*ssa.Const)
			if !isC || c.Value == nil || c.Value.Kind() != constant.Bool {
				// a computed answer (`return err != nil && err != io.EOF && …`): whenever it is false a sentinel identity must hold
				fs, never := p.factsWhen(l.v, false)
				ok := never
				for _, g := range append(fs, p.expandFacts(l.facts)...) {
					if sentinel(g) {
						ok = true
					}
				}
				if !ok {
					leak = "its answer depends on " + describeValue(l.v) + " (" + p.Pos(rt.Pos()) + ")"
				}
				continue
			}
			if constant.BoolVal(c.Value) {
				continue
			}
			// answers false: only under a sentinel identity test (taken on the way to this return / this phi edge)
			ok := false
			for _, g := range p.expandFacts(l.facts) {
				if sentinel(g) {
					ok = true
				}
			}
			if !ok && !p.guardedInEveryContext(rt.Block(), sentinel) {
				leak = "it answers false at " + p.Pos(rt.Pos()) + " without an identity test against nil, io.EOF or context.Canceled"
			}
		}
	})
	return leak
}

// ---------------------------------------------------------------------------
// GO-SHARED
// ---------------------------------------------------------------------------

func ruleGoShared(r *Run) {
	p := r.P
	reach := p.reachRequest()
	n := 0
	for _, fn := range sortedFuncs(reach) {
		eachInstr(fn, func(in ssa.Instruction) {
			g, ok := in.(*ssa.Go)
			if !ok {
				return
			}
			n++
			key := fmt.Sprintf("%s/go#%d", shortFunc(fn), n)
			// the goroutine's body and the cells it shares with the spawner: the captured variables of a function
			// literal, or the local variables whose address is passed to a named module function (go f(&err, &wg))
			type sharedCell struct {
				cell ssa.Value
				name string
			}
			var body *ssa.Function
			var shared []sharedCell
			// toSpawnerCell maps an address used in the body to the spawner's variable it designates
			var toSpawnerCell func(v ssa.Value) ssa.Value
			if mc, ok := g.Call.Value.(*ssa.MakeClosure); ok {
				body = mc.Fn.(*ssa.Function)
				for i, fv := range body.FreeVars {
					shared = append(shared, sharedCell{p.cellRoot(mc.Bindings[i]), fv.Name()})
				}
				toSpawnerCell = p.cellRoot
			} else if callee := g.Call.StaticCallee(); callee != nil && p.InModule(callee) && len(callee.Blocks) > 0 && !g.Call.IsInvoke() {
				body = callee
				for i, par := range callee.Params {
					if _, isPtr := par.Type().Underlying().(*types.Pointer); isPtr && i < len(g.Call.Args) {
						shared = append(shared, sharedCell{p.cellRoot(g.Call.Args[i]), par.Name()})
					}
				}
				toSpawnerCell = func(v ssa.Value) ssa.Value {
					v = p.cellRoot(v)
					if par, ok := v.(*ssa.Parameter); ok && par.Parent() == callee {
						if a := argAt(g, paramIndex(par)); a != nil {
							return p.cellRoot(a)
						}
					}
					return v
				}
			} else {
				r.undecided(key, in.Pos(), "go statement spawns neither a function literal nor a module function; shared state cannot be enumerated")
				return
			}
			// spawn condition (correlated guards)
			type fact struct {
				field *types.Var
				pol   bool
			}
			var facts []fact
			for _, gf := range guardsOf(in.Block()) {
				for _, o := range p.origins(gf.Cond, originOpts{}) {
					if f := loadedField(o); f != nil {
						facts = append(facts, fact{f, gf.True})
					}
				}
			}
			underSpawn := func(b *ssa.BasicBlock, succ int) bool {
				ifi := blockIf(b)
				if ifi == nil {
					return true
				}
				for _, o := range p.origins(ifi.Cond, originOpts{}) {
					if f := loadedField(o); f != nil {
						for _, ft := range facts {
							if ft.field == f {
								if ft.pol {
									return succ == 0
								}
								return succ == 1
							}
						}
					}
				}
				return true
			}
			// wait group the goroutine signals
			var wgAlloc ssa.Value
			doneOnEveryPath := false
			var doneCalls []ssa.Instruction
			eachInstr(body, func(x ssa.Instruction) {
				c, ok := x.(ssa.CallInstruction)
				if !ok || calleeName(c) != "(*sync.WaitGroup).Done" {
					return
				}
				doneCalls = append(doneCalls, x)
				wgAlloc = toSpawnerCell(c.Common().Args[0])
			})
			isDone := func(x ssa.Instruction) bool {
				for _, d := range doneCalls {
					if d == x {
						return true
					}
				}
				return false
			}
			if len(doneCalls) > 0 {
				deferred := false
				for _, d := range doneCalls {
					if _, ok := d.(*ssa.Defer); ok {
						deferred = true
					}
				}
				if deferred {
					doneOnEveryPath = true
				} else if w, _ := (pathQuery{fn: body, target: isReturn, barrier: isDone}).find(); w == nil {
					doneOnEveryPath = true
				}
			}
			r.check(doneOnEveryPath, key+"/done-on-every-path", in.Pos(), "the goroutine signals its WaitGroup on every path", "the goroutine can end without signalling its WaitGroup (or signals none): the spawner waits forever or never joins")
			isJoin := func(x ssa.Instruction) bool {
				c, ok := x.(ssa.CallInstruction)
				return ok && calleeName(c) == "(*sync.WaitGroup).Wait" && wgAlloc != nil && p.cellRoot(c.Common().Args[0]) == wgAlloc
			}
			// (a) cells written by the goroutine, accessed by the spawner after the go only behind the join
			for _, sc := range shared {
				fv := sc
				written := false
				for _, bf := range allFuncsDeep(body) {
					eachInstr(bf, func(x ssa.Instruction) {
						if st, ok := x.(*ssa.Store); ok && toSpawnerCell(st.Addr) == sc.cell {
							written = true
						}
					})
				}
				if !written {
					continue
				}
				cell := sc.cell
				ckey := key + "/shared:" + fv.name
				bad := false
				eachInstr(fn, func(x ssa.Instruction) {
					var addr ssa.Value
					switch y := x.(type) {
					case *ssa.UnOp:
						if y.Op == token.MUL {
							addr = y.X
						}
					case *ssa.Store:
						addr = y.Addr
					}
					if addr == nil || p.cellRoot(addr) != cell {
						return
					}
					// reachable after the go without passing the join?
					q := pathQuery{fn: fn, start: in, edgeOK: underSpawn, barrier: isJoin, target: func(z ssa.Instruction) bool { return z == x }}
					if w, _ := q.find(); w != nil {
						bad = true
						r.bad(ckey, x.Pos(), "variable %s is written by the goroutine and accessed by the spawning function after the go statement on a path that has not passed the join (wg.Wait): data race between the pump and the handler (%s)", fv.name, p.describePath(w))
					}
				})
				if !bad {
					r.ok(ckey, in.Pos(), "every access of %s after the go statement is behind the join (evaluated under the spawn condition)", fv.name)
				}
			}
			// (b) inbound stream: RecvMsg / Context only
			okInbound := true
			for _, bf := range allFuncsDeep(body) {
				eachInstr(bf, func(x ssa.Instruction) {
					c, ok := x.(ssa.CallInstruction)
					if !ok || !c.Common().IsInvoke() || !strings.Contains(typeString(c.Common().Value.Type()), "ServerStream") {
						return
					}
					switch c.Common().Method.Name() {
					case "RecvMsg", "Context":
					default:
						okInbound = false
						r.bad(key+"/inbound-read-only", x.Pos(), "the goroutine calls %s on the inbound stream: it may outlive the handler, and the response side is not protected after ServeHTTP returns (write after handler return / race with the reply loop)", c.Common().Method.Name())
					}
				})
			}
			if okInbound {
				r.ok(key+"/inbound-read-only", in.Pos(), "on the inbound stream the goroutine calls only RecvMsg/Context")
			}
		})
	}
	if n == 0 {
		r.undecided("request-paths/go", token.NoPos, "no go statement found on request paths (the proxy pump is expected)")
	}
}
