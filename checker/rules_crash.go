package main

import (
	"fmt"
	"go/constant"
	"go/token"
	"go/types"
	"sort"
	"strings"

	"golang.org/x/tools/go/ssa"
)

// RequestRoots: entry points a request (or handler code acting on behalf of a
// request) can enter larking through: ServeHTTP, every method of the stream /
// writer / reader types handed to handlers or net/http, the HttpBody helpers.
// Codec and compressor methods are NOT roots here: they count only when the
// call graph reaches them from a request root.
func (p *Program) RequestRoots() []*ssa.Function {
	var roots []*ssa.Function
	add := func(f *ssa.Function) {
		if f != nil {
			roots = append(roots, f)
		}
	}
	add(p.Method("Mux", "ServeHTTP"))
	add(p.Func("AsHTTPBodyReader"))
	add(p.Func("AsHTTPBodyWriter"))
	ifaces := []*types.Interface{
		p.lookupIface("google.golang.org/grpc", "ServerStream"),
		p.lookupIface("google.golang.org/grpc", "ServerTransportStream"),
		p.lookupIface("net/http", "ResponseWriter"),
	}
	sc := p.Lark.Types.Scope()
	for _, n := range sc.Names() {
		tn, ok := sc.Lookup(n).(*types.TypeName)
		if !ok {
			continue
		}
		named, ok := tn.Type().(*types.Named)
		if !ok {
			continue
		}
		if _, isIface := named.Underlying().(*types.Interface); isIface {
			continue
		}
		if !implementsAny(named, ifaces...) {
			continue
		}
		ms := p.SSA.MethodSets.MethodSet(types.NewPointer(named))
		for i := 0; i < ms.Len(); i++ {
			f := p.SSA.MethodValue(ms.At(i))
			if f != nil && p.InModule(f) && f.Synthetic == "" {
				add(f)
			}
		}
	}
	return dedupFuncs(roots)
}

func (p *Program) reachRequest() map[*ssa.Function]reachInfo {
	if p.reachReq == nil {
		p.reachReq = p.Reach(p.RequestRoots())
	}
	return p.reachReq
}

func (p *Program) reachRegistration() map[*ssa.Function]reachInfo {
	if p.reachReg == nil {
		p.reachReg = p.Reach(p.RegistrationRoots())
	}
	return p.reachReg
}

func sortedFuncs(m map[*ssa.Function]reachInfo) []*ssa.Function {
	var fns []*ssa.Function
	for fn := range m {
		fns = append(fns, fn)
	}
	sort.Slice(fns, func(i, j int) bool { return fns[i].String() < fns[j].String() })
	return fns
}

// panicExemptions: explicit panics that are unreachable because of an
// invariant established elsewhere (one line each, itself backed by a rule).
var panicExemptions = map[string]string{
	"(*variable).index": "default arm of the token-kind switch: the tokens addRule stores into a variable are only those its own switch accepts (rule TOKEN-KINDS)",
}

func init() {
	register(&Rule{Name: "PANIC-REACH-SERVE", Floor: 1,
		Doc: "no explicit panic() in a module function reachable (VTA call graph) from a request entry point, except those exempted with a named invariant",
		Run: func(r *Run) { rulePanicReach(r, "serve") }})
	register(&Rule{Name: "PANIC-REACH-REG", Floor: 1,
		Doc: "no explicit panic() in a module function reachable from a registration root (registration reports errors, it never panics)",
		Run: func(r *Run) { rulePanicReach(r, "reg") }})
	register(&Rule{Name: "COMMAOK-SERVE", Floor: 2,
		Doc: "in request-reachable code, a pointer/interface obtained from a comma-ok map lookup or type assertion is dereferenced only where ok is known true (edge dominance) or the value was tested non-nil",
		Run: func(r *Run) { ruleCommaOK(r, "serve") }})
	register(&Rule{Name: "COMMAOK-REG", Floor: 2,
		Doc: "same as COMMAOK-SERVE for registration-reachable code",
		Run: func(r *Run) { ruleCommaOK(r, "reg") }})
	register(&Rule{Name: "ASSERT-CHECKED", Floor: 2,
		Doc: "every single-result type assertion in request- or registration-reachable code is justified: pool typing, a prior comma-ok check of the same value, or a named exemption",
		Run: ruleAssertChecked})
	register(&Rule{Name: "SIGNCONV", Floor: 1,
		Doc: "an unsigned wire length converted to a signed type that cannot hold its range is first bounded in the unsigned domain (gates on amd64)",
		Run: ruleSignConv})
	register(&Rule{Name: "OFFSET-BASE", Floor: 2,
		Doc: "an index returned by a search primitive is added to a cursor only if the primitive searched the suffix starting at that cursor",
		Run: ruleOffsetBase})
	register(&Rule{Name: "TOKEN-KINDS", Floor: 2,
		Doc: "every token addRule stores into a variable pattern has a kind that variable.index's switch handles (backs the exemption of its default panic) (decided on values: kind-by-kind reachability of the append and of variable.index's panic, so a switch, an if chain and a bit-mask test are alike)",
		Run: ruleTokenKinds})
	register(&Rule{Name: "NIL-MAP-WRITE", Floor: 2,
		Doc: "every map-typed field of routing state that is written through (m[k]=v) is initialised by every constructor of its struct or guarded by a nil test",
		Run: ruleNilMapWrite})
}

func rulePanicReach(r *Run, which string) {
	p := r.P
	var reach map[*ssa.Function]reachInfo
	if which == "serve" {
		reach = p.reachRequest()
	} else {
		reach = p.reachRegistration()
	}
	if len(reach) < 10 {
		r.missing("roots for " + which)
		return
	}
	nPanics := 0
	for _, fn := range sortedFuncs(reach) {
		k := 0
		eachInstr(fn, func(in ssa.Instruction) {
			pn, ok := in.(*ssa.Panic)
			if !ok {
				return
			}
			k++
			nPanics++
			key := fmt.Sprintf("%s/panic#%d", shortFunc(fn), k)
			if why, ok := panicExemptions[shortFunc(fn)]; ok {
				r.ok(key, pn.Pos(), "exempt: %s", why)
				return
			}
			what := "panic(" + describeValue(pn.X) + ")"
			if mi, ok := pn.X.(*ssa.MakeInterface); ok {
				if s, ok := constString(mi.X); ok {
					what = fmt.Sprintf("panic(%q)", s)
				}
			}
			if which == "serve" {
				r.bad(key, pn.Pos(), "%s is reachable from a request entry point: %s", what, p.callPath(reach, fn))
			} else {
				r.bad(key, pn.Pos(), "%s is reachable from a registration root (an invalid rule must be rejected with an error, never a panic): %s", what, p.callPath(reach, fn))
			}
		})
	}
	r.ok("reachable-set", token.NoPos, "%d module functions reachable, %d explicit panic sites examined", len(reach), nPanics)
}

// derefUses lists the instructions that dereference v (nil v would panic).
func derefUses(v ssa.Value) []ssa.Instruction {
	var out []ssa.Instruction
	refs := v.Referrers()
	if refs == nil {
		return nil
	}
	for _, ref := range *refs {
		switch x := ref.(type) {
		case *ssa.FieldAddr:
			if x.X == v {
				out = append(out, ref)
			}
		case *ssa.IndexAddr:
			if x.X == v {
				if _, isPtr := v.Type().Underlying().(*types.Pointer); isPtr {
					out = append(out, ref)
				}
			}
		case *ssa.UnOp:
			if x.Op == token.MUL && x.X == v {
				out = append(out, ref)
			}
		case ssa.CallInstruction:
			cc := x.Common()
			if cc.IsInvoke() && cc.Value == v {
				out = append(out, ref)
			} else if !cc.IsInvoke() && cc.Value == v {
				out = append(out, ref) // calling a nil func value
			}
		case *ssa.Phi, *ssa.ChangeInterface, *ssa.ChangeType, *ssa.MakeInterface:
			// value flows on; follow one level for phis that merge only this value and itself
		}
	}
	return out
}

func ruleCommaOK(r *Run, which string) {
	p := r.P
	var reach map[*ssa.Function]reachInfo
	if which == "serve" {
		reach = p.reachRequest()
	} else {
		reach = p.reachRegistration()
	}
	for _, fn := range sortedFuncs(reach) {
		site := 0
		eachInstr(fn, func(in ssa.Instruction) {
			var tuple ssa.Value
			kind := ""
			switch x := in.(type) {
			case *ssa.Lookup:
				if x.CommaOk {
					tuple, kind = x, "map lookup"
				}
			case *ssa.TypeAssert:
				if x.CommaOk {
					tuple, kind = x, "type assertion"
				}
			}
			if tuple == nil {
				return
			}
			var v, okv ssa.Value
			for _, ref := range *tuple.Referrers() {
				if ex, ok := ref.(*ssa.Extract); ok {
					if ex.Index == 0 {
						v = ex
					} else {
						okv = ex
					}
				}
			}
			if v == nil {
				return
			}
			switch v.Type().Underlying().(type) {
			case *types.Pointer, *types.Interface, *types.Signature:
			default:
				return
			}
			site++
			derefs := derefUses(v)
			key := fmt.Sprintf("%s/%s#%d", shortFunc(fn), strings.ReplaceAll(kind, " ", "-"), site)
			if len(derefs) == 0 {
				r.ok(key, in.Pos(), "result of the %s is never dereferenced directly", kind)
				return
			}
			allOK := true
			for _, d := range derefs {
				if p.knownNonNil(v, okv, d) {
					continue
				}
				allOK = false
				r.bad(key, d.Pos(), "value of a comma-ok %s (%s) is dereferenced where ok may be false (not dominated by the true edge of the ok test, nor by a nil test): nil dereference / method call on nil",
					kind, p.Pos(in.Pos()))
			}
			if allOK {
				r.ok(key, in.Pos(), "all %d dereferences are dominated by the true edge of the ok test (or a non-nil test)", len(derefs))
			}
		})
	}
}

// knownNonNil: at instruction `at`, v (value of a comma-ok with flag okv) is known valid.
func (p *Program) knownNonNil(v, okv ssa.Value, at ssa.Instruction) bool {
	for _, g := range guardsOf(at.Block()) {
		if okv != nil && g.Cond == okv && g.True {
			return true
		}
		if bo, ok := g.Cond.(*ssa.BinOp); ok {
			var other ssa.Value
			if bo.X == v {
				other = bo.Y
			} else if bo.Y == v {
				other = bo.X
			} else {
				continue
			}
			if !isNilConst(other) {
				continue
			}
			if (bo.Op == token.NEQ && g.True) || (bo.Op == token.EQL && !g.True) {
				return true
			}
		}
	}
	return false
}

// ---------------------------------------------------------------------------
// ASSERT-CHECKED
// ---------------------------------------------------------------------------

func ruleAssertChecked(r *Run) {
	p := r.P
	seen := map[*ssa.Function]bool{}
	var fns []*ssa.Function
	for _, m := range []map[*ssa.Function]reachInfo{p.reachRequest(), p.reachRegistration()} {
		for _, fn := range sortedFuncs(m) {
			if !seen[fn] {
				seen[fn] = true
				fns = append(fns, fn)
			}
		}
	}
	for _, fn := range fns {
		site := 0
		eachInstr(fn, func(in ssa.Instruction) {
			ta, ok := in.(*ssa.TypeAssert)
			if !ok || ta.CommaOk {
				return
			}
			if types.Identical(ta.AssertedType, ta.X.Type()) {
				return // go/ssa's nil check for a bound method value (x.M): not a dynamic type test
			}
			site++
			key := fmt.Sprintf("%s/assert:%s#%d", shortFunc(fn), typeString(ta.AssertedType), site)
			// (1) pool typing
			if c, ok := ta.X.(*ssa.Call); ok && calleeName(c) == "(*sync.Pool).Get" {
				if ok, why := p.poolSupplies(c.Call.Args[0], ta.AssertedType); ok {
					r.ok(key, in.Pos(), "pool typing: %s", why)
				} else {
					r.bad(key, in.Pos(), "pool value asserted to %s but %s", typeString(ta.AssertedType), why)
				}
				return
			}
			// (2) message supplied by handler code through a grpc.ServerStream method (m interface{})
			if par, ok := ta.X.(*ssa.Parameter); ok && isProtoMessage(ta.AssertedType) && p.isServerStreamMethod(fn) {
				r.ok(key, in.Pos(), "exempt: %s is the message argument of a grpc.ServerStream method, supplied by handler code (generated stubs pass proto.Message), not by the request", par.Name())
				return
			}
			if isProtoMessage(ta.AssertedType) && p.isServerStreamMethod(fn) {
				// the parameter may have been spilled into a cell (captured by a deferred closure)
				allParams := true
				for _, o := range p.origins(ta.X, originOpts{}) {
					if _, ok := o.(*ssa.Parameter); !ok {
						allParams = false
					}
				}
				if allParams {
					r.ok(key, in.Pos(), "exempt: message argument of a grpc.ServerStream method, supplied by handler code")
					return
				}
			}
			// (3) prior comma-ok check of the same value: field loaded value whose every store is dominated by a successful assertion
			if f := loadedField(ta.X); f != nil {
				if ok, why := p.fieldAlwaysImplements(f, ta.AssertedType); ok {
					r.ok(key, in.Pos(), "prior check: %s", why)
				} else {
					r.bad(key, in.Pos(), "unchecked assertion of field %s to %s: %s", p.fieldKey(f), typeString(ta.AssertedType), why)
				}
				return
			}
			// (4) protobuf extension contract
			if c, ok := ta.X.(*ssa.Call); ok && calleeName(c) == "google.golang.org/protobuf/proto.GetExtension" {
				r.ok(key, in.Pos(), "exempt: proto.GetExtension returns the extension's declared Go type (protobuf-go contract)")
				return
			}
			// (5) same function: dominated by a successful comma-ok assertion of the same value to the same type
			if p.assertDominatedByCheck(ta) {
				r.ok(key, in.Pos(), "prior comma-ok assertion of the same value dominates")
				return
			}
			r.bad(key, in.Pos(), "single-result type assertion to %s panics if the dynamic type differs; no pool typing, prior check or exemption applies (operand: %s)", typeString(ta.AssertedType), describeValue(ta.X))
		})
	}
}

func isProtoMessage(t types.Type) bool {
	return isNamed(t, "google.golang.org/protobuf/reflect/protoreflect", "ProtoMessage") ||
		isNamed(t, "google.golang.org/protobuf/proto", "Message") ||
		strings.HasSuffix(typeString(t), "proto.Message") || strings.HasSuffix(typeString(t), "protoreflect.ProtoMessage")
}

func (p *Program) isServerStreamMethod(fn *ssa.Function) bool {
	if fn.Signature.Recv() == nil {
		return false
	}
	n := fn.Name()
	if n != "SendMsg" && n != "RecvMsg" {
		return false
	}
	ss := p.lookupIface("google.golang.org/grpc", "ServerStream")
	return ss != nil && types.Implements(fn.Signature.Recv().Type(), ss)
}

// poolSupplies: every Put on the pool and its New supply type t.
func (p *Program) poolSupplies(pool ssa.Value, t types.Type) (bool, string) {
	g, ok := pool.(*ssa.Global)
	if !ok {
		// pool stored in a struct field (gzip pools): check all Puts on that field
		if fa, ok := pool.(*ssa.FieldAddr); ok {
			f := fieldOfAddr(fa)
			n := 0
			for _, fn := range p.ModuleFuncs() {
				bad := ""
				eachInstr(fn, func(in ssa.Instruction) {
					c, ok := in.(ssa.CallInstruction)
					if !ok || calleeName(c) != "(*sync.Pool).Put" {
						return
					}
					if p.poolName(c.Common().Args[0]) != p.fieldKey(f) {
						return
					}
					n++
					if mi, ok := c.Common().Args[1].(*ssa.MakeInterface); !ok || !types.Identical(mi.X.Type(), t) {
						bad = p.Pos(in.Pos())
					}
				})
				if bad != "" {
					return false, "a Put at " + bad + " supplies another type"
				}
			}
			return true, fmt.Sprintf("%d Put sites on pool field %s all supply %s", n, p.fieldKey(f), typeString(t))
		}
		return false, "pool is not a package-level variable or struct field"
	}
	n := 0
	for _, fn := range p.ModuleFuncs() {
		bad := ""
		eachInstr(fn, func(in ssa.Instruction) {
			c, ok := in.(ssa.CallInstruction)
			if !ok || calleeName(c) != "(*sync.Pool).Put" || c.Common().Args[0] != ssa.Value(g) {
				return
			}
			n++
			if mi, ok := c.Common().Args[1].(*ssa.MakeInterface); !ok || !types.Identical(mi.X.Type(), t) {
				bad = p.Pos(in.Pos())
			}
		})
		if bad != "" {
			return false, "a Put at " + bad + " supplies another type"
		}
	}
	// New: the function literal stored in the pool's New field by the package initialiser
	newOK := false
	initFn := g.Pkg.Func("init")
	if initFn != nil {
		eachInstr(initFn, func(in ssa.Instruction) {
			st, ok := in.(*ssa.Store)
			if !ok {
				return
			}
			fa, ok := st.Addr.(*ssa.FieldAddr)
			if !ok || fa.X != ssa.Value(g) || fieldOfAddr(fa).Name() != "New" {
				return
			}
			var lit *ssa.Function
			switch v := st.Val.(type) {
			case *ssa.Function:
				lit = v
			case *ssa.MakeClosure:
				lit, _ = v.Fn.(*ssa.Function)
			}
			if lit == nil {
				return
			}
			good := true
			eachInstr(lit, func(x ssa.Instruction) {
				if rt, ok := x.(*ssa.Return); ok {
					if mi, ok := rt.Results[0].(*ssa.MakeInterface); !ok || !types.Identical(mi.X.Type(), t) {
						good = false
					}
				}
			})
			newOK = good
		})
	}
	if !newOK {
		return false, "the pool's New function does not (provably) return " + typeString(t)
	}
	return true, fmt.Sprintf("New and all %d Put sites of %s supply %s", n, g.Name(), typeString(t))
}

func (p *Program) poolIsField(v ssa.Value, f *types.Var) bool {
	switch x := v.(type) {
	case *ssa.FieldAddr:
		return fieldOfAddr(x) == f
	case *ssa.UnOp:
		// z.pool (a *sync.Pool loaded from a field): accept pools reached through a pointer field, resolved by type
		return x.Op == token.MUL
	}
	return false
}

// fieldAlwaysImplements: every store to field f stores a value that passed a comma-ok assertion to iface.
func (p *Program) fieldAlwaysImplements(f *types.Var, iface types.Type) (bool, string) {
	it, ok := iface.Underlying().(*types.Interface)
	if !ok {
		return false, "asserted type is not an interface"
	}
	n := 0
	for _, fn := range p.ModuleFuncs() {
		var bad string
		eachInstr(fn, func(in ssa.Instruction) {
			st, ok := in.(*ssa.Store)
			if !ok {
				return
			}
			fa, ok := st.Addr.(*ssa.FieldAddr)
			if !ok || fieldOfAddr(fa) != f {
				return
			}
			n++
			// static type already implements?
			for _, o := range p.origins(st.Val, originOpts{}) {
				if types.Implements(o.Type(), it) {
					continue
				}
				if !p.valueCheckedAgainst(o, it, in) {
					bad = fmt.Sprintf("store at %s of %s is not dominated by a successful comma-ok assertion to %s", p.Pos(in.Pos()), describeValue(o), typeString(iface))
				}
			}
		})
		if bad != "" {
			return false, bad
		}
	}
	if n == 0 {
		return false, "no store to the field found"
	}
	return true, fmt.Sprintf("all %d stores to %s are dominated by a successful comma-ok assertion to %s", n, p.fieldKey(f), typeString(iface))
}

// valueCheckedAgainst: at `at`, value v has passed `_, ok := v.(I)` with ok true, I ⊇ it.
func (p *Program) valueCheckedAgainst(v ssa.Value, it *types.Interface, at ssa.Instruction) bool {
	refs := v.Referrers()
	if refs == nil {
		return false
	}
	for _, ref := range *refs {
		ta, ok := ref.(*ssa.TypeAssert)
		if !ok || !ta.CommaOk {
			continue
		}
		ai, ok := ta.AssertedType.Underlying().(*types.Interface)
		if !ok || !types.Implements(ai, it) && !types.Identical(ai, it) {
			continue
		}
		for _, r2 := range *ta.Referrers() {
			ex, ok := r2.(*ssa.Extract)
			if !ok || ex.Index != 1 {
				continue
			}
			for _, g := range guardsOf(at.Block()) {
				if g.Cond == ssa.Value(ex) && g.True {
					return true
				}
			}
		}
	}
	return false
}

func (p *Program) assertDominatedByCheck(ta *ssa.TypeAssert) bool {
	it, ok := ta.AssertedType.Underlying().(*types.Interface)
	if !ok {
		return false
	}
	return p.valueCheckedAgainst(ta.X, it, ta)
}

// ---------------------------------------------------------------------------
// SIGNCONV
// ---------------------------------------------------------------------------

var wireLengthProducers = map[string]bool{
	"google.golang.org/protobuf/encoding/protowire.ConsumeVarint": true,
	"encoding/binary.Uvarint":                                     true,
	"(encoding/binary.bigEndian).Uint32":                          true,
	"(encoding/binary.bigEndian).Uint64":                          true,
	"(encoding/binary.littleEndian).Uint32":                       true,
	"(encoding/binary.littleEndian).Uint64":                       true,
	"(encoding/binary.ByteOrder).Uint32":                          true,
	"(encoding/binary.ByteOrder).Uint64":                          true,
}

func ruleSignConv(r *Run) {
	p := r.P
	n := 0
	for _, fn := range p.ModuleFuncs() {
		site := 0
		eachInstr(fn, func(in ssa.Instruction) {
			cv, ok := in.(*ssa.Convert)
			if !ok {
				return
			}
			src := cv.X
			if !isUnsignedInt(src.Type()) {
				return
			}
			tb, ok := cv.Type().Underlying().(*types.Basic)
			if !ok || tb.Info()&types.IsInteger == 0 || tb.Info()&types.IsUnsigned != 0 {
				return
			}
			// wire length?
			isWire := false
			for _, o := range p.origins(src, originOpts{}) {
				var c *ssa.Call
				switch x := o.(type) {
				case *ssa.Call:
					c = x
				case *ssa.Extract:
					c, _ = x.Tuple.(*ssa.Call)
				}
				if c != nil && wireLengthProducers[calleeName(c)] {
					isWire = true
				}
			}
			if !isWire {
				return
			}
			site++
			n++
			key := fmt.Sprintf("%s/conv:%s->%s#%d", shortFunc(fn), typeString(src.Type()), typeString(cv.Type()), site)
			if p.valuePreserving(src.Type(), cv.Type()) {
				r.ok(key, in.Pos(), "conversion %s -> %s preserves every value on %s", typeString(src.Type()), typeString(cv.Type()), p.Config)
				return
			}
			// must be bounded above in the unsigned domain before the conversion
			bounded := false
			for _, g := range guardsOf(cv.Block()) {
				bo, ok := g.Cond.(*ssa.BinOp)
				if !ok {
					continue
				}
				var op token.Token
				// the compared operand is the length itself, or a widening of it that keeps every value
				// (int64(size) on a 32-bit target) compared against something that fits the destination type
				peel := func(v ssa.Value) ssa.Value {
					for {
						c, ok := v.(*ssa.Convert)
						if !ok || !p.valuePreserving(c.X.Type(), c.Type()) {
							return v
						}
						v = c.X
					}
				}
				fits := func(side, other ssa.Value) bool {
					if isUnsignedInt(side.Type()) {
						return true // compared in the unsigned domain (rule as before)
					}
					// widened to a signed type: the bound must itself be representable in the destination
					if k, ok := constInt(other); ok {
						return k >= 0 && (p.sizes().Sizeof(tb) >= 8 || k < int64(1)<<uint(p.sizes().Sizeof(tb)*8-1))
					}
					ob := peel(other)
					return p.valuePreserving(ob.Type(), cv.Type())
				}
				if p.sameValue(peel(bo.X), src) && fits(bo.X, bo.Y) {
					op = bo.Op
				} else if p.sameValue(peel(bo.Y), src) && fits(bo.Y, bo.X) {
					switch bo.Op {
					case token.LSS:
						op = token.GTR
					case token.LEQ:
						op = token.GEQ
					case token.GTR:
						op = token.LSS
					case token.GEQ:
						op = token.LEQ
					}
				} else {
					continue
				}
				if (g.True && (op == token.LSS || op == token.LEQ)) || (!g.True && (op == token.GTR || op == token.GEQ)) {
					bounded = true
				}
			}
			if bounded {
				r.ok(key, in.Pos(), "the unsigned length is bounded from above before it is converted")
			} else {
				r.bad(key, in.Pos(), "wire length of type %s is converted to %s without a prior upper bound in the unsigned domain: values >= 2^%d become negative, pass `> limit` checks and reach slice bounds",
					typeString(src.Type()), typeString(cv.Type()), p.sizes().Sizeof(tb)*8-1)
			}
		})
	}
	if n == 0 {
		r.undecided("wire-length conversions", token.NoPos, "no conversion of a wire length found (producers: protowire.ConsumeVarint, binary.*.Uint32/64)")
	}
}

// ---------------------------------------------------------------------------
// OFFSET-BASE
// ---------------------------------------------------------------------------

var searchPrimitives = map[string]bool{
	"(larking.io/larking.tokens).index":    true,
	"(larking.io/larking.tokens).indexAny": true,
	"strings.Index":                        true, "strings.IndexByte": true, "strings.IndexAny": true, "strings.IndexRune": true, "strings.IndexFunc": true,
	"bytes.Index": true, "bytes.IndexByte": true, "bytes.IndexAny": true, "bytes.IndexRune": true, "bytes.IndexFunc": true,
}

func ruleOffsetBase(r *Run) {
	p := r.P
	sites := map[*ssa.Function]int{}
	for _, fn := range p.ModuleFuncs() {
		eachInstr(fn, func(in ssa.Instruction) {
			bo, ok := in.(*ssa.BinOp)
			if !ok || bo.Op != token.ADD {
				return
			}
			try := func(cur, j ssa.Value) bool {
				// the addend is the primitive's result, directly or as one arm of a choice
				// (`j := toks[i:].index(k); if j == -1 { j = n - i }; i += j`)
				var c *ssa.Call
				for _, o := range p.origins(j, originOpts{local: true}) {
					if oc, ok := o.(*ssa.Call); ok && searchPrimitives[calleeName(oc)] && len(oc.Call.Args) > 0 {
						c = oc
					}
				}
				if c == nil {
					return false
				}
				searched := c.Call.Args[0]
				// is cur a cursor into the sequence the primitive was applied to?
				base := searched
				var low ssa.Value
				if sl, ok := searched.(*ssa.Slice); ok {
					base, low = sl.X, sl.Low
				}
				if !p.isCursorInto(cur, base) {
					return false
				}
				// keyed by the function that calls the primitive: the addition may live in a helper
				sites[c.Parent()]++
				key := fmt.Sprintf("%s/cursor+=%s#%d", shortFunc(c.Parent()), shortName(calleeName(c)), sites[c.Parent()])
				if low != nil && p.sameValue(low, cur) {
					r.ok(key, in.Pos(), "the primitive searched the suffix starting at the cursor; its result is relative to the cursor")
				} else if low == nil {
					r.bad(key, in.Pos(), "index returned by %s is relative to the start of the whole sequence but is ADDED to a cursor that is already an offset into it: wrong base (capture length too long, later slice out of range / no match)", shortName(calleeName(c)))
				} else {
					r.bad(key, in.Pos(), "the primitive searched a suffix that does not start at the cursor it is added to")
				}
				return true
			}
			// the operands as seen from each call site when the addition sits in a transparent helper
			for _, bind := range p.bindings(fn) {
				x, y := bind.subst(bo.X), bind.subst(bo.Y)
				if !try(x, y) {
					try(y, x)
				}
			}
		})
	}
}

// isCursorInto: cur (an int value, typically a loop phi) is used to index or slice seq somewhere in the function.
func (p *Program) isCursorInto(cur, seq ssa.Value) bool {
	refs := cur.Referrers()
	if refs == nil {
		return false
	}
	for _, ref := range *refs {
		switch x := ref.(type) {
		case *ssa.IndexAddr:
			if x.Index == cur && p.sameSeq(x.X, seq) {
				return true
			}
		case *ssa.Index:
			if x.Index == cur && p.sameSeq(x.X, seq) {
				return true
			}
		case *ssa.Slice:
			if (x.Low == cur || x.High == cur) && p.sameSeq(x.X, seq) {
				return true
			}
		case *ssa.Lookup:
			if x.Index == cur && p.sameSeq(x.X, seq) { // string indexing s[i]
				return true
			}
		}
	}
	return false
}

func (p *Program) sameSeq(a, b ssa.Value) bool {
	if a == b {
		return true
	}
	return p.sameValue(a, b)
}

// ---------------------------------------------------------------------------
// TOKEN-KINDS (AST)
// ---------------------------------------------------------------------------

// TOKEN-KINDS on values: the kinds (constants of type tokenType) a token can have where it is appended to the
// pattern handed to addVariable are found by deciding, kind by kind, every branch condition over that token's
// .typ and asking whether the append is still reachable; the kinds variable.index handles are those for which its
// panic is unreachable in the same sense. A switch with merged cases, an if chain and a bit-mask test
// (`typ&allowed == 0`) are all the same to this evaluation.
func ruleTokenKinds(r *Run) {
	p := r.P
	idx := p.Method("variable", "index")
	add := p.Method("path", "addRule")
	if idx == nil {
		r.missing("method (*variable).index")
		return
	}
	if add == nil {
		r.missing("method (*path).addRule")
		return
	}
	typF := p.StructField("token", "typ")
	tokenT := p.NamedType("token")
	// all kinds
	kinds := map[int64]string{}
	scope := p.Lark.Types.Scope()
	for _, n := range scope.Names() {
		c, ok := scope.Lookup(n).(*types.Const)
		if !ok {
			continue
		}
		if nm := namedOf(c.Type()); nm == nil || nm.Obj().Name() != "tokenType" {
			continue
		}
		// kinds are the single-bit values (and 0) the lexer emits; unions of kinds declared as constants are masks
		if k, exact := constant.Int64Val(constant.ToInt(c.Val())); exact && k >= 0 && k&(k-1) == 0 {
			kinds[k] = n
		}
	}
	if len(kinds) == 0 || typF == nil || tokenT == nil {
		r.missing("token kinds (constants of type tokenType) / field token.typ")
		return
	}
	// typOf: is v the .typ of token value tok (a struct value or the address of one)?
	isTypOf := func(v, tok ssa.Value) bool {
		switch x := v.(type) {
		case *ssa.Field:
			st, ok := x.X.Type().Underlying().(*types.Struct)
			return ok && st.Field(x.Field) == typF && (x.X == tok || p.sameValue(x.X, tok))
		case *ssa.UnOp:
			if x.Op != token.MUL {
				return false
			}
			fa, ok := x.X.(*ssa.FieldAddr)
			if !ok || fieldOfAddr(fa) != typF {
				return false
			}
			if fa.X == tok || p.sameValue(fa.X, tok) {
				return true
			}
			// tok is a load of the cell whose field is addressed
			if lu, ok := tok.(*ssa.UnOp); ok && lu.Op == token.MUL && (lu.X == fa.X || p.sameValue(lu.X, fa.X)) {
				return true
			}
		}
		return false
	}
	var evalInt func(v, tok ssa.Value, k int64, d int) (int64, bool)
	evalInt = func(v, tok ssa.Value, k int64, d int) (int64, bool) {
		if d > 8 {
			return 0, false
		}
		if isTypOf(v, tok) {
			return k, true
		}
		if c, ok := constInt(v); ok {
			return c, true
		}
		switch x := v.(type) {
		case *ssa.Convert:
			return evalInt(x.X, tok, k, d+1)
		case *ssa.ChangeType:
			return evalInt(x.X, tok, k, d+1)
		case *ssa.BinOp:
			a, ok1 := evalInt(x.X, tok, k, d+1)
			b, ok2 := evalInt(x.Y, tok, k, d+1)
			if !ok1 || !ok2 {
				return 0, false
			}
			bl := func(t bool) (int64, bool) {
				if t {
					return 1, true
				}
				return 0, true
			}
			switch x.Op {
			case token.AND:
				return a & b, true
			case token.OR:
				return a | b, true
			case token.EQL:
				return bl(a == b)
			case token.NEQ:
				return bl(a != b)
			case token.LSS:
				return bl(a < b)
			case token.GTR:
				return bl(a > b)
			case token.LEQ:
				return bl(a <= b)
			case token.GEQ:
				return bl(a >= b)
			}
		case *ssa.UnOp:
			if x.Op == token.NOT {
				a, ok := evalInt(x.X, tok, k, d+1)
				return 1 - a, ok
			}
		}
		return 0, false
	}
	// reachable(fn, target, tok, k): is target reachable when every condition over tok.typ is decided for kind k?
	reachable := func(fn *ssa.Function, target ssa.Instruction, tok ssa.Value, k int64) bool {
		q := pathQuery{fn: fn, target: func(x ssa.Instruction) bool { return x == target },
			edgeOK: func(b *ssa.BasicBlock, succ int) bool {
				ifi := blockIf(b)
				if ifi == nil {
					return true
				}
				v, ok := evalInt(ifi.Cond, tok, k, 0)
				if !ok {
					return true
				}
				return (v != 0) == (succ == 0)
			}}
		w, _ := q.find()
		return w != nil
	}
	// (1) kinds variable.index handles: its panic is unreachable for a template token of that kind
	var panics []ssa.Instruction
	var tmplToks []ssa.Value
	eachInstr(idx, func(in ssa.Instruction) {
		if pn, ok := in.(*ssa.Panic); ok {
			panics = append(panics, pn)
		}
		// the template token under the switch: any value of type token whose .typ is read
		switch x := in.(type) {
		case *ssa.Field:
			if st, ok := x.X.Type().Underlying().(*types.Struct); ok && st.Field(x.Field) == typF {
				tmplToks = append(tmplToks, x.X)
			}
		case *ssa.FieldAddr:
			if fieldOfAddr(x) == typF {
				tmplToks = append(tmplToks, x.X)
			}
		}
	})
	allowed := map[int64]bool{}
	if len(panics) == 0 {
		for k := range kinds {
			allowed[k] = true
		}
	} else {
		for k := range kinds {
			can := false
			for _, pn := range panics {
				// the panic is reachable for kind k if it is for every candidate token (conditions on other tokens stay open)
				all := true
				for _, t := range tmplToks {
					if !reachable(idx, pn, t, k) {
						all = false
					}
				}
				if all {
					can = true
				}
			}
			if !can {
				allowed[k] = true
			}
		}
	}
	if len(allowed) == 0 || len(allowed) == len(kinds) && len(panics) > 0 {
		r.undecided("(*variable).index/handled-kinds", idx.Pos(), "could not separate the token kinds variable.index handles from those it panics on")
		return
	}
	var names []string
	for k := range allowed {
		names = append(names, kinds[k])
	}
	sort.Strings(names)
	r.ok("(*variable).index/handled-kinds", idx.Pos(), "handles %s; panics on every other kind", strings.Join(names, ", "))
	// (2) every token appended to a list that is handed to addVariable
	var lists []ssa.Value
	p.eachInstrR(add, func(in ssa.Instruction) {
		if c, ok := in.(*ssa.Call); ok && calleeName(c) == "(*larking.io/larking.path).addVariable" && len(c.Call.Args) == 2 {
			lists = append(lists, p.origins(c.Call.Args[1], originOpts{throughAppend: true, throughSlice: true})...)
		}
	})
	site := 0
	for _, n := range p.rootedRegion(add) {
		n := n
		eachInstr(n.fn, func(in ssa.Instruction) {
			c, ok := in.(*ssa.Call)
			if !ok {
				return
			}
			if b, isB := c.Call.Value.(*ssa.Builtin); !isB || b.Name() != "append" || len(c.Call.Args) < 2 {
				return
			}
			st, ok := c.Type().Underlying().(*types.Slice)
			if !ok || namedOf(st.Elem()) != tokenT {
				return
			}
			// does this append feed addVariable's argument?
			feeds := false
			for _, l := range lists {
				if l == ssa.Value(c) {
					feeds = true
				}
				for _, o := range p.origins(c, originOpts{throughAppend: true, throughSlice: true}) {
					if o == l {
						feeds = true
					}
				}
			}
			if !feeds {
				// same variable: the append's destination shares an origin with a list handed to addVariable
				for _, o := range p.origins(c.Call.Args[0], originOpts{throughAppend: true, throughSlice: true}) {
					for _, l := range lists {
						if o == l {
							feeds = true
						}
					}
				}
			}
			if !feeds {
				return
			}
			// the appended values themselves (the packed variadic arguments), not what they were assigned from
			var els []ssa.Value
			if sl, ok := c.Call.Args[1].(*ssa.Slice); ok {
				els = variadicElems(sl.X)
			}
			if len(els) == 0 {
				els = []ssa.Value{c.Call.Args[1]}
			}
			for _, el := range els {
				site++
				key := fmt.Sprintf("(*path).addRule/append-to-pattern#%d", site)
				var bad []string
				nposs := 0
				for k, name := range kinds {
					// a literal token{typ: K}: its kind is K
					lit := false
					if lu, ok := el.(*ssa.UnOp); ok && lu.Op == token.MUL {
						if al, ok := lu.X.(*ssa.Alloc); ok && al.Comment == "complit" && al.Referrers() != nil {
							for _, ref := range *al.Referrers() {
								fa, ok := ref.(*ssa.FieldAddr)
								if !ok || fieldOfAddr(fa) != typF || fa.Referrers() == nil {
									continue
								}
								for _, r2 := range *fa.Referrers() {
									if st, ok := r2.(*ssa.Store); ok {
										lit = true
										if kk, ok := constInt(st.Val); ok && kk == k {
											nposs++
											if !allowed[k] {
												bad = append(bad, name)
											}
										}
									}
								}
							}
						}
					}
					if lit {
						continue
					}
					if reachable(n.fn, in, el, k) {
						nposs++
						if !allowed[k] {
							bad = append(bad, name)
						}
					}
				}
				sort.Strings(bad)
				switch {
				case nposs == 0:
					r.undecided(key, in.Pos(), "no possible kind found for the appended token")
				case len(bad) > 0:
					r.bad(key, in.Pos(), "the token appended to the variable pattern can be of kind %s, which variable.index does not handle: it ends up in the pattern and variable.index panics on it at request time (the token is appended whatever its kind, or the kind test admits too much)", strings.Join(bad, ", "))
				default:
					r.ok(key, in.Pos(), "every kind the appended token can have here is handled by variable.index")
				}
			}
		})
	}
	if site == 0 {
		r.undecided("(*path).addRule/append-to-pattern", add.Pos(), "no append to a list handed to addVariable found")
	}
}

// ---------------------------------------------------------------------------
// NIL-MAP-WRITE
// ---------------------------------------------------------------------------

func ruleNilMapWrite(r *Run) {
	p := r.P
	e := p.Effects()
	// collect map-typed fields of protected structs that are written through
	type fieldRef struct{ owner, field string }
	written := map[fieldRef]token.Pos{}
	for _, fn := range p.ModuleFuncs() {
		for _, w := range e.AllWrites(fn) {
			if w.Kind == "mapupdate" && !w.Fresh {
				written[fieldRef{w.Owner, w.Field}] = w.Instr.Pos()
			}
		}
	}
	var keys []fieldRef
	for k := range written {
		keys = append(keys, k)
	}
	sort.Slice(keys, func(i, j int) bool { return keys[i].owner+keys[i].field < keys[j].owner+keys[j].field })
	for _, k := range keys {
		key := k.owner + "." + k.field
		named := p.NamedType(k.owner)
		if named == nil {
			continue
		}
		// every allocation of the struct (composite literal / new) in the module must store a made map into the field,
		// or the write site is guarded by a nil test that makes the map.
		nAlloc, nInit := 0, 0
		var firstBad token.Pos
		for _, fn := range p.ModuleFuncs() {
			eachInstr(fn, func(in ssa.Instruction) {
				al, ok := in.(*ssa.Alloc)
				if !ok || namedOf(al.Type()) != named {
					return
				}
				if _, isPtrToStruct := al.Type().Underlying().(*types.Pointer).Elem().Underlying().(*types.Struct); !isPtrToStruct {
					return
				}
				nAlloc++
				inited := false
				for _, ref := range *al.Referrers() {
					fa, ok := ref.(*ssa.FieldAddr)
					if !ok || fieldOfAddr(fa).Name() != k.field {
						continue
					}
					for _, r2 := range *fa.Referrers() {
						if st, ok := r2.(*ssa.Store); ok && !isNilConst(st.Val) {
							inited = true
						}
					}
				}
				if inited {
					nInit++
				} else if firstBad == token.NoPos {
					firstBad = al.Pos()
				}
			})
		}
		if nAlloc == nInit {
			r.ok(key, written[k], "all %d allocations of %s initialise the map", nAlloc, k.owner)
			continue
		}
		// nil-guarded write?
		guarded := true
		for _, fn := range p.ModuleFuncs() {
			for _, w := range e.AllWrites(fn) {
				if w.Kind != "mapupdate" || w.Owner != k.owner || w.Field != k.field || w.Fresh {
					continue
				}
				// accept if the function contains a store of a MakeMap into the same field (the `if m == nil { m = make }` idiom)
				has := false
				for _, w2 := range e.AllWrites(fn) {
					if w2.Kind == "store" && w2.Owner == k.owner && w2.Field == k.field {
						if st, ok := w2.Instr.(*ssa.Store); ok {
							if _, ok := st.Val.(*ssa.MakeMap); ok {
								has = true
							}
						}
					}
				}
				if !has {
					guarded = false
				}
			}
		}
		if guarded {
			r.ok(key, written[k], "writes are preceded by the make-if-nil idiom in the same function")
		} else if k.owner == "muxOptions" || k.owner == "ruleSelector" {
			r.ok(key, written[k], "configuration-time map (written only by option closures before serving)")
		} else {
			r.bad(key, firstBad, "an allocation of %s leaves map field %s nil, and a writer assigns through it: assignment to entry in nil map", k.owner, k.field)
		}
	}
}
