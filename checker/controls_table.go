package main

// Overlay controls (DESIGN.md Appendix A). Each edit keeps the tree compiling
// and breaks exactly one rule instance.
func init() {
	// ---- COW family (C12) ----
	control(&Control{ID: "cow1-second-store", Rule: "COW-1", File: "larking/handler.go",
		Old: "\tm.storeState(s)\n\treturn nil\n}", New: "\tm.state.Store(s)\n\treturn nil\n}",
		Expect: "registerService/&Mux.state/Store", Why: "publish with m.state.Store directly in registerService"})
	control(&Control{ID: "cow2-no-lock", Rule: "COW-2", File: "larking/mux.go",
		Old:    "\t// Load the state for writing.\n\tm.mu.Lock()\n\tdefer m.mu.Unlock()\n\ts := m.loadState().clone()\n\n\tif err := s.addConnHandler",
		New:    "\t// Load the state for writing.\n\ts := m.loadState().clone()\n\n\tif err := s.addConnHandler",
		Expect: "RegisterConn/lock", Why: "delete Lock/Unlock in RegisterConn"})
	control(&Control{ID: "cow2-late-lock", Rule: "COW-2", File: "larking/handler.go",
		Old:    "\tm.mu.Lock()\n\tdefer m.mu.Unlock()\n\ts := m.loadState().clone()\n",
		New:    "\ts := m.loadState().clone()\n\tm.mu.Lock()\n\tdefer m.mu.Unlock()\n",
		Expect: "registerService/locked:(*Mux).loadState", Why: "clone the snapshot before taking the lock in registerService"})
	control(&Control{ID: "cow3-no-clone", Rule: "COW-3", File: "larking/handler.go",
		Old: "\ts := m.loadState().clone()\n\n\td, err := m.opts.files", New: "\ts := m.loadState()\n\n\td, err := m.opts.files",
		Expect: "registerService/", Why: "registerService mutates the loaded snapshot itself (no clone)"})
	control(&Control{ID: "cow4-memoise-in-search", Rule: "COW-4", File: "larking/rules.go",
		Old:    "\t\tif m := p.methodAll; m != nil {\n\t\t\treturn m, nil, nil\n\t\t}",
		New:    "\t\tif m := p.methodAll; m != nil {\n\t\t\tp.methods[verb] = m\n\t\t\treturn m, nil, nil\n\t\t}",
		Expect: "(*path).search/writes:path.methods", Why: "memoise the '*' binding into p.methods during search"})
	control(&Control{ID: "cow5-share-segments", Rule: "COW-5", File: "larking/rules.go",
		Old: "\t\tpc.segments[k] = s.clone()", New: "\t\tpc.segments[k] = s",
		Expect: "(*path).clone/shares:path.segments[]", Why: "path.clone shares child nodes"})
	control(&Control{ID: "cow5-share-handlers-map", Rule: "COW-5", File: "larking/mux.go",
		Old: "\t\tconns:    conns,\n\t\thandlers: handlers,\n\t}", New: "\t\tconns:    conns,\n\t\thandlers: s.handlers,\n\t}",
		Expect: "(*state).clone/shares:state.handlers", Why: "state.clone shares the handlers map"})
	control(&Control{ID: "cow5-share-variables", Rule: "COW-5", File: "larking/rules.go",
		Old:    "\tpc.variables = make(variables, len(p.variables))\n\tfor i, v := range p.variables {\n\t\tpc.variables[i] = &variable{\n\t\t\tname: v.name, // RO\n\t\t\ttoks: v.toks, // RO\n\t\t\tnext: v.next.clone(),\n\t\t}\n\t}",
		New:    "\tpc.variables = p.variables",
		Expect: "(*path).clone/shares:path.variables", Why: "path.clone shares the variables slice"})
	control(&Control{ID: "cow5-drop-methodAll", Rule: "COW-5", File: "larking/rules.go",
		Old: "\tpc.methodAll = p.methodAll\n", New: "",
		Expect: "(*path).clone/carries:path.methodAll", Why: "path.clone forgets methodAll"})
	control(&Control{ID: "cow5-share-variable-next", Rule: "COW-5", File: "larking/rules.go",
		Old: "\t\t\tnext: v.next.clone(),", New: "\t\t\tnext: v.next,",
		Expect: "(*path).clone/shares:variable.next", Why: "cloned variable keeps the published subtree"})
	control(&Control{ID: "cow6-second-load", Rule: "COW-6", File: "larking/http.go",
		Old: "\thd, err := s.pickMethodHandler(method.name)", New: "\thd, err := m.loadState().pickMethodHandler(method.name)",
		Expect: "serveHTTP/one-snapshot", Why: "second loadState() for the handler lookup"})
	control(&Control{ID: "cow7-store-before-streams", Rule: "COW-7", File: "larking/handler.go",
		Old: "\tfor i := range gsd.Streams {", New: "\tm.storeState(s)\n\tfor i := range gsd.Streams {",
		Expect: "registerService/", Why: "publish before the streams loop, which can still fail and mutate"})
	control(&Control{ID: "optsro-write-in-serve", Rule: "OPTS-RO", File: "larking/http.go",
		Old: "\tcontentEncoding := r.Header.Get(\"Content-Encoding\")\n", New: "\tcontentEncoding := r.Header.Get(\"Content-Encoding\")\n\tm.opts.maxReceiveMessageSize = int(r.ContentLength)\n",
		Expect: "serveHTTP/writes:muxOptions.maxReceiveMessageSize", Why: "serveHTTP adjusts the shared receive limit per request"})
	control(&Control{ID: "optsro-codec-cache", Rule: "OPTS-RO", File: "larking/http.go",
		Old:    "\tcodecType = mediaType\n\tif c, ok := s.opts.codecs[codecType]; ok {\n\t\treturn c, nil\n\t}",
		New:    "\tcodecType = mediaType\n\tif c, ok := s.opts.codecs[codecType]; ok {\n\t\ts.opts.codecs[string(cur.Descriptor().FullName())] = c\n\t\treturn c, nil\n\t}",
		Expect: "getCodec/writes:muxOptions.codecs", Why: "getCodec caches into the shared codecs map"})
	// ---- C11 ----
	control(&Control{ID: "wp-drop-store-registerconn", Rule: "WRITER-PUBLISHES", File: "larking/mux.go",
		Old: "\tm.storeState(s)\n\n\treturn stream.CloseSend()", New: "\treturn stream.CloseSend()",
		Expect: "RegisterConn/publishes-after", Why: "RegisterConn forgets to publish"})
}
