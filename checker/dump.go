package main

import (
	"fmt"
	"sort"
)

func dump(what string) {
	p, err := Load(*flagRepo, defaultConfig, nil)
	if err != nil {
		fmt.Println("load:", err)
		return
	}
	if len(what) > 6 && what[:6] == "edges:" {
		dumpEdges(p, what[6:])
		return
	}
	switch what {
	case "effects":
		e := p.Effects()
		fmt.Println("mutators:", e.MutatorSet())
		for _, fn := range p.ModuleFuncs() {
			for _, w := range e.AllWrites(fn) {
				fmt.Printf("  %-40s %-26s %-14s fresh=%v %s\n", shortFunc(fn), w.Target(), w.Kind, w.Fresh, p.Pos(w.Instr.Pos()))
			}
		}
		fmt.Println("container-mutated:")
		cm := e.ContainerMutated()
		var ks []string
		for k := range cm {
			ks = append(ks, k)
		}
		sort.Strings(ks)
		for _, k := range ks {
			fmt.Println("  ", k, cm[k])
		}
		fmt.Println("struct-mutated:")
		for k, v := range e.StructMutated() {
			fmt.Println("  ", k, v)
		}
	case "helpers":
		h := p.helpers()
		for _, fn := range p.ModuleFuncs() {
			if fn.Parent() != nil || fn.Synthetic != "" {
				continue
			}
			kind := "opaque"
			switch {
			case h.anchors[fn]:
				kind = "anchor"
			case h.transparent[fn]:
				kind = "transparent"
			}
			fmt.Printf("%-12s %-50s sites=%d value=%v\n", kind, shortFunc(fn), len(h.sites[fn]), h.usedAsValue[fn])
		}
	case "roots":
		for _, f := range p.ServingRoots() {
			fmt.Println("serving", shortFunc(f))
		}
		for _, f := range p.RegistrationRoots() {
			fmt.Println("registration", shortFunc(f))
		}
	case "reach":
		r := p.Reach(p.ServingRoots())
		var names []string
		for f := range r {
			names = append(names, p.callPath(r, f))
		}
		sort.Strings(names)
		for _, n := range names {
			fmt.Println(n)
		}
	}
}

func dumpEdges(p *Program, from string) {
	cg := p.CallGraph()
	for fn, n := range cg.Nodes {
		if fn == nil || shortFunc(fn) != from {
			continue
		}
		for _, e := range n.Out {
			pos := "-"
			if e.Site != nil {
				pos = p.Pos(e.Site.Pos())
			}
			fmt.Printf("%s -> %s at %s\n", from, shortFunc(e.Callee.Func), pos)
		}
	}
}
