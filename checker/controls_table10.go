package main

// Controls for the rules and clauses added after the ninth round of seeded changes.
func init() {
	control(&Control{ID: "stateappend-field-path", Rule: "STATE-SLICE-APPEND", File: "larking/rules.go",
		Old: "\t\tp := param{fds: fds}\n", New: "\t\tfds = append(fds, nil)\n\t\tp := param{fds: fds}\n",
		Expect: "append-into-state", Why: "request code appends to a field-path slice of the route trie"})
	control(&Control{ID: "capturepair-wildcard-unlisted", Rule: "CAPTURE-PAIRING", File: "larking/rules.go",
		Old: "\t\t\tvarfds = append(varfds, nil)\n\t\t\tv := cursor.addVariable(l.toks[i : i+1])\n", New: "\t\t\tv := cursor.addVariable(l.toks[i : i+1])\n",
		Expect: "one-field-path-per-variable-node", Why: "variable node without a field-path entry"})
	control(&Control{ID: "capturepair-skip-empty-capture", Rule: "CAPTURE-PAIRING", File: "larking/rules.go",
		Old: "\t\tps = append(ps, p)\n\t\treturn m, ps, nil\n", New: "\t\tif len(fds) > 0 {\n\t\t\tps = append(ps, p)\n\t\t}\n\t\treturn m, ps, nil\n",
		Expect: "one-param-per-variable-node", Why: "found method returned without a parameter for the node"})
	control(&Control{ID: "unmarshal-merge", Rule: "UNMARSHAL-RESETS", File: "larking/codec.go",
		Old: "\treturn proto.Unmarshal(data, m)\n", New: "\treturn proto.UnmarshalOptions{Merge: true}.Unmarshal(data, m)\n",
		Expect: "merge-option", Why: "destination not reset"})
	control(&Control{ID: "fullduplex-web", Rule: "NO-FULL-DUPLEX", File: "larking/web.go",
		Old: "\tr.ProtoMajor = 2\n\tr.ProtoMinor = 0\n", New: "\t_ = http.NewResponseController(w).EnableFullDuplex()\n\tr.ProtoMajor = 2\n\tr.ProtoMinor = 0\n",
		Expect: "full-duplex", Why: "full duplex enabled for gRPC-web"})
	control(&Control{ID: "statusblock-conditional-flush", Rule: "STATUS-BLOCK", File: "larking/grpc.go",
		Old: "\tflusher.Flush()\n\tr.Body.Close()\n\n\t// Write status.\n", New: "\tif herr == nil {\n\t\tflusher.Flush()\n\t}\n\tr.Body.Close()\n\n\t// Write status.\n",
		Expect: "status-block", Why: "failed RPCs answered without flushing the headers"})
	control(&Control{ID: "fdhash-not-a-digest", Rule: "FDHASH-STREAMED", File: "larking/mux.go",
		Old: "\tfdHash := h.Sum(nil)\n", New: "\tfdHash := []byte(fmt.Sprint(len(fds)))\n",
		Expect: "fd-hash", Why: "'unchanged' decided on something else than the streamed digest"})
	control(&Control{ID: "scanprogress-comma-not-consumed", Rule: "SCAN-PROGRESS", File: "larking/negotiate.go",
		Old: "\t\t\t\tcontinue loop\n\t\t\t}\n\t\t\ts = skipSpace(s[1:])\n", New: "\t\t\t\tcontinue loop\n\t\t\t}\n\t\t\ts = skipSpace(s)\n",
		Expect: "parseAccept/consumes", Why: "way round the loop without a consuming step"})
	control(&Control{ID: "statspure-writer-wrapped", Rule: "STATS-PURE", File: "larking/http.go",
		Old: "\tvar resp io.Writer = w\n", New: "\tvar resp io.Writer = w\n\tif m.opts.statsHandler != nil {\n\t\tresp = struct{ io.Writer }{w}\n\t}\n",
		Expect: "value-choice", Why: "response writer replaced only when stats are on"})
}

func init() {
	control(&Control{ID: "delruletotal-first-hit-only", Rule: "DELRULE-TOTAL", File: "larking/rules.go",
		Old: "\t\tif m.name == name {\n\t\t\tdelete(p.methods, k)\n\t\t\tdeleted = true\n\t\t}\n", New: "\t\tif m.name == name {\n\t\t\tdelete(p.methods, k)\n\t\t\treturn true\n\t\t}\n",
		Expect: "loop-runs-to-its-end", Why: "only the first verb entry of the method is removed"})
	control(&Control{ID: "delruletotal-alive-ignores-methodall", Rule: "DELRULE-TOTAL", File: "larking/rules.go",
		Old: "\treturn len(p.methods) != 0 ||\n\t\tp.methodAll != nil ||\n", New: "\treturn len(p.methods) != 0 ||\n",
		Expect: "reads:path.methodAll", Why: "a node holding only a kind-* route counts as dead"})
}

func init() {
	control(&Control{ID: "mdgateout-unfolded-key", Rule: "MD-GATE-OUT", File: "larking/grpc.go",
		Old: "\t\tk = strings.ToLower(k)\n\t\tif isReservedResponseHeader(k) {\n", New: "\t\tif isReservedResponseHeader(k) {\n",
		Expect: "reserved-filter-folds-case", Why: "mixed-case reserved key passes the filter"})
	control(&Control{ID: "headermd-dropped-on-failure", Rule: "HEADER-MD-ON-FAILURE", File: "larking/http.go",
		Old: "\t\t\tsetOutgoingHeader(w.Header(), stream.header)\n\t\t\tw.Header().Set(\"Content-Encoding\", \"identity\") // try to avoid gzip\n", New: "\t\t\tw.Header().Set(\"Content-Encoding\", \"identity\") // try to avoid gzip\n",
		Expect: "header-metadata-before-error", Why: "failing RPC drops the header metadata"})
}

func init() {
	control(&Control{ID: "webflush-lazy", Rule: "WEB-FLUSH-COMMITS", File: "larking/web.go",
		Old: "\tif !w.wroteHeader {\n\t\tw.seeHeaders()\n\t}\n\tif f, ok := w.w.(http.Flusher); ok {\n\t\tf.Flush()\n\t}\n", New: "\tif w.wroteHeader {\n\t\tif f, ok := w.w.(http.Flusher); ok {\n\t\t\tf.Flush()\n\t\t}\n\t}\n",
		Expect: "(*webWriter).Flush/records-headers", Why: "flush before any write records nothing"})
}

func init() {
	control(&Control{ID: "limitdirection-send-vs-receive", Rule: "LIMIT-DIRECTION", File: "larking/grpc.go",
		Old: "\tif int(size) > s.opts.maxSendMessageSize {\n", New: "\tif int(size) > s.opts.maxReceiveMessageSize {\n",
		Expect: "(*streamGRPC).SendMsg/refusal-uses-send-limit", Why: "reply checked against the receive limit"})
}

func init() {
	control(&Control{ID: "eofphantom-end-as-message", Rule: "EOF-NO-PHANTOM", File: "larking/http.go",
		Old: "\t\t\tif n == 0 && count > 0 {\n", New: "\t\t\tif n == 0 && count > 0 && len(b) > 0 {\n",
		Expect: "end-of-body-is-no-message", Why: "clean end delivered as an empty message"})
}

func init() {
	control(&Control{ID: "dispatch-grpc-before-web", Rule: "DISPATCH-PREFIX-ORDER", File: "larking/mux.go",
		Old:    "\tif strings.HasPrefix(\n\t\tr.Header.Get(\"Content-Type\"), \"application/grpc-web\",\n\t) {\n\t\tm.serveGRPCWeb(w, r)\n\t\treturn\n\t}\n\n\tif r.ProtoMajor == 2 && strings.HasPrefix(\n\t\tr.Header.Get(\"Content-Type\"), \"application/grpc\",\n\t) {\n\t\tm.serveGRPC(w, r)\n\t\treturn\n\t}\n",
		New:    "\tif r.ProtoMajor == 2 && strings.HasPrefix(\n\t\tr.Header.Get(\"Content-Type\"), \"application/grpc\",\n\t) {\n\t\tm.serveGRPC(w, r)\n\t\treturn\n\t}\n\n\tif strings.HasPrefix(\n\t\tr.Header.Get(\"Content-Type\"), \"application/grpc-web\",\n\t) {\n\t\tm.serveGRPCWeb(w, r)\n\t\treturn\n\t}\n",
		Expect: "prefix-order", Why: "shorter prefix tested first"})
}
