package main

// Controls for the rules and clauses added after the ninth round of seeded changes.
func init() {
	control(&Control{ID: "stateappend-field-path", Rule: "STATE-SLICE-APPEND", File: "larking/rules.go",
		Old: "\t\tp := param{fds: fds}\n", New: "\t\tfds = append(fds, nil)\n\t\tp := param{fds: fds}\n",
		Expect: "append-into-state", Why: "request code appends to a field-path slice of the route trie"})
	control(&Control{ID: "capturepair-wildcard-unlisted", Rule: "CAPTURE-PAIRING", File: "larking/rules.go",
		Old: "\t\t\tvarfds = append(varfds, nil)\n\t\t\tv := cursor.addVariable(l.toks[i : i+1])\n", New: "\t\t\tv := cursor.addVariable(l.toks[i : i+1])\n",
		Expect: "one-field-path-per-variable-node", Why: "variable node without a field-path entry"})
	control(&Control{ID: "capturepair-skip-empty-capture", Rule: "CAPTURE-PAIRING", File: "larking/rules.go",
		Old: "\t\tps = append(ps, p)\n\t\treturn m, ps, nil\n", New: "\t\tif len(fds) > 0 {\n\t\t\tps = append(ps, p)\n\t\t}\n\t\treturn m, ps, nil\n",
		Expect: "one-param-per-variable-node", Why: "found method returned without a parameter for the node"})
	control(&Control{ID: "unmarshal-merge", Rule: "UNMARSHAL-RESETS", File: "larking/codec.go",
		Old: "\treturn proto.Unmarshal(data, m)\n", New: "\treturn proto.UnmarshalOptions{Merge: true}.Unmarshal(data, m)\n",
		Expect: "merge-option", Why: "destination not reset"})
	control(&Control{ID: "fullduplex-web", Rule: "NO-FULL-DUPLEX", File: "larking/web.go",
		Old: "\tr.ProtoMajor = 2\n\tr.ProtoMinor = 0\n", New: "\t_ = http.NewResponseController(w).EnableFullDuplex()\n\tr.ProtoMajor = 2\n\tr.ProtoMinor = 0\n",
		Expect: "full-duplex", Why: "full duplex enabled for gRPC-web"})
	control(&Control{ID: "statusblock-conditional-flush", Rule: "STATUS-BLOCK", File: "larking/grpc.go",
		Old: "\tflusher.Flush()\n\tr.Body.Close()\n\n\t// Write status.\n", New: "\tif herr == nil {\n\t\tflusher.Flush()\n\t}\n\tr.Body.Close()\n\n\t// Write status.\n",
		Expect: "status-block", Why: "failed RPCs answered without flushing the headers"})
	control(&Control{ID: "fdhash-not-a-digest", Rule: "FDHASH-STREAMED", File: "larking/mux.go",
		Old: "\tfdHash := h.Sum(nil)\n", New: "\tfdHash := []byte(fmt.Sprint(len(fds)))\n",
		Expect: "fd-hash", Why: "'unchanged' decided on something else than the streamed digest"})
	control(&Control{ID: "scanprogress-comma-not-consumed", Rule: "SCAN-PROGRESS", File: "larking/negotiate.go",
		Old: "\t\t\t\tcontinue loop\n\t\t\t}\n\t\t\ts = skipSpace(s[1:])\n", New: "\t\t\t\tcontinue loop\n\t\t\t}\n\t\t\ts = skipSpace(s)\n",
		Expect: "parseAccept/consumes", Why: "way round the loop without a consuming step"})
	control(&Control{ID: "statspure-writer-wrapped", Rule: "STATS-PURE", File: "larking/http.go",
		Old: "\tvar resp io.Writer = w\n", New: "\tvar resp io.Writer = w\n\tif m.opts.statsHandler != nil {\n\t\tresp = struct{ io.Writer }{w}\n\t}\n",
		Expect: "value-choice", Why: "response writer replaced only when stats are on"})
}

func init() {
	control(&Control{ID: "delruletotal-first-hit-only", Rule: "DELRULE-TOTAL", File: "larking/rules.go",
		Old: "\t\tif m.name == name {\n\t\t\tdelete(p.methods, k)\n\t\t\tdeleted = true\n\t\t}\n", New: "\t\tif m.name == name {\n\t\t\tdelete(p.methods, k)\n\t\t\treturn true\n\t\t}\n",
		Expect: "loop-runs-to-its-end", Why: "only the first verb entry of the method is removed"})
	control(&Control{ID: "delruletotal-alive-ignores-methodall", Rule: "DELRULE-TOTAL", File: "larking/rules.go",
		Old: "\treturn len(p.methods) != 0 ||\n\t\tp.methodAll != nil ||\n", New: "\treturn len(p.methods) != 0 ||\n",
		Expect: "reads:path.methodAll", Why: "a node holding only a kind-* route counts as dead"})
}

func init() {
	control(&Control{ID: "mdgateout-unfolded-key", Rule: "MD-GATE-OUT", File: "larking/grpc.go",
		Old: "\t\tk = strings.ToLower(k)\n\t\tif isReservedResponseHeader(k) {\n", New: "\t\tif isReservedResponseHeader(k) {\n",
		Expect: "reserved-filter-folds-case", Why: "mixed-case reserved key passes the filter"})
	control(&Control{ID: "headermd-dropped-on-failure", Rule: "HEADER-MD-ON-FAILURE", File: "larking/http.go",
		Old: "\t\t\tsetOutgoingHeader(w.Header(), stream.header)\n\t\t\tw.Header().Set(\"Content-Encoding\", \"identity\") // try to avoid gzip\n", New: "\t\t\tw.Header().Set(\"Content-Encoding\", \"identity\") // try to avoid gzip\n",
		Expect: "header-metadata-before-error", Why: "failing RPC drops the header metadata"})
}

func init() {
	control(&Control{ID: "webflush-lazy", Rule: "WEB-FLUSH-COMMITS", File: "larking/web.go",
		Old: "\tif !w.wroteHeader {\n\t\tw.seeHeaders()\n\t}\n\tif f, ok := w.w.(http.Flusher); ok {\n\t\tf.Flush()\n\t}\n", New: "\tif w.wroteHeader {\n\t\tif f, ok := w.w.(http.Flusher); ok {\n\t\t\tf.Flush()\n\t\t}\n\t}\n",
		Expect: "(*webWriter).Flush/records-headers", Why: "flush before any write records nothing"})
}

func init() {
	control(&Control{ID: "limitdirection-send-vs-receive", Rule: "LIMIT-DIRECTION", File: "larking/grpc.go",
		Old: "\tif int(size) > s.opts.maxSendMessageSize {\n", New: "\tif int(size) > s.opts.maxReceiveMessageSize {\n",
		Expect: "(*streamGRPC).SendMsg/refusal-uses-send-limit", Why: "reply checked against the receive limit"})
}

func init() {
	control(&Control{ID: "eofphantom-end-as-message", Rule: "EOF-NO-PHANTOM", File: "larking/http.go",
		Old: "\t\t\t\tif count > 0 {\n\t\t\t\t\treturn count, nil, io.EOF\n\t\t\t\t}\n", New: "\t\t\t\tif count > 0 && len(b) > 0 {\n\t\t\t\t\treturn count, nil, io.EOF\n\t\t\t\t}\n",
		Expect: "end-of-body-is-no-message", Why: "clean end delivered as an empty message"})
}

func init() {
	control(&Control{ID: "dispatch-grpc-before-web", Rule: "DISPATCH-PREFIX-ORDER", File: "larking/mux.go",
		Old:    "\tif strings.HasPrefix(\n\t\tr.Header.Get(\"Content-Type\"), \"application/grpc-web\",\n\t) {\n\t\tm.serveGRPCWeb(w, r)\n\t\treturn\n\t}\n\n\tif r.ProtoMajor == 2 && strings.HasPrefix(\n\t\tr.Header.Get(\"Content-Type\"), \"application/grpc\",\n\t) {\n\t\tm.serveGRPC(w, r)\n\t\treturn\n\t}\n",
		New:    "\tif r.ProtoMajor == 2 && strings.HasPrefix(\n\t\tr.Header.Get(\"Content-Type\"), \"application/grpc\",\n\t) {\n\t\tm.serveGRPC(w, r)\n\t\treturn\n\t}\n\n\tif strings.HasPrefix(\n\t\tr.Header.Get(\"Content-Type\"), \"application/grpc-web\",\n\t) {\n\t\tm.serveGRPCWeb(w, r)\n\t\treturn\n\t}\n",
		Expect: "prefix-order", Why: "shorter prefix tested first"})
}

// Controls for the rules and clauses added after the tenth round of seeded changes.
func init() {
	control(&Control{ID: "paramorder-unstable-sort", Rule: "PARAM-STABLE-ORDER", File: "larking/rules.go",
		Old: "func (ps params) set(m proto.Message) error {\n", New: "func (ps params) set(m proto.Message) error {\n\tsort.Slice(ps, func(i, j int) bool { return len(ps[i].fds) < len(ps[j].fds) })\n",
		Expect: "unstable-sort", Why: "parameter list sorted with sort.Slice"})
	control(&Control{ID: "varint-single-byte", Rule: "VARINT-PREFIX", File: "larking/codec.go",
		Old: "\tvar sizeArr [binary.MaxVarintLen64]byte\n\tsizeBuf := protowire.AppendVarint(sizeArr[:0], uint64(len(b)))\n", New: "\tsizeBuf := protowire.AppendVarint(nil, 0)\n\tif len(b) <= 128 {\n\t\tsizeBuf = []byte{byte(len(b))}\n\t} else {\n\t\tsizeBuf = protowire.AppendVarint(sizeBuf[:0], uint64(len(b)))\n\t}\n",
		Expect: "single-byte-prefix", Why: "128 framed with one byte"})
	control(&Control{ID: "constindex-off-by-one", Rule: "CONST-INDEX", File: "larking/web.go",
		Old: "\tct := r.Header.Get(\"Content-Type\")\n", New: "\tct := r.Header.Get(\"Content-Type\")\n\tif len(ct) >= 16 && ct[16] == '!' {\n\t\treturn typ, enc, false\n\t}\n",
		Expect: "string-index[16]", Why: "length test one short of the index"})
	control(&Control{ID: "default-for-any-field", Rule: "DEFAULT-SCALAR-ONLY", File: "larking/rules.go",
		Old: "\t\tfor _, v := range vs {\n\t\t\tp, err := parseParam(fds, []byte(v))\n", New: "\t\tfor _, v := range vs {\n\t\t\tif v == \"\" {\n\t\t\t\tps = append(ps, param{fds: fds, val: fds[len(fds)-1].Default()})\n\t\t\t\tcontinue\n\t\t\t}\n\t\t\tp, err := parseParam(fds, []byte(v))\n",
		Expect: "default-of-any-field", Why: "Default() of a repeated or message field"})
	control(&Control{ID: "sidestate-claim-before-failure", Rule: "MUX-SIDE-STATE", File: "larking/mux.go",
		Old: "func (m *Mux) RegisterConn(ctx context.Context, cc *grpc.ClientConn) error {\n", New: "var claimedConns sync.Map\n\nfunc (m *Mux) RegisterConn(ctx context.Context, cc *grpc.ClientConn) error {\n\tclaimedConns.Store(cc, true)\n",
		Expect: "side-state-before-failure", Why: "claim recorded outside the snapshot"})
	control(&Control{ID: "sortedvars-swap-remove", Rule: "SORTED-VARS", File: "larking/rules.go",
		Old: "\t\t\t\tp.variables = append(\n\t\t\t\t\tp.variables[:i], p.variables[i+1:]...,\n\t\t\t\t)\n", New: "\t\t\t\tlast := len(p.variables) - 1\n\t\t\t\tp.variables[i] = p.variables[last]\n\t\t\t\tp.variables = p.variables[:last]\n",
		Expect: "order-kept-on-removal", Why: "swap-with-last removal"})
	control(&Control{ID: "stateslice-edit-offers", Rule: "STATE-SLICE-APPEND", File: "larking/negotiate.go",
		Old: "\tspecs := parseAccept(header[\"Accept\"])\n", New: "\tif len(offers) > 1 {\n\t\tcopy(offers, offers[1:])\n\t}\n\tspecs := parseAccept(header[\"Accept\"])\n",
		Expect: "edits-state-slice", Why: "shared offer list edited by a request"})
	control(&Control{ID: "timeoutkept-rederived", Rule: "TIMEOUT-APPLIED", File: "larking/grpc.go",
		Old: "\t\tctx = tctx\n\t}\n\n\tmethod := r.URL.Path\n", New: "\t\tctx = tctx\n\t\tctx = metadata.NewIncomingContext(r.Context(), md)\n\t}\n\n\tmethod := r.URL.Path\n",
		Expect: "timeout-kept", Why: "context re-derived from the request after the timeout was installed"})
}

func init() {
	control(&Control{ID: "selinsert-exact-with-wildcards", Rule: "SEL-INSERT", File: "larking/mux.go",
		Old: "\t\t\tcase \"\":\n\t\t\t\tr.exact = append(r.exact, rule)\n", New: "\t\t\tcase \"\":\n\t\t\t\tr.rules = append(r.rules, rule)\n",
		Expect: "kinds-kept-apart", Why: "exact selectors stored with the wildcard rules"})
	control(&Control{ID: "selcollect-wildcards-at-the-end", Rule: "SEL-COLLECT", File: "larking/mux.go",
		Old: "\t\treturn append(rules, r.exact...)\n\t}\n", New: "\t\treturn append(append(rules, r.rules...), r.exact...)\n\t}\n",
		Expect: "collects-every-level", Why: "wildcard rules returned where the name ends"})
}

func init() {
	control(&Control{ID: "tokencharset-plus-separator", Rule: "TOKEN-CHARSET", File: "larking/negotiate.go",
		Old: "isSeparator := strings.ContainsRune(\" \\t\\\"(),/:;<=>?@[]\\\\{}\", rune(c))", New: "isSeparator := strings.ContainsRune(\" \\t\\\"(),/:;<=>?@[]\\\\{}+\", rune(c))",
		Expect: "token-class", Why: "'+' classed as a separator"})
}
