package main

// Controls for the rules and clauses added after the eighth round of seeded changes.
func init() {
	control(&Control{ID: "gzip-single-member", Rule: "GZIP-WHOLE-BODY", File: "larking/compress.go",
		Old: "\tif err := z.Reset(r); err != nil {\n\t\tc.poolDecompressor.Put(z)\n\t\treturn nil, err\n\t}\n", New: "\tif err := z.Reset(r); err != nil {\n\t\tc.poolDecompressor.Put(z)\n\t\treturn nil, err\n\t}\n\tz.Multistream(false)\n",
		Expect: "multistream-off", Why: "decompressor stops at the first gzip member"})
	control(&Control{ID: "statsmd-shared-map", Rule: "STATS-MD-COPY", File: "larking/grpc.go",
		Old: "\t\t\tHeader:      metadata.MD(md).Copy(),\n", New: "\t\t\tHeader:      md,\n",
		Expect: "serveGRPC", Why: "stats event carries the RPC's own metadata map"})
	control(&Control{ID: "callfresh-hoisted-reply", Rule: "CALL-FRESH-MESSAGE", File: "larking/mux.go",
		Old: "\t\tfn := func(ctx context.Context, args interface{}) (interface{}, error) {\n\t\t\treply := dynamicpb.NewMessage(replyDesc)\n", New: "\t\treply := dynamicpb.NewMessage(replyDesc)\n\t\tfn := func(ctx context.Context, args interface{}) (interface{}, error) {\n",
		Expect: "createConnHandler", Why: "reply message shared by all calls of the method"})
	control(&Control{ID: "donebefore-check-after-write", Rule: "DONE-BEFORE-WRITE", File: "larking/grpc.go",
		Old: "\tdefer s.wg.Done()\n\n\tif err := s.isDone(); err != nil {\n\t\treturn err\n\t}\n\n\treply := m.(proto.Message)\n", New: "\tdefer s.wg.Done()\n\n\treply := m.(proto.Message)\n",
		Expect: "(*streamGRPC).SendMsg", Why: "done-ness not asked before the frame is written"})
	control(&Control{ID: "tokentext-empty-star", Rule: "TOKEN-LITERAL-TEXT", File: "larking/rules.go",
		Old: "\t\t\t\tvars = append(vars, token{\n\t\t\t\t\ttyp: tokenStar,\n\t\t\t\t\tval: \"*\",\n\t\t\t\t})\n", New: "\t\t\t\tvars = append(vars, token{typ: tokenStar})\n",
		Expect: "addRule", Why: "made-up token without its text"})
	control(&Control{ID: "scanindex-single-refill", Rule: "SCAN-INDEX-GUARDED", File: "larking/codec.go",
		Old: "\tfor i := 0; i < int(limit); i++ {\n\t\tfor i >= len(b) {\n", New: "\tfor i := 0; i < int(limit); i++ {\n\t\tif i >= len(b) {\n",
		Expect: "(CodecJSON).ReadNext/byte-read", Why: "single refill before the byte read"})
	control(&Control{ID: "cow5-struct-copy-variable", Rule: "COW-5", File: "larking/rules.go",
		Old: "\t\tpc.variables[i] = &variable{\n\t\t\tname: v.name, // RO\n\t\t\ttoks: v.toks, // RO\n\t\t\tnext: v.next.clone(),\n\t\t}\n", New: "\t\tvc := *v\n\t\tpc.variables[i] = &vc\n",
		Expect: "shares:struct-copy:variable.next", Why: "variable copied as a struct: subtree shared"})
	control(&Control{ID: "sendflag-never-set", Rule: "SEND-FRAME-FLAG", File: "larking/grpc.go",
		Old: "\t\tb = b[:bufSize+5]\n\t\tb[0] = 1 // compressed\n", New: "\t\tb = b[:bufSize+5]\n",
		Expect: "(*streamGRPC).SendMsg/", Why: "compressed flag never set"})
	control(&Control{ID: "sendflag-lost-in-realloc", Rule: "SEND-FRAME-FLAG", File: "larking/grpc.go",
		Old: "\t\tif bufSize+5 > cap(b) {\n\t\t\tb = make([]byte, 0, growcap(cap(b), bufSize+5))\n\t\t}\n\t\tb = b[:bufSize+5]\n\t\tb[0] = 1 // compressed\n", New: "\t\tb[0] = 1 // compressed\n\t\tif bufSize+5 > cap(b) {\n\t\t\tb = make([]byte, 0, growcap(cap(b), bufSize+5))\n\t\t}\n\t\tb = b[:bufSize+5]\n",
		Expect: "flag-after-alloc", Why: "flag written before the buffer is replaced"})
	control(&Control{ID: "limitbound-jump-ahead", Rule: "LIMIT-RETURN-BOUND", File: "larking/codec.go",
		Old: "\t\tdefault:\n\t\t\tswitch b[i] {\n\t\t\tcase '{':\n\t\t\t\tbraceCount++\n", New: "\t\tdefault:\n\t\t\tfor i+1 < len(b) && b[i] == ' ' {\n\t\t\t\ti++\n\t\t\t}\n\t\t\tswitch b[i] {\n\t\t\tcase '{':\n\t\t\t\tbraceCount++\n",
		Expect: "(CodecJSON).ReadNext/returned-length-bounded", Why: "counter advanced after the limit comparison"})
	control(&Control{ID: "selkey-skip-lookup-on-no-children", Rule: "SEL-KEY", File: "larking/mux.go",
		Old: "\tname := string(desc.FullName())\n\tfor _, rule := range opts.httprules.getRules(name) {\n", New: "\tname := string(desc.FullName())\n\tvar cfgRules []*annotations.HttpRule\n\tif len(opts.httprules.path) != 0 {\n\t\tcfgRules = opts.httprules.getRules(name)\n\t}\n\tfor _, rule := range cfgRules {\n",
		Expect: "selector-always", Why: "lookup skipped when the selector trie has no children"})
}
