package main

// Controls for the rules and clauses added after the sixth round of seeded changes.
func init() {
	control(&Control{ID: "jsonframe-no-escape", Rule: "JSON-FRAME-TABLE", File: "larking/codec.go",
		Old: "\t\t\tcase '\\\\':\n\t\t\t\tisEscaped = true\n\t\t\tcase '\"':\n\t\t\t\tisString = false\n", New: "\t\t\tcase '\"':\n\t\t\t\tisString = false\n\t\t\t\tisEscaped = false\n",
		Expect: "frame-table", Why: "backslash no longer escapes the next byte"})
	control(&Control{ID: "jsonframe-brace-in-string", Rule: "JSON-FRAME-TABLE", File: "larking/codec.go",
		Old: "\t\tcase isString:\n\t\t\tswitch b[i] {\n", New: "\t\tcase isString && b[i] != '}':\n\t\t\tswitch b[i] {\n",
		Expect: "frame-table", Why: "a closing brace inside a string is counted"})
	control(&Control{ID: "statserr-shadowed-ws", Rule: "STATS-ERR", File: "larking/http.go",
		Old: "\t\therr = hd.handler(&m.opts, stream)\n\n\t\tif herr != nil {\n", New: "\t\tif herr := hd.handler(&m.opts, stream); herr != nil {\n",
		Expect: "End.Error", Why: "the WebSocket branch keeps the handler's error in a variable of its own"})
	control(&Control{ID: "ceagree-shared-var", Rule: "CE-AGREE", File: "larking/http.go",
		Old: "\tif cz := m.opts.compressors[acceptEncoding]; cz != nil {\n", New: "\tcz := m.opts.compressors[contentEncoding]\n\tif acceptEncoding != \"identity\" {\n\t\tcz = m.opts.compressors[acceptEncoding]\n\t}\n\tif cz != nil {\n",
		Expect: "content-encoding-guard", Why: "the tested compressor can be the request's"})
	control(&Control{ID: "mdgatein-prefix-reserved", Rule: "MD-GATE-IN", File: "larking/grpc.go",
		Old: "\t\t\"grpc-message\", \"grpc-status\", \"grpc-timeout\",\n\t\t\"grpc-status-details-bin\", \"te\":\n\t\treturn true\n\tdefault:\n\t\treturn false\n", New: "\t\t\"grpc-message\", \"grpc-status\", \"grpc-timeout\",\n\t\t\"grpc-status-details-bin\", \"te\":\n\t\treturn true\n\tdefault:\n\t\treturn strings.HasPrefix(k, \"grpc-\")\n",
		Expect: "reserved-enumerated", Why: "prefix test in the reserved predicate"})
	control(&Control{ID: "health-rules-filtered", Rule: "HEALTH-TABLE", File: "health/health.go",
		Old: "\tproto.Merge(dst, src)\n", New: "\tif len(dst.GetHttp().GetRules()) > 0 {\n\t\tsrc.Http.Rules = src.Http.Rules[:1]\n\t}\n\tproto.Merge(dst, src)\n",
		Expect: "rules-unfiltered", Why: "rule list cut before the merge"})
	control(&Control{ID: "conns-bare-delete", Rule: "ADD-REMOVE-SYMMETRY", File: "larking/mux.go",
		Old: "\t\t// Drop and recreate below.\n\t\ts.removeHandler(cc)\n", New: "\t\t// Drop and recreate below.\n\t\tdelete(s.conns, cc)\n",
		Expect: "conns-delete-outside-removeHandler", Why: "connection forgotten without its handlers"})
	control(&Control{ID: "param-carried-parent", Rule: "PARAM-INDEPENDENT", File: "larking/rules.go",
		Old: "\tfor _, p := range ps {\n\t\tcur := m.ProtoReflect()\n", New: "\tvar parent protoreflect.Message\n\tfor _, p := range ps {\n\t\tcur := m.ProtoReflect()\n\t\tif parent != nil && len(p.fds) == 0 {\n\t\t\tcur = parent\n\t\t}\n\t\tdefer func(c protoreflect.Message) { _ = c }(cur)\n\t\tparent = cur\n",
		Expect: "no-message-carried-over", Why: "a message survives from one parameter to the next"})
	control(&Control{ID: "mdowned-set-replaces", Rule: "MD-OWNED", File: "larking/http.go",
		Old:    "func (s *streamHTTP) SetHeader(md metadata.MD) error {\n\tif s.sentHeader {\n\t\treturn fmt.Errorf(\"already sent headers\")\n\t}\n\ts.header = metadata.Join(s.header, md)\n",
		New:    "func (s *streamHTTP) SetHeader(md metadata.MD) error {\n\tif s.sentHeader {\n\t\treturn fmt.Errorf(\"already sent headers\")\n\t}\n\ts.header = metadata.Join(s.header)\n\tfor k, vs := range md {\n\t\ts.header.Set(k, vs...)\n\t}\n",
		Expect: "replaces:streamHTTP.header", Why: "MD.Set overwrites earlier values of the key"})
	control(&Control{ID: "lexeof-after-budget", Rule: "LEX-EOF-ONLY", File: "larking/lexer.go",
		Old: "func lexPath(l *lexer) error {\n\tfor {\n", New: "func lexPath(l *lexer) error {\n\tfor {\n\t\tif l.len+2 >= len(l.toks) {\n\t\t\treturn l.emit(tokenEOF)\n\t\t}\n",
		Expect: "end-marker", Why: "end marker emitted when the token budget runs out"})
	control(&Control{ID: "query-skip-empty", Rule: "QUERY-EVERY-VALUE", File: "larking/rules.go",
		Old: "\t\tfor _, v := range vs {\n\t\t\tp, err := parseParam(fds, []byte(v))\n", New: "\t\tfor _, v := range vs {\n\t\t\tif v == \"\" {\n\t\t\t\tcontinue\n\t\t\t}\n\t\t\tp, err := parseParam(fds, []byte(v))\n",
		Expect: "value-read", Why: "empty query values skipped"})
	control(&Control{ID: "tokenwidth-no-backup", Rule: "TOKEN-WIDTH", File: "larking/lexer.go",
		Old: "\t\t\treturn l.emit(tokenStarStar)\n\t\t}\n\t\tl.backup()\n\t\treturn l.emit(tokenStar)\n", New: "\t\t\treturn l.emit(tokenStarStar)\n\t\t}\n\t\treturn l.emit(tokenStar)\n",
		Expect: "emit:tokenStar#1", Why: "look-ahead rune not given back before the single star is emitted"})
}
