package main

import (
	"fmt"
	"go/token"
	"go/types"
	"sort"
	"strings"

	"golang.org/x/tools/go/ssa"
)

const (
	nStoreState = "(*larking.io/larking.Mux).storeState"
	nLoadState  = "(*larking.io/larking.Mux).loadState"
	nStateClone = "(*larking.io/larking.state).clone"
	nPathClone  = "(*larking.io/larking.path).clone"
	nMutexLock  = "(*sync.Mutex).Lock"
	nMutexUnl   = "(*sync.Mutex).Unlock"
	nAVStore    = "(*sync/atomic.Value).Store"
	nAVLoad     = "(*sync/atomic.Value).Load"
	nAVSwap     = "(*sync/atomic.Value).Swap"
	nAVCAS      = "(*sync/atomic.Value).CompareAndSwap"
)

func init() {
	register(&Rule{Name: "COW-1", Floor: 2,
		Doc: "the only atomic.Value.Store on Mux.state is in (*Mux).storeState; &Mux.state is used only as receiver of Load/Store",
		Run: ruleCOW1})
	register(&Rule{Name: "COW-2", Floor: 2,
		Doc: "every function that clones/publishes the routing state holds Mux.mu (Lock dominates the snapshot load, every mutator call and the publication; Unlock is deferred or post-dominates)",
		Run: ruleCOW2})
	register(&Rule{Name: "COW-3", Floor: 2,
		Doc: "the argument of storeState is the result of (*state).clone() applied to m.loadState() of the same Mux in the same function, and every state mutator called by a writer is applied to that clone",
		Run: ruleCOW3})
	register(&Rule{Name: "COW-4", Floor: 6,
		Doc: "no function reachable from a serving root writes routing/option state it did not allocate itself (readers are effect-free)",
		Run: ruleCOW4})
	register(&Rule{Name: "COW-5", Floor: 8,
		Doc: "state.clone/path.clone carry over every field and share with the published snapshot nothing that any writer mutates in place (derived from EFFECTS on every run); for a non-nil receiver every path to a return of clone reads every field of the receiver",
		Run: ruleCOW5})
	register(&Rule{Name: "COW-6", Floor: 2,
		Doc: "each serve function loads the routing snapshot exactly once and resolves route and handler against that same snapshot",
		Run: ruleCOW6})
	register(&Rule{Name: "COW-7", Floor: 2,
		Doc: "in every writer no path through storeState ends in an error return (failure publishes nothing) and no mutator runs after publication",
		Run: ruleCOW7})
	register(&Rule{Name: "NO-UNSAFE", Floor: 1,
		Doc: "the module uses no unsafe.Pointer conversion and no reflect.Value setter (bounds the soundness of EFFECTS)",
		Run: ruleNoUnsafe})
	register(&Rule{Name: "OPTS-RO", Floor: 3,
		Doc: "mux options (and the maps they hold) are never written by code reachable from a serving root; each stream's opts is a copy of Mux.opts",
		Run: ruleOptsRO})
	register(&Rule{Name: "WRITER-PUBLISHES", Floor: 3,
		Doc: "in every registration root, every path from a mutation of the cloned state to a non-error return passes through storeState(clone)",
		Run: ruleWriterPublishes})
}

// writerFuncs: module functions that clone the routing snapshot for writing
// (call (*state).clone on m.loadState()) or publish (call storeState).
func (p *Program) writerFuncs() []*ssa.Function {
	var out []*ssa.Function
	for _, fn := range p.ModuleFuncs() {
		if funcName(fn) == nStoreState {
			continue
		}
		has := false
		eachInstr(fn, func(in ssa.Instruction) {
			if isCall(in, nStoreState) {
				has = true
			}
			if isCall(in, nStateClone) {
				c := in.(ssa.CallInstruction)
				for _, o := range p.origins(c.Common().Args[0], defaultOrigin) {
					if cc, ok := o.(*ssa.Call); ok && calleeName(cc) == nLoadState {
						has = true
					}
				}
			}
		})
		if has {
			out = append(out, fn)
		}
	}
	return out
}

func ruleCOW1(r *Run) {
	p := r.P
	fld := p.StructField("Mux", "state")
	if fld == nil {
		r.missing("field Mux.state")
		return
	}
	if p.Method("Mux", "storeState") == nil {
		r.missing("method (*Mux).storeState")
		return
	}
	nStores := 0
	for _, fn := range p.ModuleFuncs() {
		eachInstr(fn, func(in ssa.Instruction) {
			fa, ok := in.(*ssa.FieldAddr)
			if !ok || fieldOfAddr(fa) != fld {
				return
			}
			for _, ref := range *fa.Referrers() {
				key := shortFunc(fn) + "/&Mux.state"
				c, isCall := ref.(ssa.CallInstruction)
				if !isCall || len(c.Common().Args) == 0 || c.Common().Args[0] != ssa.Value(fa) {
					r.bad(key+"/escape", ref.Pos(), "&Mux.state is used other than as the receiver of Load/Store (%T): the snapshot pointer can be read or written outside the atomic protocol", ref)
					continue
				}
				switch calleeName(c) {
				case nAVLoad:
					r.ok(key+"/Load", ref.Pos(), "atomic load")
				case nAVStore, nAVSwap, nAVCAS:
					nStores++
					if funcName(fn) == nStoreState {
						r.ok(key+"/Store", ref.Pos(), "the single publication point")
					} else {
						r.bad(key+"/Store", ref.Pos(), "Mux.state is published outside (*Mux).storeState: a second publication point bypasses the clone-under-lock discipline")
					}
				default:
					r.bad(key+"/"+calleeName(c), ref.Pos(), "unexpected use of &Mux.state")
				}
			}
		})
	}
	if nStores == 0 {
		r.bad("Mux.state/Store", token.NoPos, "no atomic store to Mux.state found: nothing is ever published")
	}
}

// lockInfo finds m.mu.Lock() / Unlock in fn.
type lockInfo struct {
	lock        ssa.CallInstruction
	deferUnlock *ssa.Defer
	unlocks     []ssa.CallInstruction
}

func (p *Program) muLock(fn *ssa.Function) lockInfo {
	mu := p.StructField("Mux", "mu")
	var li lockInfo
	onMu := func(c ssa.CallInstruction) bool {
		if len(c.Common().Args) == 0 {
			return false
		}
		fa, ok := c.Common().Args[0].(*ssa.FieldAddr)
		return ok && fieldOfAddr(fa) == mu
	}
	eachInstr(fn, func(in ssa.Instruction) {
		c, ok := in.(ssa.CallInstruction)
		if !ok || !onMu(c) {
			return
		}
		switch calleeName(c) {
		case nMutexLock:
			if _, isCall := in.(*ssa.Call); isCall && li.lock == nil {
				li.lock = c
			}
		case nMutexUnl:
			if d, ok := in.(*ssa.Defer); ok {
				li.deferUnlock = d
			} else {
				li.unlocks = append(li.unlocks, c)
			}
		}
	})
	return li
}

func ruleCOW2(r *Run) {
	p := r.P
	if p.StructField("Mux", "mu") == nil {
		r.missing("field Mux.mu")
		return
	}
	e := p.Effects()
	ws := p.writerFuncs()
	if len(ws) == 0 {
		r.missing("writer functions (callers of storeState / loadState().clone())")
		return
	}
	// inCritical: is instruction `in` of fn inside fn's own Lock … Unlock of Mux.mu?
	inCritical := func(fn *ssa.Function, in ssa.Instruction) (bool, string) {
		li := p.muLock(fn)
		if li.lock == nil {
			return false, "the function never takes Mux.mu"
		}
		if !instrDominates(li.lock.(ssa.Instruction), in) {
			return false, "call is not dominated by m.mu.Lock(): it can run outside the writers' critical section"
		}
		if li.deferUnlock != nil && instrDominates(li.lock.(ssa.Instruction), li.deferUnlock) && instrDominates(li.deferUnlock, in) {
			return true, "inside Lock … deferred Unlock"
		}
		if len(li.unlocks) == 0 {
			return false, "Mux.mu is locked but never unlocked in this function (no deferred or explicit Unlock)"
		}
		// explicit unlock: none may lie on a path between Lock and the call
		for _, u := range li.unlocks {
			q1 := pathQuery{fn: fn, start: u.(ssa.Instruction), target: func(x ssa.Instruction) bool { return x == in },
				barrier: func(x ssa.Instruction) bool { return x == li.lock.(ssa.Instruction) }}
			if w, _ := q1.find(); w != nil && instrDominates(li.lock.(ssa.Instruction), u.(ssa.Instruction)) {
				return false, "an Unlock of Mux.mu can precede this call: it can run outside the critical section"
			}
		}
		return true, "inside Lock … Unlock"
	}
	// heldAtEveryCall: fn is a transparent helper (registerConnLocked) and every call of it sits inside the caller's
	// critical section (transitively)
	var heldAtEveryCall func(fn *ssa.Function, depth int) (bool, string)
	heldAtEveryCall = func(fn *ssa.Function, depth int) (bool, string) {
		if !p.isTransparent(fn) || depth > 3 {
			return false, "writer never takes Mux.mu: two writers can clone the same snapshot and the later store loses the earlier registration"
		}
		sites := p.helpers().sites[fn]
		if len(sites) == 0 {
			return false, "no call site"
		}
		for _, st := range sites {
			if ok, _ := inCritical(st.Parent(), st); ok {
				continue
			}
			if ok, why := heldAtEveryCall(st.Parent(), depth+1); !ok {
				return false, "called from " + shortFunc(st.Parent()) + " outside Mux.mu: " + why
			}
		}
		return true, "a helper that is only called with Mux.mu held"
	}
	for _, fn := range ws {
		key := shortFunc(fn)
		li := p.muLock(fn)
		helperHeld := false
		if li.lock == nil {
			ok, why := heldAtEveryCall(fn, 0)
			if !ok {
				r.bad(key+"/lock", fn.Pos(), "%s", why)
				continue
			}
			helperHeld = true
		}
		// what must be inside the critical section
		var crit []ssa.Instruction
		eachInstr(fn, func(in ssa.Instruction) {
			c, ok := in.(ssa.CallInstruction)
			if !ok {
				return
			}
			n := calleeName(c)
			if n == nStoreState || n == nLoadState || n == nStateClone {
				crit = append(crit, in)
				return
			}
			if callee := staticCallee(c); callee != nil && e.Mutates(callee) && funcName(callee) != nStoreState {
				crit = append(crit, in)
			}
		})
		for _, in := range crit {
			c := in.(ssa.CallInstruction)
			k := key + "/locked:" + shortName(calleeName(c))
			if helperHeld {
				r.ok(k, in.Pos(), "in a helper that is only called with Mux.mu held")
				continue
			}
			ok, why := inCritical(fn, in)
			r.check(ok, k, in.Pos(), why, why)
		}
	}
}

// cloneValue returns the call `m.loadState().clone()` in fn (the writer's private clone), if unique.
func (p *Program) cloneCalls(fn *ssa.Function) []*ssa.Call {
	var out []*ssa.Call
	eachInstr(fn, func(in ssa.Instruction) {
		c, ok := in.(*ssa.Call)
		if ok && calleeName(c) == nStateClone {
			out = append(out, c)
		}
	})
	return out
}

func ruleCOW3(r *Run) {
	p := r.P
	e := p.Effects()
	ws := p.writerFuncs()
	if len(ws) == 0 {
		r.missing("writer functions")
		return
	}
	stateT := p.NamedType("state")
	for _, fn := range ws {
		key := shortFunc(fn)
		isCloneOfLoad := func(v ssa.Value) (bool, string) {
			roots := p.origins(v, defaultOrigin)
			if len(roots) == 0 {
				return false, "no origin"
			}
			for _, o := range roots {
				c, ok := o.(*ssa.Call)
				if !ok || calleeName(c) != nStateClone {
					return false, fmt.Sprintf("value comes from %s, not from (*state).clone()", describeValue(o))
				}
				for _, o2 := range p.origins(c.Call.Args[0], defaultOrigin) {
					c2, ok := o2.(*ssa.Call)
					if !ok || calleeName(c2) != nLoadState {
						return false, fmt.Sprintf("clone() is applied to %s, not to m.loadState()", describeValue(o2))
					}
				}
			}
			return true, ""
		}
		eachInstr(fn, func(in ssa.Instruction) {
			c, ok := in.(ssa.CallInstruction)
			if !ok {
				return
			}
			n := calleeName(c)
			if n == nStoreState {
				ok, why := isCloneOfLoad(c.Common().Args[1])
				if ok {
					r.ok(key+"/storeState-arg", in.Pos(), "publishes m.loadState().clone()")
				} else {
					r.bad(key+"/storeState-arg", in.Pos(), "published value is not a private clone of the current snapshot: %s", why)
				}
				return
			}
			callee := staticCallee(c)
			if callee == nil || !e.Mutates(callee) || callee.Signature.Recv() == nil {
				return
			}
			if namedOf(callee.Signature.Recv().Type()) != stateT {
				return
			}
			ok2, why := isCloneOfLoad(c.Common().Args[0])
			k := key + "/mutator-recv:" + shortFunc(callee)
			if ok2 {
				r.ok(k, in.Pos(), "mutator is applied to the private clone")
			} else {
				r.bad(k, in.Pos(), "state mutator %s (writes %v) is applied to a value that is not the private clone: %s", shortFunc(callee), e.Targets(callee), why)
			}
		})
	}
}

func describeValue(v ssa.Value) string {
	switch x := v.(type) {
	case *ssa.Call:
		return "call " + shortName(calleeName(x))
	case *ssa.Parameter:
		return "parameter " + x.Name()
	case *ssa.UnOp:
		if f := loadedField(x); f != nil {
			return "load of field " + f.Name()
		}
	case *ssa.Alloc:
		return "local allocation"
	case *ssa.Const:
		return "constant " + x.String()
	}
	return fmt.Sprintf("%s (%T)", v.Name(), v)
}

func ruleCOW4(r *Run) {
	p := r.P
	e := p.Effects()
	roots := p.ServingRoots()
	if len(roots) < 5 {
		r.missing("serving roots")
		return
	}
	reach := p.Reach(roots)
	var fns []*ssa.Function
	for fn := range reach {
		fns = append(fns, fn)
	}
	sort.Slice(fns, func(i, j int) bool { return fns[i].String() < fns[j].String() })
	nClean := 0
	for _, fn := range fns {
		ws := e.OwnWrites(fn)
		if len(ws) == 0 {
			nClean++
			continue
		}
		for _, w := range ws {
			// scalar write into a per-request copy of the options (streamX.opts.f) is not shared state
			if w.Owner == "muxOptions" && w.Kind == "store" && p.basePassesThroughStreamCopy(w.Instr) {
				continue
			}
			r.bad(shortFunc(fn)+"/writes:"+w.Target(), w.Instr.Pos(),
				"%s of shared %s on a serving path (%s): a published snapshot / shared options are mutated while other requests read them",
				w.Kind, w.Target(), p.callPath(reach, fn))
		}
	}
	// one obligation per serving root: its reachable set is effect-free
	bad := map[*ssa.Function]bool{}
	for _, fn := range fns {
		if len(e.OwnWrites(fn)) > 0 {
			bad[fn] = true
		}
	}
	for _, root := range roots {
		sub := p.Reach([]*ssa.Function{root})
		clean := true
		for fn := range sub {
			if bad[fn] {
				clean = false
			}
		}
		if clean {
			r.ok("root:"+shortFunc(root), root.Pos(), "%d reachable module functions, none writes routing/option state", len(sub))
		}
	}
}

// basePassesThroughStreamCopy: the written muxOptions lives inside a stream object (s.opts.f = …).
func (p *Program) basePassesThroughStreamCopy(in ssa.Instruction) bool {
	st, ok := in.(*ssa.Store)
	if !ok {
		return false
	}
	fa, ok := st.Addr.(*ssa.FieldAddr)
	if !ok {
		return false
	}
	inner, ok := fa.X.(*ssa.FieldAddr)
	if !ok {
		return false
	}
	owner := namedOf(inner.X.Type())
	if owner == nil {
		return false
	}
	switch owner.Obj().Name() {
	case "streamHTTP", "streamGRPC", "streamWS":
		return true
	}
	return false
}

func ruleCOW5(r *Run) {
	p := r.P
	e := p.Effects()
	cm := e.ContainerMutated()
	for _, spec := range []struct{ typ, method string }{{"state", "clone"}, {"path", "clone"}} {
		fn := p.Method(spec.typ, spec.method)
		if fn == nil {
			r.missing(fmt.Sprintf("method (*%s).%s", spec.typ, spec.method))
			continue
		}
		key := shortFunc(fn)
		named := p.NamedType(spec.typ)
		st := named.Underlying().(*types.Struct)
		recv := fn.Params[0]

		// result objects: fresh roots of the returned values
		// (a) exhaustiveness: every field is assigned (Store to result.f) or filled (MapUpdate / elem-store on result.f)
		assigned := map[string]bool{}
		for _, g := range allFuncsDeep(fn) {
			_ = g
		}
		for _, w := range e.AllWrites(fn) {
			if w.Owner == spec.typ && w.Fresh {
				assigned[w.Field] = true
			}
		}
		for i := 0; i < st.NumFields(); i++ {
			f := st.Field(i)
			k := fmt.Sprintf("%s/carries:%s.%s", key, spec.typ, f.Name())
			if assigned[f.Name()] {
				r.ok(k, fn.Pos(), "field is assigned or filled in the clone")
			} else {
				r.bad(k, fn.Pos(), "clone never assigns or fills field %s.%s: the copy silently loses it (routes/handlers vanish from the next snapshot)", spec.typ, f.Name())
			}
		}

		// (a') … on every path: for a non-nil receiver no return is reached without reading each field of the
		// receiver (the read that feeds the copy). An early `return empty` under any other condition (e.g. a liveness
		// test that overlooks one of the fields) silently drops that subtree from the next snapshot
		{
			var skipped []string
			for i := 0; i < st.NumFields(); i++ {
				f := st.Field(i)
				readsF := func(x ssa.Instruction) bool {
					switch y := x.(type) {
					case *ssa.FieldAddr:
						return fieldOfAddr(y) == f && (y.X == ssa.Value(recv) || p.onlyFrom(y.X, recv))
					case *ssa.Field:
						if sst, ok := y.X.Type().Underlying().(*types.Struct); ok && sst.Field(y.Field) == f {
							return true
						}
					}
					return false
				}
				q := pathQuery{fn: fn, target: isReturn, barrier: readsF,
					edgeOK: func(b *ssa.BasicBlock, succ int) bool {
						ifi := blockIf(b)
						if ifi == nil {
							return true
						}
						g := guardFact{Cond: ifi.Cond, True: succ == 0, If: ifi}
						if x, y, op, ok := g.cmp(); ok && isNilConst(y) && x == ssa.Value(recv) && op == token.EQL {
							return false // the receiver is assumed non-nil
						}
						return true
					}}
				if w, _ := q.find(); w != nil {
					skipped = append(skipped, f.Name())
				}
			}
			k := key + "/carries-on-every-path"
			if len(skipped) > 0 {
				r.bad(k, fn.Pos(), "for a non-nil receiver %s can return without reading its field(s) %s: on that path (an early return under a condition other than `receiver == nil`) the copy does not carry them and the routes/handlers below vanish from the next snapshot", key, strings.Join(skipped, ", "))
			} else {
				r.ok(k, fn.Pos(), "for a non-nil receiver every path to a return reads every field of the receiver")
			}
		}

		// (b) sharing: every value stored into the result graph whose type gives access to in-place-mutated memory must be fresh
		fromReceiver := func(v ssa.Value) (bool, string) {
			for _, o := range p.origins(v, originOpts{throughSlice: true, throughConvert: true, throughAssert: true}) {
				if e.isFreshRoot(o) {
					continue
				}
				return true, describeValue(o)
			}
			return false, ""
		}
		_ = recv
		// bulk copies: copy(dst, src) / append(dst, src...) into the result graph share every element of src
		eachInstr(fn, func(in ssa.Instruction) {
			c, ok := in.(*ssa.Call)
			if !ok {
				return
			}
			b, ok := c.Call.Value.(*ssa.Builtin)
			if !ok || (b.Name() != "copy" && b.Name() != "append") || len(c.Call.Args) < 2 {
				return
			}
			st, ok := c.Call.Args[0].Type().Underlying().(*types.Slice)
			if !ok {
				return
			}
			unsafe, why := e.UnsafeToShare(st.Elem())
			if !unsafe {
				return
			}
			for _, el := range p.flattenAppend(c.Call.Args[1], 0) {
				if shared, what := fromReceiver(el); shared {
					r.bad(key+"/shares:bulk-"+b.Name(), in.Pos(), "clone copies elements of type %s from the published snapshot (%s) into the copy with %s, but %s: the copy and the snapshot share those objects, a later registration mutates memory that concurrent requests read (and a failed registration leaks into the live state)",
						typeString(st.Elem()), what, b.Name(), why)
				}
			}
		})
		// whole-struct copies: `c := *v` (or `*dst = *v`) puts every field of the snapshot's object into an object
		// of the copy; a field whose type gives access to in-place-mutated memory must be overwritten (with a value
		// that the store rules below judge) before the function returns
		eachInstr(fn, func(in ssa.Instruction) {
			sto, ok := in.(*ssa.Store)
			if !ok {
				return
			}
			nt, _ := sto.Val.Type().(*types.Named)
			sst, ok := sto.Val.Type().Underlying().(*types.Struct)
			if !ok || nt == nil || nt.Obj().Pkg() == nil || nt.Obj().Pkg().Path() != larkPath {
				return
			}
			shared, what := false, ""
			for _, o := range p.origins(sto.Val, originOpts{local: true}) {
				if u, ok := o.(*ssa.UnOp); ok && u.Op == token.MUL {
					if sh, w := fromReceiver(u.X); sh {
						shared, what = true, w
					}
				}
			}
			if !shared {
				return
			}
			for i := 0; i < sst.NumFields(); i++ {
				f := sst.Field(i)
				unsafe, why := e.UnsafeToShare(f.Type())
				if ws, ok := cm[nt.Obj().Name()+"."+f.Name()]; ok {
					switch f.Type().Underlying().(type) {
					case *types.Map, *types.Slice:
						unsafe, why = true, fmt.Sprintf("container %s.%s is written in place by %s", nt.Obj().Name(), f.Name(), ws[0])
					}
				}
				if !unsafe {
					continue
				}
				k := fmt.Sprintf("%s/shares:struct-copy:%s.%s", key, nt.Obj().Name(), f.Name())
				overwrites := func(x ssa.Instruction) bool {
					s2, ok := x.(*ssa.Store)
					if !ok {
						return false
					}
					fa, ok := s2.Addr.(*ssa.FieldAddr)
					return ok && fa.X == sto.Addr && fieldOfAddr(fa) == f
				}
				if w, _ := (pathQuery{fn: fn, start: sto, target: isReturn, barrier: overwrites}).find(); w != nil {
					r.bad(k, sto.Pos(), "clone copies the whole %s struct of the published snapshot (%s) into an object of the copy and does not replace its field %s on every path, but %s: the copy and the snapshot share that memory, a later registration mutates what concurrent requests read (and a failed registration leaks into the live state)",
						nt.Obj().Name(), what, f.Name(), why)
				} else {
					r.ok(k, sto.Pos(), "field %s of the struct copy is replaced on every path before the function returns", f.Name())
				}
			}
		})
		for _, w := range e.AllWrites(fn) {
			if !w.Fresh {
				r.bad(key+"/writes-receiver:"+w.Target(), w.Instr.Pos(), "clone writes %s of an object it did not allocate (%s): cloning mutates the published snapshot", w.Target(), w.Kind)
				continue
			}
			var val ssa.Value
			switch x := w.Instr.(type) {
			case *ssa.Store:
				val = x.Val
			case *ssa.MapUpdate:
				val = x.Value
			default:
				continue
			}
			t := val.Type()
			unsafe, why := e.UnsafeToShare(t)
			containerKey := w.Target()
			isContainerField := w.Kind == "store"
			if isContainerField {
				if ws, ok := cm[containerKey]; ok {
					switch t.Underlying().(type) {
					case *types.Map, *types.Slice:
						unsafe, why = true, fmt.Sprintf("container %s is written in place by %s", containerKey, ws[0])
					}
				}
			}
			if w.Kind == "mapupdate" || w.Kind == "elem-store" {
				// the element itself is a container that some writer overwrites in place (e.g. a filtered slice re-using its backing array)
				if ws, ok := cm[w.Target()+"[]"]; ok {
					unsafe, why = true, fmt.Sprintf("the elements of %s are written in place by %s", w.Target(), ws[0])
				}
			}
			// a container made by a shallow copier - maps.Clone / slices.Clone, or a module helper that fills a new
			// map from its argument (copyMap(s.handlers)) - shares every element of the source
			if w.Kind == "store" {
				for _, o := range p.origins(val, originOpts{local: true}) {
					c, ok := o.(*ssa.Call)
					if !ok || len(c.Call.Args) == 0 {
						continue
					}
					var src ssa.Value
					n := calleeName(c)
					switch {
					case strings.HasPrefix(n, "maps.Clone") || strings.HasPrefix(n, "slices.Clone"):
						src = c.Call.Args[0]
					default:
						if i := p.shallowCopierParam(c.Call.StaticCallee()); i >= 0 && i < len(c.Call.Args) {
							src = c.Call.Args[i]
						}
					}
					if src == nil {
						continue
					}
					var et types.Type
					switch ct := src.Type().Underlying().(type) {
					case *types.Map:
						et = ct.Elem()
					case *types.Slice:
						et = ct.Elem()
					default:
						continue
					}
					eu, ewhy := e.UnsafeToShare(et)
					if ws, ok := cm[w.Target()+"[]"]; ok {
						eu, ewhy = true, fmt.Sprintf("the elements of %s are written in place by %s", w.Target(), ws[0])
					}
					ek := fmt.Sprintf("%s/shares:%s[]", key, w.Target())
					if !eu {
						r.ok(ek, c.Pos(), "elements of type %s may be shared: no writer mutates them in place (re-derived from EFFECTS)", typeString(et))
						continue
					}
					if shared, what := fromReceiver(src); shared {
						r.bad(ek, c.Pos(), "clone fills the copy's %s with the elements of %s (type %s) of the published snapshot through %s, but %s: a later registration or drop overwrites memory that concurrent requests are reading",
							w.Target(), what, typeString(et), shortName(n), ewhy)
					}
				}
			}
			// a container built in a local variable and then stored into the result: its elements are checked here
			if w.Kind == "store" {
				for _, o := range p.origins(val, originOpts{}) {
					switch o.(type) {
					case *ssa.MakeMap, *ssa.MakeSlice:
					default:
						continue
					}
					// filled in one call from a container of the snapshot (maps.Copy(handlers, s.handlers)): every
					// element of the source is shared
					eachInstr(fn, func(x ssa.Instruction) {
						c, ok := x.(*ssa.Call)
						if !ok || len(c.Call.Args) < 2 {
							return
						}
						switch calleeName(c) {
						case "maps.Copy", "maps.Insert":
						default:
							if !strings.HasPrefix(calleeName(c), "maps.Copy[") {
								return
							}
						}
						isDst := false
						for _, d := range p.origins(c.Call.Args[0], originOpts{}) {
							if d == o {
								isDst = true
							}
						}
						if !isDst {
							return
						}
						var et types.Type
						switch mt := c.Call.Args[1].Type().Underlying().(type) {
						case *types.Map:
							et = mt.Elem()
						default:
							return
						}
						eu, ewhy := e.UnsafeToShare(et)
						if ws, ok := cm[w.Target()+"[]"]; ok {
							eu, ewhy = true, fmt.Sprintf("the elements of %s are written in place by %s", w.Target(), ws[0])
						}
						ek := fmt.Sprintf("%s/shares:%s[]", key, w.Target())
						if !eu {
							r.ok(ek, x.Pos(), "elements of type %s may be shared: no writer mutates them in place (re-derived from EFFECTS)", typeString(et))
							return
						}
						if shared, what := fromReceiver(c.Call.Args[1]); shared {
							r.bad(ek, x.Pos(), "clone copies the elements of %s (type %s) from the published snapshot into the copy's %s in one call, but %s: a later registration or drop overwrites memory that concurrent requests are reading",
								what, typeString(et), w.Target(), ewhy)
						}
					})
					eachInstr(fn, func(x ssa.Instruction) {
						var elem ssa.Value
						switch y := x.(type) {
						case *ssa.MapUpdate:
							if y.Map == o {
								elem = y.Value
							}
						case *ssa.Store:
							if ia, ok := y.Addr.(*ssa.IndexAddr); ok && ia.X == o {
								elem = y.Val
							}
						}
						if elem == nil {
							return
						}
						eu, ewhy := e.UnsafeToShare(elem.Type())
						if ws, ok := cm[w.Target()+"[]"]; ok {
							eu, ewhy = true, fmt.Sprintf("the elements of %s are written in place by %s", w.Target(), ws[0])
						}
						ek := fmt.Sprintf("%s/shares:%s[]", key, w.Target())
						if !eu {
							r.ok(ek, x.Pos(), "elements of type %s may be shared: no writer mutates them in place (re-derived from EFFECTS)", typeString(elem.Type()))
							return
						}
						if shared, what := fromReceiver(elem); shared {
							r.bad(ek, x.Pos(), "clone puts %s (type %s) taken from the published snapshot into the copy's %s, but %s: a later registration or drop overwrites memory that concurrent requests are reading",
								what, typeString(elem.Type()), w.Target(), ewhy)
						} else {
							r.ok(ek, x.Pos(), "fresh element of type %s", typeString(elem.Type()))
						}
					})
				}
			}
			k := fmt.Sprintf("%s/shares:%s", key, w.Target())
			if w.Kind != "store" {
				k += "[]"
			}
			if !unsafe {
				r.ok(k, w.Instr.Pos(), "value of type %s may be shared: no writer mutates it in place (re-derived from EFFECTS)", typeString(t))
				continue
			}
			if shared, what := fromReceiver(val); shared {
				r.bad(k, w.Instr.Pos(), "clone stores %s (type %s) taken from the published snapshot into the copy, but %s: a later registration would mutate memory that concurrent requests are reading",
					what, typeString(t), why)
			} else {
				r.ok(k, w.Instr.Pos(), "fresh value of type %s (must not be shared: %s)", typeString(t), why)
			}
		}
	}
}

func ruleCOW6(r *Run) {
	p := r.P
	for _, name := range []string{"serveHTTP", "serveGRPC"} {
		fn := p.Method("Mux", name)
		if fn == nil {
			r.missing("method (*Mux)." + name)
			continue
		}
		key := shortFunc(fn)
		loads := callsIn(fn, nLoadState)
		// loads inside closures count too
		for _, g := range allFuncsDeep(fn)[1:] {
			loads = append(loads, callsIn(g, nLoadState)...)
		}
		if len(loads) != 1 {
			pos := fn.Pos()
			if len(loads) > 1 {
				pos = loads[1].Pos()
			}
			r.bad(key+"/one-snapshot", pos, "%d loadState() calls: route matching and handler lookup may see two different snapshots (registration work becomes observable between them)", len(loads))
			continue
		}
		ld := loads[0].(ssa.Instruction)
		inLoop := false
		if w, _ := (pathQuery{fn: fn, start: ld, target: func(x ssa.Instruction) bool { return x == ld }}).find(); w != nil {
			inLoop = true
		}
		r.check(!inLoop, key+"/one-snapshot", ld.Pos(), "exactly one loadState() per request", "loadState() sits in a loop: more than one snapshot per request")
		n := 0
		eachInstr(fn, func(in ssa.Instruction) {
			c, ok := in.(ssa.CallInstruction)
			if !ok {
				return
			}
			cn := calleeName(c)
			if cn != "(*larking.io/larking.state).match" && cn != "(*larking.io/larking.state).pickMethodHandler" {
				return
			}
			n++
			good := true
			for _, o := range p.origins(c.Common().Args[0], defaultOrigin) {
				if o != loads[0].(ssa.Value) {
					good = false
				}
			}
			r.check(good, key+"/uses-snapshot:"+shortName(cn), in.Pos(), "receiver is the request's single snapshot", "receiver is not the snapshot loaded for this request")
		})
		if n == 0 {
			r.undecided(key+"/uses-snapshot", fn.Pos(), "no match/pickMethodHandler call found on the snapshot")
		}
	}
}

// errResultIndex returns the index of the error-typed result of fn, or -1.
func errResultIndex(fn *ssa.Function) int {
	res := fn.Signature.Results()
	for i := res.Len() - 1; i >= 0; i-- {
		if types.Identical(res.At(i).Type(), types.Universe.Lookup("error").Type()) {
			return i
		}
	}
	return -1
}

// returnIsError: the return may carry a non-nil error. Looks through the
// spill cell used when a function has defers.
func (p *Program) returnIsError(rt *ssa.Return, idx int) (bool, []ssa.Value) {
	if idx < 0 || idx >= len(rt.Results) {
		return false, nil
	}
	roots := p.origins(rt.Results[idx], originOpts{})
	nonNil := false
	for _, o := range roots {
		if isNilConst(o) {
			continue
		}
		nonNil = true
	}
	return nonNil, roots
}

func ruleCOW7(r *Run) {
	p := r.P
	e := p.Effects()
	for _, fn := range p.writerFuncs() {
		key := shortFunc(fn)
		stores := callsIn(fn, nStoreState)
		if len(stores) == 0 {
			continue // WRITER-PUBLISHES reports this
		}
		ei := errResultIndex(fn)
		for _, sc := range stores {
			st := sc.(ssa.Instruction)
			// (a) error return after publication
			var bad *ssa.Return
			var badWhy string
			q := pathQuery{fn: fn, start: st, target: func(in ssa.Instruction) bool {
				rt, ok := in.(*ssa.Return)
				if !ok || ei < 0 {
					return false
				}
				// a function with defers returns through a spill cell: resolve flow-insensitively but
				// only count stores that are reachable after the publication
				for _, o := range p.resultValuesAt(rt, ei) {
					if isNilConst(o) {
						continue
					}
					// exemption: grpc-go ClientStream.CloseSend never returns an error (documented in its source)
					if c, ok := o.(*ssa.Call); ok && c.Common().IsInvoke() && c.Common().Method.Name() == "CloseSend" &&
						c.Common().Method.Pkg() != nil && c.Common().Method.Pkg().Path() == "google.golang.org/grpc" {
						continue
					}
					// error values computed before publication and returned unconditionally nil-checked earlier are excluded by reachability below
					if oi, ok := o.(ssa.Instruction); ok {
						if w, _ := (pathQuery{fn: fn, start: st, target: func(x ssa.Instruction) bool { return x == oi }}).find(); w == nil && !instrDominates(oi, st) {
							continue
						}
						if instrDominates(oi, st) && p.nilCheckedBefore(o, st) {
							continue
						}
					}
					bad, badWhy = rt, describeValue(o)
					return true
				}
				return false
			}}
			if ei >= 0 {
				if w, _ := q.find(); w != nil {
					r.bad(key+"/error-after-publish", bad.Pos(), "a path publishes the new state and then returns a possibly non-nil error (%s): the caller sees a failed registration whose routes are live (%s)", badWhy, p.describePath(w))
				} else {
					r.ok(key+"/error-after-publish", st.Pos(), "every return after storeState returns a nil error (CloseSend of a grpc-go client stream is exempt: it never fails)")
				}
			} else {
				r.ok(key+"/error-after-publish", st.Pos(), "function has no error result")
			}
			// (b) mutation after publication
			q2 := pathQuery{fn: fn, start: st, target: func(in ssa.Instruction) bool {
				c, ok := in.(ssa.CallInstruction)
				if !ok {
					return false
				}
				callee := staticCallee(c)
				return callee != nil && funcName(callee) != nStoreState && e.Mutates(callee)
			}}
			if w, hit := q2.find(); w != nil {
				r.bad(key+"/mutate-after-publish", hit.Pos(), "%s (writes %v) can run after storeState: the published snapshot is mutated while requests read it",
					shortName(calleeName(hit.(ssa.CallInstruction))), e.Targets(staticCallee(hit.(ssa.CallInstruction))))
			} else {
				r.ok(key+"/mutate-after-publish", st.Pos(), "no state mutator is reachable after storeState")
			}
		}
		// (c) own non-fresh writes after publication are covered by (b) for callees; own writes:
		for _, w := range e.OwnWrites(fn) {
			for _, sc := range stores {
				if wp, _ := (pathQuery{fn: fn, start: sc.(ssa.Instruction), target: func(x ssa.Instruction) bool { return x == w.Instr }}).find(); wp != nil {
					r.bad(key+"/mutate-after-publish:"+w.Target(), w.Instr.Pos(), "write to %s after storeState", w.Target())
				}
			}
		}
	}
}

// resultValuesAt resolves the values a return may yield for result idx
// (looking through the defer spill cell and phis).
func (p *Program) resultValuesAt(rt *ssa.Return, idx int) []ssa.Value {
	return p.origins(rt.Results[idx], originOpts{})
}

// nilCheckedBefore: v (an error value defined before `at`) was tested against
// nil with the non-nil edge leaving before `at` (so at `at` it is nil).
func (p *Program) nilCheckedBefore(v ssa.Value, at ssa.Instruction) bool {
	for _, g := range guardsOf(at.Block()) {
		bo, ok := g.Cond.(*ssa.BinOp)
		if !ok {
			continue
		}
		var other ssa.Value
		if bo.X == v {
			other = bo.Y
		} else if bo.Y == v {
			other = bo.X
		} else {
			continue
		}
		if !isNilConst(other) {
			continue
		}
		if (bo.Op == token.NEQ && !g.True) || (bo.Op == token.EQL && g.True) {
			return true
		}
	}
	return false
}

func ruleNoUnsafe(r *Run) {
	p := r.P
	n := 0
	for _, fn := range p.ModuleFuncs() {
		eachInstr(fn, func(in ssa.Instruction) {
			switch x := in.(type) {
			case *ssa.Convert:
				if b, ok := x.Type().Underlying().(*types.Basic); ok && b.Kind() == types.UnsafePointer {
					n++
					r.bad(shortFunc(fn)+"/unsafe.Pointer", in.Pos(), "conversion to unsafe.Pointer: writes through it are invisible to EFFECTS")
				}
				if b, ok := x.X.Type().Underlying().(*types.Basic); ok && b.Kind() == types.UnsafePointer {
					n++
					r.bad(shortFunc(fn)+"/unsafe.Pointer", in.Pos(), "conversion from unsafe.Pointer: writes through it are invisible to EFFECTS")
				}
			case ssa.CallInstruction:
				name := calleeName(x)
				if strings.HasPrefix(name, "(reflect.Value).Set") || name == "reflect.Copy" || name == "reflect.Append" {
					n++
					r.bad(shortFunc(fn)+"/"+name, in.Pos(), "reflect setter: writes through it are invisible to EFFECTS")
				}
			}
		})
	}
	if n == 0 {
		r.ok("module", token.NoPos, "no unsafe.Pointer conversion and no reflect.Value setter in %d module functions", len(p.ModuleFuncs()))
	}
}

func ruleOptsRO(r *Run) {
	p := r.P
	e := p.Effects()
	reach := p.Reach(p.ServingRoots())
	nbad := 0
	for fn := range reach {
		for _, w := range e.OwnWrites(fn) {
			if w.Owner != "muxOptions" && w.Owner != "ruleSelector" {
				continue
			}
			if w.Owner == "muxOptions" && w.Kind == "store" && p.basePassesThroughStreamCopy(w.Instr) {
				continue
			}
			nbad++
			r.bad(shortFunc(fn)+"/writes:"+w.Target(), w.Instr.Pos(), "%s of %s on a serving path (%s): options are shared by all concurrent requests",
				w.Kind, w.Target(), p.callPath(reach, fn))
		}
	}
	if nbad == 0 {
		r.ok("serving-paths", token.NoPos, "%d functions reachable from serving roots, none writes muxOptions/ruleSelector", len(reach))
	}
	// each stream's opts is a copy of Mux.opts
	muxOpts := p.StructField("Mux", "opts")
	for _, typ := range []string{"streamHTTP", "streamGRPC"} {
		f := p.StructField(typ, "opts")
		if f == nil {
			r.missing("field " + typ + ".opts")
			continue
		}
		found := false
		for _, fn := range p.ModuleFuncs() {
			eachInstr(fn, func(in ssa.Instruction) {
				st, ok := in.(*ssa.Store)
				if !ok {
					return
				}
				fa, ok := st.Addr.(*ssa.FieldAddr)
				if !ok || fieldOfAddr(fa) != f {
					return
				}
				found = true
				good := loadsField(st.Val, muxOpts)
				r.check(good, shortFunc(fn)+"/"+typ+".opts", in.Pos(), "stream options are a copy of Mux.opts (the configured limits are the ones in force)",
					"stream options do not come from Mux.opts: configured limits/handlers are not the ones in force")
			})
		}
		if !found {
			r.undecided(typ+".opts", token.NoPos, "no store to %s.opts found", typ)
		}
	}
}

// shallowCopierParam: fn returns a map it has just made and filled, element by element, from one of its parameters
// (func copyMap[K comparable, V any](m map[K]V) map[K]V); the index of that parameter, -1 otherwise.
func (p *Program) shallowCopierParam(fn *ssa.Function) int {
	if fn == nil || !p.InModule(fn) || len(fn.Blocks) == 0 || fn.Signature.Results().Len() != 1 {
		return -1
	}
	var made ssa.Value
	for _, rv := range returnsOf(fn, 0) {
		for _, o := range p.origins(rv, originOpts{local: true}) {
			if mm, ok := o.(*ssa.MakeMap); ok {
				made = mm
			} else {
				return -1
			}
		}
	}
	if made == nil {
		return -1
	}
	idx := -1
	eachInstr(fn, func(in ssa.Instruction) {
		mu, ok := in.(*ssa.MapUpdate)
		if !ok || mu.Map != made {
			return
		}
		for _, o := range p.origins(mu.Value, originOpts{local: true}) {
			ex, ok := o.(*ssa.Extract)
			if !ok {
				continue
			}
			nx, ok := ex.Tuple.(*ssa.Next)
			if !ok {
				continue
			}
			rg, ok := nx.Iter.(*ssa.Range)
			if !ok {
				continue
			}
			for i, par := range fn.Params {
				if rg.X == ssa.Value(par) {
					idx = i
				}
			}
		}
	})
	return idx
}

func ruleWriterPublishes(r *Run) {
	p := r.P
	e := p.Effects()
	stateT := p.NamedType("state")
	roots := p.RegistrationRoots()
	if len(roots) < 3 {
		r.missing("registration roots (registerService, RegisterConn, DropConn)")
	}
	for _, fn := range p.writerFuncs() {
		key := shortFunc(fn)
		ei := errResultIndex(fn)
		n := 0
		eachInstr(fn, func(in ssa.Instruction) {
			c, ok := in.(ssa.CallInstruction)
			if !ok {
				return
			}
			isMutator := func(f *ssa.Function) bool {
				return f != nil && e.Mutates(f) && f.Signature.Recv() != nil && namedOf(f.Signature.Recv().Type()) == stateT
			}
			callee := staticCallee(c)
			if callee != nil && !isMutator(callee) && (p.isTransparent(callee) || (callee.Parent() != nil && len(p.literalCallSites(callee)) > 0)) {
				// the mutation is made by a helper of the writer (a local `add := func(…) error { …; return s.appendHandler(…) }`
				// or an extracted function): the call of that helper is the mutation
				var inner *ssa.Function
				p.eachInstrRegion(callee, func(_ *ssa.Function, x ssa.Instruction) {
					if cx, ok := x.(ssa.CallInstruction); ok && isMutator(staticCallee(cx)) {
						inner = staticCallee(cx)
					}
				})
				if inner == nil {
					return
				}
				n++
				k := key + "/publishes-after:" + shortFunc(inner)
				var badRet ssa.Instruction
				q := pathQuery{fn: fn, start: in,
					barrier: func(x ssa.Instruction) bool { return isCall(x, nStoreState) },
					target: func(x ssa.Instruction) bool {
						rt, ok := x.(*ssa.Return)
						if !ok {
							return false
						}
						if ei >= 0 {
							allNil := true
							for _, o := range p.resultValuesAt(rt, ei) {
								if !isNilConst(o) {
									allNil = false
								}
							}
							if !allNil && p.returnUnderErrTest(rt) {
								return false
							}
						}
						badRet = x
						return true
					}}
				if w, _ := q.find(); w != nil {
					r.bad(k, badRet.Pos(), "after %s (through %s) mutated the cloned state there is a path to a successful return that never calls storeState: the change is computed on a private copy and dropped (%s)",
						shortFunc(inner), shortFunc(callee), p.describePath(w))
				} else {
					r.ok(k, in.Pos(), "every successful return after the mutation (made through %s) passes through storeState", shortFunc(callee))
				}
				return
			}
			if !isMutator(callee) {
				return
			}
			n++
			// does the mutator report "changed" through a bool result tested by the caller?
			var changed ssa.Value
			if cv, ok := in.(*ssa.Call); ok && callee.Signature.Results().Len() == 1 {
				if b, ok := callee.Signature.Results().At(0).Type().Underlying().(*types.Basic); ok && b.Kind() == types.Bool {
					changed = cv
				}
			}
			dropSafe := changed != nil && p.falseBeforeFirstWrite(callee)
			k := key + "/publishes-after:" + shortFunc(callee)
			var badRet ssa.Instruction
			q := pathQuery{fn: fn, start: in,
				barrier: func(x ssa.Instruction) bool { return isCall(x, nStoreState) },
				target: func(x ssa.Instruction) bool {
					rt, ok := x.(*ssa.Return)
					if !ok {
						return false
					}
					if ei >= 0 {
						// an error return publishes nothing by design
						allNil := true
						for _, o := range p.resultValuesAt(rt, ei) {
							if !isNilConst(o) {
								allNil = false
							}
						}
						if !allNil {
							// possibly-error return: accept only if on this path the error is non-nil, i.e. the
							// return block is edge-dominated by a err != nil test; otherwise treat as success
							if p.returnUnderErrTest(rt) {
								return false
							}
						}
					}
					badRet = x
					return true
				},
				edgeOK: func(b *ssa.BasicBlock, succ int) bool {
					if !dropSafe {
						return true
					}
					// the "nothing changed" edge of a test of the mutator's own result publishes nothing legitimately
					ifi := blockIf(b)
					if ifi == nil {
						return true
					}
					if ifi.Cond == changed && succ == 1 {
						return false
					}
					if u, ok := ifi.Cond.(*ssa.UnOp); ok && u.Op == token.NOT && u.X == changed && succ == 0 {
						return false
					}
					return true
				},
			}
			if w, _ := q.find(); w != nil {
				r.bad(k, badRet.Pos(), "after %s mutated the cloned state there is a path to a successful return that never calls storeState: the change is computed on a private copy and dropped (%s)",
					shortFunc(callee), p.describePath(w))
			} else {
				msg := "every successful return after the mutation passes through storeState"
				if dropSafe {
					msg += " (the mutator's own 'nothing changed' result is exempt: it returns false before its first write)"
				}
				r.ok(k, in.Pos(), "%s", msg)
			}
		})
		if n == 0 {
			r.info(key, fn.Pos(), "writer calls no state mutator")
		}
	}
}

// returnUnderErrTest: the return instruction is reached only when some error
// value tested != nil is non-nil (the usual `if err != nil { return err }`).
func (p *Program) returnUnderErrTest(rt *ssa.Return) bool {
	errT := types.Universe.Lookup("error").Type()
	for _, g := range guardsOf(rt.Block()) {
		bo, ok := g.Cond.(*ssa.BinOp)
		if !ok {
			continue
		}
		if !types.Identical(bo.X.Type(), errT) {
			continue
		}
		if isNilConst(bo.Y) && ((bo.Op == token.NEQ && g.True) || (bo.Op == token.EQL && !g.True)) {
			return true
		}
	}
	// `return fmt.Errorf(...)` style: the returned error is a fresh non-nil value
	return false
}

// falseBeforeFirstWrite: every path in fn from entry to a protected write
// avoids returning, and every `return false` (constant) is not preceded by a
// protected write: the mutator reports false only when it changed nothing.
func (p *Program) falseBeforeFirstWrite(fn *ssa.Function) bool {
	e := p.Effects()
	writes := map[ssa.Instruction]bool{}
	for _, w := range e.OwnWrites(fn) {
		writes[w.Instr] = true
	}
	eachInstr(fn, func(in ssa.Instruction) {
		if c, ok := in.(ssa.CallInstruction); ok {
			if callee := staticCallee(c); callee != nil && e.Mutates(callee) {
				writes[in] = true
			}
		}
	})
	ok := true
	eachInstr(fn, func(in ssa.Instruction) {
		rt, isRet := in.(*ssa.Return)
		if !isRet || len(rt.Results) != 1 {
			return
		}
		mayFalse := false
		for _, o := range p.origins(rt.Results[0], originOpts{}) {
			c, isC := o.(*ssa.Const)
			if isC && c.Value != nil && c.Value.String() == "true" {
				continue
			}
			mayFalse = true
			// a value that is known true on this path (tested) is fine
			for _, g := range guardsOf(rt.Block()) {
				if g.Cond == o && g.True {
					mayFalse = false
				}
			}
		}
		if !mayFalse {
			return
		}
		// a possibly-false return must not be reachable from any write
		for w := range writes {
			if pth, _ := (pathQuery{fn: fn, start: w, target: func(x ssa.Instruction) bool { return x == in }}).find(); pth != nil {
				ok = false
			}
		}
	})
	return ok
}
