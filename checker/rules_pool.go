package main

import (
	"fmt"
	"go/token"
	"go/types"
	"sort"
	"strings"

	"golang.org/x/tools/go/ssa"
)

func init() {
	register(&Rule{Name: "POOL-TYPE", Floor: 3,
		Doc: "for every sync.Pool of the module, New and every Put supply the type every Get asserts",
		Run: rulePoolType})
	register(&Rule{Name: "POOL-RESET", Floor: 3,
		Doc: "every object taken from a pool is reset before any other use ((*bp)[:0], buf.Reset(), z.Reset(x))",
		Run: rulePoolReset})
	register(&Rule{Name: "POOL-ESCAPE", Floor: 3,
		Doc: "memory of a pooled buffer (bytesPool, bufPool) flows only into calls that do not retain it and back into the pool; it is never stored into a field, global, channel, goroutine, message value or returned to a caller outside the transport",
		Run: rulePoolEscape})
	register(&Rule{Name: "POOL-UAP", Floor: 3,
		Doc: "no use of a pooled object (or of memory obtained from it) is reachable after a non-deferred Put of it",
		Run: rulePoolUAP})
	register(&Rule{Name: "POOL-ONCE", Floor: 3,
		Doc: "a pooled object is returned to its pool at most once on any path",
		Run: rulePoolOnce})
	register(&Rule{Name: "SENDRECV-DISJOINT", Floor: 3,
		Doc: "for each ServerStream implementation the fields written by the receive half are disjoint from the fields the send half touches and vice versa (gRPC allows one sender and one receiver concurrently)",
		Run: ruleSendRecvDisjoint})
	register(&Rule{Name: "PER-REQUEST-FRESH", Floor: 4,
		Doc: "stream objects, response writers and lexers are allocated per request and never stored in a global or in routing/mux state",
		Run: rulePerRequestFresh})
}

type poolSite struct {
	fn   *ssa.Function
	call ssa.CallInstruction // the Get/Put call, or the call of a thin accessor that does it (getBuffer(), putBuffer(b))
	pool string              // stable pool name: global name or Type.field
	raw  ssa.CallInstruction // the (*sync.Pool).Get/Put call itself
	val  ssa.Value           // Get: the typed value obtained (in fn)
	typ  types.Type          // Get: its asserted type
	arg  ssa.Value           // Put: the value put (in fn)
}

func (p *Program) poolName(v ssa.Value) string {
	switch x := v.(type) {
	case *ssa.Global:
		return x.Name()
	case *ssa.FieldAddr:
		return p.fieldKey(fieldOfAddr(x))
	case *ssa.UnOp:
		// a *sync.Pool loaded from a field (z.pool): resolve to the pool(s) whose address is stored there
		if f := loadedField(x); f != nil {
			names := map[string]bool{}
			for _, fn := range p.ModuleFuncs() {
				eachInstr(fn, func(in ssa.Instruction) {
					st, ok := in.(*ssa.Store)
					if !ok {
						return
					}
					if fa, ok := st.Addr.(*ssa.FieldAddr); ok && fieldOfAddr(fa) == f {
						names[p.poolName(st.Val)] = true
					}
				})
			}
			if len(names) == 1 {
				for n := range names {
					return n
				}
			}
			return "*" + p.fieldKey(f)
		}
	}
	return "?"
}

// poolAccessors: thin wrappers around one pool operation. A get-accessor is a transparent helper every return of
// which yields the value just taken from the pool (getBuffer(), getWriter() (z, ok)); a put-accessor is a
// transparent helper that puts one of its parameters (putBuffer(b), (z).release()). Their call sites are the
// Get/Put sites as far as the pool rules are concerned.
type poolAccessor struct {
	raw   ssa.CallInstruction
	pool  string
	typ   types.Type // get
	param int        // put
}

func (p *Program) poolAccessors() (gets, puts map[*ssa.Function]poolAccessor) {
	if p.poolGetAcc != nil {
		return p.poolGetAcc, p.poolPutAcc
	}
	gets, puts = map[*ssa.Function]poolAccessor{}, map[*ssa.Function]poolAccessor{}
	p.poolGetAcc, p.poolPutAcc = gets, puts
	for _, fn := range p.ModuleFuncs() {
		if !p.isTransparent(fn) {
			continue
		}
		eachInstr(fn, func(in ssa.Instruction) {
			c, ok := in.(ssa.CallInstruction)
			if !ok {
				return
			}
			switch calleeName(c) {
			case "(*sync.Pool).Get":
				v, t := gotValueRaw(c)
				if v == nil {
					return
				}
				all, n := true, 0
				eachInstr(fn, func(x ssa.Instruction) {
					rt, ok := x.(*ssa.Return)
					if !ok || len(rt.Results) == 0 {
						return
					}
					n++
					for _, o := range p.origins(rt.Results[0], originOpts{local: true}) {
						if o != v {
							all = false
						}
					}
				})
				if all && n > 0 {
					gets[fn] = poolAccessor{raw: c, pool: p.poolName(c.Common().Args[0]), typ: t}
				}
			case "(*sync.Pool).Put":
				x := putValueRaw(c)
				os := p.origins(x, originOpts{local: true})
				if len(os) == 1 {
					if par, ok := os[0].(*ssa.Parameter); ok && par.Parent() == fn {
						puts[fn] = poolAccessor{raw: c, pool: p.poolName(c.Common().Args[0]), param: paramIndex(par)}
					}
				}
			}
		})
	}
	return gets, puts
}

// poolPut: c returns a value to a pool - (*sync.Pool).Put itself or a put-accessor; the value put, in c's function.
func (p *Program) poolPut(c ssa.CallInstruction) (ssa.Value, bool) {
	if calleeName(c) == "(*sync.Pool).Put" {
		return putValueRaw(c), true
	}
	_, puts := p.poolAccessors()
	if callee := c.Common().StaticCallee(); callee != nil && !c.Common().IsInvoke() {
		if acc, ok := puts[callee]; ok {
			if a := argAt(c, acc.param); a != nil {
				return a, true
			}
		}
	}
	return nil, false
}

func (p *Program) isPoolPut(c ssa.CallInstruction) bool {
	_, ok := p.poolPut(c)
	return ok
}

func (p *Program) poolSites(method string) []poolSite {
	var out []poolSite
	gets, puts := p.poolAccessors()
	for _, fn := range p.ModuleFuncs() {
		fn := fn
		eachInstr(fn, func(in ssa.Instruction) {
			c, ok := in.(ssa.CallInstruction)
			if !ok {
				return
			}
			if calleeName(c) == "(*sync.Pool)."+method {
				// the operation inside a thin accessor is judged at the accessor's call sites
				if method == "Get" {
					if acc, isAcc := gets[fn]; isAcc && acc.raw == c {
						return
					}
					v, t := gotValueRaw(c)
					out = append(out, poolSite{fn: fn, call: c, pool: p.poolName(c.Common().Args[0]), raw: c, val: v, typ: t})
				} else {
					if acc, isAcc := puts[fn]; isAcc && acc.raw == c {
						return
					}
					out = append(out, poolSite{fn: fn, call: c, pool: p.poolName(c.Common().Args[0]), raw: c, arg: putValueRaw(c)})
				}
				return
			}
			callee := c.Common().StaticCallee()
			if callee == nil || c.Common().IsInvoke() {
				return
			}
			if method == "Get" {
				if acc, isAcc := gets[callee]; isAcc {
					var val ssa.Value
					if v, isVal := in.(ssa.Value); isVal {
						val = v
						if _, isTuple := v.Type().(*types.Tuple); isTuple {
							val = nil
							if cc, isCall := v.(*ssa.Call); isCall {
								val = extractOf(cc, 0)
							}
						}
					}
					out = append(out, poolSite{fn: fn, call: c, pool: acc.pool, raw: acc.raw, val: val, typ: acc.typ})
				}
			} else if acc, isAcc := puts[callee]; isAcc {
				out = append(out, poolSite{fn: fn, call: c, pool: acc.pool, raw: acc.raw, arg: argAt(c, acc.param)})
			}
		})
	}
	return out
}

// commaOKAssert: every type assertion applied to the Get result is of the comma-ok form.
func commaOKAssert(get ssa.CallInstruction) bool {
	v, ok := get.(ssa.Value)
	if !ok || v.Referrers() == nil {
		return false
	}
	n := 0
	for _, ref := range *v.Referrers() {
		if ta, ok := ref.(*ssa.TypeAssert); ok {
			n++
			if !ta.CommaOk {
				return false
			}
		}
	}
	return n > 0
}

// gotValueRaw returns the typed value obtained from a Get call (through the type assertion) and the asserted type.
func gotValueRaw(get ssa.CallInstruction) (ssa.Value, types.Type) {
	v, ok := get.(ssa.Value)
	if !ok || v.Referrers() == nil {
		return nil, nil
	}
	for _, ref := range *v.Referrers() {
		ta, ok := ref.(*ssa.TypeAssert)
		if !ok {
			continue
		}
		if !ta.CommaOk {
			return ta, ta.AssertedType
		}
		for _, r2 := range *ta.Referrers() {
			if ex, ok := r2.(*ssa.Extract); ok && ex.Index == 0 {
				return ex, ta.AssertedType
			}
		}
	}
	return nil, nil
}

func rulePoolType(r *Run) {
	p := r.P
	gets := p.poolSites("Get")
	if len(gets) == 0 {
		r.missing("sync.Pool Get sites")
		return
	}
	n := map[string]int{}
	for _, g := range gets {
		t := g.typ
		n[g.pool]++
		key := fmt.Sprintf("%s/Get:%s#%d", shortFunc(g.fn), g.pool, n[g.pool])
		if t == nil {
			r.undecided(key, g.call.Pos(), "the value taken from the pool is not type-asserted")
			continue
		}
		// asserting to an interface in the comma-ok form is safe by construction: whatever was put either
		// satisfies the interface or counts as an empty pool
		if _, isIface := t.Underlying().(*types.Interface); isIface && commaOKAssert(g.raw) {
			r.ok(key, g.call.Pos(), "the pooled value is asserted to the interface %s in the comma-ok form: a value of another type is treated as an empty pool", typeString(t))
			continue
		}
		// pools reached through a *sync.Pool field (z.pool) are resolved by type: every Put of that type's holder
		ok, why := p.poolSupplies(g.raw.Common().Args[0], t)
		if ok {
			r.ok(key, g.call.Pos(), "%s", why)
		} else {
			r.bad(key, g.call.Pos(), "pool %s: Get asserts %s but %s", g.pool, typeString(t), why)
		}
	}
}

func rulePoolReset(r *Run) {
	p := r.P
	n := map[string]int{}
	for _, g := range p.poolSites("Get") {
		v, t := g.val, g.typ
		n[g.pool]++
		key := fmt.Sprintf("%s/reset-after-Get:%s#%d", shortFunc(g.fn), g.pool, n[g.pool])
		if v == nil {
			r.undecided(key, g.call.Pos(), "value taken from the pool is not type-asserted")
			continue
		}
		ts := typeString(t)
		switch {
		case ts == "*[]byte":
			// every dereference of the box is immediately resliced to length 0 (or is a store back into it)
			good, nuse := true, 0
			for _, cellUse := range p.usesThroughCells(v) {
				u, ok := cellUse.(*ssa.UnOp)
				if !ok || u.Op != token.MUL {
					continue
				}
				for _, ref := range *u.Referrers() {
					nuse++
					sl, ok := ref.(*ssa.Slice)
					if !ok || sl.High == nil {
						good = false
						continue
					}
					if k, ok := constInt(sl.High); !ok || k != 0 {
						good = false
					}
				}
			}
			// a Get through an accessor that already hands out (*bp)[:0]: its dereferences count too
			if _, accReset, accDeref := p.accessorSlices(g); accDeref > 0 {
				good = good && accReset
				nuse += accDeref
			}
			r.check(good && nuse > 0, key, g.call.Pos(), "the pooled slice is only ever read as (*bp)[:0]", "the contents of a pooled byte slice are read without resetting its length to 0: bytes of an earlier request are visible")
		case ts == "*bytes.Buffer":
			accResets := false
			if g.raw != nil && g.raw != g.call {
				// the accessor empties the buffer before handing it out (func getBuffer() *bytes.Buffer { b := pool.Get()…; b.Reset(); return b })
				if rv, _ := gotValueRaw(g.raw); rv != nil {
					accResets = true
					found := false
					eachInstr(g.raw.Parent(), func(in ssa.Instruction) {
						if rt, ok := in.(*ssa.Return); ok {
							dom := false
							for _, use := range p.usesThroughCells(rv) {
								if c, ok := use.(ssa.CallInstruction); ok && calleeName(c) == "(*bytes.Buffer).Reset" && instrDominates(use, rt) {
									dom = true
								}
							}
							found = true
							accResets = accResets && dom
						}
					})
					accResets = accResets && found
				}
			}
			if accResets {
				r.ok(key, g.call.Pos(), "the accessor that takes the buffer from the pool Resets it before returning it")
			} else if p.resetDominatesUses(v, "(*bytes.Buffer).Reset", g.fn) {
				r.ok(key, g.call.Pos(), "buf.Reset() precedes every other use")
			} else if bad := p.putWithoutReset(g.pool, "(*bytes.Buffer).Reset"); bad == "" {
				// the other discipline: whoever puts a buffer back empties it first
				r.ok(key, g.call.Pos(), "every Put into %s is preceded by Reset() of the buffer put (the pool only ever holds empty buffers)", g.pool)
			} else {
				r.bad(key, g.call.Pos(), "a pooled bytes.Buffer is used before Reset(): it still holds an earlier request's bytes (and not every Put into %s empties the buffer first: %s)", g.pool, bad)
			}
		default:
			// gzip writer/reader wrappers: Reset(x) through the embedded field or promoted method
			good := false
			for _, use := range p.usesThroughCells(v) {
				if c, ok := use.(ssa.CallInstruction); ok && strings.HasSuffix(calleeName(c), ".Reset") {
					good = true
				}
				// promoted method: z.Writer.Reset(w) -> load of embedded field then call
				if fa, ok := use.(*ssa.FieldAddr); ok {
					for _, r2 := range *fa.Referrers() {
						if u, ok := r2.(*ssa.UnOp); ok {
							for _, r3 := range *u.Referrers() {
								if c, ok := r3.(ssa.CallInstruction); ok && strings.HasSuffix(calleeName(c), ".Reset") {
									good = true
								}
							}
						}
					}
				}
			}
			r.check(good, key, g.call.Pos(), "the pooled "+ts+" is Reset onto the new stream before it is handed out", "a pooled "+ts+" is handed out without Reset: it still reads/writes the previous request's stream")
		}
	}
}

// accessorSlices: for a Get made through an accessor that hands out more than the box (func getBytes() (bp *[]byte,
// b []byte) { bp = pool.Get().(*[]byte); return bp, (*bp)[:0] }): the results of the accessor call, at the call
// site, that are slices of the pooled memory on every return; and whether every dereference of the box inside the
// accessor is resliced to length 0.
func (p *Program) accessorSlices(g poolSite) (vals []ssa.Value, allReset bool, nDeref int) {
	allReset = true
	if g.raw == nil || g.raw == g.call {
		return nil, true, 0
	}
	acc := g.raw.Parent()
	rv, _ := gotValueRaw(g.raw)
	if rv == nil {
		return nil, false, 0
	}
	derived := map[ssa.Value]bool{}
	for _, use := range p.usesThroughCells(rv) {
		u, ok := use.(*ssa.UnOp)
		if !ok || u.Op != token.MUL {
			continue
		}
		for _, ref := range *u.Referrers() {
			nDeref++
			sl, ok := ref.(*ssa.Slice)
			if !ok {
				allReset = false
				continue
			}
			derived[sl] = true
			if k, isC := constInt(sl.High); sl.High == nil || !isC || k != 0 {
				allReset = false
			}
		}
	}
	call, ok := g.call.(*ssa.Call)
	if !ok || call.Referrers() == nil {
		return nil, allReset, nDeref
	}
	for _, ref := range *call.Referrers() {
		ex, ok := ref.(*ssa.Extract)
		if !ok || ex.Index == 0 {
			continue
		}
		all, n := true, 0
		for _, rvv := range returnsOf(acc, ex.Index) {
			n++
			for _, o := range p.origins(rvv, originOpts{local: true}) {
				if !derived[o] {
					all = false
				}
			}
		}
		if all && n > 0 {
			vals = append(vals, ex)
		}
	}
	return vals, allReset, nDeref
}

// putWithoutReset: a Put into the named pool that is not preceded by a call of reset on the value put (in the
// putting function, dominating the Put, or inside the put-accessor before the raw Put); "" if every Put is.
func (p *Program) putWithoutReset(pool, reset string) string {
	sites := 0
	for _, s := range p.poolSites("Put") {
		if s.pool != pool {
			continue
		}
		sites++
		ok := false
		if _, isDefer := s.call.(*ssa.Defer); !isDefer && s.arg != nil {
			eachInstr(s.fn, func(in ssa.Instruction) {
				c, isCall := in.(ssa.CallInstruction)
				if !isCall || calleeName(c) != reset || len(c.Common().Args) == 0 {
					return
				}
				if a := c.Common().Args[0]; (a == s.arg || p.sameValue(a, s.arg) || p.sameOrigins(a, s.arg)) && p.nothingBetween(in, s.call, s.arg) {
					ok = true
				}
			})
		}
		if !ok && s.raw != s.call && s.raw != nil {
			// inside the accessor: Reset of the parameter put, before the raw Put
			acc := s.raw.Parent()
			rawArg := putValueRaw(s.raw)
			eachInstr(acc, func(in ssa.Instruction) {
				c, isCall := in.(ssa.CallInstruction)
				if !isCall || calleeName(c) != reset || len(c.Common().Args) == 0 {
					return
				}
				if a := c.Common().Args[0]; rawArg != nil && (a == rawArg || p.sameValue(a, rawArg)) && p.nothingBetween(in, s.raw, rawArg) {
					ok = true
				}
			})
		}
		if !ok {
			return "the Put at " + p.Pos(s.call.Pos()) + " is not"
		}
	}
	if sites == 0 {
		return "no Put found"
	}
	return ""
}

// nothingBetween: a and b are in one basic block, a first, and no instruction between them has v (or the same
// value under another name) as an operand: the buffer emptied at a is still empty at b.
func (p *Program) nothingBetween(a, b ssa.Instruction, v ssa.Value) bool {
	if a.Block() != b.Block() {
		return false
	}
	ia, ib := instrIndex(a), instrIndex(b)
	if ia < 0 || ib < 0 || ia >= ib {
		return false
	}
	for _, in := range a.Block().Instrs[ia+1 : ib] {
		for _, op := range in.Operands(nil) {
			if op == nil || *op == nil {
				continue
			}
			if *op == v || p.sameValue(*op, v) {
				if _, isMI := in.(*ssa.MakeInterface); isMI {
					continue // boxing for the Put itself
				}
				return false
			}
		}
	}
	return true
}

// usesThroughCells: instructions that use v directly or after v was spilled into a local cell.
func (p *Program) usesThroughCells(v ssa.Value) []ssa.Instruction {
	var out []ssa.Instruction
	seen := map[ssa.Value]bool{}
	var walk func(v ssa.Value)
	walk = func(v ssa.Value) {
		if seen[v] || v.Referrers() == nil {
			return
		}
		seen[v] = true
		for _, ref := range *v.Referrers() {
			if st, ok := ref.(*ssa.Store); ok && st.Val == v {
				if al, ok := p.cellRoot(st.Addr).(*ssa.Alloc); ok {
					// loads of the cell anywhere in the function tree
					for _, fn := range allFuncsDeep(al.Parent()) {
						eachInstr(fn, func(in ssa.Instruction) {
							if u, ok := in.(*ssa.UnOp); ok && u.Op == token.MUL && p.cellRoot(u.X) == ssa.Value(al) {
								walk(u)
							}
						})
					}
					continue
				}
			}
			if ph, ok := ref.(*ssa.Phi); ok {
				walk(ph)
				continue
			}
			out = append(out, ref)
		}
	}
	walk(v)
	return out
}

func (p *Program) resetDominatesUses(v ssa.Value, reset string, fn *ssa.Function) bool {
	return p.resetDominatesUsesDepth(v, reset, 0)
}

func (p *Program) resetDominatesUsesDepth(v ssa.Value, reset string, depth int) bool {
	var resets []ssa.Instruction
	isReset := map[ssa.Instruction]bool{}
	uses := p.usesThroughCells(v)
	for _, u := range uses {
		c, ok := u.(ssa.CallInstruction)
		if !ok {
			continue
		}
		if calleeName(c) == reset {
			resets = append(resets, u)
			isReset[u] = true
			continue
		}
		// handed to a module function that resets it before any other use (the Reset was moved into the callee)
		if callee := c.Common().StaticCallee(); callee != nil && !c.Common().IsInvoke() && p.InModule(callee) && depth < 3 && len(callee.Blocks) > 0 {
			for i, a := range c.Common().Args {
				if i < len(callee.Params) && (a == v || p.sameValue(a, v)) && p.resetDominatesUsesDepth(callee.Params[i], reset, depth+1) {
					resets = append(resets, u)
					isReset[u] = true
				}
			}
		}
	}
	if len(resets) == 0 {
		return false
	}
	for _, u := range uses {
		if isReset[u] {
			continue
		}
		if c, ok := u.(ssa.CallInstruction); ok && (calleeName(c) == reset || p.isPoolPut(c)) {
			continue
		}
		if _, ok := u.(*ssa.MakeInterface); ok {
			continue
		}
		dom := false
		for _, rs := range resets {
			if rs.Parent() == u.Parent() && instrDominates(rs, u) {
				dom = true
			}
		}
		if !dom {
			return false
		}
	}
	return true
}

// ---------------------------------------------------------------------------
// POOL-ESCAPE: forward taint with per-function summaries
// ---------------------------------------------------------------------------

type taintViolation struct {
	pos  token.Pos
	what string
	fn   *ssa.Function
}

type taintSummary struct {
	resultTainted map[int]bool
	viol          []taintViolation
}

type taintAnalysis struct {
	p    *Program
	memo map[string]*taintSummary
}

// calls that may receive pooled memory and do not retain it (contract table, DESIGN.md section 4 POOL-ESCAPE)
func taintSafeCallee(c ssa.CallInstruction) (ok bool, resultAliases bool) {
	cc := c.Common()
	if cc.IsInvoke() {
		switch cc.Method.Name() {
		case "Unmarshal", "WriteNext", "Write", "HandleRPC":
			return true, false
		case "MarshalAppend", "ReadNext":
			return true, true
		case "Read": // io.Reader.Read(p): fills the buffer
			return true, false
		case "Decompress", "Compress": // wraps the local reader/writer
			return true, true
		}
		return false, false
	}
	n := calleeName(c)
	switch n {
	case "builtin.len", "builtin.cap", "builtin.copy", "io.ReadFull", "io.ReadAtLeast",
		"(encoding/binary.bigEndian).PutUint32", "(encoding/binary.bigEndian).Uint32", "(encoding/binary.bigEndian).PutUint64",
		"(*bytes.Buffer).Write", "(*bytes.Buffer).Reset", "(*bytes.Buffer).Len", "(*bytes.Buffer).ReadFrom",
		"(*sync.Pool).Put", "bytes.Equal", "fmt.Errorf", "fmt.Sprintf",
		"bytes.HasPrefix", "bytes.HasSuffix", "bytes.Contains", "bytes.Index", "bytes.IndexByte", "bytes.IndexAny", "bytes.LastIndexByte",
		"google.golang.org/protobuf/proto.Unmarshal", "google.golang.org/protobuf/encoding/protojson.Unmarshal":
		return true, false
	case "bytes.NewReader", "(*bytes.Buffer).Bytes", "io.LimitReader", "builtin.append",
		// package bytes' trimmers return a subslice of their argument and keep nothing
		"bytes.TrimSpace", "bytes.TrimLeft", "bytes.TrimRight", "bytes.Trim", "bytes.TrimPrefix", "bytes.TrimSuffix":
		return true, true
	}
	return false, false
}

func (t *taintAnalysis) analyze(fn *ssa.Function, taintedParams []int, seeds []ssa.Value, depth int) *taintSummary {
	sort.Ints(taintedParams)
	key := fmt.Sprintf("%p|%v|%d", fn, taintedParams, len(seeds))
	if len(seeds) == 0 {
		if s, ok := t.memo[key]; ok {
			return s
		}
	}
	sum := &taintSummary{resultTainted: map[int]bool{}}
	if len(seeds) == 0 {
		t.memo[key] = sum
	}
	if depth > 6 || len(fn.Blocks) == 0 {
		return sum
	}
	p := t.p
	tainted := map[ssa.Value]bool{}
	taintedCells := map[ssa.Value]bool{}
	for _, i := range taintedParams {
		if i < len(fn.Params) {
			tainted[fn.Params[i]] = true
		}
	}
	for _, s := range seeds {
		tainted[s] = true
	}
	funcs := allFuncsDeep(fn)
	viol := func(pos token.Pos, g *ssa.Function, format string, args ...interface{}) {
		msg := fmt.Sprintf(format, args...)
		for _, v := range sum.viol {
			if v.pos == pos && v.what == msg {
				return
			}
		}
		sum.viol = append(sum.viol, taintViolation{pos, msg, g})
	}
	for changed := true; changed; {
		changed = false
		mark := func(v ssa.Value) {
			if v != nil && !tainted[v] {
				tainted[v] = true
				changed = true
			}
		}
		for _, g := range funcs {
			// deferred-only closures that put the buffer back are part of the protocol: analyse them too
			eachInstr(g, func(in ssa.Instruction) {
				switch x := in.(type) {
				case *ssa.Slice:
					if tainted[x.X] {
						mark(x)
					}
				case *ssa.Phi:
					for _, e := range x.Edges {
						if tainted[e] {
							mark(x)
						}
					}
				case *ssa.ChangeType:
					if tainted[x.X] {
						mark(x)
					}
				case *ssa.Convert:
					// string(b) copies; []byte(s) copies
				case *ssa.MakeInterface:
					if tainted[x.X] {
						mark(x)
					}
				case *ssa.UnOp:
					if x.Op == token.MUL {
						root := p.cellRoot(x.X)
						if taintedCells[root] {
							mark(x)
						}
					}
				case *ssa.Extract:
					if tainted[x.Tuple] {
						// which index aliases: index 0 for (dst, n, err) / (b, err) style results
						if x.Index == 0 {
							mark(x)
						}
					}
					if c, ok := x.Tuple.(*ssa.Call); ok {
						if callee := staticCallee(c); callee != nil && p.InModule(callee) {
							var tp []int
							for i, a := range c.Call.Args {
								if tainted[a] {
									tp = append(tp, i)
								}
							}
							if len(tp) > 0 {
								cs := t.analyze(callee, tp, nil, depth+1)
								if cs.resultTainted[x.Index] {
									mark(x)
								}
							}
						}
					}
				case *ssa.Store:
					if !tainted[x.Val] {
						return
					}
					root := p.cellRoot(x.Addr)
					switch a := root.(type) {
					case *ssa.Alloc:
						if _, isStruct := a.Type().Underlying().(*types.Pointer).Elem().Underlying().(*types.Struct); !isStruct {
							if !taintedCells[root] {
								taintedCells[root] = true
								changed = true
							}
							return
						}
					}
					// store through the pool box (*bp = b) is the return protocol
					if p.isPoolBox(x.Addr) {
						return
					}
					switch a := x.Addr.(type) {
					case *ssa.FieldAddr:
						viol(in.Pos(), g, "pooled memory is stored into field %s: it outlives the buffer's return to the pool", p.fieldKey(fieldOfAddr(a)))
					case *ssa.Global:
						viol(in.Pos(), g, "pooled memory is stored into global %s", a.Name())
					case *ssa.IndexAddr:
						viol(in.Pos(), g, "pooled memory is stored into a slice/array element")
					default:
						if _, ok := root.(*ssa.Alloc); ok {
							return
						}
						viol(in.Pos(), g, "pooled memory is stored through a pointer (%s)", describeValue(x.Addr))
					}
				case *ssa.MapUpdate:
					if tainted[x.Value] || tainted[x.Key] {
						viol(in.Pos(), g, "pooled memory is stored into a map")
					}
				case *ssa.Send:
					if tainted[x.X] {
						viol(in.Pos(), g, "pooled memory is sent on a channel")
					}
				case *ssa.Return:
					for i, res := range x.Results {
						if tainted[res] {
							if g == fn {
								sum.resultTainted[i] = true
							}
						}
					}
				case *ssa.Go:
					for _, a := range x.Call.Args {
						if tainted[a] {
							viol(in.Pos(), g, "pooled memory is handed to a goroutine")
						}
					}
					if mc, ok := x.Call.Value.(*ssa.MakeClosure); ok {
						for _, b := range mc.Bindings {
							if tainted[b] || taintedCells[p.cellRoot(b)] {
								viol(in.Pos(), g, "pooled memory is captured by a goroutine")
							}
						}
					}
				case ssa.CallInstruction:
					cc := x.Common()
					anyT := false
					for _, a := range cc.Args {
						if tainted[a] {
							anyT = true
						}
					}
					if cc.IsInvoke() && tainted[cc.Value] {
						anyT = true
					}
					if !anyT {
						return
					}
					if b, ok := cc.Value.(*ssa.Builtin); ok && b.Name() == "append" {
						// only the destination operand aliases the result
						if tainted[cc.Args[0]] {
							if v, ok := in.(ssa.Value); ok {
								mark(v)
							}
						}
						return
					}
					if callee := staticCallee(x); callee != nil && p.InModule(callee) {
						var tp []int
						for i, a := range cc.Args {
							if tainted[a] {
								tp = append(tp, i)
							}
						}
						cs := t.analyze(callee, tp, nil, depth+1)
						for _, v := range cs.viol {
							viol(v.pos, v.fn, "%s", v.what)
						}
						if v, ok := in.(ssa.Value); ok && cs.resultTainted[0] && callee.Signature.Results().Len() == 1 {
							mark(v)
						}
						if v, ok := in.(ssa.Value); ok && callee.Signature.Results().Len() > 1 {
							// tuple: mark the tuple if any result is tainted; Extract refines through the summary
							_ = v
						}
						return
					}
					ok, aliases := taintSafeCallee(x)
					if !ok {
						n := calleeName(x)
						if strings.HasSuffix(n, "protoreflect.ValueOfBytes") {
							viol(in.Pos(), g, "pooled memory becomes a message field value (protoreflect.ValueOfBytes): the handler's message aliases a buffer that is returned to the pool and reused by another request")
						} else {
							viol(in.Pos(), g, "pooled memory is passed to %s, which is not known not to retain it", shortName(n))
						}
						return
					}
					if aliases {
						if v, ok := in.(ssa.Value); ok {
							mark(v)
						}
					}
				}
			})
		}
	}
	return sum
}

// isPoolBox: addr is the *[]byte box taken from a pool (or a cell holding it).
func (p *Program) isPoolBox(addr ssa.Value) bool {
	for _, o := range p.origins(addr, defaultOrigin) {
		if c, ok := o.(*ssa.Call); ok && calleeName(c) == "(*sync.Pool).Get" {
			return true
		}
	}
	return false
}

func rulePoolEscape(r *Run) {
	p := r.P
	ta := &taintAnalysis{p: p, memo: map[string]*taintSummary{}}
	n := map[string]int{}
	for _, g := range p.poolSites("Get") {
		v, t := g.val, g.typ
		if v == nil {
			continue
		}
		ts := typeString(t)
		if ts != "*[]byte" && ts != "*bytes.Buffer" {
			continue // gzip wrappers are handed out by design (Compress/Decompress return them; Close/EOF returns them)
		}
		n[g.pool]++
		key := fmt.Sprintf("%s/escape:%s#%d", shortFunc(g.fn), g.pool, n[g.pool])
		// seeds: for *[]byte the dereferenced slice values; for *bytes.Buffer the results of Bytes()
		var seeds []ssa.Value
		for _, use := range p.usesThroughCells(v) {
			switch x := use.(type) {
			case *ssa.UnOp:
				if x.Op == token.MUL && ts == "*[]byte" {
					seeds = append(seeds, x)
				}
			case ssa.CallInstruction:
				if ts == "*bytes.Buffer" && calleeName(x) == "(*bytes.Buffer).Bytes" {
					if val, ok := use.(ssa.Value); ok {
						seeds = append(seeds, val)
					}
				}
			}
		}
		if ts == "*[]byte" {
			accVals, _, _ := p.accessorSlices(g)
			seeds = append(seeds, accVals...)
		}
		if ts == "*bytes.Buffer" {
			// the buffer object itself must not be stored or returned
			bad := false
			for _, use := range p.usesThroughCells(v) {
				switch x := use.(type) {
				case *ssa.Store:
					if _, isF := x.Addr.(*ssa.FieldAddr); isF && x.Val == v {
						bad = true
						r.bad(key, use.Pos(), "the pooled bytes.Buffer is stored into a field")
					}
				case *ssa.Return:
					bad = true
					r.bad(key, use.Pos(), "the pooled bytes.Buffer is returned to the caller")
				}
			}
			if bad {
				continue
			}
		}
		top := g.fn
		sum := ta.analyze(top, nil, seeds, 0)
		if len(sum.viol) == 0 && len(sum.resultTainted) == 0 {
			r.ok(key, g.call.Pos(), "memory of the pooled %s flows only into non-retaining calls and back into the pool (%d seed values)", ts, len(seeds))
			continue
		}
		for _, v := range sum.viol {
			r.bad(key, v.pos, "%s (in %s)", v.what, shortFunc(v.fn))
		}
		if len(sum.resultTainted) > 0 && len(sum.viol) == 0 {
			r.bad(key, g.call.Pos(), "memory of the pooled %s is returned from %s to its caller, which keeps it after the deferred Put", ts, shortFunc(top))
		}
	}
	if len(n) == 0 {
		r.undecided("pooled buffers", token.NoPos, "no Get of *[]byte / *bytes.Buffer found")
	}
}

// ---------------------------------------------------------------------------
// POOL-UAP / POOL-ONCE
// ---------------------------------------------------------------------------

// putValue returns the value put (looking through MakeInterface).
func putValueRaw(c ssa.CallInstruction) ssa.Value {
	v := c.Common().Args[1]
	if mi, ok := v.(*ssa.MakeInterface); ok {
		v = mi.X
	}
	return v
}

func rulePoolUAP(r *Run) {
	p := r.P
	n := map[string]int{}
	for _, ps := range p.poolSites("Put") {
		n[ps.pool]++
		key := fmt.Sprintf("%s/use-after-Put:%s#%d", shortFunc(ps.fn), ps.pool, n[ps.pool])
		put := ps.call.(ssa.Instruction)
		if _, deferred := put.(*ssa.Defer); deferred {
			// the Put runs at function exit: what the function returns must not be memory of the object it gives
			// back at that very moment (a slice into a pooled lexer's token array, say); byte slices and buffers
			// are POOL-ESCAPE's subject
			bad := ""
			var badPos token.Pos
			if x := ps.arg; x != nil {
				ts := typeString(x.Type())
				if ts != "*[]byte" && ts != "*bytes.Buffer" {
					alias := map[ssa.Value]bool{x: true}
					for _, o := range p.origins(x, defaultOrigin) {
						alias[o] = true
					}
					isRef := func(t types.Type) bool {
						switch t.Underlying().(type) {
						case *types.Slice, *types.Pointer, *types.Map, *types.Interface, *types.Chan:
							return true
						}
						return false
					}
					// the object, or what is reached from it through its fields (z.Reader.Header)
					var fromObjD func(v ssa.Value, depth int) bool
					fromObjD = func(v ssa.Value, depth int) bool {
						if depth > 4 {
							return false
						}
						for _, o := range p.origins(v, defaultOrigin) {
							if alias[o] {
								return true
							}
							switch y := o.(type) {
							case *ssa.FieldAddr:
								if fromObjD(y.X, depth+1) {
									return true
								}
							case *ssa.UnOp:
								if fa, ok := y.X.(*ssa.FieldAddr); ok && y.Op == token.MUL && fromObjD(fa.X, depth+1) {
									return true
								}
							}
						}
						return false
					}
					fromObj := func(v ssa.Value) bool { return fromObjD(v, 0) }
					eachInstr(ps.fn, func(in ssa.Instruction) {
						rt, ok := in.(*ssa.Return)
						if !ok {
							return
						}
						for _, rv := range rt.Results {
							if !isRef(rv.Type()) || isErrorType(rv.Type()) {
								continue // (an error reported by the object is not its memory)
							}
							for _, o := range p.origins(rv, defaultOrigin) {
								derived := alias[o]
								switch y := o.(type) {
								case *ssa.FieldAddr:
									derived = derived || fromObj(y.X)
								case *ssa.UnOp:
									if fa, ok := y.X.(*ssa.FieldAddr); ok && y.Op == token.MUL {
										derived = derived || fromObj(fa.X)
									}
								case *ssa.Call:
									for _, a := range y.Call.Args {
										if fromObj(a) {
											derived = true
										}
									}
									if y.Call.IsInvoke() && fromObj(y.Call.Value) {
										derived = true
									}
								}
								if derived {
									bad = describeValue(o)
									badPos = rt.Pos()
								}
							}
						}
					})
				}
			}
			if bad != "" {
				r.bad(key, badPos, "the function returns memory of the pooled object (%s) while its deferred Put gives the object back at that moment: the caller reads it while another request already owns and rewrites the object", bad)
			} else {
				r.ok(key, put.Pos(), "deferred Put: runs at function exit, nothing of the object is returned")
			}
			continue
		}
		// Put inside a closure that is only deferred by its parent: also at exit
		if ps.fn.Parent() != nil && closureOnlyDeferred(ps.fn.Parent(), ps.fn) {
			// nothing of the parent runs after it; check the closure body itself
		}
		x := ps.arg
		// values that alias x: x itself, loads of cells holding it, results of Bytes() on it
		alias := map[ssa.Value]bool{x: true}
		for _, o := range p.origins(x, defaultOrigin) {
			alias[o] = true
		}
		eachInstr(ps.fn, func(in ssa.Instruction) {
			if c, ok := in.(*ssa.Call); ok && calleeName(c) == "(*bytes.Buffer).Bytes" {
				for _, o := range p.origins(c.Call.Args[0], defaultOrigin) {
					if alias[o] {
						alias[c] = true
					}
				}
			}
		})
		var hit ssa.Instruction
		q := pathQuery{fn: ps.fn, start: put, target: func(in ssa.Instruction) bool {
			if in == put {
				return false
			}
			if _, isRet := in.(*ssa.Return); isRet {
				// returning the object after Put (gzipReader.Read returns n, err only) — operands checked below
			}
			if c, ok := in.(ssa.CallInstruction); ok && p.isPoolPut(c) {
				return false // POOL-ONCE
			}
			for _, op := range in.Operands(nil) {
				if *op == nil {
					continue
				}
				if alias[*op] {
					// loading a field of the object, calling a method on it, passing it on …
					hit = in
					return true
				}
				for _, o := range p.origins(*op, defaultOrigin) {
					if alias[o] && o != x {
						hit = in
						return true
					}
				}
			}
			return false
		}}
		if w, _ := q.find(); w != nil {
			r.bad(key, hit.Pos(), "the object (or memory obtained from it) is used after it was returned to the pool: another request may already own it (%s)", p.describePath(w))
		} else {
			r.ok(key, put.Pos(), "nothing uses the object after this Put")
		}
	}
	if len(n) == 0 {
		r.missing("sync.Pool Put sites")
	}
}

func rulePoolOnce(r *Run) {
	p := r.P
	puts := p.poolSites("Put")
	n := map[string]int{}
	for _, ps := range puts {
		n[ps.pool]++
		key := fmt.Sprintf("%s/Put-once:%s#%d", shortFunc(ps.fn), ps.pool, n[ps.pool])
		put := ps.call.(ssa.Instruction)
		x := ps.arg
		same := func(c ssa.CallInstruction) bool {
			y, _ := p.poolPut(c)
			if y == x || p.sameValue(x, y) {
				return true
			}
			for _, a := range p.origins(x, defaultOrigin) {
				for _, b := range p.origins(y, defaultOrigin) {
					if a == b {
						if _, isGet := a.(*ssa.Call); isGet {
							return true
						}
						if _, isEx := a.(*ssa.Extract); isEx {
							return true
						}
						if _, isTA := a.(*ssa.TypeAssert); isTA {
							return true
						}
					}
				}
			}
			return false
		}
		twice := false
		// a second Put of the same object reachable after this one
		q := pathQuery{fn: ps.fn, start: put, target: func(in ssa.Instruction) bool {
			c, ok := in.(ssa.CallInstruction)
			return ok && in != put && p.isPoolPut(c) && same(c)
		}}
		if w, _ := q.find(); w != nil {
			twice = true
		}
		// or a deferred Put of the same object in the same function together with this non-deferred one
		if _, isDefer := put.(*ssa.Defer); !isDefer {
			eachInstr(ps.fn, func(in ssa.Instruction) {
				d, ok := in.(*ssa.Defer)
				if ok && p.isPoolPut(d) && same(d) {
					// the deferred Put runs on the exit that follows this Put iff the defer statement executed before: it dominates or precedes on some path
					if w, _ := (pathQuery{fn: ps.fn, start: in, target: func(x ssa.Instruction) bool { return x == put }}).find(); w != nil {
						twice = true
					}
				}
			})
		}
		r.check(!twice, key, put.Pos(), "no second Put of the same object is reachable", "the same object can be returned to the pool twice on one path: two later requests receive the same object")
	}
	if len(puts) == 0 {
		r.missing("sync.Pool Put sites")
	}
}

// ---------------------------------------------------------------------------
// SENDRECV-DISJOINT
// ---------------------------------------------------------------------------

type fieldAccess struct {
	reads, writes map[string]token.Pos
}

func (p *Program) streamFieldAccess(typ string, roots []string) fieldAccess {
	fa := fieldAccess{map[string]token.Pos{}, map[string]token.Pos{}}
	named := p.NamedType(typ)
	seen := map[*ssa.Function]bool{}
	var visit func(fn *ssa.Function)
	visit = func(fn *ssa.Function) {
		if fn == nil || seen[fn] {
			return
		}
		seen[fn] = true
		for _, g := range allFuncsDeep(fn) {
			eachInstr(g, func(in ssa.Instruction) {
				switch x := in.(type) {
				case *ssa.FieldAddr:
					if namedOf(x.X.Type()) != named {
						return
					}
					f := fieldOfAddr(x)
					if fn := namedOf(f.Type()); fn != nil && fn.Obj().Pkg() != nil && fn.Obj().Pkg().Path() == "sync" {
						return
					}
					wrote := false
					for _, ref := range *x.Referrers() {
						if st, ok := ref.(*ssa.Store); ok && st.Addr == ssa.Value(x) {
							wrote = true
							fa.writes[f.Name()] = in.Pos()
						}
					}
					if !wrote || len(*x.Referrers()) > 1 {
						fa.reads[f.Name()] = in.Pos()
					}
				case ssa.CallInstruction:
					if callee := staticCallee(x); callee != nil && callee.Signature.Recv() != nil && namedOf(callee.Signature.Recv().Type()) == named {
						visit(callee)
					}
				}
			})
		}
	}
	for _, m := range roots {
		visit(p.Method(typ, m))
	}
	return fa
}

func ruleSendRecvDisjoint(r *Run) {
	p := r.P
	for _, typ := range []string{"streamHTTP", "streamGRPC", "streamWS"} {
		if p.NamedType(typ) == nil {
			r.missing("type " + typ)
			continue
		}
		recv := p.streamFieldAccess(typ, []string{"RecvMsg"})
		send := p.streamFieldAccess(typ, []string{"SendMsg", "SendHeader", "SetHeader", "SetTrailer"})
		var conflicts []string
		var pos token.Pos
		for f, ps := range recv.writes {
			if _, ok := send.reads[f]; ok {
				conflicts = append(conflicts, f+" (written by RecvMsg, read by the send half)")
				pos = ps
			}
			if _, ok := send.writes[f]; ok {
				conflicts = append(conflicts, f+" (written by both halves)")
				pos = ps
			}
		}
		for f, ps := range send.writes {
			if _, ok := recv.reads[f]; ok {
				if _, dup := recv.writes[f]; !dup {
					conflicts = append(conflicts, f+" (written by the send half, read by RecvMsg)")
					pos = ps
				}
			}
		}
		sort.Strings(conflicts)
		key := typ + "/send-recv-disjoint"
		if len(conflicts) > 0 {
			r.bad(key, pos, "fields shared between the receive half and the send half of %s: %s; gRPC lets a handler call RecvMsg and SendMsg concurrently, so this is a data race", typ, strings.Join(conflicts, "; "))
		} else {
			r.ok(key, p.NamedType(typ).Obj().Pos(), "RecvMsg writes %v; the send half writes %v; neither touches what the other writes", keysOf(recv.writes), keysOf(send.writes))
		}
	}
}

func keysOf(m map[string]token.Pos) []string {
	var out []string
	for k := range m {
		out = append(out, k)
	}
	sort.Strings(out)
	return out
}

func rulePerRequestFresh(r *Run) {
	p := r.P
	e := p.Effects()
	for _, typ := range []string{"streamHTTP", "streamGRPC", "streamWS", "webWriter", "lexer"} {
		named := p.NamedType(typ)
		if named == nil {
			r.missing("type " + typ)
			continue
		}
		nAlloc, bad := 0, false
		for _, fn := range p.ModuleFuncs() {
			eachInstr(fn, func(in ssa.Instruction) {
				switch x := in.(type) {
				case *ssa.Alloc:
					if namedOf(x.Type()) == named {
						if _, ok := x.Type().Underlying().(*types.Pointer).Elem().Underlying().(*types.Struct); ok {
							nAlloc++
						}
					}
				case *ssa.Store:
					if namedOf(x.Val.Type()) != named {
						return
					}
					if _, isPtr := x.Val.Type().Underlying().(*types.Pointer); !isPtr {
						return
					}
					switch a := x.Addr.(type) {
					case *ssa.Global:
						bad = true
						r.bad(typ+"/stored-in-global", in.Pos(), "a %s is stored in global %s: per-request state becomes shared between requests", typ, a.Name())
					case *ssa.FieldAddr:
						if fresh, _ := e.freshBase(a); !fresh {
							owner := namedOf(a.X.Type())
							on := "?"
							if owner != nil {
								on = owner.Obj().Name()
							}
							bad = true
							r.bad(typ+"/stored-in-shared-struct", in.Pos(), "a %s is stored into %s.%s of an object that is not freshly allocated: per-request state becomes shared between requests", typ, on, fieldOfAddr(a).Name())
						}
					}
				}
			})
		}
		if nAlloc == 0 {
			r.undecided(typ+"/per-request", named.Obj().Pos(), "no allocation of %s found", typ)
		} else if !bad {
			r.ok(typ+"/per-request", named.Obj().Pos(), "%d allocation site(s); never stored in a global or in a shared object", nAlloc)
		}
	}
}
