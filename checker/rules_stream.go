package main

import (
	"fmt"
	"go/token"
	"go/types"
	"strings"

	"golang.org/x/tools/go/ssa"
)

func init() {
	register(&Rule{Name: "ENCODER-CLOSE", Floor: 2,
		Doc: "the base64 encoder that becomes the gRPC-web-text response writer is Closed on every path from serveGRPCWeb's call of serveGRPC to its return (otherwise the last 1-2 bytes of the body are never written)",
		Run: ruleEncoderClose})
	register(&Rule{Name: "TAIL-FLUSH", Floor: 1,
		Doc: "an encoder that copies its input in segments (write(msg[pos:i]) at special positions) writes the remainder msg[pos:] on every path to the return of the built string",
		Run: ruleTailFlush})
	register(&Rule{Name: "ERR-SAME-STATUS", Floor: 3,
		Doc: "in each error encoder the HTTP status / close code / grpc-status and the body / message / details derive from one status value obtained from the handler's error",
		Run: ruleErrSameStatus})
	register(&Rule{Name: "GRPC-TRAILER-VALUES", Floor: 3,
		Doc: "Grpc-Status is the decimal status code, Grpc-Message passes through encodeGrpcMessage, Grpc-Status-Details-Bin is encodeBinHeader(proto.Marshal(status proto))",
		Run: ruleGrpcTrailerValues})
	register(&Rule{Name: "CARRY-OVER", Floor: 2,
		Doc: "in streamHTTP.readMsg the bytes a stream codec read past the current message are saved on every path and prepended to the buffer of the next ReadNext",
		Run: ruleCarryOver})
	register(&Rule{Name: "FRAME-AGREE", Floor: 4,
		Doc: "gRPC frame writer and reader agree on header length, flag offset, length offset and byte order (also the gRPC-web trailer frame)",
		Run: ruleFrameAgree})
}

func ruleEncoderClose(r *Run) {
	p := r.P
	resp := p.StructField("webWriter", "resp")
	if resp == nil {
		r.missing("field webWriter.resp")
		return
	}
	// the encoder is created and stored in the writer
	created := false
	for _, fn := range p.ModuleFuncs() {
		eachInstr(fn, func(in ssa.Instruction) {
			if c, ok := in.(*ssa.Call); ok && calleeName(c) == "encoding/base64.NewEncoder" {
				created = true
			}
		})
	}
	if !created {
		r.info("base64.NewEncoder", token.NoPos, "no streaming base64 encoder is created any more: rule has no instance")
		r.ok("webWriter/no-encoder", token.NoPos, "no base64.NewEncoder in the module")
		r.ok("webWriter/no-encoder-2", token.NoPos, "nothing to close")
		return
	}
	// mustClose(fn): every path entry -> return passes a Close on a value derived from webWriter.resp (or another field holding the encoder),
	// assuming the closer assertion / nil test succeeds.
	isCloseOnResp := func(in ssa.Instruction) bool {
		c, ok := in.(ssa.CallInstruction)
		if !ok || !c.Common().IsInvoke() || c.Common().Method.Name() != "Close" {
			return false
		}
		for _, o := range p.origins(c.Common().Value, defaultOrigin) {
			if f := loadedField(o); f != nil && namedOf(p.fieldStructType(f)) != nil && p.fieldOwner(f) == "webWriter" {
				return true
			}
		}
		return false
	}
	noEncoderEdge := func(b *ssa.BasicBlock, succ int) bool {
		ifi := blockIf(b)
		if ifi == nil {
			return true
		}
		// comma-ok assertion of the writer to a closer: the false edge means "no encoder" (binary gRPC-web)
		if ex, ok := ifi.Cond.(*ssa.Extract); ok && ex.Index == 1 {
			if ta, ok := ex.Tuple.(*ssa.TypeAssert); ok {
				for _, o := range p.origins(ta.X, originOpts{}) {
					if f := loadedField(o); f != nil && p.fieldOwner(f) == "webWriter" {
						return succ == 0
					}
				}
			}
		}
		// nil test of a writer field
		if bo, ok := ifi.Cond.(*ssa.BinOp); ok && isNilConst(bo.Y) {
			if f := loadedField(bo.X); f != nil && p.fieldOwner(f) == "webWriter" {
				if bo.Op == token.NEQ {
					return succ == 0
				}
				if bo.Op == token.EQL {
					return succ == 1
				}
			}
		}
		return true
	}
	mustClose := map[*ssa.Function]bool{}
	for iter := 0; iter < 3; iter++ {
		for _, fn := range p.ModuleFuncs() {
			if mustClose[fn] || len(fn.Blocks) == 0 {
				continue
			}
			has := false
			eachInstr(fn, func(in ssa.Instruction) {
				if isCloseOnResp(in) {
					has = true
				}
				if c, ok := in.(ssa.CallInstruction); ok {
					if callee := staticCallee(c); callee != nil && mustClose[callee] {
						has = true
					}
				}
			})
			if !has {
				continue
			}
			q := pathQuery{fn: fn, edgeOK: noEncoderEdge, target: isReturn,
				barrier: func(in ssa.Instruction) bool {
					if isCloseOnResp(in) {
						return true
					}
					if c, ok := in.(ssa.CallInstruction); ok {
						if callee := staticCallee(c); callee != nil && mustClose[callee] {
							return true
						}
					}
					return false
				}}
			if w, _ := q.find(); w == nil {
				mustClose[fn] = true
			}
		}
	}
	web := p.Method("Mux", "serveGRPCWeb")
	if web == nil {
		r.missing("method (*Mux).serveGRPCWeb")
		return
	}
	var serve ssa.Instruction
	eachInstr(web, func(in ssa.Instruction) {
		if isCall(in, "(*larking.io/larking.Mux).serveGRPC") {
			serve = in
		}
	})
	if serve == nil {
		r.missing("call of serveGRPC in serveGRPCWeb")
		return
	}
	q := pathQuery{fn: web, start: serve, target: isReturn, barrier: func(in ssa.Instruction) bool {
		if isCloseOnResp(in) {
			return true
		}
		if c, ok := in.(ssa.CallInstruction); ok {
			if callee := staticCallee(c); callee != nil && mustClose[callee] {
				return true
			}
		}
		return false
	}}
	if w, _ := q.find(); w != nil {
		// diagnose: does a finaliser exist that closes on some but not all paths?
		partial := ""
		for _, fn := range p.ModuleFuncs() {
			has := false
			eachInstr(fn, func(in ssa.Instruction) {
				if isCloseOnResp(in) {
					has = true
				}
			})
			if has && !mustClose[fn] {
				partial = " (" + shortFunc(fn) + " closes it on some paths only: an early return skips the Close)"
			}
		}
		r.bad("(*Mux).serveGRPCWeb/encoder-closed", serve.Pos(), "after serveGRPC returns there is a path to the end of serveGRPCWeb on which the base64 encoder wrapping the response is never Closed%s: the final partial base64 quantum (last 1-2 bytes of the trailer frame) is never written", partial)
	} else {
		var names []string
		for fn := range mustClose {
			names = append(names, shortFunc(fn))
		}
		r.ok("(*Mux).serveGRPCWeb/encoder-closed", serve.Pos(), "every path after serveGRPC passes a Close of the response encoder (through %s)", strings.Join(names, ", "))
	}
	r.ok("webWriter/encoder-created", token.NoPos, "base64.NewEncoder result is the gRPC-web-text response writer")
}

// fieldStructType is a helper to keep loadedField results typed.
func (p *Program) fieldStructType(f *types.Var) types.Type {
	if n := p.NamedType(p.fieldOwner(f)); n != nil {
		return n
	}
	return f.Type()
}

func ruleTailFlush(r *Run) {
	p := r.P
	fn := p.Func("encodeGrpcMessage")
	if fn == nil {
		r.missing("func encodeGrpcMessage")
		return
	}
	msg := fn.Params[0]
	// segment writes: write calls whose argument is msg[lo:hi] with hi != nil
	var segWrites, tailWrites []ssa.Instruction
	var cursor ssa.Value
	eachInstr(fn, func(in ssa.Instruction) {
		c, ok := in.(ssa.CallInstruction)
		if !ok {
			return
		}
		n := calleeName(c)
		if !strings.Contains(n, "Write") && !strings.Contains(n, "Fprint") && n != "builtin.append" {
			return
		}
		for _, a := range c.Common().Args {
			for _, o := range p.origins(a, originOpts{throughConvert: true}) {
				sl, ok := o.(*ssa.Slice)
				if !ok || sl.X != ssa.Value(msg) {
					continue
				}
				if sl.High != nil {
					segWrites = append(segWrites, in)
					cursor = sl.Low
				} else if sl.Low != nil {
					tailWrites = append(tailWrites, in)
				}
			}
		}
	})
	if len(segWrites) == 0 {
		r.info("encodeGrpcMessage", fn.Pos(), "the function does not copy its input in segments (no write of msg[pos:i]): rule has no instance")
		r.ok("encodeGrpcMessage/no-segment-idiom", fn.Pos(), "no segment-copy idiom present")
		return
	}
	_ = cursor
	// every path to a return of the built string passes a tail write
	isTail := map[ssa.Instruction]bool{}
	for _, t := range tailWrites {
		isTail[t] = true
	}
	var ret ssa.Instruction
	q := pathQuery{fn: fn, barrier: func(in ssa.Instruction) bool { return isTail[in] },
		target: func(in ssa.Instruction) bool {
			rt, ok := in.(*ssa.Return)
			if !ok {
				return false
			}
			for _, o := range p.origins(rt.Results[0], originOpts{}) {
				if c, ok := o.(*ssa.Call); ok && strings.HasSuffix(calleeName(c), ".String") {
					ret = in
					return true
				}
			}
			return false
		}}
	if w, _ := q.find(); w != nil {
		r.bad("encodeGrpcMessage/tail", ret.Pos(), "the message is copied in segments msg[pos:i] but the remainder msg[pos:] after the last escaped byte is never written on a path to `return sb.String()`: the text after the last escaped character is dropped from grpc-message")
	} else {
		r.ok("encodeGrpcMessage/tail", fn.Pos(), "the remainder msg[pos:] is written on every path to the return of the built string")
	}
}

// statusMethods: calls of (*status.Status).Code/Message/Proto/Details/Err in fn.
func (p *Program) statusMethodCalls(fn *ssa.Function) []*ssa.Call {
	var out []*ssa.Call
	p.eachInstrRegion(fn, func(_ *ssa.Function, in ssa.Instruction) {
		c, ok := in.(*ssa.Call)
		if !ok {
			return
		}
		n := calleeName(c)
		if strings.HasPrefix(n, "(*google.golang.org/grpc/internal/status.Status).") || strings.HasPrefix(n, "(*google.golang.org/grpc/status.Status).") {
			out = append(out, c)
		}
	})
	return out
}

func ruleErrSameStatus(r *Run) {
	p := r.P
	hf := p.StructField("handler", "handler")
	for _, name := range []string{"encError", "serveGRPC", "serveHTTP"} {
		fn := p.Method("Mux", name)
		if fn == nil {
			r.missing("method (*Mux)." + name)
			continue
		}
		key := shortFunc(fn) + "/one-status"
		calls := p.statusMethodCalls(fn)
		if len(calls) == 0 {
			r.ok(key, fn.Pos(), "the function and its helpers read no status value: nothing can disagree")
			continue
		}
		// all receivers are the same status value (a status rebuilt from the primary's own code and message counts as the same)
		var recv ssa.Value
		same := true
		derivedFromPrimary := func(rv ssa.Value) bool {
			for _, o := range p.origins(rv, originOpts{}) {
				c, ok := o.(*ssa.Call)
				if !ok || (calleeName(c) != "google.golang.org/grpc/status.New" && calleeName(c) != "google.golang.org/grpc/status.Newf") {
					return false
				}
				for _, a := range c.Call.Args {
					for _, ao := range p.origins(a, originOpts{}) {
						ac, ok := ao.(*ssa.Call)
						if !ok || len(ac.Call.Args) == 0 || (ac.Call.Args[0] != recv && !p.sameValue(ac.Call.Args[0], recv)) {
							return false
						}
					}
				}
			}
			return true
		}
		for _, c := range calls {
			rv := c.Call.Args[0]
			if recv == nil {
				recv = rv
			} else if recv != rv && !p.sameValue(recv, rv) && !p.sameOrigins(recv, rv) && !derivedFromPrimary(rv) {
				same = false
			}
		}
		if !same {
			r.bad(key, calls[0].Pos(), "status code, message and details are read from different status values: the client can see the code of one error with the message of another")
			continue
		}
		// the status derives from the handler's error / the error parameter
		src := ""
		for _, o := range p.origins(recv, originOpts{}) {
			var c *ssa.Call
			switch x := o.(type) {
			case *ssa.Call:
				c = x
			case *ssa.Extract:
				c, _ = x.Tuple.(*ssa.Call)
			}
			if c == nil {
				continue
			}
			n := calleeName(c)
			if n != "google.golang.org/grpc/status.FromError" && n != "google.golang.org/grpc/status.Convert" {
				continue
			}
			for _, eo := range p.origins(c.Call.Args[0], originOpts{}) {
				switch y := eo.(type) {
				case *ssa.Parameter:
					if y.Parent() == fn {
						src = "the function's error parameter"
					}
				case *ssa.Call:
					if calledField(y) == hf {
						src = "the handler invocation's error"
					}
				}
			}
		}
		r.check(src != "", key, calls[0].Pos(), fmt.Sprintf("all %d status reads use one status value converted from %s", len(calls), src),
			"the status value does not come from status.FromError/Convert of the handler's error: the client does not see the handler's status")
	}
}

func ruleGrpcTrailerValues(r *Run) {
	p := r.P
	fn := p.Method("Mux", "serveGRPC")
	if fn == nil {
		r.missing("method (*Mux).serveGRPC")
		return
	}
	seen := map[string]bool{}
	p.eachInstrRegion(fn, func(_ *ssa.Function, in ssa.Instruction) {
		c, ok := in.(ssa.CallInstruction)
		if !ok || calleeName(c) != "(net/http.Header).Set" {
			return
		}
		k, ok := constString(c.Common().Args[1])
		if !ok {
			return
		}
		val := c.Common().Args[2]
		through := func(v ssa.Value, names ...string) (*ssa.Call, bool) {
			for _, o := range p.origins(v, originOpts{}) {
				var cc *ssa.Call
				switch x := o.(type) {
				case *ssa.Call:
					cc = x
				case *ssa.Extract:
					cc, _ = x.Tuple.(*ssa.Call)
				}
				if cc == nil {
					return nil, false
				}
				for _, n := range names {
					if calleeName(cc) == n {
						return cc, true
					}
				}
				return nil, false
			}
			return nil, false
		}
		switch strings.ToLower(k) {
		case "grpc-status":
			seen["grpc-status"] = true
			cc, ok := through(val, "strconv.FormatInt", "strconv.Itoa", "strconv.FormatUint")
			good := ok
			if ok {
				// base 10 and the argument is the status code
				if len(cc.Call.Args) == 2 {
					if b, isC := constInt(cc.Call.Args[1]); !isC || b != 10 {
						good = false
					}
				}
				isCode := false
				for _, o := range p.origins(p.stripConvAll(cc.Call.Args[0]), originOpts{throughConvert: true}) {
					if sc, ok := o.(*ssa.Call); ok && strings.HasSuffix(calleeName(sc), "Status).Code") {
						isCode = true
					}
				}
				good = good && isCode
			}
			r.check(good, "serveGRPC/Grpc-Status", in.Pos(), "decimal rendering of the status code", "Grpc-Status is not the base-10 rendering of the status code")
		case "grpc-message":
			seen["grpc-message"] = true
			cc, ok := through(val, "larking.io/larking.encodeGrpcMessage")
			good := ok
			if ok {
				isMsg := false
				for _, o := range p.origins(cc.Call.Args[0], originOpts{}) {
					if sc, ok := o.(*ssa.Call); ok && strings.HasSuffix(calleeName(sc), "Status).Message") {
						isMsg = true
					}
				}
				good = isMsg
			}
			r.check(good, "serveGRPC/Grpc-Message", in.Pos(), "the status message passes through encodeGrpcMessage", "Grpc-Message is not encodeGrpcMessage(status message): non-ASCII / '%' bytes reach the header raw and are not decodable by the client")
		case "grpc-status-details-bin":
			seen["grpc-status-details-bin"] = true
			cc, ok := through(val, "larking.io/larking.encodeBinHeader")
			good := ok
			if ok {
				_, isMarshal := through(cc.Call.Args[0], "google.golang.org/protobuf/proto.Marshal")
				good = isMarshal
			}
			r.check(good, "serveGRPC/Grpc-Status-Details-Bin", in.Pos(), "encodeBinHeader(proto.Marshal(status proto))", "Grpc-Status-Details-Bin is not encodeBinHeader(proto.Marshal(…))")
		}
	})
	for _, k := range []string{"grpc-status", "grpc-message", "grpc-status-details-bin"} {
		if !seen[k] {
			r.bad("serveGRPC/"+k, fn.Pos(), "serveGRPC never sets the %s trailer", k)
		}
	}
}

func ruleCarryOver(r *Run) {
	p := r.P
	fn := p.Method("streamHTTP", "readMsg")
	if fn == nil {
		r.missing("method (*streamHTTP).readMsg")
		return
	}
	rbuf := p.StructField("streamHTTP", "rbuf")
	if rbuf == nil {
		r.missing("field streamHTTP.rbuf")
		return
	}
	var rn *ssa.Call
	eachInstr(fn, func(in ssa.Instruction) {
		if c, ok := in.(*ssa.Call); ok && c.Common().IsInvoke() && c.Common().Method.Name() == "ReadNext" {
			rn = c
		}
	})
	if rn == nil {
		r.missing("ReadNext call in readMsg")
		return
	}
	var dst, n ssa.Value
	for _, ref := range *rn.Referrers() {
		if ex, ok := ref.(*ssa.Extract); ok {
			switch ex.Index {
			case 0:
				dst = ex
			case 1:
				n = ex
			}
		}
	}
	// (a) the tail dst[n:] is saved into s.rbuf on every path from ReadNext to a return
	isSave := func(in ssa.Instruction) bool {
		st, ok := in.(*ssa.Store)
		if !ok {
			return false
		}
		fa, ok := st.Addr.(*ssa.FieldAddr)
		if !ok || fieldOfAddr(fa) != rbuf {
			return false
		}
		for _, src := range p.flattenAppendKeepSlices(st.Val, 0) {
			if sl, ok := src.(*ssa.Slice); ok && sl.X == dst && sl.Low == n && sl.High == nil {
				return true
			}
		}
		return false
	}
	// a return that ends the stream for good (a certainly non-nil error: io.EOF at the end of the body, an error
	// for a truncated message) is followed by no further read: nothing needs to be carried over
	continues := func(in ssa.Instruction) bool {
		rt, ok := in.(*ssa.Return)
		if !ok {
			return false
		}
		if len(rt.Results) == 3 && p.certainlyNonNilError(rt.Results[2], 0) {
			return false
		}
		return true
	}
	q := pathQuery{fn: fn, start: rn, target: continues, barrier: isSave}
	if w, _ := q.find(); w != nil {
		r.bad("(*streamHTTP).readMsg/tail-saved", rn.Pos(), "after ReadNext there is a path to a return on which the bytes read past the message (dst[n:]) are not saved into s.rbuf: the start of the next message is lost (%s)", p.describePath(w))
	} else {
		r.ok("(*streamHTTP).readMsg/tail-saved", rn.Pos(), "dst[n:] is saved into s.rbuf on every path after ReadNext")
	}
	// (b) the saved bytes are prepended to the buffer handed to ReadNext
	pre := false
	for _, src := range p.flattenAppend(rn.Call.Args[0], 0) {
		if loadsField(src, rbuf) {
			pre = true
		}
	}
	r.check(pre, "(*streamHTTP).readMsg/tail-prepended", rn.Pos(), "s.rbuf is appended to the buffer handed to ReadNext", "the saved bytes (s.rbuf) are not handed to the next ReadNext: carried-over bytes are dropped")
	// (c) the message returned is dst[:n]
	retOK := false
	eachInstr(fn, func(in ssa.Instruction) {
		rt, ok := in.(*ssa.Return)
		if !ok || len(rt.Results) != 3 {
			return
		}
		for _, o := range p.origins(rt.Results[1], originOpts{}) {
			if sl, ok := o.(*ssa.Slice); ok && sl.X == dst && sl.High == n && sl.Low == nil {
				retOK = true
			}
		}
	})
	r.check(retOK, "(*streamHTTP).readMsg/message-is-prefix", rn.Pos(), "the message handed on is dst[:n]", "the message handed on is not dst[:n] of the ReadNext result")
}

// flattenAppendKeepSlices: like flattenAppend but keeps Slice values as leaves.
func (p *Program) flattenAppendKeepSlices(v ssa.Value, depth int) []ssa.Value {
	if depth > 8 {
		return []ssa.Value{v}
	}
	var out []ssa.Value
	for _, o := range p.origins(v, originOpts{throughConvert: true, throughAssert: true, throughSlice: false}) {
		if c, ok := o.(*ssa.Call); ok {
			if b, ok := c.Call.Value.(*ssa.Builtin); ok && b.Name() == "append" && len(c.Call.Args) == 2 {
				out = append(out, p.flattenAppendKeepSlices(c.Call.Args[0], depth+1)...)
				out = append(out, p.flattenAppendKeepSlices(c.Call.Args[1], depth+1)...)
				continue
			}
		}
		out = append(out, o)
	}
	return out
}

type frameFacts struct {
	order      string
	lenOffsets []int64 // low bound of the slice handed to Uint32/PutUint32
	flagIdx    []int64 // constant indices read/written for the flag byte
	hdrLens    []int64 // constant high bounds of b[:k] header slices
}

func (p *Program) frameFactsOf(fn *ssa.Function, put bool) frameFacts {
	var ff frameFacts
	p.eachInstrRegion(fn, func(_ *ssa.Function, in ssa.Instruction) {
		switch x := in.(type) {
		case ssa.CallInstruction:
			n := calleeName(x)
			isBE := strings.Contains(n, "bigEndian")
			isLE := strings.Contains(n, "littleEndian")
			if (isBE || isLE) && (strings.HasSuffix(n, ".Uint32") || strings.HasSuffix(n, ".PutUint32")) {
				if isBE {
					ff.order = "big"
				} else {
					ff.order = "little"
				}
				arg := x.Common().Args[len(x.Common().Args)-1]
				if strings.HasSuffix(n, ".PutUint32") {
					arg = x.Common().Args[len(x.Common().Args)-2]
				}
				for _, o := range p.origins(arg, originOpts{}) {
					if sl, ok := o.(*ssa.Slice); ok && sl.Low != nil {
						if k, ok := constInt(sl.Low); ok {
							ff.lenOffsets = append(ff.lenOffsets, k)
						}
					}
				}
			}
		case *ssa.Slice:
			if x.High != nil && x.Low == nil {
				if _, isBytes := x.Type().Underlying().(*types.Slice); !isBytes {
					return
				}
				if k, ok := constInt(x.High); ok {
					ff.hdrLens = append(ff.hdrLens, k)
					return
				}
				// the length is a helper's parameter (resize(b, headerLen)): the constants passed for it inside the region
				if par, ok := x.High.(*ssa.Parameter); ok {
					h := par.Parent()
					idx := -1
					for i, fp := range h.Params {
						if fp == par {
							idx = i
						}
					}
					p.eachInstrRegion(fn, func(_ *ssa.Function, y ssa.Instruction) {
						if c, ok := y.(ssa.CallInstruction); ok && !c.Common().IsInvoke() && c.Common().StaticCallee() == h && idx >= 0 && idx < len(c.Common().Args) {
							if k, ok := constInt(c.Common().Args[idx]); ok {
								ff.hdrLens = append(ff.hdrLens, k)
							}
						}
					})
				}
			}
		}
	})
	return ff
}

func ruleFrameAgree(r *Run) {
	p := r.P
	send, recv := p.Method("streamGRPC", "SendMsg"), p.Method("streamGRPC", "RecvMsg")
	if send == nil || recv == nil {
		r.missing("methods (*streamGRPC).SendMsg/RecvMsg")
		return
	}
	fs, fr := p.frameFactsOf(send, true), p.frameFactsOf(recv, false)
	r.check(fs.order == "big" && fr.order == "big", "streamGRPC/byte-order", send.Pos(), "writer and reader use big-endian lengths (gRPC wire format)",
		fmt.Sprintf("writer uses %q and reader %q byte order (gRPC frames carry a big-endian length)", fs.order, fr.order))
	eq := func(a, b []int64, want int64) bool {
		if len(a) == 0 || len(b) == 0 {
			return false
		}
		for _, x := range append(append([]int64{}, a...), b...) {
			if x != want {
				return false
			}
		}
		return true
	}
	r.check(eq(fs.lenOffsets, fr.lenOffsets, 1), "streamGRPC/length-offset", send.Pos(), "the length is written and read at offset 1",
		fmt.Sprintf("length offset differs or is not 1 (writer %v, reader %v)", fs.lenOffsets, fr.lenOffsets))
	has5 := func(a []int64) bool {
		for _, x := range a {
			if x == 5 {
				return true
			}
		}
		return false
	}
	r.check(has5(fs.hdrLens) && has5(fr.hdrLens), "streamGRPC/header-length", send.Pos(), "both sides use a 5-byte frame header",
		fmt.Sprintf("frame header length is not 5 on both sides (writer %v, reader %v)", fs.hdrLens, fr.hdrLens))
	// compressed flag: writer stores constants 0/1 at index 0; reader compares index 0 with 1
	wflag, rflag := false, false
	p.eachInstrRegion(send, func(_ *ssa.Function, in ssa.Instruction) {
		st, ok := in.(*ssa.Store)
		if !ok {
			return
		}
		if ia, ok := st.Addr.(*ssa.IndexAddr); ok {
			if k, ok := constInt(ia.Index); ok && k == 0 {
				if v, ok := constInt(st.Val); ok && v == 1 {
					wflag = true
				}
			}
		}
	})
	p.eachInstrRegion(recv, func(_ *ssa.Function, in ssa.Instruction) {
		bo, ok := in.(*ssa.BinOp)
		if !ok || bo.Op != token.EQL {
			return
		}
		if v, ok := constInt(bo.Y); ok && v == 1 {
			if u, ok := bo.X.(*ssa.UnOp); ok {
				if ia, ok := u.X.(*ssa.IndexAddr); ok {
					if k, ok := constInt(ia.Index); ok && k == 0 {
						rflag = true
					}
				}
			}
		}
	})
	r.check(wflag && rflag, "streamGRPC/compressed-flag", send.Pos(), "the compressed flag is byte 0 with value 1 on both sides", "writer and reader disagree on the compressed-flag byte")
	// gRPC-web trailer frame
	if wt := p.Method("webWriter", "writeTrailer"); wt != nil {
		ft := p.frameFactsOf(wt, true)
		r.check(ft.order == "big" && len(ft.lenOffsets) > 0 && ft.lenOffsets[0] == 1, "webWriter.writeTrailer/frame", wt.Pos(), "trailer frame: big-endian length at offset 1",
			"gRPC-web trailer frame does not carry a big-endian length at offset 1")
	} else {
		r.missing("method (*webWriter).writeTrailer")
	}
}

// certainlyNonNilError: v is a freshly built error or a sentinel, a choice between such values, or the result of a
// module function every return of which yields one.
func (p *Program) certainlyNonNilError(v ssa.Value, depth int) bool {
	if depth > 4 {
		return false
	}
	if isNilConst(v) {
		return false
	}
	if isFreshError(v) {
		return true
	}
	switch x := v.(type) {
	case *ssa.Phi:
		for _, e := range x.Edges {
			if !p.certainlyNonNilError(e, depth+1) {
				return false
			}
		}
		return len(x.Edges) > 0
	case *ssa.Call:
		callee := x.Call.StaticCallee()
		if callee == nil || x.Call.IsInvoke() || !p.InModule(callee) || len(callee.Blocks) == 0 {
			return false
		}
		ei := errResultIndex(callee)
		if ei < 0 || callee.Signature.Results().Len() != 1 {
			return false
		}
		all, any := true, false
		eachInstr(callee, func(in ssa.Instruction) {
			if rt, ok := in.(*ssa.Return); ok && ei < len(rt.Results) {
				any = true
				if !p.certainlyNonNilError(rt.Results[ei], depth+1) {
					all = false
				}
			}
		})
		return all && any
	}
	return false
}
