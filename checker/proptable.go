package main

// Property → rules. "Decides" names the structural clauses the rules decide
// (each a necessary condition of the property); "NotDecided" repeats what a
// pass must not be read as. Both go into the evidence file and MANIFEST.
func init() {
	property(&Property{
		ID:          "C01",
		Rules:       []string{"STOP-SET", "LITERAL-COMPARE", "OFFSET-BASE", "KEY-AGREE", "PATTERN-VERB", "VERB-KEY", "LEAF-EXHAUSTED", "VARS-ONLY", "PATH-NORMALISE", "PATH-SOURCE", "SEP-CHECK", "KIND-VALUE-AGREE", "KIND-EXHAUSTIVE", "MATCH-SOURCE", "LEX-EOF-ONLY", "POOL-UAP", "STORED-SLICE-REUSE", "CAPTURE-PAIRING", "SEL-COLLECT", "SEL-INSERT", "REMOVAL-LOOP-DIRECTION"},
		Decides:     "Decides the comparisons and tables every sound matcher must contain: literal edges are followed by the same key they were created with; a variable pattern's literal arm rejects on kind or text mismatch; '*' stops at '/' and ':' and '**' at ':' only; each HttpRule pattern case maps to the HTTP method of the same name and the leaf lookup is keyed by the request's verb; a method is returned only when nothing but the end marker is left; captured text is bound only to the fields the template names; capture lengths use the right base. Also: path-bound integer/float/enum text is converted with the field's own kind and width (the KIND rules). Also: the method returned by the matchers comes from the trie walk of this request (or a memo keyed by both path and verb), never from a value remembered under less. Also: the path lexer closes the token list only at the end of the input (no silent truncation at the token budget). Also: the token list the matcher walks is not memory of a pooled lexer that a deferred Put hands to the next request. Also: service-config rules are bound only to methods their selector names (lookup descends component by component; insertion stores at the selected node).",
		NotDecided:  "that a matching path is matched only by covering templates in general (lexer character classes, ':' handling, capture text equality, numeric conversion results, trailing-slash normalisation) - i.e. the behavioural statement itself.",
		Assumptions: commonAssumptions,
	})
	property(&Property{
		ID:          "C02",
		Rules:       []string{"LITERAL-FIRST", "BACKTRACK", "STOP-SET", "SORTED-VARS", "NO-MAP-ORDER", "OFFSET-BASE", "PATH-CHARSET", "COW-5", "COW-2", "PATH-NORMALISE", "KEY-AGREE", "STORED-SLICE-REUSE", "DELRULE-TOTAL"},
		Decides:     "Decides the structural guarantees of the matcher's shape for every rule set and path: the literal edge is tried before any variable and wins if it succeeds; a failed sub-search never aborts the search (only a conversion failure does); variables are kept sorted by a strict order on a key that depends on the pattern only; nothing on the matching path ranges over a map; capture lengths are computed against the right base. Also: the lexer's path character class contains RFC 3986 pchar (without ':' and '%'); cloning a routing node never drops a field on an early return. Also: every writer loads, clones and publishes the routing snapshot under the writers' lock (a registration built on a stale snapshot erases the rules committed in between). Also: the request path is only slash-normalised before matching (no path.Clean: '.' and '..' are legal segment texts). Also: reader and writer of the literal edges build the key alike (separator + text).",
		NotDecided:  "that every instantiation of every template matches (value-level: lexer character classes, token cap, '**' stopping at the first ':'); order independence of registration (duplicate detection, delRule).",
		Assumptions: commonAssumptions,
	})
	property(&Property{
		ID:          "C03",
		Rules:       []string{"KIND-EXHAUSTIVE", "KIND-VALUE-AGREE", "WKT-TABLE", "BYTES-ALPHABETS", "NAME-RESOLUTION", "FIELDPATH-SINGULAR", "DECODE-THEN-PARAMS", "DESC-ROLE", "DECOMP-AGREE", "B64-BUF", "QUOTE-ESCAPES", "POOL-ESCAPE", "FD-LOCALISER", "QUERY-EVERY-VALUE", "BODY-UNKNOWN-LENGTH", "GZIP-WHOLE-BODY", "PATH-NORMALISE", "CAPTURE-PAIRING", "UNMARSHAL-RESETS", "PARAM-STABLE-ORDER"},
		Decides:     "Decides that the per-kind conversion table is complete and type-correct against protoreflect's Kind/Value contract, that well-known types are listed and unmarshalled into their own type, that the bytes arm reaches all four base64 variants, that names resolve by JSON name then proto name, that field paths only walk singular message fields, that body/query/path resolution uses the request descriptor, that decompression and codec selection follow the request headers, and that parameters are applied after the body. Also: a base64 destination is sized by the encoding that decodes into it; URL text becomes a JSON string only through an escaping quoter. Also: the function that maps a stored field descriptor onto the handling backend's message goes by field number or name, never by declaration position; bytes handed to the handler are not left inside a pooled buffer. Also: every value of every query key becomes a parameter or an error (none is skipped). Also: a request of undeclared length (Content-Length -1) has its body decoded. Also: the request path reaches the matcher (and therefore the captured variable values) only slash-normalised, never cleaned of dot segments. Also: the parameter list is never sorted with an unstable sort.",
		NotDecided:  "that converted values equal the proto3 JSON reading (null, NaN, whitespace, base64 details), the round-trip law itself, codec behaviour.",
		Assumptions: commonAssumptions,
	})
	property(&Property{
		ID:          "C04",
		Rules:       []string{"DESC-ROLE", "FIELDPATH-SINGULAR", "RESP-APPLIED", "CT-AGREE", "CE-AGREE", "OFFERS-AGREE", "MD-RESERVED-TABLE", "POOL-FOREIGN", "NEGOTIATE-ADMITS", "MD-GATE-OUT", "OWS-BEFORE-SEP", "RESP-WALK-TOTAL", "SEND-FRAME-FLAG", "SCAN-PROGRESS", "TOKEN-CHARSET", "JSON-MARSHAL-DELEGATES"},
		Decides:     "Decides that the header naming the body's type/encoding and the codec/compressor that produced the body are chosen by the same value on every path, that response_body is resolved with its own selector against the reply type and applied on send, that offers come from the very codec map that is indexed, and that handler metadata cannot override Content-Type/Content-Encoding. Also: content negotiation selects an offer only where the Accept entry admits it, on every path; the reserved test sees the key in the table's case. Also: the Accept parser tests for ';', ',' and 'q=' on input whose optional whitespace was skipped. Also: the compressor that wraps the reply is the one registered under the announced Content-Encoding and no other (a variable shared with the request side is refused). Also: the response_body selector is walked to its end for every reply (no stop at an unset field). Also: the compressed-flag byte of every gRPC frame sent agrees with what was done to the payload (set after the last reallocation of the frame buffer, 1 exactly on the paths through the compressor). Also: the Accept parser's token class contains every RFC 7230 tchar.",
		NotDecided:  "negotiation results for concrete Accept strings; marshalled bytes; whether compression is ever offered.",
		Assumptions: commonAssumptions,
	})
	property(&Property{
		ID:          "C05",
		Rules:       []string{"STATUS-TABLE", "TABLE-GUARD", "TWIRP-TABLE", "ENCODER-CLOSE", "TAIL-FLUSH", "PANIC-REACH-SERVE", "ERR-SAME-STATUS", "GRPC-TRAILER-VALUES", "ESCAPE-SET", "CODEC-LOOKUP-TOTAL", "POOL-RESET", "FWD-ERR-IDENTITY", "STATUS-BLOCK", "WEB-FLUSH-COMMITS", "DISPATCH-PREFIX-ORDER", "CONST-INDEX", "ERR-BODY-UNCONDITIONAL"},
		Decides:     "Decides the table-shaped and pairing-shaped parts of status fidelity: status tables equal the documented mapping and their guards are exact; the Twirp name table equals the Twirp spec; the base64 stream of gRPC-web-text is terminated; the grpc-message encoder writes its tail; the error encoders contain no reachable panic; code, message and details come from one status value derived from the handler's error and reach the gRPC trailers through the right encoders. Also: a pooled buffer that becomes the gRPC-web trailer frame is Reset after Get. Also: the proxy's error filter sets aside only nil / io.EOF / context.Canceled by identity (a Canceled *status* of the backend is relayed). Also: the gRPC status is written after the headers were flushed on every path, or else nothing is placed in a later block than the status. Also: the protocol dispatch tests the more specific content-type prefix first. Also: constant indexes into strings on request paths sit behind a sufficient length test.",
		NotDecided:  "encodeGrpcMessage's per-character output beyond 'no input byte is skipped', WebSocket close-frame payload limits, equality of details.",
		Assumptions: commonAssumptions,
	})
	property(&Property{
		ID:          "C06",
		Rules:       []string{"ENCODER-CLOSE", "CARRY-OVER", "FRAME-AGREE", "READFULL-EOF", "FWD-CLOSESEND", "COMPRESS-FLAG", "READ-FAIL-NONNIL", "CLOSE-ONCE", "JSON-FRAME-TABLE", "WS-DATA-KINDS", "CLEAN-END-EOF-ONLY", "READ-DATA-FIRST", "CARRY-COUNTED", "POOL-FOREIGN", "SEND-FRAME-FLAG", "UNMARSHAL-RESETS", "EOF-NO-PHANTOM", "DISPATCH-PREFIX-ORDER", "VARINT-PREFIX", "GZIP-WHOLE-BODY"},
		Decides:     "Decides only three structural necessary conditions of 'no lost byte': the gRPC-web-text byte stream is terminated; bytes a stream codec read past the current message are saved on every path and handed to the next read; the gRPC frame writer and reader (and the gRPC-web trailer frame) agree on header length, offsets and byte order. Also: a proxied half-close is sent only after a clean inbound end; a gRPC message is decompressed iff its own flag byte is set; a failed transport read never yields a nil error. Also: the compressing writer is closed once per message (a second Close returns it to its pool twice and two streams share it). Also: the JSON stream codec's framing decisions - where a message ends - follow JSON's lexical structure (JSON-FRAME-TABLE). Also: the WebSocket stream reads text and binary data frames alike; a read error is taken for a clean end only when it is io.EOF itself. Also: the proto codec never decodes with the Merge option (no merged messages on a reused destination). Also: the end of an HTTP request stream is reported as io.EOF, never as one more (empty) message.",
		NotDecided:  "and this is most of the property: sequence equality, fragmentation invariance, truncation behaviour, phantom/dropped messages at EOF, WebSocket end-of-stream.",
		Assumptions: commonAssumptions,
	})
	property(&Property{
		ID:          "C07",
		Rules:       []string{"PARAM-ORDER", "LAST-WRITER", "DECODE-THEN-PARAMS", "FD-LOCALISER", "PARAM-INDEPENDENT", "CAPTURE-PAIRING", "PARAM-STABLE-ORDER", "POOL-ESCAPE"},
		Decides:     "Decides the precedence between the three input channels for singular fields, which is entirely structural: params.set is last-writer-wins, so the property holds iff path captures are applied after query parameters and after the body; every stream receives the composed list. Also: a path-bound value is written into the field with the stored descriptor's number/name on whichever backend handles the call (FD-LOCALISER). Also: every parameter is written along its own field path from the request message (nothing is carried over from the previous parameter). Also: captures and field paths are counted one per variable node on both sides (addRule and search), so a capture cannot be dropped or shifted when rules share a node.",
		NotDecided:  "repeated path-bound fields (both channels append); protoreflect's Set itself.",
		Assumptions: commonAssumptions,
	})
	property(&Property{
		ID:          "C08",
		Rules:       []string{"LIMIT-SRC", "LIMIT-STRICT", "LIMIT-IMPL", "LIMIT-DEFAULTS", "SIGNCONV", "OPTS-RO", "COMPRESS-FLAG", "POOL-RESET", "LIMIT-RETURN-BOUND", "LIMIT-DIRECTION", "LIMIT-AFTER-DECOMPRESS", "DECODEDLEN-IS-A-BOUND", "LIMIT-NONPOS"},
		Decides:     "Decides that every way request bytes enter memory on a request-reachable path is bounded by the configured receive limit before use on every protocol (including after decompression and on WebSocket), that refusing comparisons are strict (a message exactly at the limit is accepted), that every in-repo stream codec honours its limit, that wire lengths cannot wrap through a sign-changing conversion, and that the limit in force is the configured one. Also: a LimitReader in front of a length check lets limit+1 bytes through; the gRPC send limit is compared with the encoded, not the compressed size. Also: a StreamCodec reports no length above the limit next to an error either. Also: stale bytes of a pooled (de)compression buffer cannot count against the limit (Reset after Get, or Reset before every Put). Also: the length an in-repo ReadNext returns is bounded by the limit as a value (the compared counter is not advanced between the comparison and the return). Also: refusals on send paths use the send limit and refusals on receive paths the receive limit. Also: whether a refusal on the wire length of a gRPC frame spares compressed frames (it does not: known finding D51). LIMIT-NONPOS: a configured limit of zero or less still refuses larger messages in every ReadNext.",
		NotDecided:  "numeric boundary behaviour of library readers, memory use, user-supplied StreamCodecs.",
		Assumptions: commonAssumptions,
	})
	property(&Property{
		ID:          "C09",
		Rules:       []string{"PANIC-REACH-SERVE", "COMMAOK-SERVE", "ASSERT-CHECKED", "TABLE-GUARD", "SIGNCONV", "OFFSET-BASE", "FIELDPATH-SINGULAR", "TOKEN-KINDS", "NIL-MAP-WRITE", "STATS-PURE", "SLICE-CAP", "NILABLE-FIELD", "FD-LOCAL", "CODEC-LOOKUP-TOTAL", "NIL-STATE", "B64-BUF", "SUB-LOW", "PICK-CURRENT", "HANDLERS-PRESENCE", "JOIN-EXIT", "LOOP-PROGRESS", "SCAN-INDEX-GUARDED", "SCAN-PROGRESS", "CONST-INDEX", "DEFAULT-SCALAR-ONLY", "LIMIT-NONPOS"},
		Decides:     "Decides the absence, on every call-graph path from the request entry points, of the enumerated crash constructs: explicit panic, use of a comma-ok result where ok may be false, unjustified single-result type assertions, off-by-one table guards, sign-changing conversions of wire lengths, index-relative-to-wrong-base arithmetic, field paths walking through repeated/map/scalar fields, pattern tokens the matcher panics on, writes through nil maps, stats-only slicing. Also: the state snapshot (nil before the first registration) is only used nil-safely; x[a-b:] needs a >= b; base64 destinations are sized by the decoding encoding. Also: the handler pick indexes a non-empty list (no rand.Intn(0)); readers of the handler table do not take a present-but-empty entry for a registered method. Also: serveGRPC's join of the stream's goroutines cannot wait on a body it has not closed; growcap's fractional loop cannot be entered where its increment is 0. Also: input-consuming loops on request paths shorten their input strictly on every way round. Also: FieldDescriptor.Default() is only used for singular scalar fields. LIMIT-NONPOS: no ReadNext implementation switches its size check off for a limit of zero or less (an attacker-chosen length prefix would reach make()).",
		NotDecided:  "general slice/index arithmetic, nil dereferences beyond the comma-ok class, termination, resource exhaustion, panics inside dependencies beyond the encoded contracts.",
		Assumptions: commonAssumptions,
	})
	property(&Property{
		ID:          "C10",
		Rules:       []string{"FWD-MD", "FWD-CLOSESEND", "FWD-PAIR", "FWD-ERR-IDENTITY", "FWD-ERR-PROMPT", "DESC-ROLE", "ROLE-AGREE", "GO-SHARED", "IC-ONCE", "ESCAPE-SET", "TAIL-FLUSH", "FWD-EOF-FILTERED", "MD-GATE-IN", "CALL-FRESH-MESSAGE", "SENDRECV-DISJOINT"},
		Decides:     "Decides the forwarder's plumbing: the backend call carries the inbound metadata, method name and streaming shape; client half-close is forwarded; each inbound message is forwarded as received into a fresh message of the request type and replies are built from the reply type; backend errors are returned unmodified; the pump goroutine shares nothing unsynchronised and never touches the response side. Also: the stream-error filter sets aside only nil/io.EOF/context.Canceled; grpc-message escapes are % and two hex digits. Also: io.EOF made by a pump loop (the peer finished) is never returned to the front client as an error. Also: the incoming metadata that is forwarded withholds only an enumerated list of protocol keys (no prefix test). Also: io.EOF from any SendMsg on the backend stream is never returned to the front client (the status is RecvMsg's to report; found D43). Also: the send and receive halves of a stream share no mutable field (the forwarder runs them concurrently).",
		NotDecided:  "observational equivalence of transcripts; reflection-based descriptor discovery; response header metadata.",
		Assumptions: commonAssumptions,
	})
	property(&Property{
		ID:          "C11",
		Rules:       []string{"WRITER-PUBLISHES", "ADD-REMOVE-SYMMETRY", "REMOVE-FILTER", "PICK-CURRENT", "COW-6", "STORED-SLICE-REUSE", "FD-LOCAL", "DELRULE-GUARD", "NIL-STATE", "DESC-BY-NAME", "COW-2", "HANDLERS-PRESENCE", "CONN-OWNS-ALL", "COW-5", "FDHASH-STREAMED", "DELRULE-TOTAL", "STATE-SLICE-APPEND", "REMOVAL-LOOP-DIRECTION"},
		Decides:     "Decides that every operation that changes the registration set publishes it, that removal empties what registration fills and keeps exactly the handlers of other connections, that dropping an unknown connection changes nothing, and that dispatch reads one current snapshot and answers Unimplemented exactly when no handler is left. Also: DropConn/registration never touch a nil snapshot; 'same method' is decided on full names, never on descriptor identity. Also: writers load the snapshot under the lock (no lost registration or drop); presence of a key in the handler table is trusted only if removal deletes emptied entries. Also: a connection leaves state.conns only through removeHandler, together with its handlers. Also: the handler list recorded for a connection covers every handler installed for it (never re-made inside the loops). Also: the clone a writer works on shares no mutable routing memory with the published snapshot (struct copies included), so a registration that fails half-way leaves the live routes as they were. Also: the digest that decides 'connection unchanged' is one streaming hash over all received file descriptors. Also: removing a method removes every rule of it (delRule visits every child and clears the kind-'*' slot), so a later re-registration re-creates all bindings. Also: dispatch never edits the handler lists of the published snapshot in place.",
		NotDecided:  "behaviour over histories (stale routes answering Unimplemented, which backend answers).",
		Assumptions: commonAssumptions,
	})
	property(&Property{
		ID:          "C12",
		Rules:       []string{"COW-1", "COW-2", "COW-3", "COW-4", "COW-5", "COW-6", "COW-7", "OPTS-RO", "NO-UNSAFE", "STATE-SLICE-APPEND", "MUX-SIDE-STATE"},
		Decides:     "Decides the copy-on-write discipline completely: published snapshots are never written (readers are effect-free, clones share nothing that is mutated in place), writers are serialised by Mux.mu, publication is one atomic store of a private clone of the current snapshot, each request resolves against one snapshot, failures publish nothing. Under Go's memory model this implies no torn or in-progress routing state is observable and no data race on routing state exists, for every interleaving. Also: clone reads every field of a non-nil receiver on every path to a return. Also: no registration state is kept in the Mux outside the snapshot before a step that can fail.",
		NotDecided:  "liveness ('requests keep succeeding'), races outside routing state (C13).",
		Assumptions: commonAssumptions,
	})
	property(&Property{
		ID:          "C13",
		Rules:       []string{"POOL-TYPE", "POOL-RESET", "POOL-ESCAPE", "POOL-UAP", "POOL-ONCE", "OPTS-RO", "GO-SHARED", "SENDRECV-DISJOINT", "PER-REQUEST-FRESH", "POOL-FOREIGN", "CLOSE-ONCE", "MD-OWNED", "POOL-SELF-TERMINAL", "JOIN-EXIT", "CALL-FRESH-MESSAGE", "STATE-SLICE-APPEND", "BODY-RELEASE-NEEDS-JOIN"},
		Decides:     "Decides the ownership discipline of everything shared between requests: pooled objects are typed, reset before use, never escape into messages/fields/goroutines, are not used after being returned and are returned at most once; options are read-only on serving paths; what a spawned pump shares is read only after its join and it never touches the response side; the send and receive halves of a stream touch disjoint state; stream objects and lexers are per-request allocations. Also: a stream's header/trailer metadata are its own maps, not the handler's. Also: a reader that returns itself to its pool on io.EOF reports that EOF (a hidden EOF makes the caller read a pooled object and pool it twice). Also: serveGRPC joins in-flight stream calls on every way out (deferred Wait); memory of a pooled object is not returned under a deferred Put. Also: request code never appends into a slice that comes out of the routing state (shared between all requests of a route).",
		NotDecided:  "absence of races in general (no lockset analysis of stream fields across handler-spawned goroutines), byte-level isolation, user codecs that alias their input.",
		Assumptions: commonAssumptions,
	})
	property(&Property{
		ID:          "C14",
		Rules:       []string{"MD-GATE-OUT", "MD-GATE-IN", "MD-RESERVED-TABLE", "BIN-PADDING", "IDENT-BRANCH", "TRAILER-PHASE", "STS-ROUTING", "WEB-TRAILER-FRAME", "MD-OWNED", "SENDHEADER-WRITES", "STATUS-BLOCK", "HEADER-MD-ON-FAILURE", "WEB-FLUSH-COMMITS"},
		Decides:     "Decides that every conversion between headers and metadata, in either direction, filters reserved keys and transforms '-bin' values, lower-cases keys and keeps all values; that the reserved set covers every key the transport itself writes on a response; that both base64 padding variants are accepted; that trailer-phase header writes can reach the wire; and that the ServerTransportStream wrapper routes header/trailer calls to the stream. Also: accumulated header/trailer metadata is never the handler's own map; the reserved test sees the key in the table's case. Also: header/trailer metadata given in successive calls accumulates per key (Join/append, never MD.Set); the reserved request keys are an enumerated list. Also: SendHeader itself passes the header metadata to the outgoing gate. Also: header metadata is never written into a Trailers-Only block. Also: on HTTP transcoding a failing RPC still delivers the header metadata set before the failure; the outgoing reserved test folds the key's case. Also: the gRPC-Web writer records the headers on every way they can go out (Write, WriteHeader, Flush), so status and trailers of an RPC without replies end up in the trailer frame.",
		NotDecided:  "byte-exactness for arbitrary values, HTTP/2 header canonicalisation, WebSocket metadata.",
		Assumptions: commonAssumptions,
	})
	property(&Property{
		ID:          "C15",
		Rules:       []string{"CTX-ANCESTRY", "TIMEOUT-APPLIED", "TIMEOUT-REFUSED", "UNIT-TABLE", "TIMEOUT-DIGITS", "TIMEOUT-CLAMP", "READ-FAIL-NONNIL", "CLEAN-END-EOF-ONLY", "DONE-BEFORE-WRITE", "NO-FULL-DUPLEX", "BODY-AFTER-TIMEOUT"},
		Decides:     "Decides that the handler's context always descends from the request's context through context-deriving calls only, that a present grpc-timeout is decoded with the spec's unit table and length bounds and installed with context.WithTimeout, and that a malformed one is refused before the handler can run. Also: the decoded timeout is installed on every path to the handler (a zero timeout included); a failed frame read never returns a possibly-nil error. Also: a body cut short (io.ErrUnexpectedEOF) is never presented to the handler as a clean end of stream. Also: the connection is never switched to HTTP/1 full duplex (net/http's disconnect detection, and with it cancellation of the handler's context, depends on it).",
		NotDecided:  "promptness; that a handler blocked inside r.Body.Read is released (net/http behaviour); sign/overflow handling of the digits.",
		Assumptions: commonAssumptions,
	})
	property(&Property{
		ID:          "C16",
		Rules:       []string{"PANIC-REACH-REG", "COMMAOK-REG", "TOKEN-KINDS", "COW-7", "COW-3", "COW-5", "SLOT-CHECK", "FIELDPATH-SINGULAR", "ADDITIONAL-BINDINGS", "NIL-STATE", "DESC-BY-NAME", "STORED-SLICE-REUSE", "TOKEN-WIDTH", "BACKTRACK", "LITERAL-FIRST", "TOKEN-LITERAL-TEXT", "COW-2", "MUX-SIDE-STATE", "SEL-KEY"},
		Decides:     "Decides the 'rejects ... with an error (never a panic) and leaves previously registered routes intact' half: no panic or unchecked comma-ok use is reachable from the registration roots, pattern tokens are validated, a failed registration publishes nothing and works on a private clone, a binding slot is written only after the conflict check, body/response_body selectors must name singular message fields, nested additional bindings are rejected before recursion. Also: registration on an empty Mux never dereferences the nil snapshot; re-registration of the same method from another descriptor instance is recognised by name. Also: a token or key slice kept by the trie (addVariable) is not re-used as an append buffer for the next variable of the template. Also: fixed-text tokens of the template lexer are exactly as wide as their text ('***' is not '**'). Also: the matcher shape rules that make every instance of an accepted template route (BACKTRACK, LITERAL-FIRST). Also: every writer holds Mux.mu from its snapshot load to its publication, so an accepted registration is not overwritten by a concurrent one. Also: every successful registration passes the lookup and binding of the method's configured rules (a later backend's rules are validated too).",
		NotDecided:  "the 'accepts every well-formed template' half (grammar conformance is value-level: e.g. one-letter literals are rejected today).",
		Assumptions: commonAssumptions,
	})
	property(&Property{
		ID:          "C17",
		Rules:       []string{"LIMIT-IMPL", "LIMIT-STRICT", "SIGNCONV", "COMMAOK-SERVE", "READFULL-EOF", "SLICE-CAP", "READ-FAIL-NONNIL", "JSON-FRAME-TABLE", "LOOP-PROGRESS", "SCAN-INDEX-GUARDED", "READ-DATA-FIRST", "CARRY-COUNTED", "LIMIT-RETURN-BOUND", "EOF-NO-PHANTOM", "VARINT-PREFIX", "POOL-ESCAPE", "POOL-RESET"},
		Decides:     "Decides the limit-safe half: every in-repo ReadNext compares against its limit before it can return a message, strictly, and in a domain where the decoded length cannot wrap. Also: a failed transport read in RecvMsg returns a certainly non-nil error. Also: the JSON codec's scanner, as a transition table read off its loop body, agrees with JSON's lexical structure on every transition up to brace depth 4 (string start/end, backslash escapes, braces inside strings, message end exactly at the closing brace of depth 0, refusal of a surplus closing brace) and depends on nothing but its state and the current byte. Also: growcap's x += x/4 loop is entered only with x >= 4. Also: the proto stream writer's length prefix is a varint for every length (a single byte only below 128).",
		NotDecided:  "invariance under where the reader splits the bytes (refill boundaries, carry-over exactness; the table rule assumes the current byte is buffered), the proto codec's varint handling beyond the limit/width checks, a JSON scanner that consumes more than one byte per iteration (reported undecided).",
		Assumptions: commonAssumptions,
	})
	property(&Property{
		ID:          "C18",
		Rules:       []string{"STATS-PAIR", "STATS-ERR", "STATS-ORDER", "STATS-PURE", "NILABLE-FIELD", "IC-ONCE", "IC-PASSTHRU", "ROLE-AGREE", "STATS-PAYLOAD-EACH", "STATS-JOINED", "STATS-MD-COPY", "STATS-FANOUT-THREADS"},
		Decides:     "Decides the exactly-once and pairing structure: each handler closure invokes the RPC through the configured interceptor exactly once and never directly; the nil-safe wrappers pass arguments and results through unchanged; streaming flags and method names agree with the descriptor; every Begin has exactly one End carrying the handler's error; events are ordered and share TagRPC's context; stats-only code cannot change or crash the RPC. Also: a closure that exists only with a stats handler assigns nothing the serve function reads outside stats-only code; a return whose error is not known non-nil counts as a success for the payload event. Also: every stream method that reports a stats event is joined (WaitGroup) before the serve function emits End. Also: every invocation of the handler in a serve function feeds End.Error (no branch keeps the result to itself). Also: the reply a unary handler closure sends is the interceptor-mediated invocation's own result.",
		NotDecided:  "one payload event per message (WebSocket and body-less requests emit none), event field values, user-supplied interceptors.",
		Assumptions: commonAssumptions,
	})
	property(&Property{
		ID:          "C19",
		Rules:       []string{"SEL-KEY", "SEL-SAME-BINDER", "SEL-BUILD", "SEL-COLLECT", "HEALTH-TABLE", "SEL-INSERT", "HANDLERS-PRESENCE"},
		Decides:     "Decides how selected rules are bound and the healthz table: rules are looked up by the method's full name, bound by the same addRule call as annotations, built from the service config's http rules; the healthz selectors name methods of the health service with the streaming shape their verb needs, at /v1/healthz, merged into the caller's config. Also: appendHandler cannot take a present-but-empty handler entry for 'already registered' and skip binding the selected rules. Also: AddHealthz merges its literal rule list unfiltered.",
		NotDecided:  "component splitting of names and selectors beyond the trie walk decided here (the walk itself - wildcard rules of every node passed, exact selectors only where the name ends - is decided); health status reporting (upstream code).",
		Assumptions: commonAssumptions,
	})
	property(&Property{
		ID:          "C20",
		Rules:       []string{"PREFIX-AGREE", "MUX-REUSE", "DEFAULT-ROOT", "H2-WIRED", "PATH-SOURCE", "HANDLER-PATTERN-VERBATIM"},
		Decides:     "Decides the wiring in NewServer: each mount pattern P+\"/\" is served by StripPrefix(P, mux) with the same P (or \"/\" by the bare mux); the ServeMux handed to the HTTP/2 handler is the one that received HTTPHandlerOption's registrations; no patterns means \"/\"; http2.ConfigureServer and h2c.NewHandler share one http2.Server. Also: HTTPHandlerOption registers its pattern verbatim.",
		NotDecided:  "net/http.ServeMux's own matching/cleaning/redirect behaviour and therefore response equality.",
		Assumptions: commonAssumptions,
	})
}

// implemented reports whether every rule of the property exists.
func (p *Property) implementedRules() (have, missing []string) {
	for _, r := range p.Rules {
		if ruleTable[r] != nil {
			have = append(have, r)
		} else {
			missing = append(missing, r)
		}
	}
	return
}
