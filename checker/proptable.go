package main

func init() {
	property(&Property{
		ID:    "C06",
		Rules: []string{"ENCODER-CLOSE", "CARRY-OVER", "FRAME-AGREE"},
		Decides: "Decides three.",
		NotDecided: "most.",
		Assumptions: commonAssumptions,
	})
	property(&Property{
		ID:    "C14",
		Rules: []string{"MD-GATE-OUT", "MD-GATE-IN", "MD-RESERVED-TABLE", "BIN-PADDING", "IDENT-BRANCH", "TRAILER-PHASE", "STS-ROUTING"},
		Decides: "Decides md.",
		NotDecided: "bytes.",
		Assumptions: commonAssumptions,
	})
	property(&Property{
		ID:    "C18",
		Rules: []string{"STATS-PAIR", "STATS-ERR", "STATS-ORDER", "STATS-PURE", "IC-ONCE", "IC-PASSTHRU", "ROLE-AGREE"},
		Decides: "Decides stats.",
		NotDecided: "payload events.",
		Assumptions: commonAssumptions,
	})
	property(&Property{
		ID:    "C07",
		Rules: []string{"PARAM-ORDER", "LAST-WRITER", "DECODE-THEN-PARAMS"},
		Decides: "Decides precedence.",
		NotDecided: "repeated.",
		Assumptions: commonAssumptions,
	})
	property(&Property{
		ID:    "C03",
		Rules: []string{"KIND-EXHAUSTIVE", "KIND-VALUE-AGREE", "WKT-TABLE", "BYTES-ALPHABETS", "NAME-RESOLUTION", "DECODE-THEN-PARAMS"},
		Decides: "Decides tables.",
		NotDecided: "values.",
		Assumptions: commonAssumptions,
	})
	property(&Property{
		ID:    "C08",
		Rules: []string{"LIMIT-SRC", "LIMIT-STRICT", "LIMIT-IMPL", "LIMIT-DEFAULTS", "SIGNCONV"},
		Decides: "Decides limits.",
		NotDecided: "numeric.",
		Assumptions: commonAssumptions,
	})
	property(&Property{
		ID:    "C09",
		Rules: []string{"PANIC-REACH-SERVE", "COMMAOK-SERVE", "ASSERT-CHECKED", "TABLE-GUARD", "SIGNCONV", "OFFSET-BASE", "NIL-MAP-WRITE"},
		Decides: "Decides crash constructs.",
		NotDecided: "general.",
		Assumptions: commonAssumptions,
	})
	property(&Property{
		ID:    "C16",
		Rules: []string{"PANIC-REACH-REG", "COMMAOK-REG", "TOKEN-KINDS", "COW-7", "COW-3"},
		Decides: "Decides registration errors.",
		NotDecided: "grammar.",
		Assumptions: commonAssumptions,
	})
	property(&Property{
		ID:    "C12",
		Rules: []string{"COW-1", "COW-2", "COW-3", "COW-4", "COW-5", "COW-6", "COW-7", "OPTS-RO", "NO-UNSAFE"},
		Decides: "Decides the copy-on-write discipline.",
		NotDecided: "liveness.",
		Assumptions: commonAssumptions,
	})
	property(&Property{
		ID:    "C11",
		Rules: []string{"WRITER-PUBLISHES"},
		Decides: "Decides publishing.",
		NotDecided: "histories.",
		Assumptions: commonAssumptions,
	})
	property(&Property{
		ID:    "C05",
		Rules: []string{"STATUS-TABLE", "TABLE-GUARD", "TWIRP-TABLE", "ENCODER-CLOSE", "TAIL-FLUSH", "ERR-SAME-STATUS", "GRPC-TRAILER-VALUES"},
		Decides: "Decides the table-shaped and pairing-shaped parts of status fidelity.",
		NotDecided: "per-character output of encodeGrpcMessage, close-frame payload limits, equality of details.",
		Assumptions: commonAssumptions,
	})
	property(&Property{
		ID:    "C15",
		Rules: []string{"UNIT-TABLE"},
		Decides: "Decides the timeout unit table.",
		NotDecided: "promptness.",
		Assumptions: commonAssumptions,
	})
}
