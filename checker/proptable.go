package main

func init() {
	property(&Property{
		ID:    "C05",
		Rules: []string{"STATUS-TABLE", "TABLE-GUARD", "TWIRP-TABLE"},
		Decides: "Decides the table-shaped and pairing-shaped parts of status fidelity.",
		NotDecided: "per-character output of encodeGrpcMessage, close-frame payload limits, equality of details.",
		Assumptions: commonAssumptions,
	})
	property(&Property{
		ID:    "C15",
		Rules: []string{"UNIT-TABLE"},
		Decides: "Decides the timeout unit table.",
		NotDecided: "promptness.",
		Assumptions: commonAssumptions,
	})
}
