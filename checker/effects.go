package main

import (
	"fmt"
	"go/token"
	"go/types"
	"sort"
	"strings"

	"golang.org/x/tools/go/ssa"
)

// EFFECTS: per-function summaries of writes to the routing / option state.

// protectedTypes are the named types of package larking that make up the
// shared routing and option state (DESIGN.md section 4, EFFECTS).
var protectedTypes = []string{"state", "path", "variable", "variables", "method", "handler", "connList", "muxOptions", "ruleSelector"}

// Write is one write instruction whose target belongs to a protected type.
type Write struct {
	Fn    *ssa.Function
	Instr ssa.Instruction
	Owner string // protected type name, e.g. "path"
	Field string // field name ("" for writes through a value of the type itself, e.g. variables[i])
	Kind  string // store | elem-store | mapupdate | delete | append-inplace | append | sort | deref-store
	Fresh bool   // the base object is freshly allocated in Fn (not shared)
	Base  ssa.Value
}

func (w Write) Target() string {
	if w.Field == "" {
		return w.Owner
	}
	return w.Owner + "." + w.Field
}

// InPlace reports whether the write changes memory reachable from an existing
// object without going through a field of a fresh object: everything except a
// plain re-assignment of a field is in place by definition; a field store is
// in place with respect to the struct that holds the field.
func (w Write) ContainerWrite() bool {
	switch w.Kind {
	case "elem-store", "mapupdate", "delete", "append-inplace", "sort":
		return true
	}
	return false
}

type Effects struct {
	p         *Program
	prot      map[*types.Named]string
	own       map[*ssa.Function][]Write
	trans     map[*ssa.Function]map[string]bool // closed over module call graph: set of targets (non-fresh only)
	freshMemo map[*ssa.Function]int             // 0 unknown, 1 computing, 2 fresh, 3 not fresh
}

func (p *Program) Effects() *Effects {
	if p.effects != nil {
		return p.effects
	}
	e := &Effects{p: p, prot: map[*types.Named]string{}, own: map[*ssa.Function][]Write{}, freshMemo: map[*ssa.Function]int{}}
	for _, n := range protectedTypes {
		if t := p.NamedType(n); t != nil {
			e.prot[t] = n
		}
	}
	for _, fn := range p.ModuleFuncs() {
		e.own[fn] = e.scan(fn)
	}
	e.close()
	p.effects = e
	return e
}

func (e *Effects) protName(t types.Type) (string, bool) {
	n := namedOf(t)
	if n == nil {
		return "", false
	}
	s, ok := e.prot[n.Origin()]
	return s, ok
}

// returnsFresh: every value returned (first result) by fn is a fresh allocation.
func (e *Effects) returnsFresh(fn *ssa.Function) bool {
	if fn == nil || len(fn.Blocks) == 0 {
		return false
	}
	switch e.freshMemo[fn] {
	case 1:
		return true // optimistic for recursion (clone calls clone)
	case 2:
		return true
	case 3:
		return false
	}
	e.freshMemo[fn] = 1
	ok := true
	nret := 0
	eachInstr(fn, func(in ssa.Instruction) {
		rt, isRet := in.(*ssa.Return)
		if !isRet || len(rt.Results) == 0 {
			return
		}
		nret++
		for _, o := range e.p.origins(rt.Results[0], originOpts{}) {
			if !e.isFreshRoot(o) {
				ok = false
			}
		}
	})
	if nret == 0 {
		ok = false
	}
	if ok {
		e.freshMemo[fn] = 2
	} else {
		e.freshMemo[fn] = 3
	}
	return ok
}

// isFreshRoot: the root value denotes memory allocated by the current
// activation (or by a constructor it called) and not yet shared.
func (e *Effects) isFreshRoot(v ssa.Value) bool {
	switch x := v.(type) {
	case *ssa.Alloc:
		return true
	case *ssa.MakeMap, *ssa.MakeSlice, *ssa.MakeChan:
		return true
	case *ssa.Const:
		return true // nil
	case *ssa.Call:
		if fn := staticCallee(x); fn != nil && e.p.InModule(fn) {
			return e.returnsFresh(fn)
		}
		if b, ok := x.Call.Value.(*ssa.Builtin); ok && b.Name() == "append" {
			// append(nil-or-fresh, ...) is fresh iff its destination is
			for _, o := range e.p.origins(x.Call.Args[0], originOpts{throughSlice: true}) {
				if !e.isFreshRoot(o) {
					return false
				}
			}
			return true
		}
	}
	return false
}

// baseOf walks an address / container expression to the object it is part
// of: &x.f -> x ; x.f[i] -> x ; *(&x.f) -> x.
func (e *Effects) baseOf(v ssa.Value) ssa.Value {
	for i := 0; i < 64; i++ {
		switch x := v.(type) {
		case *ssa.FieldAddr:
			v = x.X
		case *ssa.IndexAddr:
			v = x.X
		case *ssa.Slice:
			v = x.X
		case *ssa.UnOp:
			if x.Op != token.MUL {
				return v
			}
			switch a := x.X.(type) {
			case *ssa.FieldAddr:
				v = a.X
			case *ssa.IndexAddr:
				v = a.X
			default:
				return v
			}
		case *ssa.ChangeType:
			v = x.X
		default:
			return v
		}
	}
	return v
}

func (e *Effects) freshBase(v ssa.Value) (bool, ssa.Value) {
	base := e.baseOf(v)
	roots := e.p.origins(base, originOpts{throughSlice: true})
	if len(roots) == 0 {
		return false, base
	}
	for _, r := range roots {
		// a root that is itself part of another object: recurse one level
		if rb := e.baseOf(r); rb != r {
			ok, _ := e.freshBase(r)
			if !ok {
				return false, base
			}
			continue
		}
		if !e.isFreshRoot(r) {
			return false, base
		}
	}
	return true, base
}

// containerField: if v is (a reslice of) a load of field f of a protected
// struct, return (owner, field).
func (e *Effects) containerField(v ssa.Value) (string, string, bool) {
	return e.containerField1(v, map[ssa.Value]bool{})
}

func (e *Effects) containerField1(v ssa.Value, seen map[ssa.Value]bool) (string, string, bool) {
	for {
		if seen[v] {
			return "", "", false
		}
		seen[v] = true
		switch x := v.(type) {
		case *ssa.Slice:
			v = x.X
			continue
		case *ssa.ChangeType:
			v = x.X
			continue
		case *ssa.Phi:
			for _, ed := range x.Edges {
				if o, f, ok := e.containerField1(ed, seen); ok {
					return o, f, true
				}
			}
			return "", "", false
		}
		break
	}
	// an element looked up in / loaded from a protected container is itself a (nested) container: "owner.field[]"
	switch x := v.(type) {
	case *ssa.Lookup:
		if o, f, ok := e.containerField1(x.X, seen); ok {
			return o, f + "[]", true
		}
	case *ssa.Extract:
		if lk, ok := x.Tuple.(*ssa.Lookup); ok && x.Index == 0 {
			if o, f, ok := e.containerField1(lk.X, seen); ok {
				return o, f + "[]", true
			}
		}
	case *ssa.UnOp:
		if x.Op == token.MUL {
			if ia, ok := x.X.(*ssa.IndexAddr); ok {
				if o, f, ok := e.containerField1(ia.X, seen); ok {
					return o, f + "[]", true
				}
			}
		}
	}
	if u, ok := v.(*ssa.UnOp); ok && u.Op == token.MUL {
		if fa, ok := u.X.(*ssa.FieldAddr); ok {
			if owner, ok := e.protName(fa.X.Type()); ok {
				return owner, fieldOfAddr(fa).Name(), true
			}
		}
		// load of a local cell: look at what was stored
		if al, ok := e.p.cellRoot(u.X).(*ssa.Alloc); ok {
			for _, st := range e.p.cellStores(al) {
				if o, f, ok := e.containerField1(st.Val, seen); ok {
					return o, f, true
				}
			}
		}
	}
	if f, ok := v.(*ssa.Field); ok {
		if owner, ok := e.protName(f.X.Type()); ok {
			st := f.X.Type().Underlying().(*types.Struct)
			return owner, st.Field(f.Field).Name(), true
		}
	}
	return "", "", false
}

func (e *Effects) scan(fn *ssa.Function) []Write {
	var out []Write
	if fn.Synthetic != "" && fn.Name() == "init" {
		return nil // package initialisation of globals happens before any request
	}
	add := func(in ssa.Instruction, owner, field, kind string, addr ssa.Value) {
		fresh, base := e.freshBase(addr)
		out = append(out, Write{Fn: fn, Instr: in, Owner: owner, Field: field, Kind: kind, Fresh: fresh, Base: base})
	}
	eachInstr(fn, func(in ssa.Instruction) {
		switch x := in.(type) {
		case *ssa.Store:
			switch a := x.Addr.(type) {
			case *ssa.FieldAddr:
				if owner, ok := e.protName(a.X.Type()); ok {
					add(in, owner, fieldOfAddr(a).Name(), "store", a)
					return
				}
				// nested struct value inside a protected struct: streamX.opts.f
				if owner, ok := e.protName(a.X.Type()); ok {
					_ = owner
				}
			case *ssa.IndexAddr:
				if owner, field, ok := e.containerField(a.X); ok {
					add(in, owner, field, "elem-store", a)
					return
				}
				if owner, ok := e.protName(a.X.Type()); ok { // e.g. variables[i]
					add(in, owner, "", "elem-store", a)
					return
				}
			default:
				// *p = T{} through a pointer to a protected struct
				if pt, ok := x.Addr.Type().Underlying().(*types.Pointer); ok {
					if owner, ok := e.protName(pt.Elem()); ok {
						if _, isAlloc := x.Addr.(*ssa.Alloc); !isAlloc {
							if _, isGlobal := x.Addr.(*ssa.Global); isGlobal {
								if fn.Name() == "init" {
									return // package initialisation
								}
							}
							add(in, owner, "", "deref-store", x.Addr)
						}
					}
				}
			}
		case *ssa.MapUpdate:
			if owner, field, ok := e.containerField(x.Map); ok {
				add(in, owner, field, "mapupdate", x.Map)
			}
		case ssa.CallInstruction:
			cc := x.Common()
			if b, ok := cc.Value.(*ssa.Builtin); ok {
				switch b.Name() {
				case "delete":
					if owner, field, ok := e.containerField(cc.Args[0]); ok {
						add(in, owner, field, "delete", cc.Args[0])
					}
				case "append":
					if owner, field, ok := e.containerField(cc.Args[0]); ok {
						kind := "append"
						if derivesFromReslice(cc.Args[0], map[ssa.Value]bool{}) {
							kind = "append-inplace"
						}
						add(in, owner, field, kind, cc.Args[0])
					}
				case "copy":
					if owner, field, ok := e.containerField(cc.Args[0]); ok {
						add(in, owner, field, "elem-store", cc.Args[0])
					}
				case "clear":
					if owner, field, ok := e.containerField(cc.Args[0]); ok {
						add(in, owner, field, "delete", cc.Args[0])
					}
				}
				return
			}
			n := calleeName(x)
			// generic stdlib helpers that write through their first argument
			if i := strings.IndexByte(n, '['); i >= 0 {
				n = n[:i]
			}
			if kind, ok := stdlibMutators[n]; ok && len(cc.Args) > 0 {
				if owner, field, ok := e.containerField(cc.Args[0]); ok {
					add(in, owner, field, kind, cc.Args[0])
				}
				return
			}
			switch n {
			case "sort.Sort", "sort.Stable", "sort.Slice", "sort.SliceStable", "sort.Strings", "slices.Sort", "slices.SortFunc", "slices.Reverse":
				if len(cc.Args) == 0 {
					return
				}
				arg := cc.Args[0]
				if mi, ok := arg.(*ssa.MakeInterface); ok {
					arg = mi.X
				}
				if owner, field, ok := e.containerField(arg); ok {
					add(in, owner, field, "sort", arg)
				} else if owner, ok := e.protName(arg.Type()); ok {
					add(in, owner, "", "sort", arg)
				}
			}
		}
	})
	return out
}

// stdlibMutators: standard-library functions that write through their first argument, with the
// write kind they amount to (maps.Copy fills a map like a loop of map updates; slices.Delete shifts
// the elements of the backing array in place like an append onto a reslice).
var stdlibMutators = map[string]string{
	"maps.Copy": "mapupdate", "maps.Insert": "mapupdate", "maps.DeleteFunc": "delete",
	"slices.Delete": "append-inplace", "slices.DeleteFunc": "append-inplace", "slices.Insert": "append-inplace",
	"slices.Compact": "append-inplace", "slices.CompactFunc": "append-inplace", "slices.Replace": "append-inplace",
	"slices.Grow": "append",
}

// derivesFromReslice: the append destination is (through phis and earlier appends) a reslice x[a:b] of an existing
// slice: the append then overwrites elements of x's backing array in place.
func derivesFromReslice(v ssa.Value, seen map[ssa.Value]bool) bool {
	if seen[v] {
		return false
	}
	seen[v] = true
	switch x := v.(type) {
	case *ssa.Slice:
		return true
	case *ssa.Phi:
		for _, e := range x.Edges {
			if derivesFromReslice(e, seen) {
				return true
			}
		}
	case *ssa.Call:
		if b, ok := x.Call.Value.(*ssa.Builtin); ok && b.Name() == "append" && len(x.Call.Args) > 0 {
			return derivesFromReslice(x.Call.Args[0], seen)
		}
	case *ssa.ChangeType:
		return derivesFromReslice(x.X, seen)
	}
	return false
}

// close computes transitive (non-fresh) write targets over the module call graph.
func (e *Effects) close() {
	e.trans = map[*ssa.Function]map[string]bool{}
	cg := e.p.CallGraph()
	fns := e.p.ModuleFuncs()
	for _, fn := range fns {
		m := map[string]bool{}
		for _, w := range e.own[fn] {
			if !w.Fresh {
				m[w.Target()] = true
			}
		}
		e.trans[fn] = m
	}
	for changed := true; changed; {
		changed = false
		for _, fn := range fns {
			n := cg.Nodes[fn]
			if n == nil {
				continue
			}
			for _, edge := range n.Out {
				callee := edge.Callee.Func
				cm, ok := e.trans[callee]
				if !ok {
					continue
				}
				for t := range cm {
					if !e.trans[fn][t] {
						e.trans[fn][t] = true
						changed = true
					}
				}
			}
		}
	}
}

// OwnWrites returns fn's own non-fresh protected writes.
func (e *Effects) OwnWrites(fn *ssa.Function) []Write {
	var out []Write
	for _, w := range e.own[fn] {
		if !w.Fresh {
			out = append(out, w)
		}
	}
	return out
}

func (e *Effects) AllWrites(fn *ssa.Function) []Write { return e.own[fn] }

// Mutates: does fn (transitively, through module callees) write protected state that it did not allocate?
func (e *Effects) Mutates(fn *ssa.Function) bool { return len(e.trans[fn]) > 0 }

func (e *Effects) Targets(fn *ssa.Function) []string {
	var out []string
	for t := range e.trans[fn] {
		out = append(out, t)
	}
	sort.Strings(out)
	return out
}

// MutatorSet lists the module functions with own non-fresh protected writes.
func (e *Effects) MutatorSet() []string {
	var out []string
	for fn, ws := range e.own {
		for _, w := range ws {
			if !w.Fresh {
				out = append(out, shortFunc(fn))
				break
			}
		}
	}
	sort.Strings(out)
	return out
}

// ContainerMutated: set of "Owner.field" containers whose elements are written in place somewhere (non-fresh).
func (e *Effects) ContainerMutated() map[string][]string {
	out := map[string][]string{}
	for fn, ws := range e.own {
		for _, w := range ws {
			if !w.Fresh && w.ContainerWrite() {
				out[w.Target()] = append(out[w.Target()], fmt.Sprintf("%s (%s)", shortFunc(fn), w.Kind))
			}
		}
	}
	for k := range out {
		sort.Strings(out[k])
	}
	return out
}

// StructMutated: protected struct types with a non-fresh field store or container write.
func (e *Effects) StructMutated() map[string][]string {
	out := map[string][]string{}
	for fn, ws := range e.own {
		for _, w := range ws {
			if !w.Fresh {
				out[w.Owner] = append(out[w.Owner], fmt.Sprintf("%s (%s %s)", shortFunc(fn), w.Kind, w.Target()))
			}
		}
	}
	for k := range out {
		sort.Strings(out[k])
	}
	return out
}

// UnsafeToShare: a value of type t gives access to memory that some writer
// mutates in place (so a clone must not share it with a published snapshot).
func (e *Effects) UnsafeToShare(t types.Type) (bool, string) {
	sm := e.StructMutated()
	seen := map[types.Type]bool{}
	var walk func(t types.Type) (bool, string)
	walk = func(t types.Type) (bool, string) {
		if seen[t] {
			return false, ""
		}
		seen[t] = true
		switch x := t.(type) {
		case *types.Pointer:
			return walk(x.Elem())
		case *types.Named:
			if name, ok := e.prot[x.Origin()]; ok {
				if ws := sm[name]; len(ws) > 0 {
					return true, fmt.Sprintf("%s is mutated in place by %s", name, ws[0])
				}
			}
			if x.Obj().Pkg() == nil || x.Obj().Pkg().Path() != larkPath {
				return false, "" // foreign types are opaque (descriptors, conns): never written by larking
			}
			return walk(x.Underlying())
		case *types.Struct:
			for i := 0; i < x.NumFields(); i++ {
				if ok, why := walk(x.Field(i).Type()); ok {
					return true, "field " + x.Field(i).Name() + ": " + why
				}
			}
		case *types.Map:
			return walk(x.Elem())
		case *types.Slice:
			return walk(x.Elem())
		case *types.Array:
			return walk(x.Elem())
		}
		return false, ""
	}
	return walk(t)
}
