package main

import (
	"fmt"
	"go/constant"
	"go/token"
	"go/types"
	"strings"
	"unicode"

	"golang.org/x/tools/go/ssa"
)

// Rules added after the first round of seeded changes (DESIGN.md section 10.6).

func init() {
	register(&Rule{Name: "ESCAPE-SET", Floor: 1,
		Doc: "the byte test of encodeGrpcMessage, evaluated over all 256 byte values as a table of constant comparisons, escapes at least every byte the gRPC spec does not allow raw in grpc-message (< 0x20, > 0x7E, '%'); the escape is written as % and exactly two hex digits",
		Run: ruleEscapeSet})
	register(&Rule{Name: "FWD-ERR-PROMPT", Floor: 1,
		Doc: "in the stream forwarder the backend's error is returned without first joining the inbound pump (the pump blocks on the client; waiting for it withholds the backend's status until the client acts)",
		Run: ruleFwdErrPrompt})
	register(&Rule{Name: "SLICE-CAP", Floor: 2,
		Doc: "in request-reachable code a byte slice is re-sliced to a constant length only where its capacity (or length) is known to cover it: made with that capacity, an array of that size, or guarded by a cap test",
		Run: ruleSliceCap})
	register(&Rule{Name: "TIMEOUT-DIGITS", Floor: 2,
		Doc: "decodeTimeout parses the digits in base 10 with a parser that refuses a sign (the gRPC spec's TimeoutValue is 1-8 ASCII digits)",
		Run: ruleTimeoutDigits})
	register(&Rule{Name: "READFULL-EOF", Floor: 2,
		Doc: "the error of an io.ReadFull that reads the remainder of a message (bytes of it were already consumed) is never passed on where it may be io.EOF: a message cut exactly at that point must be an error, not a clean end of stream",
		Run: ruleReadFullEOF})
}

// ---------------------------------------------------------------------------
// ESCAPE-SET
// ---------------------------------------------------------------------------

// evalByteCond evaluates a boolean SSA value that depends only on byte value c (the value `cv`) and constants.
func evalByteCond(v ssa.Value, cv ssa.Value, c int64, depth int) (bool, bool) {
	if depth > 12 {
		return false, false
	}
	switch x := v.(type) {
	case *ssa.BinOp:
		lhs, lok := evalByteInt(x.X, cv, c)
		rhs, rok := evalByteInt(x.Y, cv, c)
		if !lok || !rok {
			return false, false
		}
		switch x.Op {
		case token.LSS:
			return lhs < rhs, true
		case token.LEQ:
			return lhs <= rhs, true
		case token.GTR:
			return lhs > rhs, true
		case token.GEQ:
			return lhs >= rhs, true
		case token.EQL:
			return lhs == rhs, true
		case token.NEQ:
			return lhs != rhs, true
		}
	case *ssa.UnOp:
		if x.Op == token.NOT {
			b, ok := evalByteCond(x.X, cv, c, depth+1)
			return !b, ok
		}
	case *ssa.Const:
		if x.Value != nil {
			return x.Value.String() == "true", true
		}
	case *ssa.Call:
		// a pure module predicate on the byte (needsEscape(c)): evaluate its body for this value
		callee := x.Call.StaticCallee()
		if callee == nil || x.Call.IsInvoke() || len(callee.Params) != 1 || len(x.Call.Args) != 1 || len(callee.Blocks) == 0 {
			return false, false
		}
		arg, ok := evalByteInt(x.Call.Args[0], cv, c)
		if !ok {
			return false, false
		}
		res, ok := interpPureP(progOf(callee), callee, arg, depth+1)
		return res != 0, ok
	}
	return false, false
}

// progOf: the Program a function belongs to (set at load; the checker analyses one program at a time).
func progOf(fn *ssa.Function) *Program { return currentProgram }

var currentProgram *Program

var pureStdlib = map[string]func(rune) bool{
	"unicode.IsLetter": unicode.IsLetter, "unicode.IsNumber": unicode.IsNumber, "unicode.IsDigit": unicode.IsDigit,
	"unicode.IsSpace": unicode.IsSpace, "unicode.IsUpper": unicode.IsUpper, "unicode.IsLower": unicode.IsLower,
	"unicode.IsPunct": unicode.IsPunct,
}

// interpPure evaluates a side-effect-free single-parameter integer/boolean function for one concrete
// argument by walking its CFG (comparisons, arithmetic, phis, conversions, nested pure predicates only).
// ok is false as soon as anything else is met: the caller then reports the decision as not evaluable.
func interpPure(fn *ssa.Function, arg int64, depth int) (int64, bool) {
	return interpPureP(nil, fn, arg, depth)
}

// interpPureP: interpPure with access to the package-level constant tables of program p (may be nil).
func interpPureP(p *Program, fn *ssa.Function, arg int64, depth int) (int64, bool) {
	if depth > 6 {
		return 0, false
	}
	par := fn.Params[0]
	env := map[ssa.Value]int64{}
	var eval func(v ssa.Value) (int64, bool)
	eval = func(v ssa.Value) (int64, bool) {
		if v == ssa.Value(par) {
			return arg, true
		}
		if k, ok := env[v]; ok {
			return k, true
		}
		switch x := v.(type) {
		case *ssa.Const:
			if x.Value == nil {
				return 0, false
			}
			if x.Value.Kind() == constant.Bool {
				if constant.BoolVal(x.Value) {
					return 1, true
				}
				return 0, true
			}
			if k, ok := constInt(x); ok {
				return k, true
			}
		case *ssa.Convert:
			return eval(x.X)
		case *ssa.ChangeType:
			return eval(x.X)
		case *ssa.UnOp:
			if x.Op == token.NOT {
				k, ok := eval(x.X)
				return 1 - k, ok
			}
			if p != nil {
				if t, idx := p.tableLoad(x); t != nil {
					k, ok := eval(idx)
					if !ok || k < 0 || k >= t.length {
						return 0, false // out of range: the real code would panic
					}
					if c, ok := t.byInt[k]; ok {
						return constToInt(c)
					}
					return 0, true // zero value
				}
			}
		case *ssa.Lookup:
			if p != nil {
				if t, idx := p.tableLoad(x); t != nil {
					if k, ok := eval(idx); ok {
						if c, ok := t.byInt[k]; ok {
							return constToInt(c)
						}
						return 0, true
					}
				}
			}
		case *ssa.BinOp:
			a, ok1 := eval(x.X)
			b, ok2 := eval(x.Y)
			if !ok1 || !ok2 {
				return 0, false
			}
			bl := func(t bool) (int64, bool) {
				if t {
					return 1, true
				}
				return 0, true
			}
			switch x.Op {
			case token.LSS:
				return bl(a < b)
			case token.LEQ:
				return bl(a <= b)
			case token.GTR:
				return bl(a > b)
			case token.GEQ:
				return bl(a >= b)
			case token.EQL:
				return bl(a == b)
			case token.NEQ:
				return bl(a != b)
			case token.ADD:
				return a + b, true
			case token.SUB:
				return a - b, true
			case token.AND:
				return a & b, true
			case token.OR:
				return a | b, true
			}
		case *ssa.Call:
			callee := x.Call.StaticCallee()
			if callee != nil && !x.Call.IsInvoke() && len(x.Call.Args) == 1 {
				// pure character-class functions of the standard library, by their documented meaning
				if f, ok := pureStdlib[calleeName(x)]; ok {
					if a, ok := eval(x.Call.Args[0]); ok {
						if f(rune(a)) {
							return 1, true
						}
						return 0, true
					}
					return 0, false
				}
			}
			if callee != nil && !x.Call.IsInvoke() && len(callee.Params) == 1 && len(x.Call.Args) == 1 && len(callee.Blocks) > 0 {
				if a, ok := eval(x.Call.Args[0]); ok {
					return interpPureP(p, callee, a, depth+1)
				}
			}
		}
		return 0, false
	}
	b := fn.Blocks[0]
	var prev *ssa.BasicBlock
	for steps := 0; steps < 256; steps++ {
		for _, in := range b.Instrs {
			switch x := in.(type) {
			case *ssa.Phi:
				for i, pb := range b.Preds {
					if pb == prev {
						k, ok := eval(x.Edges[i])
						if !ok {
							return 0, false
						}
						env[x] = k
					}
				}
			case *ssa.BinOp, *ssa.UnOp, *ssa.Convert, *ssa.ChangeType, *ssa.DebugRef, *ssa.IndexAddr, *ssa.Lookup:
			case *ssa.Call:
				// evaluated on demand; must be a pure nested predicate
				if _, ok := eval(x); !ok {
					return 0, false
				}
			case *ssa.If:
				k, ok := eval(x.Cond)
				if !ok {
					return 0, false
				}
				prev = b
				if k != 0 {
					b = b.Succs[0]
				} else {
					b = b.Succs[1]
				}
			case *ssa.Jump:
				prev, b = b, b.Succs[0]
			case *ssa.Return:
				if len(x.Results) != 1 {
					return 0, false
				}
				return eval(x.Results[0])
			default:
				return 0, false
			}
		}
	}
	return 0, false
}

func evalByteInt(v ssa.Value, cv ssa.Value, c int64) (int64, bool) {
	for {
		if v == cv {
			return c, true
		}
		if k, ok := constInt(v); ok {
			return k, true
		}
		switch x := v.(type) {
		case *ssa.Convert:
			v = x.X
			continue
		case *ssa.ChangeType:
			v = x.X
			continue
		}
		return 0, false
	}
}

func ruleEscapeSet(r *Run) {
	p := r.P
	fn := p.Func("encodeGrpcMessage")
	if fn == nil {
		r.missing("func encodeGrpcMessage")
		return
	}
	// the byte under test: msg[i] (Lookup on the string parameter) ; the escape action: a call that formats it (%02x) / writes a '%'
	var cv ssa.Value
	eachInstr(fn, func(in ssa.Instruction) {
		if lk, ok := in.(*ssa.Lookup); ok && lk.X == ssa.Value(fn.Params[0]) {
			cv = lk
		}
		if ix, ok := in.(*ssa.Index); ok && ix.X == ssa.Value(fn.Params[0]) {
			cv = ix
		}
	})
	if cv == nil {
		r.undecided("encodeGrpcMessage/byte-under-test", fn.Pos(), "no indexing of the message string found")
		return
	}
	// escape site: a call receiving the byte (through conversions / MakeInterface / variadic packing)
	var escape ssa.Instruction
	eachInstr(fn, func(in ssa.Instruction) {
		c, ok := in.(ssa.CallInstruction)
		if !ok {
			return
		}
		for _, a := range c.Common().Args {
			for _, el := range p.flattenAppend(a, 0) {
				for _, o := range p.origins(el, defaultOrigin) {
					if o == cv {
						escape = in
					}
				}
			}
		}
	})
	if escape == nil {
		r.undecided("encodeGrpcMessage/escape-site", fn.Pos(), "no call formatting the byte under test found")
		return
	}
	// the escape is "%" followed by exactly two hex digits: a format verb without zero padding (%x) writes one digit
	// for bytes below 0x10 and the receiver decodes another message
	if ec, ok := escape.(ssa.CallInstruction); ok {
		// a number formatter without padding (strconv.FormatUint(c, 16), AppendInt, …) writes one digit below 0x10
		switch n := calleeName(ec); {
		case strings.HasPrefix(n, "strconv.Format") || strings.HasPrefix(n, "strconv.Append") || n == "strconv.Itoa":
			r.bad("encodeGrpcMessage/escape-format", escape.Pos(), "the escaped byte is formatted with %s, which does not pad to two hex digits: bytes below 0x10 (tab, newline, …) are written with a single digit and the client's percent-decoding yields a different grpc-message", shortName(n))
		}
		for _, a := range ec.Common().Args {
			if f, isS := constString(a); isS && strings.Contains(f, "%") {
				good := strings.Contains(f, "%%%02x") || strings.Contains(f, "%%%02X")
				r.check(good, "encodeGrpcMessage/escape-format", escape.Pos(), "escaped bytes are written as % and two hex digits",
					fmt.Sprintf("the escape format is %q, not %%%%%%02x: bytes below 0x10 (tab, newline, …) are written with a single hex digit and the client's percent-decoding yields a different grpc-message", f))
			}
		}
	}
	start := cv.(ssa.Instruction)
	var missing []string
	undecided := false
	for c := int64(0); c < 256; c++ {
		// walk the CFG from the byte load, deciding every If that depends only on c
		b := start.Block()
		idx := instrIndex(start) + 1
		escaped := false
		for steps := 0; steps < 64; steps++ {
			hit := false
			for i := idx; i < len(b.Instrs); i++ {
				if b.Instrs[i] == escape {
					escaped, hit = true, true
					break
				}
			}
			if hit {
				break
			}
			ifi := blockIf(b)
			if ifi == nil {
				if len(b.Succs) == 1 {
					// left the per-byte decision region (loop increment) without escaping
					if b.Succs[0] == start.Block() || b.Succs[0].Dominates(start.Block()) {
						break
					}
					b, idx = b.Succs[0], 0
					continue
				}
				break
			}
			val, ok := evalByteCond(ifi.Cond, cv, c, 0)
			if !ok {
				// a condition not on the byte (e.g. pos < i): both branches lead on; follow the one that can still reach the escape site
				next := -1
				for s := 0; s < 2; s++ {
					if w, _ := (pathQuery{fn: fn, start: ifi, target: func(x ssa.Instruction) bool { return x == escape },
						barrier: func(x ssa.Instruction) bool { return x == start },
						edgeOK:  func(bb *ssa.BasicBlock, ss int) bool { return bb != ifi.Block() || ss == s }}).find(); w != nil {
						next = s
					}
				}
				if next < 0 {
					break
				}
				// only safe if BOTH edges reach the escape (the condition does not decide escaping)
				both := true
				for s := 0; s < 2; s++ {
					if w, _ := (pathQuery{fn: fn, start: ifi, target: func(x ssa.Instruction) bool { return x == escape },
						barrier: func(x ssa.Instruction) bool { return x == start },
						edgeOK:  func(bb *ssa.BasicBlock, ss int) bool { return bb != ifi.Block() || ss == s }}).find(); w == nil {
						both = false
					}
				}
				if !both {
					undecided = true
					break
				}
				b, idx = ifi.Block().Succs[next], 0
				continue
			}
			if val {
				b, idx = ifi.Block().Succs[0], 0
			} else {
				b, idx = ifi.Block().Succs[1], 0
			}
		}
		must := c < 0x20 || c > 0x7e || c == '%'
		if must && !escaped {
			missing = append(missing, fmt.Sprintf("0x%02x", c))
		}
	}
	if undecided {
		r.undecided("encodeGrpcMessage/escape-set", fn.Pos(), "the escape decision depends on something other than comparisons of the byte with constants")
		return
	}
	if len(missing) > 0 {
		show := missing
		if len(show) > 12 {
			show = append(show[:12], "…")
		}
		r.bad("encodeGrpcMessage/escape-set", cv.Pos(), "bytes %s are written raw into grpc-message; the gRPC spec allows only 0x20-0x24 and 0x26-0x7E unencoded (net/http drops header values with control bytes, so the client loses the message)", strings.Join(show, ", "))
	} else {
		r.ok("encodeGrpcMessage/escape-set", cv.Pos(), "all 256 byte values evaluated: every byte < 0x20, > 0x7E and '%%' reaches the percent-escape")
	}
}

// ---------------------------------------------------------------------------
// FWD-ERR-PROMPT
// ---------------------------------------------------------------------------

func ruleFwdErrPrompt(r *Run) {
	p := r.P
	n := 0
	// the reply loops: clientStream.RecvMsg in a loop, wherever in the proxy's functions it lives
	var recvs []*ssa.Call
	for _, g := range p.proxyClosures() {
		g := g
		eachInstr(g, func(in ssa.Instruction) {
			c, ok := in.(*ssa.Call)
			if ok && c.Common().IsInvoke() && c.Common().Method.Name() == "RecvMsg" && strings.Contains(typeString(c.Common().Value.Type()), "ClientStream") {
				if w, _ := (pathQuery{fn: g, start: in, target: func(x ssa.Instruction) bool { return x == in }}).find(); w != nil {
					recvs = append(recvs, c)
				}
			}
		})
	}
	for _, g := range p.proxyClosures() {
		// the forwarder: the function that spawns the pump; the reply loop is in it or in a helper it calls
		hasGo := false
		eachInstr(g, func(in ssa.Instruction) {
			if _, ok := in.(*ssa.Go); ok {
				hasGo = true
			}
		})
		if !hasGo {
			continue
		}
		var recv *ssa.Call         // the backend receive
		var recvAt ssa.Instruction // the instruction of g at which it happens (itself, or the call of the helper that loops)
		for _, rc := range recvs {
			if rc.Parent() == g {
				recv, recvAt = rc, rc
			}
		}
		if recv == nil {
			eachInstr(g, func(in ssa.Instruction) {
				c, ok := in.(ssa.CallInstruction)
				if !ok || c.Common().IsInvoke() {
					return
				}
				callee := c.Common().StaticCallee()
				if callee == nil {
					return
				}
				for _, rc := range recvs {
					for _, h := range p.staticReach(callee) {
						if rc.Parent() == h {
							recv, recvAt = rc, in
						}
					}
				}
			})
		}
		if recv == nil {
			continue
		}
		n++
		key := shortFunc(g) + "/backend-error-before-join"
		isWait := func(x ssa.Instruction) bool {
			c, ok := x.(ssa.CallInstruction)
			return ok && calleeName(c) == "(*sync.WaitGroup).Wait"
		}
		// returns whose error derives from the backend receive
		var backendRets []ssa.Instruction
		ei := errResultIndex(g)
		eachInstr(g, func(in ssa.Instruction) {
			rt, ok := in.(*ssa.Return)
			if !ok || ei < 0 {
				return
			}
			for _, o := range p.origins(rt.Results[ei], originOpts{}) {
				if o == ssa.Value(recv) {
					backendRets = append(backendRets, in)
				}
			}
		})
		if len(backendRets) == 0 {
			r.bad(key, recv.Pos(), "the forwarder never returns the backend's receive error: the client does not get the backend's status")
			continue
		}
		// evaluated under the spawn condition of the pump (the same immutable flag guards the go statement and the join)
		var goInstr ssa.Instruction
		eachInstr(g, func(in ssa.Instruction) {
			if _, ok := in.(*ssa.Go); ok {
				goInstr = in
			}
		})
		type fact struct {
			f   *types.Var
			pol bool
		}
		var facts []fact
		for _, gf := range guardsOf(goInstr.Block()) {
			for _, o := range p.origins(gf.Cond, originOpts{}) {
				if f := loadedField(o); f != nil {
					facts = append(facts, fact{f, gf.True})
				}
			}
		}
		underSpawn := func(b *ssa.BasicBlock, succ int) bool {
			ifi := blockIf(b)
			if ifi == nil {
				return true
			}
			for _, o := range p.origins(ifi.Cond, originOpts{}) {
				if f := loadedField(o); f != nil {
					for _, ft := range facts {
						if ft.f == f {
							if ft.pol {
								return succ == 0
							}
							return succ == 1
						}
					}
				}
			}
			return true
		}
		// every such return must be reachable from the loop without passing a Wait, i.e. NOT dominated by a Wait on all paths
		good := false
		for _, rt := range backendRets {
			q := pathQuery{fn: g, start: recvAt, barrier: isWait, edgeOK: underSpawn, target: func(x ssa.Instruction) bool { return x == rt }}
			if w, _ := q.find(); w != nil {
				good = true
			}
		}
		r.check(good, key, backendRets[0].Pos(), "the backend's error can be returned without waiting for the inbound pump",
			"every return of the backend's error is preceded by wg.Wait(): the pump is blocked reading from the client, so the backend's status is withheld until the client sends or half-closes (a ping-pong client runs into its deadline instead of seeing the backend's status)")
	}
	if n == 0 {
		r.undecided("createConnHandler/stream-forwarder", token.NoPos, "no stream forwarder with a pump goroutine and a reply loop found")
	}
}

// ---------------------------------------------------------------------------
// SLICE-CAP
// ---------------------------------------------------------------------------

func ruleSliceCap(r *Run) {
	p := r.P
	reach := p.reachRequest()
	n := 0
	for _, fn := range sortedFuncs(reach) {
		site := 0
		eachInstr(fn, func(in ssa.Instruction) {
			sl, ok := in.(*ssa.Slice)
			if !ok || sl.High == nil {
				return
			}
			k, isC := constInt(sl.High)
			if !isC {
				// the "extend into the capacity" idiom b[len(b):h]: h must be covered by the capacity
				p.sliceCapVar(r, fn, sl, &site, &n)
				return
			}
			if k <= 0 {
				return
			}
			// operand kinds
			switch t := sl.X.Type().Underlying().(type) {
			case *types.Pointer: // *[N]T
				if arr, ok := t.Elem().Underlying().(*types.Array); ok {
					site++
					n++
					r.check(arr.Len() >= k, fmt.Sprintf("%s/reslice[:%d]#%d", shortFunc(fn), k, site), in.Pos(), "array operand is large enough", fmt.Sprintf("array of length %d sliced to %d", arr.Len(), k))
				}
				return
			case *types.Slice:
			default:
				return
			}
			site++
			n++
			key := fmt.Sprintf("%s/reslice[:%d]#%d", shortFunc(fn), k, site)
			if p.minLenAtLeast(sl.X, k) {
				r.ok(key, in.Pos(), "the operand's length is known to be >= %d", k)
				return
			}
			if p.capCovered(sl.X, guardsOf(sl.Block()), func(v ssa.Value) bool { c, ok := constInt(p.stripConvAll(v)); return ok && c >= k }, 0) {
				r.ok(key, in.Pos(), "capacity >= %d is established for every value the operand may be (make or cap test)", k)
				return
			}
			// capacity: on every path from entry to the reslice, either a make with cap >= k was stored into the variable, or a cap test excluded cap < k
			cell := ssa.Value(nil)
			if u, ok := sl.X.(*ssa.UnOp); ok && u.Op == token.MUL {
				cell = p.cellRoot(u.X)
			}
			capOK := func(v ssa.Value) bool {
				ms, ok := v.(*ssa.MakeSlice)
				if !ok {
					return false
				}
				if c, ok := constInt(ms.Cap); ok && c >= k {
					return true
				}
				if c, ok := ms.Cap.(*ssa.Call); ok {
					// contract (DESIGN.md section 8): growcap(old, want) >= want — the Go runtime's growslice formula copied into larking
					if callee := staticCallee(c); callee != nil && funcName(callee) == "larking.io/larking.growcap" && len(c.Call.Args) == 2 {
						if w, ok := constInt(c.Call.Args[1]); ok && w >= k {
							return true
						}
					}
				}
				return false
			}
			sameVar := func(v ssa.Value) bool {
				if cell != nil {
					if u, ok := v.(*ssa.UnOp); ok && u.Op == token.MUL && p.cellRoot(u.X) == cell {
						return true
					}
					return false
				}
				return v == sl.X
			}
			establishes := func(x ssa.Instruction) bool {
				if st, ok := x.(*ssa.Store); ok && cell != nil && p.cellRoot(st.Addr) == cell && capOK(st.Val) {
					return true
				}
				return false
			}
			edgeOK := func(b *ssa.BasicBlock, succ int) bool {
				ifi := blockIf(b)
				if ifi == nil {
					return true
				}
				bo, ok := ifi.Cond.(*ssa.BinOp)
				if !ok {
					return true
				}
				cc, ok := bo.X.(*ssa.Call)
				if !ok || calleeName(cc) != "builtin.cap" || !sameVar(cc.Call.Args[0]) {
					return true
				}
				kk, ok := constInt(bo.Y)
				if !ok {
					return true
				}
				// edge on which cap >= k is known is "establishing": a path using it is fine, so forbid it in the search for a bad path
				switch bo.Op {
				case token.LSS: // cap < kk : false edge => cap >= kk
					if succ == 1 && kk >= k {
						return false
					}
				case token.GEQ:
					if succ == 0 && kk >= k {
						return false
					}
				case token.LEQ: // cap <= kk false => cap > kk
					if succ == 1 && kk+1 >= k {
						return false
					}
				case token.GTR:
					if succ == 0 && kk+1 >= k {
						return false
					}
				}
				return true
			}
			if cell == nil {
				// register operand: accept a made slice of sufficient capacity on every origin
				all := true
				for _, o := range p.origins(sl.X, originOpts{}) {
					if !capOK(o) {
						all = false
					}
				}
				r.check(all, key, in.Pos(), "operand made with sufficient capacity", fmt.Sprintf("slice re-sliced to constant length %d although neither its length nor its capacity is known to reach %d (slice bounds out of range when a short buffer arrives, e.g. from a pool)", k, k))
				return
			}
			q := pathQuery{fn: fn, barrier: establishes, edgeOK: edgeOK, target: func(x ssa.Instruction) bool { return x == in }}
			if w, _ := q.find(); w != nil {
				r.bad(key, in.Pos(), "the buffer is re-sliced to constant length %d on a path where neither a make with that capacity nor a cap test established that it is that large (%s): a pooled buffer with a smaller capacity makes this panic (slice bounds out of range)", k, p.describePath(w))
			} else {
				r.ok(key, in.Pos(), "capacity >= %d is established on every path (make or cap test)", k)
			}
		})
	}
	if n == 0 {
		r.undecided("constant reslices", token.NoPos, "no constant-length reslice found on request paths")
	}
}

// capCovered: the capacity of slice value v is known to reach the bound recognised by sameH - per value v may be:
// it was (re)made with that capacity, or `cap(v) < bound` was excluded where that value is selected; a transparent
// helper (ensureCap(b, n), frameHeaderBuf(b)) is judged on its returns with its parameters standing for the arguments.
func (p *Program) capCovered(v ssa.Value, facts []guardFact, sameH func(ssa.Value) bool, depth int) bool {
	capExcluded := func(facts []guardFact, v ssa.Value, sameH func(ssa.Value) bool) bool {
		for _, g := range facts {
			x, y, op, ok := g.cmp()
			if !ok {
				continue
			}
			cc, ok := x.(*ssa.Call)
			if !ok || calleeName(cc) != "builtin.cap" {
				continue
			}
			if cc.Call.Args[0] != v && !p.sameValue(cc.Call.Args[0], v) {
				continue
			}
			if sameH(y) && op == token.GEQ {
				return true
			}
		}
		return false
	}
	if depth > 6 {
		return false
	}
	switch x := v.(type) {
	case *ssa.Phi:
		for i, e := range x.Edges {
			pred := x.Block().Preds[i]
			if !p.capCovered(e, append(append([]guardFact{}, guardsOf(pred)...), edgeFact(pred, x.Block())...), sameH, depth+1) {
				return false
			}
		}
		return len(x.Edges) > 0
	case *ssa.Call:
		if callee := x.Call.StaticCallee(); callee != nil && !x.Call.IsInvoke() && p.isTransparent(callee) && callee.Signature.Results().Len() == 1 {
			inner := func(w ssa.Value) bool {
				w = p.stripConvAll(w)
				if par, ok := w.(*ssa.Parameter); ok && par.Parent() == callee {
					if a := argAt(x, paramIndex(par)); a != nil {
						return sameH(a)
					}
				}
				return sameH(w) // a constant bound inside the helper
			}
			all, nret := true, 0
			eachInstr(callee, func(in ssa.Instruction) {
				if rt, ok := in.(*ssa.Return); ok {
					nret++
					if !p.capCovered(rt.Results[0], guardsOf(rt.Block()), inner, depth+1) {
						all = false
					}
				}
			})
			return all && nret > 0
		}
	case *ssa.Slice:
		// a reslice keeps the capacity of its operand when it has no max: v[:n] / v[a:b]
		if x.Max == nil && x.Low == nil {
			return p.capCovered(x.X, facts, sameH, depth+1)
		}
	}
	// (a) made with enough capacity
	for _, o := range p.origins(v, originOpts{local: true}) {
		if ms, ok := o.(*ssa.MakeSlice); ok {
			if sameH(ms.Cap) {
				return true
			}
			if c, ok := ms.Cap.(*ssa.Call); ok {
				if callee := staticCallee(c); callee != nil && funcName(callee) == "larking.io/larking.growcap" && len(c.Call.Args) == 2 && sameH(c.Call.Args[1]) {
					return true
				}
			}
		}
	}
	// (b) a cap test of that very value excluded cap < bound where it is selected
	return capExcluded(facts, v, sameH)
}

// sliceCapVar handles b[len(b):h] with a non-constant h.
func (p *Program) sliceCapVar(r *Run, fn *ssa.Function, sl *ssa.Slice, site, n *int) {
	if _, ok := sl.X.Type().Underlying().(*types.Slice); !ok {
		return
	}
	lc, ok := sl.Low.(*ssa.Call)
	if !ok || calleeName(lc) != "builtin.len" || !p.sameExpr(lc.Call.Args[0], sl.X, 0) && !p.sameValue(lc.Call.Args[0], sl.X) {
		return
	}
	h := p.stripConvAll(sl.High)
	// h = cap(b) / len(b) of the same slice is always in range
	if hc, ok := h.(*ssa.Call); ok && (calleeName(hc) == "builtin.cap" || calleeName(hc) == "builtin.len") {
		if p.sameValue(hc.Call.Args[0], sl.X) || p.sameExpr(hc.Call.Args[0], sl.X, 0) {
			return
		}
	}
	*site++
	*n++
	key := fmt.Sprintf("%s/extend[len:%s]#%d", shortFunc(fn), "h", *site)
	sameH := func(v ssa.Value) bool {
		v = p.stripConvAll(v)
		return v == h || p.sameValue(v, h)
	}
	okAll := p.capCovered(sl.X, guardsOf(sl.Block()), sameH, 0)
	r.check(okAll, key, sl.Pos(), "the buffer is extended to a bound that its capacity is known to cover (made with that capacity, or a cap test of that same bound)",
		"the buffer is extended with b[len(b):h] although its capacity is not known to cover h: the capacity test / allocation uses another quantity than the bound that is sliced to (slice bounds out of range for sizes within that difference)")
}

// edgeFact: the fact carried by the CFG edge pred -> succ when pred ends in an If.
func edgeFact(pred, succ *ssa.BasicBlock) []guardFact {
	ifi := blockIf(pred)
	if ifi == nil || len(pred.Succs) != 2 || pred.Succs[0] == pred.Succs[1] {
		return nil
	}
	if pred.Succs[0] == succ {
		return []guardFact{{ifi.Cond, true, ifi}}
	}
	if pred.Succs[1] == succ {
		return []guardFact{{ifi.Cond, false, ifi}}
	}
	return nil
}

// ---------------------------------------------------------------------------
// READFULL-EOF
// ---------------------------------------------------------------------------

func ruleReadFullEOF(r *Run) {
	p := r.P
	reach := p.reachRequest()
	n := 0
	var isReadOnDepth func(in ssa.Instruction, depth int) (ssa.Value, bool)
	isReadOnDepth = func(in ssa.Instruction, depth int) (ssa.Value, bool) {
		c, ok := in.(ssa.CallInstruction)
		if !ok {
			return nil, false
		}
		switch {
		case calleeName(c) == "io.ReadFull" || calleeName(c) == "io.ReadAtLeast":
			return c.Common().Args[0], true
		case c.Common().IsInvoke() && c.Common().Method.Name() == "Read" && c.Common().Method.Pkg() != nil && c.Common().Method.Pkg().Path() == "io":
			return c.Common().Value, true
		}
		// a transparent helper that reads from one of its parameters (an extracted grow-and-read block), possibly
		// through a further helper
		if callee := c.Common().StaticCallee(); callee != nil && !c.Common().IsInvoke() && p.isTransparent(callee) && depth < 3 {
			var rd ssa.Value
			eachInstr(callee, func(y ssa.Instruction) {
				v, ok := isReadOnDepth(y, depth+1)
				if !ok {
					return
				}
				if par, ok := v.(*ssa.Parameter); ok && par.Parent() == callee {
					if a := argAt(c, paramIndex(par)); a != nil {
						rd = a
					}
				}
			})
			if rd != nil {
				return rd, true
			}
		}
		return nil, false
	}
	isReadOn := func(in ssa.Instruction) (ssa.Value, bool) { return isReadOnDepth(in, 0) }
	for _, fn := range sortedFuncs(reach) {
		site := 0
		eachInstr(fn, func(in ssa.Instruction) {
			c, ok := in.(*ssa.Call)
			if !ok || calleeName(c) != "io.ReadFull" {
				return
			}
			rd := c.Call.Args[0]
			// mid-message: some other read on the same reader can precede this one in the function
			mid := false
			eachInstr(fn, func(x ssa.Instruction) {
				if x == in {
					return
				}
				if v, ok := isReadOn(x); ok && (v == rd || p.sameValue(v, rd) || p.sameExpr(v, rd, 0)) {
					if w, _ := (pathQuery{fn: fn, start: x, target: func(y ssa.Instruction) bool { return y == in }}).find(); w != nil {
						mid = true
					}
				}
			})
			if !mid {
				return
			}
			site++
			n++
			key := fmt.Sprintf("%s/ReadFull-mid-message#%d", shortFunc(fn), site)
			errv := extractOf(c, 1)
			if errv == nil {
				r.bad(key, in.Pos(), "the error of the ReadFull that completes a message is discarded: a truncated message is delivered as if complete")
				return
			}
			ei := errResultIndex(fn)
			bad := false
			eachInstr(fn, func(x ssa.Instruction) {
				rt, ok := x.(*ssa.Return)
				if !ok || ei < 0 {
					return
				}
				carries := false
				for _, o := range p.origins(rt.Results[ei], originOpts{}) {
					if o == errv {
						carries = true
					}
				}
				if !carries {
					return
				}
				// on this return the error must be known != io.EOF; when the result is a phi, the fact is needed
				// only on the incoming edges that carry the ReadFull error itself
				// blocks at which the ReadFull error itself is selected as the result (through phis and the defer spill cell)
				var guardBlocks []*ssa.BasicBlock
				type vb struct {
					v ssa.Value
					b *ssa.BasicBlock
				}
				work := []vb{{rt.Results[ei], rt.Block()}}
				seenV := map[ssa.Value]bool{}
				edgeNotEOF := map[*ssa.BasicBlock]bool{}
				for len(work) > 0 {
					cur := work[0]
					work = work[1:]
					if cur.v == errv {
						guardBlocks = append(guardBlocks, cur.b)
						continue
					}
					if seenV[cur.v] {
						continue
					}
					seenV[cur.v] = true
					switch x := cur.v.(type) {
					case *ssa.Phi:
						for i, e := range x.Edges {
							pred := x.Block().Preds[i]
							work = append(work, vb{e, pred})
							// the fact carried by the incoming edge itself (pred ends in an If)
							if ifi := blockIf(pred); ifi != nil && e == errv {
								if bo, ok := ifi.Cond.(*ssa.BinOp); ok {
									isCmp := (bo.X == errv && isIOEOF(bo.Y)) || (bo.Y == errv && isIOEOF(bo.X))
									succ := 0
									if len(pred.Succs) == 2 && pred.Succs[1] == x.Block() {
										succ = 1
									}
									if isCmp && ((bo.Op == token.EQL && succ == 1) || (bo.Op == token.NEQ && succ == 0)) {
										edgeNotEOF[pred] = true
									}
								}
							}
						}
					case *ssa.UnOp:
						if x.Op == token.MUL {
							if al, ok := p.cellRoot(x.X).(*ssa.Alloc); ok {
								for _, st := range p.reachingStores(al, x) {
									work = append(work, vb{st.Val, st.Block()})
								}
							}
						}
					}
				}
				notEOF := len(guardBlocks) > 0
				for _, gb := range guardBlocks {
					okHere := edgeNotEOF[gb]
					for _, g := range guardsOf(gb) {
						bo, ok := g.Cond.(*ssa.BinOp)
						if !ok {
							continue
						}
						isCmp := false
						for _, o := range p.origins(bo.X, originOpts{}) {
							if o == errv && isIOEOF(bo.Y) {
								isCmp = true
							}
						}
						for _, o := range p.origins(bo.Y, originOpts{}) {
							if o == errv && isIOEOF(bo.X) {
								isCmp = true
							}
						}
						if isCmp && ((bo.Op == token.EQL && !g.True) || (bo.Op == token.NEQ && g.True)) {
							okHere = true
						}
					}
					if !okHere {
						notEOF = false
					}
				}
				for _, g := range guardsOf(rt.Block()) {
					if notEOF {
						break
					}
					bo, ok := g.Cond.(*ssa.BinOp)
					if !ok {
						continue
					}
					isCmp := false
					for _, o := range p.origins(bo.X, originOpts{}) {
						if o == errv && isIOEOF(bo.Y) {
							isCmp = true
						}
					}
					for _, o := range p.origins(bo.Y, originOpts{}) {
						if o == errv && isIOEOF(bo.X) {
							isCmp = true
						}
					}
					if isCmp && ((bo.Op == token.EQL && !g.True) || (bo.Op == token.NEQ && g.True)) {
						notEOF = true
					}
				}
				if !notEOF {
					bad = true
					r.bad(key, rt.Pos(), "the error of the io.ReadFull that reads the rest of a message is returned unchanged; ReadFull reports plain io.EOF when it read nothing, so a stream cut exactly after the length prefix/header ends as a clean end of stream (the receiver fabricates an empty message or a normal EOF) instead of an error")
				}
			})
			if !bad {
				r.ok(key, in.Pos(), "an io.EOF from this mid-message ReadFull is converted (or cannot be returned)")
			}
		})
	}
	if n == 0 {
		r.undecided("mid-message ReadFull", token.NoPos, "no io.ReadFull that completes a message found on request paths")
	}
}

// ---------------------------------------------------------------------------
// TIMEOUT-DIGITS
// ---------------------------------------------------------------------------

func ruleTimeoutDigits(r *Run) {
	p := r.P
	fn := p.Func("decodeTimeout")
	if fn == nil {
		r.missing("func decodeTimeout")
		return
	}
	var parse *ssa.Call
	eachInstr(fn, func(in ssa.Instruction) {
		if c, ok := in.(*ssa.Call); ok && (calleeName(c) == "strconv.ParseInt" || calleeName(c) == "strconv.ParseUint" || calleeName(c) == "strconv.Atoi") {
			parse = c
		}
	})
	if parse == nil {
		r.undecided("decodeTimeout/digits", fn.Pos(), "no strconv integer parse found")
		return
	}
	if calleeName(parse) == "strconv.Atoi" {
		r.ok("decodeTimeout/base", parse.Pos(), "Atoi parses base 10")
	} else {
		b, ok := constInt(parse.Call.Args[1])
		r.check(ok && b == 10, "decodeTimeout/base", parse.Pos(), "digits are parsed in base 10",
			fmt.Sprintf("digits are parsed with base %v: base 0 infers the radix from a prefix, so \"010S\" becomes 8 s, \"0x10S\" and \"1_0S\" are accepted and \"09M\" is refused", describeValue(parse.Call.Args[1])))
	}
	// sign: ParseUint refuses it; ParseInt needs a refusing test of the result against 0
	signOK := calleeName(parse) == "strconv.ParseUint"
	if !signOK {
		val := extractOf(parse, 0)
		eachInstr(fn, func(in ssa.Instruction) {
			ifi, ok := in.(*ssa.If)
			if !ok || val == nil {
				return
			}
			bo, ok := ifi.Cond.(*ssa.BinOp)
			if !ok {
				return
			}
			if k, isC := constInt(bo.Y); isC && k == 0 && p.stripConvAll(bo.X) == val && (bo.Op == token.LSS || bo.Op == token.LEQ) && p.refusalEdge(ifi) == 0 {
				signOK = true
			}
		})
		// or the first byte is checked to be a digit before parsing: s[0] compared with '0'..'9' on a refusing guard
	}
	r.check(signOK, "decodeTimeout/unsigned", parse.Pos(), "a sign is refused (unsigned parse or explicit refusal of negative values)",
		"the digits are parsed with strconv.ParseInt and negative results are not refused: \"-5S\" and \"+5S\" are accepted although TimeoutValue is 1-8 digits; the handler runs (with an already expired context) instead of the request being refused")
}

// ---------------------------------------------------------------------------
// STORED-SLICE-REUSE
// ---------------------------------------------------------------------------

func init() {
	register(&Rule{Name: "STORED-SLICE-REUSE", Floor: 2,
		Doc: "a slice stored into routing state is not afterwards re-sliced and appended to in the same function (its backing array would be overwritten under the stored entry)",
		Run: ruleStoredSliceReuse})
	register(&Rule{Name: "WEB-TRAILER-FRAME", Floor: 3,
		Doc: "the gRPC-web trailer frame is built from every response header key that was not already sent: the seen test uses the raw header-map key (a 'Trailer:'-prefixed key is never shadowed by a sent header of the same name), keys are then un-prefixed and lower-cased; sent headers exclude prefixed keys",
		Run: ruleWebTrailerFrame})
	register(&Rule{Name: "NILABLE-FIELD", Floor: 2,
		Doc: "an interface-typed field that some code tests against nil (so nil is a legal value) is never invoked on request paths without a dominating non-nil test of that field, in the function or at every call site of the function",
		Run: ruleNilableField})
	register(&Rule{Name: "SEL-COLLECT", Floor: 2,
		Doc: "ruleSelector.getRules returns the rules of every node on the way down to the method's name (a wildcard at any depth covers the method), the recursion descends by the next name component",
		Run: ruleSelCollect})
}

// sliceAliasWeb: values connected to v through phis, append destinations and reslices.
func sliceAliasWeb(fn *ssa.Function, v ssa.Value) map[ssa.Value]bool {
	web := map[ssa.Value]bool{v: true}
	for changed := true; changed; {
		changed = false
		add := func(a, b ssa.Value) {
			if a == nil || b == nil {
				return
			}
			if web[a] && !web[b] {
				web[b] = true
				changed = true
			}
			if web[b] && !web[a] {
				web[a] = true
				changed = true
			}
		}
		eachInstr(fn, func(in ssa.Instruction) {
			switch x := in.(type) {
			case *ssa.Phi:
				for _, e := range x.Edges {
					if _, isConst := e.(*ssa.Const); !isConst {
						add(x, e)
					}
				}
			case *ssa.Slice:
				add(x, x.X)
			case *ssa.Call:
				if b, ok := x.Call.Value.(*ssa.Builtin); ok && b.Name() == "append" && len(x.Call.Args) > 0 {
					if _, isConst := x.Call.Args[0].(*ssa.Const); !isConst {
						add(x, x.Call.Args[0])
					}
				}
			}
		})
	}
	return web
}

func ruleStoredSliceReuse(r *Run) {
	p := r.P
	e := p.Effects()
	n := 0
	for _, fn := range p.ModuleFuncs() {
		for _, w := range e.OwnWrites(fn) {
			var val ssa.Value
			switch x := w.Instr.(type) {
			case *ssa.MapUpdate:
				val = x.Value
			case *ssa.Store:
				val = x.Val
			default:
				continue
			}
			if _, ok := val.Type().Underlying().(*types.Slice); !ok {
				continue
			}
			n++
			key := fmt.Sprintf("%s/stored:%s", shortFunc(fn), w.Target())
			web := sliceAliasWeb(fn, val)
			var hit ssa.Instruction
			// the in-place removal idiom in a loop, `x.f = append(x.f[:i], x.f[i+1:]...)`: the result replaces the
			// stored value in the very place it was stored, no second holder of the array exists
			storedBack := func(ap *ssa.Call) bool {
				st, ok := w.Instr.(*ssa.Store)
				if !ok || ap.Referrers() == nil {
					return false
				}
				fa, ok := st.Addr.(*ssa.FieldAddr)
				if !ok {
					return false
				}
				for _, ref := range *ap.Referrers() {
					if s2, ok := ref.(*ssa.Store); ok && s2.Val == ssa.Value(ap) {
						if fa2, ok := s2.Addr.(*ssa.FieldAddr); ok && fa2.Field == fa.Field && fa2.X == fa.X {
							return true
						}
					}
				}
				return false
			}
			q := pathQuery{fn: fn, start: w.Instr, target: func(in ssa.Instruction) bool {
				sl, ok := in.(*ssa.Slice)
				if !ok || !web[sl.X] {
					return false
				}
				// the reslice feeds an append destination (in-place overwrite) …
				for _, ref := range *sl.Referrers() {
					switch y := ref.(type) {
					case *ssa.Call:
						if b, ok := y.Call.Value.(*ssa.Builtin); ok && b.Name() == "append" && y.Call.Args[0] == ssa.Value(sl) && !storedBack(y) {
							hit = in
							return true
						}
					case *ssa.Phi:
						for _, r2 := range *y.Referrers() {
							if c, ok := r2.(*ssa.Call); ok {
								if b, ok := c.Call.Value.(*ssa.Builtin); ok && b.Name() == "append" && c.Call.Args[0] == ssa.Value(y) && !storedBack(c) {
									hit = in
									return true
								}
							}
						}
					}
				}
				return false
			}}
			if pth, _ := q.find(); pth != nil {
				r.bad(key, hit.Pos(), "the slice stored into %s is re-sliced and appended to later in the same function (%s): the stored entry and the later ones share one backing array, so later iterations overwrite what was stored (handlers of one method end up under another)", w.Target(), p.describePath(pth))
			} else {
				r.ok(key, w.Instr.Pos(), "the stored slice is not re-used as an append buffer afterwards")
			}
		}
	}
	// the same when the slice is handed to a function that keeps it (cursor.addVariable(vars) stores its argument in
	// the new trie node): the call is the store
	var retainsD func(callee *ssa.Function, i int, depth int) string
	retains := func(callee *ssa.Function, i int) string { return retainsD(callee, i, 0) }
	retainsD = func(callee *ssa.Function, i int, depth int) string {
		if callee == nil || !p.InModule(callee) || i >= len(callee.Params) || depth > 3 {
			return ""
		}
		// handed on to a function that keeps it (addVariable -> newVariable(name, toks))
		found := ""
		eachInstr(callee, func(in ssa.Instruction) {
			c, ok := in.(*ssa.Call)
			if !ok || c.Call.IsInvoke() || found != "" {
				return
			}
			inner := c.Call.StaticCallee()
			if inner == nil || inner == callee {
				return
			}
			for j, a := range c.Call.Args {
				if _, isSl := a.Type().Underlying().(*types.Slice); !isSl {
					continue
				}
				for _, o := range p.origins(a, originOpts{local: true, throughSlice: true, throughConvert: true}) {
					if o == ssa.Value(callee.Params[i]) {
						if t := retainsD(inner, j, depth+1); t != "" {
							found = t
						}
					}
				}
			}
		})
		if found != "" {
			return found
		}
		for _, w := range e.AllWrites(callee) { // also into an object the callee has just made (a new trie node)
			var val ssa.Value
			switch x := w.Instr.(type) {
			case *ssa.MapUpdate:
				val = x.Value
			case *ssa.Store:
				val = x.Val
			default:
				continue
			}
			if _, ok := val.Type().Underlying().(*types.Slice); !ok {
				continue
			}
			for _, o := range p.origins(val, originOpts{local: true, throughSlice: true, throughConvert: true}) {
				if o == ssa.Value(callee.Params[i]) {
					return w.Target()
				}
			}
		}
		return ""
	}
	for _, fn := range p.ModuleFuncs() {
		site := 0
		eachInstr(fn, func(in ssa.Instruction) {
			c, ok := in.(*ssa.Call)
			if !ok || c.Call.IsInvoke() {
				return
			}
			callee := c.Call.StaticCallee()
			for i, a := range c.Call.Args {
				if _, ok := a.Type().Underlying().(*types.Slice); !ok {
					continue
				}
				target := retains(callee, i)
				if target == "" {
					continue
				}
				n++
				site++
				key := fmt.Sprintf("%s/kept-by:%s#%d", shortFunc(fn), shortFunc(callee), site)
				web := sliceAliasWeb(fn, a)
				var hit ssa.Instruction
				q := pathQuery{fn: fn, start: in, target: func(x ssa.Instruction) bool {
					sl, ok := x.(*ssa.Slice)
					if !ok || !web[sl.X] {
						return false
					}
					for _, ref := range *sl.Referrers() {
						switch y := ref.(type) {
						case *ssa.Call:
							if b, ok := y.Call.Value.(*ssa.Builtin); ok && b.Name() == "append" && y.Call.Args[0] == ssa.Value(sl) {
								hit = x
								return true
							}
						case *ssa.Phi:
							for _, r2 := range *y.Referrers() {
								if c2, ok := r2.(*ssa.Call); ok {
									if b, ok := c2.Call.Value.(*ssa.Builtin); ok && b.Name() == "append" && c2.Call.Args[0] == ssa.Value(y) {
										hit = x
										return true
									}
								}
							}
						}
					}
					return false
				}}
				if pth, _ := q.find(); pth != nil {
					r.bad(key, hit.Pos(), "the slice handed to %s is kept there (%s) and is re-sliced and appended to later in this function (%s): the kept entry and the later ones share one backing array, so a later iteration overwrites what an earlier one registered", shortFunc(callee), target, p.describePath(pth))
				} else {
					r.ok(key, in.Pos(), "the slice kept by %s (%s) is not re-used as an append buffer afterwards", shortFunc(callee), target)
				}
			}
		})
	}
	if n == 0 {
		r.undecided("slices stored into routing state", token.NoPos, "no slice-typed write to routing state found")
	}
}

// ---------------------------------------------------------------------------
// WEB-TRAILER-FRAME
// ---------------------------------------------------------------------------

func ruleWebTrailerFrame(r *Run) {
	p := r.P
	wt := p.Method("webWriter", "writeTrailer")
	sh := p.Method("webWriter", "seeHeaders")
	if wt == nil || sh == nil {
		r.missing("methods (*webWriter).writeTrailer / seeHeaders")
		return
	}
	seenF := p.StructField("webWriter", "seenHeaders")
	// the range key over the header map
	rangeKey := func(fn *ssa.Function) ssa.Value {
		var key ssa.Value
		p.eachInstrR(fn, func(in ssa.Instruction) {
			rg, ok := in.(*ssa.Range)
			if !ok || !isHeaderType(rg.X.Type()) {
				return
			}
			for _, ref := range *rg.Referrers() {
				if nx, ok := ref.(*ssa.Next); ok {
					for _, r2 := range *nx.Referrers() {
						if ex, ok := r2.(*ssa.Extract); ok && ex.Index == 1 {
							key = ex
						}
					}
				}
			}
		})
		return key
	}
	rk := rangeKey(wt)
	if rk == nil {
		r.undecided("(*webWriter).writeTrailer/range", wt.Pos(), "no range over the response header map")
		return
	}
	// (a) the seen test uses the raw key
	raw, n := true, 0
	p.eachInstrR(wt, func(in ssa.Instruction) {
		lk, ok := in.(*ssa.Lookup)
		if !ok {
			return
		}
		for _, o := range p.origins(lk.X, originOpts{}) {
			if loadsField(o, seenF) {
				n++
				if lk.Index != rk {
					raw = false
				}
			}
		}
	})
	r.check(raw && n > 0, "(*webWriter).writeTrailer/seen-test-on-raw-key", wt.Pos(), "a key counts as already sent only if that exact header-map key was sent",
		"the already-sent test is made on a transformed key (prefix stripped / case changed): a trailer whose name equals a header the handler also sent is dropped from the gRPC-web trailer frame")
	// (b) the frame key is the raw key with the trailer prefix trimmed and lower-cased
	var upd *ssa.MapUpdate
	p.eachInstrR(wt, func(in ssa.Instruction) {
		if mu, ok := in.(*ssa.MapUpdate); ok && isHeaderType(mu.Map.Type()) {
			upd = mu
		}
	})
	if upd == nil {
		r.bad("(*webWriter).writeTrailer/frame-key", wt.Pos(), "no trailer map is filled")
	} else {
		lower, trimmed := false, false
		var walk func(v ssa.Value, d int)
		walk = func(v ssa.Value, d int) {
			if d > 6 {
				return
			}
			for _, o := range p.origins(v, originOpts{}) {
				if c, ok := o.(*ssa.Call); ok {
					switch calleeName(c) {
					case "strings.ToLower":
						lower = true
						walk(c.Call.Args[0], d+1)
					case "strings.TrimPrefix":
						if s, ok := constString(c.Call.Args[1]); ok && s == "Trailer:" {
							trimmed = true
						}
						walk(c.Call.Args[0], d+1)
					}
				}
			}
		}
		walk(upd.Key, 0)
		r.check(lower && trimmed && p.derivedFromKey(upd.Key, rk), "(*webWriter).writeTrailer/frame-key", upd.Pos(), "frame keys are the header keys without the trailer prefix, lower-cased",
			"frame keys are not strings.ToLower(strings.TrimPrefix(key, http.TrailerPrefix)): prefixed trailers reach gRPC-web clients under the wrong name")
	}
	// (c) seeHeaders does not record prefixed keys as sent
	sk := rangeKey(sh)
	var su *ssa.MapUpdate
	p.eachInstrR(sh, func(in ssa.Instruction) {
		if mu, ok := in.(*ssa.MapUpdate); ok {
			su = mu
		}
	})
	if sk == nil || su == nil {
		r.undecided("(*webWriter).seeHeaders/skips-prefixed", sh.Pos(), "could not find the loop recording sent headers")
		return
	}
	guarded := false
	for _, g := range guardsOf(su.Block()) {
		if c, ok := g.Cond.(*ssa.Call); ok && calleeName(c) == "strings.HasPrefix" && !g.True {
			if s, ok := constString(c.Call.Args[1]); ok && s == "Trailer:" && c.Call.Args[0] == sk {
				guarded = true
			}
		}
	}
	r.check(guarded && su.Key == sk, "(*webWriter).seeHeaders/skips-prefixed", su.Pos(), "keys carrying the trailer prefix are never recorded as sent headers", "a 'Trailer:'-prefixed key can be recorded as a sent header: it is then missing from the trailer frame")
}

// ---------------------------------------------------------------------------
// NILABLE-FIELD (contradiction rule: tested against nil somewhere, invoked unguarded elsewhere)
// ---------------------------------------------------------------------------

func (p *Program) fieldNilTested(f *types.Var) bool {
	tested := false
	for _, fn := range p.ModuleFuncs() {
		eachInstr(fn, func(in ssa.Instruction) {
			bo, ok := in.(*ssa.BinOp)
			if !ok || (bo.Op != token.EQL && bo.Op != token.NEQ) {
				return
			}
			if isNilConst(bo.Y) && loadsField(bo.X, f) {
				tested = true
			}
			if isNilConst(bo.X) && loadsField(bo.Y, f) {
				tested = true
			}
		})
	}
	return tested
}

// nonNilAt: at block b, field f is known non-nil (a dominating test of a load of the same field).
func (p *Program) fieldNonNilAt(f *types.Var, b *ssa.BasicBlock) bool {
	for _, g := range guardsOf(b) {
		bo, ok := g.Cond.(*ssa.BinOp)
		if !ok {
			continue
		}
		var x ssa.Value
		if isNilConst(bo.Y) {
			x = bo.X
		} else if isNilConst(bo.X) {
			x = bo.Y
		} else {
			continue
		}
		is := false
		for _, o := range p.origins(x, originOpts{}) {
			if loadsField(o, f) {
				is = true
			}
		}
		if is && ((bo.Op == token.NEQ && g.True) || (bo.Op == token.EQL && !g.True)) {
			return true
		}
	}
	return false
}

func ruleNilableField(r *Run) {
	p := r.P
	reach := p.reachRequest()
	cg := p.CallGraph()
	n := 0
	for _, fn := range sortedFuncs(reach) {
		site := map[string]int{}
		eachInstr(fn, func(in ssa.Instruction) {
			c, ok := in.(ssa.CallInstruction)
			if !ok || !c.Common().IsInvoke() {
				return
			}
			var f *types.Var
			for _, o := range p.origins(c.Common().Value, originOpts{}) {
				if lf := loadedField(o); lf != nil {
					f = lf
				}
			}
			if f == nil || !strings.HasPrefix(p.fieldKey(f), "stream") && !strings.HasPrefix(p.fieldKey(f), "muxOptions") && !strings.HasPrefix(p.fieldKey(f), "webWriter") {
				return
			}
			if !p.fieldNilTested(f) {
				return
			}
			n++
			site[f.Name()]++
			key := fmt.Sprintf("%s/invoke:%s#%d", shortFunc(fn), p.fieldKey(f), site[f.Name()])
			if p.fieldNonNilAt(f, in.Block()) {
				r.ok(key, in.Pos(), "dominated by a non-nil test of %s", p.fieldKey(f))
				return
			}
			// every call site of this function is guarded - directly, or because the calling helper is itself only
			// called under the test (SendMsg [comp != nil] -> compressFrame -> compress)
			var sitesGuarded func(g *ssa.Function, depth int) (bool, int)
			sitesGuarded = func(g *ssa.Function, depth int) (bool, int) {
				okAll, nSites := true, 0
				node := cg.Nodes[g]
				if node == nil || depth > 3 {
					return false, 0
				}
				for _, e := range node.In {
					if e.Site == nil || !p.InModule(e.Caller.Func) {
						continue
					}
					nSites++
					if p.fieldNonNilAt(f, e.Site.Block()) {
						continue
					}
					if up, n := sitesGuarded(e.Caller.Func, depth+1); !(up && n > 0) {
						okAll = false
					}
				}
				return okAll, nSites
			}
			okAll, nSites := sitesGuarded(fn, 0)
			if nSites > 0 && okAll {
				r.ok(key, in.Pos(), "every call site of %s is dominated by a non-nil test of %s", shortFunc(fn), p.fieldKey(f))
				return
			}
			r.bad(key, in.Pos(), "method %s is invoked on %s without a dominating non-nil test, although other code tests that field against nil (nil is a legal value, e.g. the 'identity' compressor): nil interface method call (panic) for those requests",
				c.Common().Method.Name(), p.fieldKey(f))
		})
	}
	if n == 0 {
		r.undecided("nilable fields", token.NoPos, "no invoke on a nil-tested interface field found on request paths")
	}
}

// ---------------------------------------------------------------------------
// SEL-COLLECT
// ---------------------------------------------------------------------------

func ruleSelCollect(r *Run) {
	p := r.P
	fn := p.Method("ruleSelector", "getRules")
	if fn == nil {
		r.missing("method (*ruleSelector).getRules")
		return
	}
	rulesF := p.StructField("ruleSelector", "rules")
	pathF := p.StructField("ruleSelector", "path")
	recv := fn.Params[0]
	ownRules := func(v ssa.Value) bool {
		u, ok := v.(*ssa.UnOp)
		if !ok || !loadsField(u, rulesF) {
			return false
		}
		fa := u.X.(*ssa.FieldAddr)
		// receiver itself (not a child): r is re-assigned in the original (`r = r.path[tag]`), so accept the parameter only
		return fa.X == ssa.Value(recv)
	}
	var rec *ssa.Call
	eachInstr(fn, func(in ssa.Instruction) {
		if c, ok := in.(*ssa.Call); ok && calleeName(c) == "(*larking.io/larking.ruleSelector).getRules" {
			rec = c
		}
	})
	if rec == nil {
		// the same walk written as a loop: a node variable that starts at the receiver and moves to
		// path[first component of the rest of the name], the rules of the current node appended on every round
		if p.selCollectIterative(r, fn, rulesF, pathF) {
			return
		}
		r.bad("(*ruleSelector).getRules/descends", fn.Pos(), "getRules does not descend into the child selector: only top-level rules are ever found")
		return
	}
	// what a return carries: where the name is exhausted (name == "") the selectors that end at this node (exact) and
	// not its wildcard rules (a wildcard stands for one or more further components); everywhere else the node's
	// wildcard rules - and the child's result after the recursive call - and not its exact ones (an exact selector
	// of a shorter name is not a prefix pattern)
	exactF := p.StructField("ruleSelector", "exact")
	ownExact := func(v ssa.Value) bool {
		u, ok := v.(*ssa.UnOp)
		if !ok || exactF == nil || !loadsField(u, exactF) {
			return false
		}
		fa := u.X.(*ssa.FieldAddr)
		return fa.X == ssa.Value(recv)
	}
	name := ssa.Value(fn.Params[1])
	exhausted := func(b *ssa.BasicBlock) bool {
		for _, g := range guardsOf(b) {
			x, y, op, ok := g.cmp()
			if !ok {
				continue
			}
			if sv, isS := constString(y); isS && sv == "" && op == token.EQL && (x == name || p.sameValue(x, name)) {
				return true
			}
			if lc, isC := x.(*ssa.Call); isC && calleeName(lc) == "builtin.len" && lc.Call.Args[0] == name {
				if k, isK := constInt(y); isK && k == 0 && op == token.EQL {
					return true
				}
			}
		}
		return false
	}
	good := true
	nret := 0
	var badPos token.Pos
	why := ""
	eachInstr(fn, func(in ssa.Instruction) {
		rt, ok := in.(*ssa.Return)
		if !ok {
			return
		}
		nret++
		hasOwn, hasExact, hasRec := false, false, false
		for _, el := range p.flattenAppend(rt.Results[0], 0) {
			if ownRules(el) {
				hasOwn = true
			}
			if ownExact(el) {
				hasExact = true
			}
			if el == ssa.Value(rec) {
				hasRec = true
			}
		}
		if exhausted(rt.Block()) {
			if exactF == nil || !hasExact || hasOwn {
				good, badPos = false, rt.Pos()
				why = "where the name is exhausted getRules must return the selectors that end at this node and only those: returning the node's wildcard rules binds `pkg.Svc.M.*` to pkg.Svc.M itself, and keeping exact selectors in the same list as wildcards makes `pkg.Svc` act like `pkg.Svc.*`"
			}
			return
		}
		if !hasOwn || hasExact {
			good, badPos = false, rt.Pos()
			why = "a return of getRules for a name with further components does not carry the node's wildcard rules (or carries its exact selectors): a wildcard at a shallower depth stops covering the method, or an exact selector of a shorter name binds it"
		}
		// a return reachable after the recursive call must carry its result
		if w, _ := (pathQuery{fn: fn, start: rec, target: func(x ssa.Instruction) bool { return x == in }}).find(); w != nil && !hasRec {
			good, badPos = false, rt.Pos()
			why = "a return after the recursive call drops the child's result"
		}
	})
	r.check(good && nret > 0, "(*ruleSelector).getRules/collects-every-level", badPos, "returns carry the wildcard rules of every node passed and, where the name ends, the selectors that end there (exact) - nothing else",
		why)
	// the recursion descends into path[next component] with the remainder of the name
	descOK := false
	for _, o := range p.origins(rec.Call.Args[0], originOpts{}) {
		if lk, ok := o.(*ssa.Lookup); ok {
			for _, mo := range p.origins(lk.X, originOpts{}) {
				if loadsField(mo, pathF) {
					if ex, ok := lk.Index.(*ssa.Extract); ok && ex.Index == 0 {
						if c, ok := ex.Tuple.(*ssa.Call); ok && calleeName(c) == "strings.Cut" {
							if ex2, ok := rec.Call.Args[1].(*ssa.Extract); ok && ex2.Tuple == ssa.Value(c) && ex2.Index == 1 {
								if s, ok := constString(c.Call.Args[1]); ok && s == "." {
									descOK = true
								}
							}
						}
					}
				}
			}
		}
	}
	r.check(descOK, "(*ruleSelector).getRules/descends", rec.Pos(), "descends into path[first component] with the remaining components", "the recursion does not descend by strings.Cut(name, \".\") into path[first component]")
}

// selCollectIterative judges getRules written as a loop; it reports its obligations itself and returns false if the
// function has no such loop.
func (p *Program) selCollectIterative(r *Run, fn *ssa.Function, rulesF, pathF *types.Var) bool {
	recv := fn.Params[0]
	var node *ssa.Phi
	for _, b := range fn.Blocks {
		for _, in := range b.Instrs {
			phi, ok := in.(*ssa.Phi)
			if !ok {
				break
			}
			if !types.Identical(phi.Type(), recv.Type()) {
				continue
			}
			fromRecv, fromChild := false, false
			for i, e := range phi.Edges {
				if e == ssa.Value(recv) {
					fromRecv = true
				}
				if b.Dominates(b.Preds[i]) {
					// the value flowing back: path[tag] of this node, tag = first component of the name variable
					for _, o := range p.origins(e, originOpts{local: true}) {
						lk, ok := o.(*ssa.Lookup)
						if !ok {
							continue
						}
						okMap := false
						for _, mo := range p.origins(lk.X, originOpts{local: true}) {
							if u, ok := mo.(*ssa.UnOp); ok && loadsField(u, pathF) {
								if fa, ok := u.X.(*ssa.FieldAddr); ok && fa.X == ssa.Value(phi) {
									okMap = true
								}
							}
						}
						if ex, ok := lk.Index.(*ssa.Extract); ok && ex.Index == 0 && okMap {
							if c, ok := ex.Tuple.(*ssa.Call); ok && calleeName(c) == "strings.Cut" {
								if sep, ok := constString(c.Call.Args[1]); ok && sep == "." {
									// the name variable continues with the rest of the same Cut
									if np, ok := c.Call.Args[0].(*ssa.Phi); ok {
										for _, ne := range np.Edges {
											if ex2, ok := ne.(*ssa.Extract); ok && ex2.Tuple == ssa.Value(c) && ex2.Index == 1 {
												fromChild = true
											}
										}
									}
								}
							}
						}
					}
				}
			}
			if fromRecv && fromChild {
				node = phi
			}
		}
	}
	if node == nil {
		return false
	}
	r.ok("(*ruleSelector).getRules/descends", node.Pos(), "descends into path[first component] with the remaining components (loop form)")
	// every round appends the current node's rules before it returns or moves on
	isOwnAppend := func(in ssa.Instruction) bool {
		c, ok := in.(*ssa.Call)
		if !ok {
			return false
		}
		b, ok := c.Call.Value.(*ssa.Builtin)
		if !ok || b.Name() != "append" {
			return false
		}
		// what this very call adds (its own arguments), not what the list it extends already holds
		for _, a := range c.Call.Args[1:] {
			for _, el := range p.origins(a, originOpts{local: true, throughSlice: true}) {
				if u, ok := el.(*ssa.UnOp); ok && loadsField(u, rulesF) {
					if fa, ok := u.X.(*ssa.FieldAddr); ok && fa.X == ssa.Value(node) {
						return true
					}
				}
			}
		}
		return false
	}
	head := node.Block()
	first := head.Instrs[0]
	for _, in := range head.Instrs {
		if _, isPhi := in.(*ssa.Phi); !isPhi {
			break
		}
		first = in
	}
	exactF := p.StructField("ruleSelector", "exact")
	isExactOfNode := func(v ssa.Value) bool {
		u, ok := v.(*ssa.UnOp)
		if !ok || exactF == nil || !loadsField(u, exactF) {
			return false
		}
		fa, ok := u.X.(*ssa.FieldAddr)
		return ok && fa.X == ssa.Value(node)
	}
	exhausted := func(b *ssa.BasicBlock) bool {
		for _, g := range guardsOf(b) {
			x, y, op, ok := g.cmp()
			if !ok || op != token.EQL {
				continue
			}
			if sv, isS := constString(y); isS && sv == "" {
				if bt, isB := x.Type().Underlying().(*types.Basic); isB && bt.Info()&types.IsString != 0 {
					return true
				}
			}
		}
		return false
	}
	good, why := true, ""
	nret := 0
	eachInstr(fn, func(in ssa.Instruction) {
		rt, ok := in.(*ssa.Return)
		if !ok {
			return
		}
		nret++
		if exhausted(rt.Block()) {
			hasExact := false
			for _, el := range p.flattenAppend(rt.Results[0], 0) {
				if isExactOfNode(el) {
					hasExact = true
				}
			}
			sameRound := false
			for _, a := range instrsOf(fn, isOwnAppend) {
				if w, _ := (pathQuery{fn: fn, start: a, target: func(x ssa.Instruction) bool { return x == in }, barrier: func(x ssa.Instruction) bool { return x == first }}).find(); w != nil {
					sameRound = true
				}
			}
			if !hasExact || sameRound {
				good = false
				why = "where the name is exhausted the loop must return the selectors that end at the current node (exact) without that node's wildcard rules"
			}
			return
		}
		if w, _ := (pathQuery{fn: fn, start: first, target: func(x ssa.Instruction) bool { return x == in }, barrier: isOwnAppend}).find(); w != nil {
			good = false
			why = "a round of getRules' loop returns without having appended the current node's wildcard rules"
		}
	})
	// a way round the loop without the append
	for _, pr := range head.Preds {
		if !head.Dominates(pr) {
			continue
		}
		last := pr.Instrs[len(pr.Instrs)-1]
		if w2, _ := (pathQuery{fn: fn, start: first, target: func(x ssa.Instruction) bool { return x == last }, barrier: isOwnAppend}).find(); w2 != nil {
			good = false
			why = "a round of getRules' loop descends without having appended the current node's wildcard rules"
		}
	}
	r.check(good && nret > 0, "(*ruleSelector).getRules/collects-every-level", node.Pos(), "every continuing round appends the wildcard rules of the current node; where the name ends the selectors ending there are returned (loop form)",
		why+": a wildcard selector at a shallower depth stops covering a method, or exact and wildcard selectors are confused")
	return true
}
