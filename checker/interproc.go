package main

import (
	"go/constant"
	"go/token"
	"go/types"
	"sort"

	"golang.org/x/tools/go/ssa"
)

// ---------------------------------------------------------------------------
// Transparent helpers
//
// The rules name a fixed set of functions of the reviewed tree (anchorTable).
// Every other module function that is only ever called statically, is not
// exported, not recursive and not used as a value is a *transparent helper*:
// the analyses look through it as if its body were written at the call site
// (value origins follow parameters to the arguments of the call and results to
// the returned expressions; scans of an anchor include the helpers it calls;
// guards at the call site count for the helper's instructions). This is what
// keeps a rule decided when a maintainer extracts a block of an anchor
// function into a new helper: a new name is by construction not an anchor.
// ---------------------------------------------------------------------------

type helperTable struct {
	sites       map[*ssa.Function][]ssa.CallInstruction // static call sites in module code
	usedAsValue map[*ssa.Function]bool
	transparent map[*ssa.Function]bool
	anchors     map[*ssa.Function]bool
}

func (p *Program) helpers() *helperTable {
	if p.helperTab != nil {
		return p.helperTab
	}
	h := &helperTable{
		sites:       map[*ssa.Function][]ssa.CallInstruction{},
		usedAsValue: map[*ssa.Function]bool{},
		transparent: map[*ssa.Function]bool{},
		anchors:     map[*ssa.Function]bool{},
	}
	p.helperTab = h
	for _, fn := range p.ModuleFuncs() {
		if fn.Parent() == nil && anchorTable[anchorKey(fn)] {
			h.anchors[fn] = true
		}
		eachInstr(fn, func(in ssa.Instruction) {
			var calleeVal ssa.Value
			if c, ok := in.(ssa.CallInstruction); ok {
				if callee := c.Common().StaticCallee(); callee != nil && !c.Common().IsInvoke() {
					if _, isClosure := c.Common().Value.(*ssa.MakeClosure); !isClosure {
						calleeVal = c.Common().Value
						if _, isGo := in.(*ssa.Go); !isGo {
							h.sites[callee] = append(h.sites[callee], c)
						} else {
							h.usedAsValue[callee] = true
						}
					}
				}
			}
			for _, op := range in.Operands(nil) {
				if op == nil || *op == nil || *op == calleeVal {
					continue
				}
				if f, ok := (*op).(*ssa.Function); ok {
					h.usedAsValue[f] = true
				}
			}
		})
	}
	// dynamic dispatch: a method that an interface call may reach is not transparent
	dyn := map[*ssa.Function]bool{}
	cg := p.CallGraph()
	for fn, n := range cg.Nodes {
		if fn == nil || !p.InModule(fn) {
			continue
		}
		for _, e := range n.In {
			if e.Site == nil || e.Site.Common().StaticCallee() != fn {
				dyn[fn] = true
			}
		}
	}
	// static recursion
	var onStack, done map[*ssa.Function]bool
	rec := map[*ssa.Function]bool{}
	onStack, done = map[*ssa.Function]bool{}, map[*ssa.Function]bool{}
	var stack []*ssa.Function
	var visit func(fn *ssa.Function)
	visit = func(fn *ssa.Function) {
		if done[fn] {
			return
		}
		if onStack[fn] {
			for i := len(stack) - 1; i >= 0; i-- {
				rec[stack[i]] = true
				if stack[i] == fn {
					break
				}
			}
			return
		}
		onStack[fn] = true
		stack = append(stack, fn)
		for _, g := range allFuncsDeep(fn) {
			eachInstr(g, func(in ssa.Instruction) {
				if c, ok := in.(ssa.CallInstruction); ok {
					if callee := c.Common().StaticCallee(); callee != nil && p.InModule(callee) && callee.Parent() == nil {
						visit(callee)
					}
				}
			})
		}
		stack = stack[:len(stack)-1]
		onStack[fn] = false
		done[fn] = true
	}
	for _, fn := range p.ModuleFuncs() {
		if fn.Parent() == nil {
			visit(fn)
		}
	}
	for _, fn := range p.ModuleFuncs() {
		switch {
		case fn.Parent() != nil, len(fn.Blocks) == 0, fn.Synthetic != "", fn.Name() == "init":
		case h.anchors[fn], h.usedAsValue[fn], dyn[fn], rec[fn]:
		case len(h.sites[fn]) == 0:
		case fn.Object() != nil && fn.Object().Exported() && exportedRecv(fn):
		default:
			h.transparent[fn] = true
		}
	}
	return h
}

// exportedRecv: an exported function, or an exported method of an exported type, is API.
func exportedRecv(fn *ssa.Function) bool {
	recv := fn.Signature.Recv()
	if recv == nil {
		return true
	}
	if n := namedOf(recv.Type()); n != nil {
		return n.Obj().Exported()
	}
	return true
}

func (p *Program) isTransparent(fn *ssa.Function) bool {
	return fn != nil && p.helpers().transparent[fn]
}

// TransparentHelpers lists the helpers for evidence and debugging.
func (p *Program) TransparentHelpers() []string {
	var out []string
	for fn := range p.helpers().transparent {
		out = append(out, shortFunc(fn))
	}
	sort.Strings(out)
	return out
}

// region returns fn, its closures, and the transparent helpers (with their
// closures) that are called from it, transitively.
func (p *Program) region(fn *ssa.Function) []*ssa.Function {
	seen := map[*ssa.Function]bool{}
	var out []*ssa.Function
	var add func(f *ssa.Function)
	add = func(f *ssa.Function) {
		for _, g := range allFuncsDeep(f) {
			if seen[g] {
				continue
			}
			seen[g] = true
			out = append(out, g)
			eachInstr(g, func(in ssa.Instruction) {
				if c, ok := in.(ssa.CallInstruction); ok {
					if callee := c.Common().StaticCallee(); callee != nil && p.isTransparent(callee) {
						add(callee)
					}
				}
			})
		}
	}
	add(fn)
	return out
}

// eachInstrRegion visits the instructions of fn's region.
func (p *Program) eachInstrRegion(fn *ssa.Function, f func(*ssa.Function, ssa.Instruction)) {
	for _, g := range p.region(fn) {
		g := g
		eachInstr(g, func(in ssa.Instruction) { f(g, in) })
	}
}

// eachInstrR is eachInstr over fn's region (fn, its closures and the transparent helpers they call).
func (p *Program) eachInstrR(fn *ssa.Function, f func(ssa.Instruction)) {
	p.eachInstrRegion(fn, func(_ *ssa.Function, in ssa.Instruction) { f(in) })
}

// regionOwners returns the anchors (or non-transparent functions) from which fn
// is reached through transparent helpers only; fn itself if it is not transparent.
func (p *Program) regionOwners(fn *ssa.Function) []*ssa.Function {
	for fn.Parent() != nil {
		fn = fn.Parent()
	}
	seen := map[*ssa.Function]bool{}
	var out []*ssa.Function
	var up func(f *ssa.Function)
	up = func(f *ssa.Function) {
		for f.Parent() != nil {
			f = f.Parent()
		}
		if seen[f] {
			return
		}
		seen[f] = true
		if !p.isTransparent(f) {
			out = append(out, f)
			return
		}
		for _, s := range p.helpers().sites[f] {
			up(s.Parent())
		}
	}
	up(fn)
	return out
}

// returnsOf lists, per result index, the values fn returns.
func returnsOf(fn *ssa.Function, idx int) []ssa.Value {
	var out []ssa.Value
	eachInstr(fn, func(in ssa.Instruction) {
		if r, ok := in.(*ssa.Return); ok && idx < len(r.Results) {
			out = append(out, r.Results[idx])
		}
	})
	return out
}

// paramIndex returns the index of par in its function's parameter list.
func paramIndex(par *ssa.Parameter) int {
	for i, q := range par.Parent().Params {
		if q == par {
			return i
		}
	}
	return -1
}

// argAt returns the argument of call site c bound to parameter i of the static callee.
func argAt(c ssa.CallInstruction, i int) ssa.Value {
	args := c.Common().Args
	if i >= 0 && i < len(args) {
		return args[i]
	}
	return nil
}

// callGuardContexts returns, for an instruction's block, one guard list per
// calling context: the guards inside the function plus, when the function is a
// transparent helper, the guards that hold at each of its call sites
// (transitively). A rule that needs a guard must find it in every context.
func (p *Program) guardContexts(b *ssa.BasicBlock) [][]guardFact {
	return p.guardContextsDepth(b, 0)
}

func (p *Program) guardContextsDepth(b *ssa.BasicBlock, depth int) [][]guardFact {
	local := p.expandFacts(guardsOf(b))
	fn := b.Parent()
	if fn.Parent() != nil || !p.isTransparent(fn) || depth > 3 {
		return [][]guardFact{local}
	}
	var out [][]guardFact
	for _, s := range p.helpers().sites[fn] {
		for _, outer := range p.guardContextsDepth(s.Block(), depth+1) {
			ctx := append(append([]guardFact{}, outer...), local...)
			out = append(out, ctx)
		}
	}
	if len(out) == 0 {
		return [][]guardFact{local}
	}
	return out
}

// callMust reports whether every path through the static callee of c (a
// transparent helper or any module function when anyFunc is set) from entry to
// a return passes an instruction satisfying pred (directly or through nested
// calls). Used as a barrier summary in path queries.
func (p *Program) callMust(c ssa.CallInstruction, pred func(ssa.Instruction) bool) bool {
	return p.callMustDepth(c, pred, 0)
}

func (p *Program) callMustDepth(c ssa.CallInstruction, pred func(ssa.Instruction) bool, depth int) bool {
	callee := c.Common().StaticCallee()
	if callee == nil || !p.InModule(callee) || len(callee.Blocks) == 0 || depth > 3 || c.Common().IsInvoke() {
		return false
	}
	q := pathQuery{fn: callee, target: isReturn, barrier: func(in ssa.Instruction) bool {
		if pred(in) {
			return true
		}
		if cc, ok := in.(ssa.CallInstruction); ok {
			if _, isGo := in.(*ssa.Go); !isGo {
				if _, isDefer := in.(*ssa.Defer); !isDefer {
					return p.callMustDepth(cc, pred, depth+1)
				}
			}
		}
		return false
	}}
	path, _ := q.find()
	return path == nil
}

// callMay reports whether the region of the static callee of c contains an
// instruction satisfying pred.
func (p *Program) callMay(c ssa.CallInstruction, pred func(ssa.Instruction) bool) bool {
	callee := c.Common().StaticCallee()
	if callee == nil || !p.InModule(callee) || c.Common().IsInvoke() {
		return false
	}
	found := false
	p.eachInstrRegion(callee, func(_ *ssa.Function, in ssa.Instruction) {
		if pred(in) {
			found = true
		}
	})
	return found
}

// guardedInEveryContext: block b runs only when a fact satisfying pred holds: every path from the function's
// entry to b takes a branch edge that establishes such a fact (one dominating test, or one of several tests
// whose arms were merged, as in `case "*", "":`), or - for a transparent helper - this holds at every call site.
func (p *Program) guardedInEveryContext(b *ssa.BasicBlock, pred func(guardFact) bool) bool {
	return p.guardedOnAllPaths(b, pred, 0)
}

func (p *Program) guardedOnAllPaths(b *ssa.BasicBlock, pred func(guardFact) bool, depth int) bool {
	return p.guardedOnAllPathsOpt(b, pred, depth, true)
}

// helperEstablishes: whenever the call behind v (a bool result of a module function: the call itself, or one
// element of its result tuple) yields `want`, a fact satisfying pred holds inside the callee - on every return that
// can yield it, the returned expression implies such a fact or the return is reached only past one.
func (p *Program) helperEstablishes(v ssa.Value, want bool, pred func(guardFact) bool, depth int) bool {
	if depth > 3 {
		return false
	}
	var c *ssa.Call
	idx := 0
	switch x := v.(type) {
	case *ssa.Call:
		c = x
	case *ssa.Extract:
		c, _ = x.Tuple.(*ssa.Call)
		idx = x.Index
	}
	if c == nil || c.Call.IsInvoke() {
		return false
	}
	callee := c.Call.StaticCallee()
	if callee == nil || !p.InModule(callee) || len(callee.Blocks) == 0 || idx >= callee.Signature.Results().Len() {
		return false
	}
	if bt, ok := callee.Signature.Results().At(idx).Type().Underlying().(*types.Basic); !ok || bt.Kind() != types.Bool {
		return false
	}
	can := false
	all := true
	eachInstr(callee, func(in ssa.Instruction) {
		rt, ok := in.(*ssa.Return)
		if !ok || idx >= len(rt.Results) {
			return
		}
		fs, never := p.factsWhenDepth(rt.Results[idx], want, depth+1)
		if never {
			return
		}
		can = true
		for _, f := range fs {
			if pred(f) {
				return
			}
			if _, isConst := f.Cond.(*ssa.Const); !isConst && f.Cond != rt.Results[idx] && p.helperEstablishes(f.Cond, f.True, pred, depth+1) {
				return
			}
		}
		if p.guardedOnAllPathsOpt(rt.Block(), pred, depth+1, false) {
			return
		}
		all = false
	})
	return can && all
}

func (p *Program) guardedOnAllPathsOpt(b *ssa.BasicBlock, pred func(guardFact) bool, depth int, climb bool) bool {
	fn := b.Parent()
	if len(fn.Blocks) == 0 {
		return false
	}
	goodEdge := func(from *ssa.BasicBlock, succ int) bool {
		ifi := blockIf(from)
		if ifi == nil || from.Succs[0] == from.Succs[1] {
			return false
		}
		fs, impossible := p.factsWhen(ifi.Cond, succ == 0)
		if impossible {
			return true // the edge cannot be taken
		}
		for _, f := range fs {
			if f.If == nil {
				f.If = ifi
			}
			if pred(f) {
				return true
			}
		}
		// the test is made by a helper that reports it as (one of) its results: ok := matches(a, b)
		for _, f := range fs {
			if p.helperEstablishes(f.Cond, f.True, pred, depth) {
				return true
			}
		}
		return false
	}
	if b != fn.Blocks[0] {
		q := pathQuery{fn: fn, target: func(x ssa.Instruction) bool { return x.Block() == b },
			edgeOK: func(from *ssa.BasicBlock, succ int) bool { return !goodEdge(from, succ) }}
		if w, _ := q.find(); w == nil {
			return true
		}
	}
	// not established inside the function: look at the call sites of a transparent helper
	if !climb || fn.Parent() != nil || !p.isTransparent(fn) || depth > 3 {
		return false
	}
	sites := p.helpers().sites[fn]
	if len(sites) == 0 {
		return false
	}
	for _, s := range sites {
		if !p.guardedOnAllPaths(s.Block(), pred, depth+1) {
			return false
		}
	}
	return true
}

// onlyFrom: every origin of v (through transparent helpers) is target.
func (p *Program) onlyFrom(v, target ssa.Value) bool {
	if v == target {
		return true
	}
	os := p.origins(v, originOpts{})
	if len(os) == 0 {
		return false
	}
	for _, o := range os {
		if o != target {
			return false
		}
	}
	return true
}

// binding maps the parameters of a transparent helper (and of the helpers it
// was reached through) to the arguments of one call chain.
type binding map[*ssa.Parameter]ssa.Value

func (b binding) subst(v ssa.Value) ssa.Value {
	for i := 0; i < 6; i++ {
		par, ok := v.(*ssa.Parameter)
		if !ok {
			return v
		}
		a, ok := b[par]
		if !ok {
			return v
		}
		v = a
	}
	return v
}

// bindings returns one binding per chain of call sites through which the
// transparent helper fn is reached from non-transparent code; a single empty
// binding for any other function.
func (p *Program) bindings(fn *ssa.Function) []binding {
	return p.bindingsDepth(fn, 0)
}

func (p *Program) bindingsDepth(fn *ssa.Function, depth int) []binding {
	for fn.Parent() != nil {
		fn = fn.Parent()
	}
	if !p.isTransparent(fn) || depth > 3 {
		return []binding{{}}
	}
	var out []binding
	for _, s := range p.helpers().sites[fn] {
		for _, outer := range p.bindingsDepth(s.Parent(), depth+1) {
			b := binding{}
			for k, v := range outer {
				b[k] = v
			}
			for i, par := range fn.Params {
				if a := argAt(s, i); a != nil {
					b[par] = a
				}
			}
			out = append(out, b)
		}
	}
	if len(out) == 0 {
		return []binding{{}}
	}
	return out
}

// ---------------------------------------------------------------------------
// Boolean values: what must hold when v evaluates to `want`
// ---------------------------------------------------------------------------

// factsWhen returns atomic facts (condition value, polarity) that hold whenever
// the boolean SSA value v evaluates to want, looking through negation and
// through the phi nodes that short-circuit operators and if/else assignments
// produce (for a phi: the facts common to every incoming edge that can yield
// `want`, including the branch conditions under which that edge is taken).
// impossible reports that v can never evaluate to want.
func (p *Program) factsWhen(v ssa.Value, want bool) (facts []guardFact, impossible bool) {
	return p.factsWhenDepth(v, want, 0)
}

func (p *Program) factsWhenDepth(v ssa.Value, want bool, depth int) ([]guardFact, bool) {
	if depth > 8 {
		return []guardFact{{Cond: v, True: want}}, false
	}
	switch x := v.(type) {
	case *ssa.Const:
		if x.Value != nil && x.Value.Kind() == constant.Bool {
			if constant.BoolVal(x.Value) != want {
				return nil, true
			}
			return nil, false
		}
	case *ssa.UnOp:
		if x.Op == token.NOT {
			return p.factsWhenDepth(x.X, !want, depth+1)
		}
	case *ssa.Call:
		// a predicate helper (func isBinHeader(k string) bool { return strings.HasSuffix(k, "-bin") }): what holds
		// in the helper whenever it returns `want`, in addition to the call's own outcome
		callee := x.Call.StaticCallee()
		if callee == nil || x.Call.IsInvoke() || !p.isTransparent(callee) || callee.Signature.Results().Len() != 1 || depth > 5 {
			break
		}
		if bt, ok := callee.Signature.Results().At(0).Type().Underlying().(*types.Basic); !ok || bt.Kind() != types.Bool {
			break
		}
		var common []guardFact
		first := true
		eachInstr(callee, func(in ssa.Instruction) {
			rt, ok := in.(*ssa.Return)
			if !ok || len(rt.Results) != 1 {
				return
			}
			fs, imp := p.factsWhenDepth(rt.Results[0], want, depth+1)
			if imp {
				return
			}
			fs = append(fs, p.expandFacts(guardsOf(rt.Block()))...)
			if first {
				common, first = fs, false
			} else {
				common = intersectFacts(common, fs)
			}
		})
		if first {
			return nil, true
		}
		return append(common, guardFact{Cond: v, True: want}), false
	case *ssa.Phi:
		var common []guardFact
		first := true
		for k, e := range x.Edges {
			pred := x.Block().Preds[k]
			fs, imp := p.factsWhenDepth(e, want, depth+1)
			if imp {
				continue
			}
			fs = append(fs, edgeFacts(pred, x.Block())...)
			if first {
				common, first = fs, false
			} else {
				common = intersectFacts(common, fs)
			}
		}
		if first {
			return nil, true
		}
		return common, false
	}
	return []guardFact{{Cond: v, True: want}}, false
}

// edgeFacts: the guards that hold when control passes from pred to succ.
func edgeFacts(pred, succ *ssa.BasicBlock) []guardFact {
	out := append([]guardFact{}, guardsOf(pred)...)
	if ifi := blockIf(pred); ifi != nil && pred.Succs[0] != pred.Succs[1] {
		if pred.Succs[0] == succ {
			out = append(out, guardFact{ifi.Cond, true, ifi})
		} else if pred.Succs[1] == succ {
			out = append(out, guardFact{ifi.Cond, false, ifi})
		}
	}
	return out
}

func intersectFacts(a, b []guardFact) []guardFact {
	var out []guardFact
	for _, x := range a {
		for _, y := range b {
			if x.Cond == y.Cond && x.True == y.True {
				out = append(out, x)
				break
			}
		}
	}
	return out
}

// expandFacts decomposes every guard with factsWhen (a guard on `!(a || b)`
// stored in a variable becomes the facts !a and !b).
func (p *Program) expandFacts(gs []guardFact) []guardFact {
	var out []guardFact
	for _, g := range gs {
		fs, imp := p.factsWhen(g.Cond, g.True)
		if imp {
			continue
		}
		for _, f := range fs {
			if f.If == nil {
				f.If = g.If
			}
			out = append(out, f)
		}
	}
	return out
}

// sameOrigins: a and b have the same, non-empty set of origins (the same value seen from
// two functions of a region, e.g. a helper's parameter and the caller's argument).
func (p *Program) sameOrigins(a, b ssa.Value) bool {
	oa, ob := p.origins(a, originOpts{}), p.origins(b, originOpts{})
	if len(oa) == 0 || len(oa) != len(ob) {
		return false
	}
	for _, x := range oa {
		found := false
		for _, y := range ob {
			if x == y {
				found = true
			}
		}
		if !found {
			return false
		}
	}
	return true
}

// staticReach returns fn, its closures and every module function reached from them through static
// calls (recursive ones included), stopping at other anchors.
func (p *Program) staticReach(fn *ssa.Function) []*ssa.Function {
	seen := map[*ssa.Function]bool{}
	var out []*ssa.Function
	var add func(f *ssa.Function)
	add = func(f *ssa.Function) {
		for _, g := range allFuncsDeep(f) {
			if seen[g] {
				continue
			}
			seen[g] = true
			out = append(out, g)
			eachInstr(g, func(in ssa.Instruction) {
				c, ok := in.(ssa.CallInstruction)
				if !ok || c.Common().IsInvoke() {
					return
				}
				callee := c.Common().StaticCallee()
				if callee == nil || !p.InModule(callee) || callee.Parent() != nil || p.helpers().anchors[callee] {
					return
				}
				add(callee)
			})
		}
	}
	add(fn)
	return out
}

// regionWrites: the non-fresh protected writes of fn and of the transparent helpers it calls.
func (p *Program) regionWrites(e *Effects, fn *ssa.Function) []Write {
	var out []Write
	for _, g := range p.region(fn) {
		out = append(out, e.OwnWrites(g)...)
	}
	return out
}

// ---------------------------------------------------------------------------
// Rooted regions: the functions reached from one anchor, each with the chain of call sites that leads to it
// ---------------------------------------------------------------------------

// regionNode is a function of fn's region together with the call chain from the anchor (outermost first) and the
// binding of the helper parameters along that chain.
type regionNode struct {
	fn    *ssa.Function
	chain []ssa.CallInstruction
	bind  binding
}

// rootedRegion lists fn, its closures and - per call chain - the transparent helpers reached from them.
func (p *Program) rootedRegion(fn *ssa.Function) []regionNode {
	var out []regionNode
	var add func(f *ssa.Function, chain []ssa.CallInstruction, bind binding, depth int)
	add = func(f *ssa.Function, chain []ssa.CallInstruction, bind binding, depth int) {
		for _, g := range allFuncsDeep(f) {
			out = append(out, regionNode{g, chain, bind})
			if depth > 3 {
				continue
			}
			eachInstr(g, func(in ssa.Instruction) {
				c, ok := in.(ssa.CallInstruction)
				if !ok {
					return
				}
				callee := c.Common().StaticCallee()
				if callee == nil || !p.isTransparent(callee) {
					return
				}
				nb := binding{}
				for k, v := range bind {
					nb[k] = v
				}
				for idx, par := range callee.Params {
					if a := argAt(c, idx); a != nil {
						nb[par] = bind.subst(a)
					}
				}
				add(callee, append(append([]ssa.CallInstruction{}, chain...), c), nb, depth+1)
			})
		}
	}
	add(fn, nil, binding{}, 0)
	return out
}

// fieldValuesIn: the origins of every value stored into field f within fn's rooted region, with the parameters
// of the helpers on the way (a constructor newT(a, b, …)) replaced by the arguments of that call chain.
func (p *Program) fieldValuesIn(fn *ssa.Function, f *types.Var) []ssa.Value {
	var out []ssa.Value
	for _, n := range p.rootedRegion(fn) {
		n := n
		eachInstr(n.fn, func(in ssa.Instruction) {
			st, ok := in.(*ssa.Store)
			if !ok {
				return
			}
			fa, ok := st.Addr.(*ssa.FieldAddr)
			if !ok || fieldOfAddr(fa) != f {
				return
			}
			out = append(out, p.origins(n.bind.subst(st.Val), originOpts{})...)
		})
	}
	return out
}

// guardedInChain: block b of region node n runs only when a fact satisfying pred holds, established inside its
// function or at one of the call sites of the chain that leads to it from the anchor.
func (p *Program) guardedInChain(n regionNode, b *ssa.BasicBlock, pred func(guardFact) bool) bool {
	local := func(b *ssa.BasicBlock) bool {
		fn := b.Parent()
		if b == fn.Blocks[0] {
			return false
		}
		goodEdge := func(from *ssa.BasicBlock, succ int) bool {
			ifi := blockIf(from)
			if ifi == nil || from.Succs[0] == from.Succs[1] {
				return false
			}
			fs, impossible := p.factsWhen(ifi.Cond, succ == 0)
			if impossible {
				return true
			}
			for _, f := range fs {
				if f.If == nil {
					f.If = ifi
				}
				if pred(f) {
					return true
				}
			}
			return false
		}
		q := pathQuery{fn: fn, target: func(x ssa.Instruction) bool { return x.Block() == b },
			edgeOK: func(from *ssa.BasicBlock, succ int) bool { return !goodEdge(from, succ) }}
		w, _ := q.find()
		return w == nil
	}
	if local(b) {
		return true
	}
	for k := len(n.chain) - 1; k >= 0; k-- {
		if local(n.chain[k].Block()) {
			return true
		}
	}
	return false
}

var _ = types.Typ
