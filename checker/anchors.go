package main

import "golang.org/x/tools/go/ssa"

// anchorTable: the functions of the reviewed tree that rules name (by
// p.Func/p.Method lookups or by callee name). They are never looked through:
// a rule that says "search's verb parameter" means that function's parameter.
// Keys are "Type.method" (pointer and value receivers alike) or "func".
// Program.Func and Program.Method refuse names that are not listed here, so
// the table cannot fall behind the rules.
var anchorTable = map[string]bool{}

func init() {
	for _, n := range []string{
		// serving
		"Mux.ServeHTTP", "Mux.encError", "Mux.serveGRPC", "Mux.serveGRPCWeb", "CodecJSON.Marshal", "CodecJSON.MarshalAppend", "Mux.serveHTTP", "Mux.serveWebsocket",
		"streamGRPC.RecvMsg", "streamGRPC.SendMsg", "streamGRPC.SendHeader", "streamHTTP.SendMsg", "streamHTTP.RecvMsg",
		"streamHTTP.decodeRequestArgs", "streamHTTP.readMsg", "streamHTTP.writeMsg", "streamHTTP.getCodec",
		"streamWS.RecvMsg", "streamWS.SendMsg",
		"webWriter.seeHeaders", "webWriter.writeTrailer", "webWriter.flushWithTrailer", "webWriter.Write", "webWriter.WriteHeader", "webWriter.Flush",
		"AsHTTPBodyReader", "AsHTTPBodyWriter", "negotiateContentType", "negotiateContentEncoding", "expectTokenSlash",
		"newIncomingContext", "setOutgoingHeader", "setOutgoingMetadata", "setOutgoingTrailer",
		"decodeBinHeader", "encodeBinHeader", "decodeTimeout", "timeoutUnit", "encodeGrpcMessage", "growcap",
		// matcher and parameters
		"method.parseQueryParams", "params.set", "parseParam", "path.search", "path.match", "path.findVariable",
		"variable.index", "variables.Less", "tokens.String", "tokens.index", "tokens.indexAny", "isPath", "lexPath",
		"state.match", "state.pickMethodHandler", "ruleSelector.getRules",
		// registration and snapshots
		"Mux.storeState", "Mux.loadState", "path.addPath", "path.addRule", "path.addVariable", "path.delRule", "path.alive", "path.clone",
		"state.clone", "state.appendHandler", "state.removeHandler", "ruleSelector.setRules", "fieldPath", "getExtensionHTTP",
		"muxOptions.stream", "muxOptions.unary", "muxOptions.writeAll",
		"createConnHandler", "NewMux", "NewServer", "HTTPHandlerOption", "ServiceConfigOption",
		"Mux.DropConn", "Mux.RegisterConn", "Mux.RegisterService", "Mux.registerService", "state.addConnHandler",
		"MaxReceiveMessageSizeOption", "MaxSendMessageSizeOption",
		// codec and stream interface implementations looked up by name lists
		"CodecJSON.ReadNext", "CodecProto.ReadNext", "CodecProto.WriteNext", "codecHTTPBody.ReadNext",
		"serverTransportStream.SendHeader", "serverTransportStream.SetHeader", "serverTransportStream.SetTrailer",
		"streamGRPC.Context", "streamGRPC.SetHeader", "streamGRPC.SetTrailer",
		"streamHTTP.Context", "streamHTTP.SendHeader", "streamHTTP.SetHeader", "streamHTTP.SetTrailer",
		"streamWS.Context", "streamWS.SendHeader", "streamWS.SetHeader", "streamWS.SetTrailer",
	} {
		anchorTable[n] = true
	}
}

// anchorKey is the anchorTable key of a function.
func anchorKey(fn *ssa.Function) string {
	for fn.Parent() != nil {
		fn = fn.Parent()
	}
	if recv := fn.Signature.Recv(); recv != nil {
		if n := namedOf(recv.Type()); n != nil {
			return n.Obj().Name() + "." + fn.Name()
		}
	}
	return fn.Name()
}
