package main

import (
	"fmt"
	"go/token"
	"go/types"
	"strings"

	"golang.org/x/tools/go/ssa"
)

// Rules added after the second round of seeded changes.

func init() {
	register(&Rule{Name: "PATH-NORMALISE", Floor: 1,
		Doc: "the request path is changed before matching only by adding a missing leading '/' and trimming one trailing '/' (any other rewriting - cleaning dot segments, collapsing slashes, unescaping, case folding - turns a path no template covers into one that is covered)",
		Run: rulePathNormalise})
	register(&Rule{Name: "PATH-SOURCE", Floor: 2,
		Doc: "the route handed to match (transcoding) and the method name handed to pickMethodHandler (gRPC, gRPC-web) are r.URL.Path - the value http.StripPrefix rewrites under a mount",
		Run: rulePathSource})
	register(&Rule{Name: "POOL-FOREIGN", Floor: 4,
		Doc: "the slice returned to bytesPool is pool memory or a fresh allocation of the function, never memory owned by someone else (a message's bytes): what enters the pool is overwritten by later requests",
		Run: rulePoolForeign})
	register(&Rule{Name: "CLOSE-ONCE", Floor: 2,
		Doc: "a writer whose Close returns it to a pool is closed at most once on any path (explicit Close plus deferred Close puts the same object into the pool twice)",
		Run: ruleCloseOnce})
	register(&Rule{Name: "DELRULE-GUARD", Floor: 2,
		Doc: "delRule prunes a child node only on the edge where the recursive call removed a rule below it and the child is no longer alive",
		Run: ruleDelRuleGuard})
	register(&Rule{Name: "TIMEOUT-CLAMP", Floor: 1,
		Doc: "for every unit whose product with an 8-digit value can overflow int64 (computed from the unit table), the multiplication in decodeTimeout is reached only where the value was compared against a bound <= MaxInt64/unit",
		Run: ruleTimeoutClamp})
	register(&Rule{Name: "STATS-PAYLOAD-EACH", Floor: 3,
		Doc: "in every stream method that emits payload stats events, on the projection where a stats handler is installed every successful return passes the event: no further condition (message size, count) can skip it (a return whose error is not known non-nil counts as a possible success)",
		Run: ruleStatsPayloadEach})
	register(&Rule{Name: "SEL-INSERT", Floor: 1,
		Doc: "setRules appends a rule to a selector node only in the arms where the current component is '*' or the selector is exhausted; a named component only descends",
		Run: ruleSelInsert})
}

// ---------------------------------------------------------------------------

func isURLPathLoad(v ssa.Value) bool {
	f := loadedField(v)
	return f != nil && f.Name() == "Path" && f.Pkg() != nil && f.Pkg().Path() == "net/url"
}

func rulePathNormalise(r *Run) {
	p := r.P
	n := 0
	for _, fn := range p.ModuleFuncs() {
		eachInstr(fn, func(in ssa.Instruction) {
			st, ok := in.(*ssa.Store)
			if !ok {
				return
			}
			fa, ok := st.Addr.(*ssa.FieldAddr)
			if !ok {
				return
			}
			f := fieldOfAddr(fa)
			if f.Name() != "Path" || f.Pkg() == nil || f.Pkg().Path() != "net/url" {
				return
			}
			n++
			key := fmt.Sprintf("%s/URL.Path-rewrite#%d", shortFunc(fn), n)
			good, what := true, ""
			var walk func(v ssa.Value, d int)
			walk = func(v ssa.Value, d int) {
				if d > 6 {
					good = false
					return
				}
				for _, o := range p.origins(v, originOpts{}) {
					switch x := o.(type) {
					case *ssa.BinOp:
						// "/" + path
						if x.Op == token.ADD {
							if s, ok := constString(x.X); ok && s == "/" {
								walk(x.Y, d+1)
								continue
							}
						}
						good, what = false, "string expression "+x.String()
					case *ssa.Call:
						switch calleeName(x) {
						case "strings.TrimSuffix":
							if s, ok := constString(x.Call.Args[1]); ok && s == "/" {
								walk(x.Call.Args[0], d+1)
								continue
							}
							good, what = false, "strings.TrimSuffix with another suffix"
						default:
							good, what = false, "call "+shortName(calleeName(x))
						}
					case *ssa.UnOp:
						if !isURLPathLoad(x) {
							good, what = false, describeValue(x)
						}
					default:
						good, what = false, describeValue(o)
					}
				}
			}
			walk(st.Val, 0)
			r.check(good, key, in.Pos(), "only a leading '/' is added or one trailing '/' trimmed",
				"the request path is rewritten with "+what+" before matching: the matcher no longer sees the request's path (dot segments, empty segments, escapes or case are altered), so requests reach methods whose templates do not cover the path that was sent, and captures do not hold the request's text")
		})
	}
	if n == 0 {
		r.ok("URL.Path", token.NoPos, "the module never rewrites r.URL.Path")
	}
}

func rulePathSource(r *Run) {
	p := r.P
	for _, spec := range []struct {
		fn, callee string
		arg        int
		what       string
	}{
		{"serveHTTP", nMatch, 1, "route handed to match"},
		{"serveGRPC", "(*larking.io/larking.state).pickMethodHandler", 1, "method name handed to pickMethodHandler"},
	} {
		fn := p.Method("Mux", spec.fn)
		if fn == nil {
			r.missing("method (*Mux)." + spec.fn)
			continue
		}
		n := 0
		eachInstr(fn, func(in ssa.Instruction) {
			if !isCall(in, spec.callee) {
				return
			}
			c := in.(ssa.CallInstruction)
			n++
			good, what := true, ""
			for _, o := range p.origins(c.Common().Args[spec.arg], originOpts{}) {
				if isURLPathLoad(o) {
					continue
				}
				// serveHTTP's pickMethodHandler uses method.name from the matched rule: other call sites are not judged here
				good, what = false, describeValue(o)
				if f := loadedField(o); f != nil {
					what = "field " + f.Name()
				}
			}
			r.check(good, "(*Mux)."+spec.fn+"/"+strings.ReplaceAll(spec.what, " ", "-"), in.Pos(), "the "+spec.what+" is r.URL.Path",
				"the "+spec.what+" is "+what+", not r.URL.Path: under a mount prefix http.StripPrefix rewrites only URL.Path, so the prefixed request is not served like the bare path")
		})
		if n == 0 {
			r.undecided("(*Mux)."+spec.fn+"/path-source", fn.Pos(), "call not found")
		}
	}
}

// ---------------------------------------------------------------------------
// POOL-FOREIGN
// ---------------------------------------------------------------------------

func rulePoolForeign(r *Run) {
	p := r.P
	ta := &taintAnalysis{p: p, memo: map[string]*taintSummary{}}
	n := 0
	for _, g := range p.poolSites("Get") {
		v, t := g.val, g.typ
		if v == nil || typeString(t) != "*[]byte" {
			continue
		}
		n++
		key := fmt.Sprintf("%s/returned-to-pool#%d", shortFunc(g.fn), n)
		// the local variable holding the working slice: the cell into which (*bp)[:0] is stored
		var cell *ssa.Alloc
		for _, use := range p.usesThroughCells(v) {
			u, ok := use.(*ssa.UnOp)
			if !ok || u.Op != token.MUL {
				continue
			}
			for _, ref := range *u.Referrers() {
				sl, ok := ref.(*ssa.Slice)
				if !ok {
					continue
				}
				for _, r2 := range *sl.Referrers() {
					if st, ok := r2.(*ssa.Store); ok && st.Val == ssa.Value(sl) {
						if al, ok := p.cellRoot(st.Addr).(*ssa.Alloc); ok {
							cell = al
						}
					}
				}
			}
		}
		// … or the slice an accessor hands out next to the box (bp, b := getBytes())
		accVals, _, _ := p.accessorSlices(g)
		for _, av := range accVals {
			if av.Referrers() == nil {
				continue
			}
			for _, ref := range *av.Referrers() {
				if st, ok := ref.(*ssa.Store); ok && st.Val == av {
					if al, ok := p.cellRoot(st.Addr).(*ssa.Alloc); ok {
						cell = al
					}
				}
			}
		}
		if cell == nil {
			r.undecided(key, g.call.Pos(), "could not identify the variable that holds the pooled slice")
			continue
		}
		// is the cell what goes back into the box? (the store may sit in a put helper: putBytes(bp, b, max))
		back := false
		for _, fn := range p.region(g.fn) {
			eachInstr(fn, func(in ssa.Instruction) {
				st, ok := in.(*ssa.Store)
				if !ok || !p.isPoolBox(st.Addr) {
					return
				}
				isCellLoad := func(v ssa.Value) bool {
					u, ok := v.(*ssa.UnOp)
					return ok && u.Op == token.MUL && p.cellRoot(u.X) == ssa.Value(cell)
				}
				if isCellLoad(st.Val) {
					back = true
				}
				if par, ok := st.Val.(*ssa.Parameter); ok && p.isTransparent(par.Parent()) {
					for _, b := range p.bindings(par.Parent()) {
						if isCellLoad(b.subst(par)) {
							back = true
						}
					}
				}
				// … or the cell's address was handed to the helper (defer putBytes(bp, &b, &s.opts): *bp = *b)
				if u, ok := st.Val.(*ssa.UnOp); ok && u.Op == token.MUL {
					if par, ok := u.X.(*ssa.Parameter); ok && p.isTransparent(par.Parent()) {
						for _, b := range p.bindings(par.Parent()) {
							if a := b.subst(par); a == ssa.Value(cell) || p.cellRoot(a) == ssa.Value(cell) {
								back = true
							}
						}
					}
				}
			})
		}
		if !back {
			r.ok(key, g.call.Pos(), "the working slice is not written back into the pool box")
			continue
		}
		// every store into the cell: pool-derived (tainted), a fresh make, or nil
		var seeds []ssa.Value
		for _, use := range p.usesThroughCells(v) {
			if u, ok := use.(*ssa.UnOp); ok && u.Op == token.MUL {
				seeds = append(seeds, u)
			}
		}
		seeds = append(seeds, accVals...)
		tainted := ta.taintedValues(g.fn, seeds)
		bad := false
		for _, st := range p.cellStores(cell) {
			val := st.Val
			if tainted[val] || isNilConst(val) {
				continue
			}
			fresh := true
			for _, o := range p.origins(val, originOpts{throughSlice: true}) {
				switch o.(type) {
				case *ssa.MakeSlice:
				default:
					if !tainted[o] && !isNilConst(o) {
						fresh = false
					}
				}
			}
			if fresh {
				continue
			}
			bad = true
			r.bad(key, st.Pos(), "the variable that is written back into the pool box is assigned %s, memory that is neither from the pool nor freshly made here: the owner's bytes (e.g. a reply message's data) end up in the pool and are overwritten by later requests", describeValue(val))
		}
		if !bad {
			r.ok(key, g.call.Pos(), "everything assigned to the pooled variable is pool memory, a fresh make or nil")
		}
	}
	if n == 0 {
		r.undecided("bytesPool", token.NoPos, "no Get of *[]byte found")
	}
}

// taintedValues runs the escape analysis' propagation and returns the tainted value set of fn's tree.
func (t *taintAnalysis) taintedValues(fn *ssa.Function, seeds []ssa.Value) map[ssa.Value]bool {
	p := t.p
	tainted := map[ssa.Value]bool{}
	cells := map[ssa.Value]bool{}
	for _, s := range seeds {
		tainted[s] = true
	}
	funcs := allFuncsDeep(fn)
	for changed := true; changed; {
		changed = false
		mark := func(v ssa.Value) {
			if v != nil && !tainted[v] {
				tainted[v] = true
				changed = true
			}
		}
		for _, g := range funcs {
			eachInstr(g, func(in ssa.Instruction) {
				switch x := in.(type) {
				case *ssa.Slice:
					if tainted[x.X] {
						mark(x)
					}
				case *ssa.Phi:
					for _, e := range x.Edges {
						if tainted[e] {
							mark(x)
						}
					}
				case *ssa.UnOp:
					if x.Op == token.MUL && cells[p.cellRoot(x.X)] {
						mark(x)
					}
				case *ssa.Store:
					if tainted[x.Val] {
						root := p.cellRoot(x.Addr)
						if _, ok := root.(*ssa.Alloc); ok && !cells[root] {
							cells[root] = true
							changed = true
						}
					}
				case *ssa.Extract:
					if c, ok := x.Tuple.(*ssa.Call); ok {
						anyT := false
						var tp []int
						for i, a := range c.Call.Args {
							if tainted[a] {
								anyT = true
								tp = append(tp, i)
							}
						}
						if !anyT {
							return
						}
						if callee := staticCallee(c); callee != nil && p.InModule(callee) {
							cs := t.analyze(callee, tp, nil, 1)
							if cs.resultTainted[x.Index] {
								mark(x)
							}
							return
						}
						if _, aliases := taintSafeCallee(c); aliases && x.Index == 0 {
							mark(x)
						}
					}
				case *ssa.Call:
					if b, ok := x.Call.Value.(*ssa.Builtin); ok && b.Name() == "append" {
						if tainted[x.Call.Args[0]] {
							mark(x)
						}
						return
					}
					anyT := false
					for _, a := range x.Call.Args {
						if tainted[a] {
							anyT = true
						}
					}
					if !anyT {
						return
					}
					if _, aliases := taintSafeCallee(x); aliases && x.Type() != nil {
						if _, isTuple := x.Type().(*types.Tuple); !isTuple {
							mark(x)
						}
					}
				}
			})
		}
	}
	return tainted
}

// ---------------------------------------------------------------------------
// CLOSE-ONCE
// ---------------------------------------------------------------------------

// poolReturningClose: Close methods of module types that Put into a sync.Pool.
func (p *Program) poolReturningCloseTypes() map[string]bool {
	out := map[string]bool{}
	for _, fn := range p.ModuleFuncs() {
		if fn.Name() != "Close" || fn.Signature.Recv() == nil {
			continue
		}
		puts := false
		eachInstr(fn, func(in ssa.Instruction) {
			if c, ok := in.(ssa.CallInstruction); ok && p.isPoolPut(c) {
				puts = true
			}
		})
		if puts {
			out[typeString(fn.Signature.Recv().Type())] = true
		}
	}
	return out
}

func ruleCloseOnce(r *Run) {
	p := r.P
	prc := p.poolReturningCloseTypes()
	if len(prc) == 0 {
		r.ok("pool-returning Close", token.NoPos, "no Close method of the module returns its receiver to a pool")
		r.ok("pool-returning Close/2", token.NoPos, "nothing to check")
		return
	}
	n := 0
	for _, fn := range p.ModuleFuncs() {
		// values obtained from Compressor.Compress (the producers of pooled writers)
		eachInstr(fn, func(in ssa.Instruction) {
			c, ok := in.(*ssa.Call)
			if !ok || !c.Common().IsInvoke() || c.Common().Method.Name() != "Compress" {
				return
			}
			w := extractOf(c, 0)
			if w == nil {
				return
			}
			n++
			key := fmt.Sprintf("%s/writer-closed-once#%d", shortFunc(fn), n)
			var closes []ssa.Instruction
			for _, use := range p.usesThroughCells(w) {
				if cc, ok := use.(ssa.CallInstruction); ok && cc.Common().IsInvoke() && cc.Common().Method.Name() == "Close" {
					closes = append(closes, use)
				}
			}
			twice := false
			for _, a := range closes {
				for _, b := range closes {
					if a == b {
						continue
					}
					_, aDef := a.(*ssa.Defer)
					_, bDef := b.(*ssa.Defer)
					switch {
					case aDef && !bDef:
						// the deferred one runs at exit after b if the defer statement executed before b
						if w, _ := (pathQuery{fn: fn, start: a, target: func(x ssa.Instruction) bool { return x == b }}).find(); w != nil {
							twice = true
						}
					case !aDef && !bDef:
						if w, _ := (pathQuery{fn: fn, start: a, target: func(x ssa.Instruction) bool { return x == b }}).find(); w != nil {
							twice = true
						}
					}
				}
			}
			r.check(!twice, key, in.Pos(), fmt.Sprintf("the compressor's writer is closed at most once on any path (%d Close site(s)); Close returns pooled writers (%v) to their pool", len(closes), keysOfBool(prc)),
				"the writer obtained from Compress is closed twice on one path (an explicit Close and a deferred one): its Close returns a pooled gzip writer to the pool, so the same writer is handed to two later requests at once (corrupted frames, data race)")
		})
	}
	if n == 0 {
		r.undecided("Compress results", token.NoPos, "no Compressor.Compress call found")
	}
}

func keysOfBool(m map[string]bool) []string {
	var out []string
	for k := range m {
		out = append(out, k)
	}
	return out
}

// ---------------------------------------------------------------------------
// DELRULE-GUARD
// ---------------------------------------------------------------------------

func ruleDelRuleGuard(r *Run) {
	p := r.P
	e := p.Effects()
	fn := p.Method("path", "delRule")
	if fn == nil {
		r.missing("method (*path).delRule")
		return
	}
	// recursive calls and their results
	var recs []*ssa.Call
	eachInstr(fn, func(in ssa.Instruction) {
		if c, ok := in.(*ssa.Call); ok && calleeName(c) == "(*larking.io/larking.path).delRule" {
			recs = append(recs, c)
		}
	})
	n := 0
	for _, w := range e.OwnWrites(fn) {
		if w.Target() != "path.segments" && w.Target() != "path.variables" {
			continue
		}
		if w.Kind != "delete" && w.Kind != "append-inplace" {
			continue
		}
		n++
		key := fmt.Sprintf("(*path).delRule/prune:%s", w.Target())
		okGuard, aliveGuard := false, false
		for _, g := range guardsOf(w.Instr.Block()) {
			for _, rc := range recs {
				if g.Cond == ssa.Value(rc) && g.True {
					okGuard = true
				}
			}
			if c, ok := g.Cond.(*ssa.Call); ok && calleeName(c) == "(*larking.io/larking.path).alive" && !g.True {
				aliveGuard = true
			}
		}
		r.check(okGuard && aliveGuard, key, w.Instr.Pos(), "a child is pruned only where a rule was removed below it and it is no longer alive",
			fmt.Sprintf("a child node is pruned without both conditions (rule removed below: %v, not alive: %v): nodes that merely look dead (e.g. holding only a '*' binding, which alive() does not count) are deleted while walking past them, and routes of methods that are still registered answer 404", okGuard, aliveGuard))
	}
	if n == 0 {
		r.undecided("(*path).delRule/prune", fn.Pos(), "no pruning write found in delRule")
	}
}

// ---------------------------------------------------------------------------
// TIMEOUT-CLAMP
// ---------------------------------------------------------------------------

func ruleTimeoutClamp(r *Run) {
	p := r.P
	fn := p.Func("decodeTimeout")
	fd := p.FuncDecl("", "timeoutUnit")
	if fn == nil || fd == nil {
		r.missing("funcs decodeTimeout / timeoutUnit")
		return
	}
	units, _, err := p.byteFuncTable("timeoutUnit", fd)
	if err != nil {
		r.undecided("decodeTimeout/overflow", fn.Pos(), "unit table not evaluable: %v", err)
		return
	}
	const maxDigitsValue = 99999999 // 8 digits (UNIT-TABLE checks the length bounds)
	const maxInt64 = int64(^uint64(0) >> 1)
	var parse *ssa.Call
	var unitCall *ssa.Call
	eachInstr(fn, func(in ssa.Instruction) {
		if c, ok := in.(*ssa.Call); ok {
			switch calleeName(c) {
			case "strconv.ParseInt", "strconv.ParseUint", "strconv.Atoi":
				parse = c
			case "larking.io/larking.timeoutUnit":
				unitCall = c
			}
		}
	})
	if parse == nil || unitCall == nil {
		r.undecided("decodeTimeout/overflow", fn.Pos(), "parse / unit lookup not found")
		return
	}
	tval := extractOf(parse, 0)
	var mul *ssa.BinOp
	eachInstr(fn, func(in ssa.Instruction) {
		bo, ok := in.(*ssa.BinOp)
		if !ok || bo.Op != token.MUL {
			return
		}
		a, b := p.stripConvAll(bo.X), p.stripConvAll(bo.Y)
		if (a == tval && b == ssa.Value(unitCall)) || (b == tval && a == ssa.Value(unitCall)) {
			mul = bo
		}
	})
	if mul == nil {
		r.undecided("decodeTimeout/overflow", fn.Pos(), "the value*unit multiplication was not found")
		return
	}
	n := 0
	for ch, u := range units {
		if u <= 0 || maxDigitsValue <= maxInt64/u {
			continue // cannot overflow with 8 digits
		}
		n++
		bound := maxInt64 / u
		key := fmt.Sprintf("decodeTimeout/overflow-guard[%q]", rune(ch))
		// under d == u, every path to the multiplication passes the accepting edge of a test t > K (K <= bound)
		q := pathQuery{fn: fn, target: func(x ssa.Instruction) bool { return x == ssa.Instruction(mul) },
			edgeOK: func(b *ssa.BasicBlock, succ int) bool {
				ifi := blockIf(b)
				if ifi == nil {
					return true
				}
				bo, ok := ifi.Cond.(*ssa.BinOp)
				if !ok {
					return true
				}
				x, y := p.stripConvAll(bo.X), p.stripConvAll(bo.Y)
				// unit test: d == const
				if x == ssa.Value(unitCall) {
					if k, ok := constInt(bo.Y); ok && bo.Op == token.EQL {
						if k == u {
							return succ == 0
						}
						return succ == 1
					}
				}
				// value test: t > K / t >= K with K within the bound: the accepting (false) edge establishes the bound
				if x == tval {
					if k, ok := constInt(y); ok && k <= bound+1 {
						switch bo.Op {
						case token.GTR:
							if k <= bound && succ == 1 {
								return false
							}
						case token.GEQ:
							if k <= bound+1 && succ == 1 {
								return false
							}
						case token.LEQ:
							if k <= bound && succ == 0 {
								return false
							}
						case token.LSS:
							if k <= bound+1 && succ == 0 {
								return false
							}
						}
					}
				}
				return true
			}}
		if w, _ := q.find(); w != nil {
			r.bad(key, mul.Pos(), "with unit %q an 8-digit value can exceed MaxInt64/unit = %d, and the multiplication is reachable without a prior comparison of the value against that bound: the product wraps (a wrap back into the positive range yields a small wrong deadline, which a check after the multiplication cannot see)", rune(ch), bound)
		} else {
			r.ok(key, mul.Pos(), "the value is compared against <= %d before it is multiplied by unit %q", bound, rune(ch))
		}
	}
	if n == 0 {
		r.ok("decodeTimeout/overflow-guard", fn.Pos(), "no unit can overflow with 8 digits")
	}
}

// ---------------------------------------------------------------------------
// STATS-PAYLOAD-EACH
// ---------------------------------------------------------------------------

func ruleStatsPayloadEach(r *Run) {
	p := r.P
	n := 0
	for _, fn := range p.ModuleFuncs() {
		var ev ssa.Instruction
		evName := ""
		eachInstr(fn, func(in ssa.Instruction) {
			if e, _ := statsEvent(in); e == "OutPayload" || e == "InPayload" {
				ev, evName = in, e
			}
		})
		if ev == nil {
			continue
		}
		n++
		key := shortFunc(fn) + "/" + evName + "-on-every-success"
		proj := p.statsProjection(fn)
		ei := errResultIndex(fn)
		var hit ssa.Instruction
		q := pathQuery{fn: fn, edgeOK: proj, barrier: func(x ssa.Instruction) bool { return x == ev },
			target: func(x ssa.Instruction) bool {
				rt, ok := x.(*ssa.Return)
				if !ok || ei < 0 {
					return false
				}
				// a return that can carry a nil error: the nil constant, or an error value that is not known to be
				// non-nil here (`return err` right after `_, err := write(…)` succeeds whenever the write does)
				mayBeNil := false
				knownNonNil := func(o ssa.Value) bool {
					for _, g := range guardsOf(rt.Block()) {
						a, b, op, ok := g.cmp()
						if ok && op == token.NEQ && isNilConst(b) && (a == o || p.sameValue(a, o)) {
							return true
						}
					}
					return false
				}
				for _, o := range p.origins(rt.Results[ei], originOpts{local: true}) {
					if isNilConst(o) {
						mayBeNil = true
						continue
					}
					if knownNonNil(o) {
						continue
					}
					// through helpers: what the value can be (a helper that passes a non-nil error on, or wraps it)
					for _, d := range p.origins(o, originOpts{}) {
						switch {
						case isNilConst(d):
							mayBeNil = true
						case isFreshError(d), knownNonNil(d):
						default:
							mayBeNil = true
						}
					}
				}
				if !mayBeNil {
					return false
				}
				hit = x
				return true
			}}
		if w, _ := q.find(); w != nil {
			r.bad(key, hit.Pos(), "with a stats handler installed a successful return of %s is reachable without the %s event (%s): some messages (by size, count or another condition) are delivered without their payload event", shortFunc(fn), evName, p.describePath(w))
		} else {
			r.ok(key, ev.Pos(), "on the stats projection every successful return passes the %s event", evName)
		}
	}
	if n == 0 {
		r.undecided("payload events", token.NoPos, "no function emitting payload stats events found")
	}
}

// ---------------------------------------------------------------------------
// SEL-INSERT
// ---------------------------------------------------------------------------

func ruleSelInsert(r *Run) {
	p := r.P
	e := p.Effects()
	top := p.Method("ruleSelector", "setRules")
	if top == nil {
		r.missing("method (*ruleSelector).setRules")
		return
	}
	n := 0
	// setRules, its closures and the module functions it calls statically (the insertion may be a recursive
	// closure or a recursive method). Each list of the node is filled under one arm only: the rules of selectors
	// ending in '*' and the rules of selectors ending at the node are kept apart (getRules treats them differently)
	armsOf := map[string]map[string]bool{}
	for _, fn := range p.staticReach(top) {
		for _, w := range e.AllWrites(fn) {
			if !strings.HasPrefix(w.Target(), "ruleSelector.") || w.Kind != "append" {
				continue
			}
			if w.Target() == "ruleSelector.path" {
				continue
			}
			n++
			key := fmt.Sprintf("%s/rule-stored#%d", shortFunc(fn), n)
			arm := ""
			found := false
			// reached only when tag == "*" or tag == "" where tag is the first result of strings.Cut(selector, ".")
			good := p.guardedInEveryContext(w.Instr.Block(), func(g guardFact) bool {
				x, y, op, ok := g.cmp()
				if !ok || op != token.EQL {
					return false
				}
				s, isC := constString(y)
				if !isC || (s != "*" && s != "") {
					return false
				}
				if ex, ok := x.(*ssa.Extract); ok && ex.Index == 0 {
					if c, ok := ex.Tuple.(*ssa.Call); ok && calleeName(c) == "strings.Cut" {
						if !found {
							arm, found = s, true
						}
						return true
					}
				}
				return false
			})
			// which single arm? (a merged `case "*", "":` establishes neither on its own)
			single := func(want string) bool {
				return p.guardedInEveryContext(w.Instr.Block(), func(g guardFact) bool {
					x, y, op, ok := g.cmp()
					if !ok || op != token.EQL {
						return false
					}
					s, isC := constString(y)
					if !isC || s != want {
						return false
					}
					ex, ok := x.(*ssa.Extract)
					return ok && ex.Index == 0
				})
			}
			if armsOf[w.Target()] == nil {
				armsOf[w.Target()] = map[string]bool{}
			}
			switch {
			case single("*"):
				armsOf[w.Target()]["*"] = true
			case single(""):
				armsOf[w.Target()]["exact"] = true
			default:
				armsOf[w.Target()]["*"] = true
				armsOf[w.Target()]["exact"] = true
			}
			_ = arm
			r.check(good, key, w.Instr.Pos(), "the rule is stored on the node reached when the current component is '*' or the selector is exhausted",
				"a rule is appended to a selector node outside the arms `component == \"*\"` / `component == \"\"`: a wildcard like pkg.Service.* is stored one level too high and binds sibling services (or every package)")
		}
	}
	for tgt, arms := range armsOf {
		r.check(!(arms["*"] && arms["exact"]), "setRules/kinds-kept-apart:"+tgt, top.Pos(), "the list holds the rules of one kind of selector only (ending in '*', or ending at the node)",
			"rules of selectors that end in '*' and of selectors that end at the node are appended to the same list ("+tgt+"): lookup can no longer tell them apart - an exact selector `pkg.Svc` then binds every method below it like `pkg.Svc.*`, and `pkg.Svc.M.*` binds pkg.Svc.M itself")
	}
	if n == 0 {
		r.undecided("setRules/rule-stored", top.Pos(), "no append to ruleSelector.rules found")
	}
}
