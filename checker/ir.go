package main

import (
	"fmt"
	"go/constant"
	"go/token"
	"go/types"
	"sort"
	"strings"

	"golang.org/x/tools/go/callgraph"
	"golang.org/x/tools/go/ssa"
)

// ---------------------------------------------------------------------------
// Callee identification (always through types.Object / SSA, never source text)
// ---------------------------------------------------------------------------

// calleeName returns a stable full name for the callee of a call instruction:
//
//	static function/method: types.Func.FullName(), e.g. "(*larking.io/larking.Mux).storeState"
//	closure:                ssa name, e.g. "larking.io/larking.createConnHandler$1"
//	interface invoke:       declaring interface method, e.g. "(google.golang.org/grpc.ServerStream).RecvMsg"
//	builtin:                "builtin.append"
//	anything else:          "dynamic"
func calleeName(c ssa.CallInstruction) string {
	cc := c.Common()
	if cc.IsInvoke() {
		return cc.Method.FullName()
	}
	switch v := cc.Value.(type) {
	case *ssa.Function:
		return funcName(v)
	case *ssa.Builtin:
		return "builtin." + v.Name()
	case *ssa.MakeClosure:
		if fn, ok := v.Fn.(*ssa.Function); ok {
			return funcName(fn)
		}
	}
	return "dynamic"
}

func funcName(fn *ssa.Function) string {
	if fn == nil {
		return "<nil>"
	}
	if obj, ok := fn.Object().(*types.Func); ok && obj != nil {
		return obj.FullName()
	}
	if o := fn.Origin(); o != nil && o != fn {
		return funcName(o)
	}
	return fn.String()
}

// shortFunc renders a function name without the module path, for construct keys.
func shortFunc(fn *ssa.Function) string {
	s := funcName(fn)
	s = strings.ReplaceAll(s, larkPath+".", "")
	s = strings.ReplaceAll(s, healthPath+".", "health.")
	return s
}

func shortName(full string) string {
	full = strings.ReplaceAll(full, larkPath+".", "")
	full = strings.ReplaceAll(full, "google.golang.org/", "")
	return full
}

func staticCallee(c ssa.CallInstruction) *ssa.Function {
	cc := c.Common()
	if cc.IsInvoke() {
		return nil
	}
	switch v := cc.Value.(type) {
	case *ssa.Function:
		return v
	case *ssa.MakeClosure:
		fn, _ := v.Fn.(*ssa.Function)
		return fn
	}
	return nil
}

// isCall reports whether instr is a call (call/go/defer) of one of the named callees.
func isCall(instr ssa.Instruction, names ...string) bool {
	c, ok := instr.(ssa.CallInstruction)
	if !ok {
		return false
	}
	n := calleeName(c)
	for _, x := range names {
		if n == x {
			return true
		}
	}
	return false
}

// callArgs returns the arguments including the receiver for static method
// calls (ssa already puts the receiver first) and excluding it for invokes.
func callArgs(c ssa.CallInstruction) []ssa.Value { return c.Common().Args }

// calledField returns the struct field a dynamic call's function value was
// loaded from (e.g. hd.handler(...) -> field handler.handler), or nil.
func calledField(c ssa.CallInstruction) *types.Var {
	cc := c.Common()
	if cc.IsInvoke() {
		return nil
	}
	return loadedField(cc.Value)
}

// loadedField: if v is (a copy of) a load `*(&x.f)` or a Field extraction,
// return the field f.
func loadedField(v ssa.Value) *types.Var {
	switch x := v.(type) {
	case *ssa.UnOp:
		if x.Op == token.MUL {
			if fa, ok := x.X.(*ssa.FieldAddr); ok {
				return fieldOfAddr(fa)
			}
		}
	case *ssa.Field:
		st := x.X.Type().Underlying().(*types.Struct)
		return st.Field(x.Field)
	case *ssa.ChangeType:
		return loadedField(x.X)
	}
	return nil
}

func fieldOfAddr(fa *ssa.FieldAddr) *types.Var {
	pt, ok := fa.X.Type().Underlying().(*types.Pointer)
	if !ok {
		return nil
	}
	st, ok := pt.Elem().Underlying().(*types.Struct)
	if !ok {
		return nil
	}
	return st.Field(fa.Field)
}

// fieldKey renders a field as "Type.field" where Type is the named struct that declares it.
func (p *Program) fieldKey(f *types.Var) string {
	if f == nil {
		return "<nil>"
	}
	owner := p.fieldOwner(f)
	if owner == "" {
		return "?." + f.Name()
	}
	return owner + "." + f.Name()
}

func (p *Program) fieldOwner(f *types.Var) string {
	if p.fieldOwnerCache == nil {
		fieldOwnerCache := map[*types.Var]string{}
		p.fieldOwnerCache = fieldOwnerCache
		for _, pk := range p.ByPath {
			if pk.Types == nil {
				continue
			}
			sc := pk.Types.Scope()
			for _, n := range sc.Names() {
				tn, ok := sc.Lookup(n).(*types.TypeName)
				if !ok {
					continue
				}
				st, ok := tn.Type().Underlying().(*types.Struct)
				if !ok {
					continue
				}
				name := tn.Name()
				if pk.PkgPath != larkPath {
					name = pk.Types.Name() + "." + name
				}
				for i := 0; i < st.NumFields(); i++ {
					if _, dup := fieldOwnerCache[st.Field(i)]; !dup {
						fieldOwnerCache[st.Field(i)] = name
					}
				}
			}
		}
	}
	return p.fieldOwnerCache[f]
}

// ---------------------------------------------------------------------------
// Dominance
// ---------------------------------------------------------------------------

func instrIndex(in ssa.Instruction) int {
	for i, x := range in.Block().Instrs {
		if x == in {
			return i
		}
	}
	return -1
}

// instrDominates: every path from entry to b passes through a (same function).
func instrDominates(a, b ssa.Instruction) bool {
	if a.Parent() != b.Parent() {
		return false
	}
	if a.Block() == b.Block() {
		return instrIndex(a) < instrIndex(b)
	}
	return a.Block().Dominates(b.Block())
}

// edgeDominates reports whether taking successor `succ` (0 = true, 1 = false)
// of the If ending block `ifb` is implied at block `target`: every CFG path
// from the function entry to target traverses that edge. This is what
// separates `if ok {…}` from `if ok || other {…}`: in the latter the body is
// also entered through the second test.
func edgeDominates(ifb *ssa.BasicBlock, succ int, target *ssa.BasicBlock) bool {
	return edgeDominatesUnder(ifb, succ, target, nil)
}

// edgeDominatesUnder is edgeDominates on the CFG restricted to feasible edges.
func edgeDominatesUnder(ifb *ssa.BasicBlock, succ int, target *ssa.BasicBlock, edgeOK func(*ssa.BasicBlock, int) bool) bool {
	if succ >= len(ifb.Succs) {
		return false
	}
	if len(ifb.Succs) == 2 && ifb.Succs[0] == ifb.Succs[1] {
		return false // the edge carries no information
	}
	fn := ifb.Parent()
	// target must be reachable at all, and unreachable once the edge is removed
	reach := func(skip bool) bool {
		seen := map[*ssa.BasicBlock]bool{fn.Blocks[0]: true}
		queue := []*ssa.BasicBlock{fn.Blocks[0]}
		for len(queue) > 0 {
			b := queue[0]
			queue = queue[1:]
			if b == target {
				return true
			}
			for i, s := range b.Succs {
				if skip && b == ifb && i == succ {
					continue
				}
				if edgeOK != nil && !edgeOK(b, i) {
					continue
				}
				if !seen[s] {
					seen[s] = true
					queue = append(queue, s)
				}
			}
		}
		return false
	}
	if target == fn.Blocks[0] {
		return false
	}
	return reach(false) && !reach(true)
}

// blockIf returns the If terminating b, or nil.
func blockIf(b *ssa.BasicBlock) *ssa.If {
	if len(b.Instrs) == 0 {
		return nil
	}
	i, _ := b.Instrs[len(b.Instrs)-1].(*ssa.If)
	return i
}

// guardFacts lists, for a target block, all (condition value, polarity) pairs
// that are implied by edge dominance. Short-circuit conditions appear as
// chains of Ifs and are handled naturally by the CFG.
type guardFact struct {
	Cond ssa.Value
	True bool
	If   *ssa.If
}

func guardsOf(target *ssa.BasicBlock) []guardFact { return guardsOfUnder(target, nil) }

// cmp returns the comparison a guard establishes in normal form: the operator
// as it holds on this edge (negated on the false edge) with a constant operand,
// if any, on the right. `if n != 0 { return }` and `if n == 0 { … }` both give
// (n, ==, 0) for the code that runs when n is zero.
func (g guardFact) cmp() (x, y ssa.Value, op token.Token, ok bool) {
	bo, isB := g.Cond.(*ssa.BinOp)
	if !isB {
		return nil, nil, 0, false
	}
	op = bo.Op
	if !g.True {
		switch op {
		case token.EQL:
			op = token.NEQ
		case token.NEQ:
			op = token.EQL
		case token.LSS:
			op = token.GEQ
		case token.GEQ:
			op = token.LSS
		case token.GTR:
			op = token.LEQ
		case token.LEQ:
			op = token.GTR
		default:
			return nil, nil, 0, false
		}
	}
	x, y = bo.X, bo.Y
	if _, xc := x.(*ssa.Const); xc {
		if _, yc := y.(*ssa.Const); !yc {
			x, y = y, x
			switch op {
			case token.LSS:
				op = token.GTR
			case token.GTR:
				op = token.LSS
			case token.LEQ:
				op = token.GEQ
			case token.GEQ:
				op = token.LEQ
			}
		}
	}
	switch op {
	case token.EQL, token.NEQ, token.LSS, token.LEQ, token.GTR, token.GEQ:
		return x, y, op, true
	}
	return nil, nil, 0, false
}

func guardsOfUnder(target *ssa.BasicBlock, edgeOK func(*ssa.BasicBlock, int) bool) []guardFact {
	var out []guardFact
	fn := target.Parent()
	for _, b := range fn.Blocks {
		ifi := blockIf(b)
		if ifi == nil {
			continue
		}
		if edgeDominatesUnder(b, 0, target, edgeOK) {
			out = append(out, guardFact{ifi.Cond, true, ifi})
		}
		if edgeDominatesUnder(b, 1, target, edgeOK) {
			out = append(out, guardFact{ifi.Cond, false, ifi})
		}
	}
	return out
}

// ---------------------------------------------------------------------------
// Path search with barriers and infeasible-edge filtering
// ---------------------------------------------------------------------------

type pathQuery struct {
	fn *ssa.Function
	// start: the search begins just after this instruction; nil = function entry.
	start ssa.Instruction
	// target: stop successfully on the first instruction satisfying it.
	target func(ssa.Instruction) bool
	// barrier: a path passing such an instruction is cut.
	barrier func(ssa.Instruction) bool
	// edgeOK filters CFG edges (nil = all feasible).
	edgeOK func(from *ssa.BasicBlock, succIdx int) bool
}

// find returns the list of blocks of a witness path (nil if none) and the
// target instruction reached.
func (q pathQuery) find() ([]*ssa.BasicBlock, ssa.Instruction) {
	type node struct {
		b    *ssa.BasicBlock
		prev *node
	}
	scan := func(b *ssa.BasicBlock, from int) (hit ssa.Instruction, cut bool) {
		for i := from; i < len(b.Instrs); i++ {
			in := b.Instrs[i]
			if q.target != nil && q.target(in) {
				return in, false
			}
			if q.barrier != nil && q.barrier(in) {
				return nil, true
			}
		}
		return nil, false
	}
	witness := func(n *node) []*ssa.BasicBlock {
		var out []*ssa.BasicBlock
		for ; n != nil; n = n.prev {
			out = append([]*ssa.BasicBlock{n.b}, out...)
		}
		return out
	}
	if len(q.fn.Blocks) == 0 {
		return nil, nil
	}
	var queue []*node
	visited := map[*ssa.BasicBlock]bool{}
	pushSuccs := func(n *node) {
		for i, s := range n.b.Succs {
			if q.edgeOK != nil && !q.edgeOK(n.b, i) {
				continue
			}
			if !visited[s] {
				visited[s] = true
				queue = append(queue, &node{s, n})
			}
		}
	}
	if q.start == nil {
		visited[q.fn.Blocks[0]] = true
		queue = append(queue, &node{q.fn.Blocks[0], nil})
	} else {
		b := q.start.Block()
		n := &node{b, nil}
		hit, cut := scan(b, instrIndex(q.start)+1)
		if hit != nil {
			return witness(n), hit
		}
		if !cut {
			pushSuccs(n)
		}
	}
	for len(queue) > 0 {
		n := queue[0]
		queue = queue[1:]
		hit, cut := scan(n.b, 0)
		if hit != nil {
			return witness(n), hit
		}
		if cut {
			continue
		}
		pushSuccs(n)
	}
	return nil, nil
}

func isReturn(in ssa.Instruction) bool {
	_, ok := in.(*ssa.Return)
	return ok
}

// isExit: return or panic (function exits).
func isExit(in ssa.Instruction) bool {
	switch in.(type) {
	case *ssa.Return, *ssa.Panic:
		return true
	}
	return false
}

func (p *Program) describePath(blocks []*ssa.BasicBlock) string {
	var parts []string
	last := ""
	for _, b := range blocks {
		pos := token.NoPos
		for _, in := range b.Instrs {
			if in.Pos().IsValid() {
				pos = in.Pos()
				break
			}
		}
		s := p.Pos(pos)
		if s != last && s != "-" {
			parts = append(parts, s)
			last = s
		}
	}
	if len(parts) > 12 {
		parts = append(parts[:6], append([]string{"…"}, parts[len(parts)-5:]...)...)
	}
	return strings.Join(parts, " → ")
}

// ---------------------------------------------------------------------------
// Closures, cells and value origins
// ---------------------------------------------------------------------------

type closureInfo struct {
	site   *ssa.MakeClosure
	parent *ssa.Function
}

func (p *Program) closureSite(fn *ssa.Function) *ssa.MakeClosure {
	par := fn.Parent()
	if par == nil {
		return nil
	}
	for _, b := range par.Blocks {
		for _, in := range b.Instrs {
			if mc, ok := in.(*ssa.MakeClosure); ok && mc.Fn == fn {
				return mc
			}
		}
	}
	return nil
}

// literalCallSites: the call/defer/go instructions whose callee is the function literal fn itself
// (`defer func(ctx context.Context) { … }(ctx)`, or a local `add := func(…) {…}` that is only ever called),
// nil if the literal is used in any other way (stored, passed on, returned).
func (p *Program) literalCallSites(fn *ssa.Function) []ssa.CallInstruction {
	mc := p.closureSite(fn)
	var sites []ssa.CallInstruction
	if mc != nil {
		refs := mc.Referrers()
		if refs == nil {
			return nil
		}
		for _, ref := range *refs {
			if _, isDbg := ref.(*ssa.DebugRef); isDbg {
				continue
			}
			c, ok := ref.(ssa.CallInstruction)
			if !ok || c.Common().Value != ssa.Value(mc) {
				return nil
			}
			for _, a := range c.Common().Args {
				if a == ssa.Value(mc) {
					return nil
				}
			}
			sites = append(sites, c)
		}
		return sites
	}
	// a literal without free variables is a plain function value
	par := fn.Parent()
	if par == nil {
		return nil
	}
	other := false
	eachInstr(par, func(in ssa.Instruction) {
		c, isCall := in.(ssa.CallInstruction)
		if isCall && c.Common().Value == ssa.Value(fn) {
			sites = append(sites, c)
		}
		for _, op := range in.Operands(nil) {
			if op != nil && *op == ssa.Value(fn) {
				if !isCall || c.Common().Value != ssa.Value(fn) {
					other = true
				}
			}
		}
		if isCall {
			for _, a := range c.Common().Args {
				if a == ssa.Value(fn) {
					other = true
				}
			}
		}
	})
	if other {
		return nil
	}
	return sites
}

// freeVarBinding returns the value bound to fv at the MakeClosure site of its function.
func (p *Program) freeVarBinding(fv *ssa.FreeVar) ssa.Value {
	fn := fv.Parent()
	mc := p.closureSite(fn)
	if mc == nil {
		return nil
	}
	for i, v := range fn.FreeVars {
		if v == fv && i < len(mc.Bindings) {
			return mc.Bindings[i]
		}
	}
	return nil
}

// cellRoot follows free variables to the value they were bound to (typically an Alloc).
func (p *Program) cellRoot(addr ssa.Value) ssa.Value {
	for i := 0; i < 16; i++ {
		fv, ok := addr.(*ssa.FreeVar)
		if !ok {
			return addr
		}
		b := p.freeVarBinding(fv)
		if b == nil {
			return addr
		}
		addr = b
	}
	return addr
}

// cellStores returns every store to the local variable cell `alloc`, in its
// function and in all closures that capture it.
func (p *Program) cellStores(alloc *ssa.Alloc) []*ssa.Store {
	var out []*ssa.Store
	for _, fn := range allFuncsDeep(alloc.Parent()) {
		for _, b := range fn.Blocks {
			for _, in := range b.Instrs {
				st, ok := in.(*ssa.Store)
				if !ok {
					continue
				}
				if p.cellRoot(st.Addr) == ssa.Value(alloc) {
					out = append(out, st)
				}
			}
		}
	}
	// the cell's address handed to a module function (go pump(…, &inErr, &wg)): what that function stores through
	// the pointer parameter
	if refs := alloc.Referrers(); refs != nil {
		for _, ref := range *refs {
			c, ok := ref.(ssa.CallInstruction)
			if !ok || c.Common().IsInvoke() {
				continue
			}
			callee := c.Common().StaticCallee()
			if callee == nil || !p.InModule(callee) || len(callee.Blocks) == 0 {
				continue
			}
			for i, a := range c.Common().Args {
				if a != ssa.Value(alloc) || i >= len(callee.Params) {
					continue
				}
				par := callee.Params[i]
				for _, fn := range allFuncsDeep(callee) {
					for _, b := range fn.Blocks {
						for _, in := range b.Instrs {
							if st, ok := in.(*ssa.Store); ok && p.cellRoot(st.Addr) == ssa.Value(par) {
								out = append(out, st)
							}
						}
					}
				}
			}
		}
	}
	return out
}

// reachingStores: the stores to cell `alloc` that may supply the value read by
// load `at`. Within the allocating function this is flow-sensitive (a store
// reaches the load if some CFG path from it to the load passes no other store
// to the cell). Stores made inside closures reach everywhere if the closure
// can run before the load (called directly or passed as a callback); stores in
// closures that are only deferred take effect at function exit and do not
// reach loads of the function body. Loads inside closures see every store.
func (p *Program) reachingStores(alloc *ssa.Alloc, at *ssa.UnOp) []*ssa.Store {
	all := p.cellStores(alloc)
	home := alloc.Parent()
	if at.Parent() != home {
		return all
	}
	var local, foreign []*ssa.Store
	for _, st := range all {
		if st.Parent() == home {
			local = append(local, st)
		} else {
			foreign = append(foreign, st)
		}
	}
	isLocal := map[ssa.Instruction]bool{}
	for _, st := range local {
		isLocal[st] = true
	}
	var out []*ssa.Store
	for _, st := range local {
		st := st
		q := pathQuery{fn: home, start: st,
			target:  func(x ssa.Instruction) bool { return x == ssa.Instruction(at) },
			barrier: func(x ssa.Instruction) bool { return isLocal[x] && x != ssa.Instruction(st) }}
		if w, _ := q.find(); w != nil {
			out = append(out, st)
		}
	}
	for _, st := range foreign {
		// closure of the store: find the direct child closure of home that contains it
		g := st.Parent()
		for g.Parent() != nil && g.Parent() != home {
			g = g.Parent()
		}
		if g.Parent() == home && closureOnlyDeferred(home, g) {
			continue
		}
		out = append(out, st)
	}
	return out
}

// closureOnlyDeferred: every use of the closure in parent is as the callee of a defer.
func closureOnlyDeferred(parent, anon *ssa.Function) bool {
	found, only := false, true
	for _, b := range parent.Blocks {
		for _, in := range b.Instrs {
			mc, ok := in.(*ssa.MakeClosure)
			if !ok || mc.Fn != anon {
				continue
			}
			found = true
			for _, ref := range *mc.Referrers() {
				if d, ok := ref.(*ssa.Defer); ok && d.Call.Value == ssa.Value(mc) {
					continue
				}
				only = false
			}
		}
	}
	return found && only
}

// unwrapOpts controls which instructions origins() looks through.
type originOpts struct {
	throughSlice   bool // x[a:b] -> x
	throughConvert bool // T(x) -> x
	throughAssert  bool // x.(T) -> x
	throughAppend  bool // append(x, ...) -> x (destination operand only)
	local          bool // do not look through transparent helpers (parameters and calls stay roots)
}

var defaultOrigin = originOpts{throughSlice: true, throughConvert: true, throughAssert: true}

// origins returns the set of root values v may come from, looking through
// phis, copies, conversions and local variable cells (including cells captured
// by closures). Roots are: parameters, calls, Extracts of calls, field/element
// loads, globals, constants, allocations, etc.
func (p *Program) origins(v ssa.Value, o originOpts) []ssa.Value {
	var out []ssa.Value
	seen := map[ssa.Value]bool{}
	for _, r := range p.originsCtx(v, nil, o) {
		if !seen[r.v] {
			seen[r.v] = true
			out = append(out, r.v)
		}
	}
	return out
}

// ctxValue is a root value together with the chain of helper call sites
// through which it was reached: a follow-up query on one of its operands
// (originsCtx(operand, root.ctx, …)) resolves the helper's parameters to the
// arguments of that very call chain instead of the union over all call sites.
type ctxValue struct {
	v   ssa.Value
	ctx *originCtx
}

func (p *Program) originsCtx(v ssa.Value, start *originCtx, o originOpts) []ctxValue {
	type key struct {
		v   ssa.Value
		ctx *originCtx
	}
	seen := map[key]bool{}
	var roots []ctxValue
	root := func(v ssa.Value, ctx *originCtx) {
		ctx = ctx.downOnly()
		for _, r := range roots {
			if r.v == v && r.ctx.equal(ctx) {
				return
			}
		}
		roots = append(roots, ctxValue{v, ctx})
	}
	var walk func(v ssa.Value, ctx *originCtx)
	walk = func(v ssa.Value, ctx *originCtx) {
		if v == nil || seen[key{v, ctx}] {
			return
		}
		seen[key{v, ctx}] = true
		switch x := v.(type) {
		case *ssa.Phi:
			for _, e := range x.Edges {
				walk(e, ctx)
			}
		case *ssa.ChangeType:
			walk(x.X, ctx)
		case *ssa.ChangeInterface:
			walk(x.X, ctx)
		case *ssa.MakeInterface:
			walk(x.X, ctx)
		case *ssa.Convert:
			if o.throughConvert {
				walk(x.X, ctx)
			} else {
				root(v, ctx)
			}
		case *ssa.Slice:
			if o.throughSlice {
				walk(x.X, ctx)
			} else {
				root(v, ctx)
			}
		case *ssa.TypeAssert:
			if o.throughAssert {
				walk(x.X, ctx)
			} else {
				root(v, ctx)
			}
		case *ssa.Extract:
			if ta, ok := x.Tuple.(*ssa.TypeAssert); ok && x.Index == 0 && o.throughAssert {
				walk(ta.X, ctx)
				return
			}
			if c, ok := x.Tuple.(*ssa.Call); ok && ctx.depth() < 4 {
				if callee := c.Call.StaticCallee(); callee != nil && callee.Parent() != nil && len(p.literalCallSites(callee)) > 0 {
					for _, rv := range returnsOf(callee, x.Index) {
						walk(rv, ctx)
					}
					return
				}
			}
			if c, ok := x.Tuple.(*ssa.Call); ok && !o.local && ctx.depth() < 4 {
				if callee := c.Call.StaticCallee(); callee != nil && !c.Call.IsInvoke() && p.isTransparent(callee) {
					for _, rv := range returnsOf(callee, x.Index) {
						walk(rv, &originCtx{site: c, up: ctx})
					}
					return
				}
			}
			root(v, ctx)
		case *ssa.FreeVar:
			if b := p.freeVarBinding(x); b != nil {
				walk(b, ctx)
			} else {
				root(v, ctx)
			}
		case *ssa.Parameter:
			fn := x.Parent()
			// a function literal that is called, deferred or spawned right where it is written: its parameters are the arguments
			if fn.Parent() != nil {
				if sites := p.literalCallSites(fn); len(sites) > 0 {
					all := true
					for _, site := range sites {
						all = all && argAt(site, paramIndex(x)) != nil
					}
					if all {
						for _, site := range sites {
							walk(argAt(site, paramIndex(x)), ctx)
						}
						return
					}
				}
			}
			i := paramIndex(x)
			// entered through this very call (whatever kind of function it is): the argument of that call
			if !o.local && ctx != nil && !ctx.upward && ctx.site.Common().StaticCallee() == fn && i >= 0 {
				walk(argAt(ctx.site, i), ctx.up)
				return
			}
			if o.local || !p.isTransparent(fn) {
				root(v, ctx)
				return
			}
			if ctx.depth() >= 4 {
				root(v, ctx)
				return
			}
			for _, s := range p.helpers().sites[fn] {
				// entering a caller from below: keep a marker so that depth stays bounded
				walk(argAt(s, i), &originCtx{site: s, up: ctx, upward: true})
			}
		case *ssa.UnOp:
			if x.Op == token.MUL {
				rt := p.cellRoot(x.X)
				// a variable of the caller reached through a pointer parameter (func pump(inErr *error)): what this
				// function stored through the parameter and can still be there at the load; when no store of this
				// function reaches the load the value is the caller's (the load stays the root)
				if par, ok := rt.(*ssa.Parameter); ok && x.X == ssa.Value(par) {
					if _, isPtr := par.Type().Underlying().(*types.Pointer); isPtr {
						var local []*ssa.Store
						eachInstr(par.Parent(), func(in ssa.Instruction) {
							if st, ok := in.(*ssa.Store); ok && st.Addr == ssa.Value(par) {
								local = append(local, st)
							}
						})
						if len(local) > 0 {
							isLocal := map[ssa.Instruction]bool{}
							for _, st := range local {
								isLocal[st] = true
							}
							n := 0
							for _, st := range local {
								st := st
								q := pathQuery{fn: par.Parent(), start: st,
									target:  func(y ssa.Instruction) bool { return y == ssa.Instruction(x) },
									barrier: func(y ssa.Instruction) bool { return isLocal[y] && y != ssa.Instruction(st) }}
								if w, _ := q.find(); w != nil {
									n++
									walk(st.Val, ctx)
								}
							}
							// reachable from the entry without any store: the caller's value
							q := pathQuery{fn: par.Parent(), target: func(y ssa.Instruction) bool { return y == ssa.Instruction(x) },
								barrier: func(y ssa.Instruction) bool { return isLocal[y] }}
							if w, _ := q.find(); w != nil || n == 0 {
								root(v, ctx)
							}
							return
						}
					}
				}
				if al, ok := rt.(*ssa.Alloc); ok {
					sts := p.reachingStores(al, x)
					if len(sts) == 0 {
						root(al, ctx) // zero value
						return
					}
					for _, st := range sts {
						walk(st.Val, ctx)
					}
					return
				}
			}
			root(v, ctx)
		case *ssa.Call:
			if o.throughAppend {
				if b, ok := x.Call.Value.(*ssa.Builtin); ok && b.Name() == "append" && len(x.Call.Args) > 0 {
					walk(x.Call.Args[0], ctx)
					return
				}
			}
			// functions that return one of their arguments unchanged: cmp.Or(a, b, …) is "a if non-zero else b …"
			if n := calleeName(x); strings.HasPrefix(n, "cmp.Or") && len(x.Call.Args) == 1 {
				els := p.flattenAppend(x.Call.Args[0], 0)
				if len(els) > 0 {
					for _, el := range els {
						walk(el, ctx)
					}
					return
				}
			}
			// a local function literal that is only ever called: its results are the returned expressions
			if callee := x.Call.StaticCallee(); callee != nil && callee.Parent() != nil && callee.Signature.Results().Len() == 1 && len(p.literalCallSites(callee)) > 0 && ctx.depth() < 4 {
				if _, isGo := ssa.Instruction(x).(*ssa.Go); !isGo {
					for _, rv := range returnsOf(callee, 0) {
						walk(rv, ctx)
					}
					return
				}
			}
			if !o.local && ctx.depth() < 4 {
				if callee := x.Call.StaticCallee(); callee != nil && !x.Call.IsInvoke() && p.isTransparent(callee) && callee.Signature.Results().Len() == 1 {
					for _, rv := range returnsOf(callee, 0) {
						walk(rv, &originCtx{site: x, up: ctx})
					}
					return
				}
			}
			root(v, ctx)
		default:
			root(v, ctx)
		}
	}
	walk(v, start)
	return roots
}

// originCtx is the calling context of an origins walk: the call sites entered
// (downward, into a helper's returns) or left (upward, from a helper's
// parameter to a caller's argument).
type originCtx struct {
	site   ssa.CallInstruction
	up     *originCtx
	upward bool
}

// downOnly drops the upward markers (they only bound the walk).
func (c *originCtx) downOnly() *originCtx {
	if c == nil {
		return nil
	}
	up := c.up.downOnly()
	if c.upward {
		return up
	}
	if up == c.up {
		return c
	}
	return &originCtx{site: c.site, up: up}
}

func (c *originCtx) equal(d *originCtx) bool {
	for c != nil && d != nil {
		if c.site != d.site {
			return false
		}
		c, d = c.up, d.up
	}
	return c == nil && d == nil
}

func (c *originCtx) depth() int {
	n := 0
	for ; c != nil; c = c.up {
		n++
	}
	return n
}

// loadsField reports whether v is a load of the given field (through any base).
func loadsField(v ssa.Value, f *types.Var) bool {
	return f != nil && loadedField(v) == f
}

// fieldChain returns the chain of fields of a load such as m.opts.statsHandler
// -> [opts, statsHandler]; nil if v is not a field load.
func fieldChain(v ssa.Value) []*types.Var {
	u, ok := v.(*ssa.UnOp)
	if !ok || u.Op != token.MUL {
		if f, ok := v.(*ssa.Field); ok {
			st := f.X.Type().Underlying().(*types.Struct)
			return append(fieldChain(f.X), st.Field(f.Field))
		}
		return nil
	}
	return addrChain(u.X)
}

func addrChain(a ssa.Value) []*types.Var {
	fa, ok := a.(*ssa.FieldAddr)
	if !ok {
		return nil
	}
	return append(addrChain(fa.X), fieldOfAddr(fa))
}

// constInt returns the integer value of a constant SSA value.
func constInt(v ssa.Value) (int64, bool) {
	c, ok := v.(*ssa.Const)
	if !ok || c.Value == nil {
		return 0, false
	}
	if c.Value.Kind() != constant.Int {
		return 0, false
	}
	return c.Int64(), true
}

func constString(v ssa.Value) (string, bool) {
	c, ok := v.(*ssa.Const)
	if !ok || c.Value == nil || c.Value.Kind() != constant.String {
		return "", false
	}
	return constant.StringVal(c.Value), true
}

func isNilConst(v ssa.Value) bool {
	c, ok := v.(*ssa.Const)
	return ok && c.Value == nil
}

// ---------------------------------------------------------------------------
// Instruction iteration
// ---------------------------------------------------------------------------

func eachInstr(fn *ssa.Function, f func(ssa.Instruction)) {
	for _, b := range fn.Blocks {
		for _, in := range b.Instrs {
			f(in)
		}
	}
}

// eachInstrDeep visits fn and its nested closures.
func eachInstrDeep(fn *ssa.Function, f func(*ssa.Function, ssa.Instruction)) {
	for _, g := range allFuncsDeep(fn) {
		g := g
		eachInstr(g, func(in ssa.Instruction) { f(g, in) })
	}
}

func callsIn(fn *ssa.Function, names ...string) []ssa.CallInstruction {
	var out []ssa.CallInstruction
	eachInstr(fn, func(in ssa.Instruction) {
		if isCall(in, names...) {
			out = append(out, in.(ssa.CallInstruction))
		}
	})
	return out
}

// ---------------------------------------------------------------------------
// Call graph reachability (module functions expanded, dependencies are leaves)
// ---------------------------------------------------------------------------

type reachInfo struct {
	from *ssa.Function // predecessor on a shortest path (nil for roots)
	site ssa.CallInstruction
}

// Reach computes the module functions reachable from roots through the VTA
// call graph, expanding only module functions. Closures created by a reachable
// function are treated as reachable too (they may be called back by
// dependencies, e.g. deferred funcs, goroutines, sort callbacks).
func (p *Program) Reach(roots []*ssa.Function) map[*ssa.Function]reachInfo {
	cg := p.CallGraph()
	out := map[*ssa.Function]reachInfo{}
	var queue []*ssa.Function
	for _, r := range roots {
		if r == nil {
			continue
		}
		if _, ok := out[r]; !ok {
			out[r] = reachInfo{}
			queue = append(queue, r)
		}
	}
	for len(queue) > 0 {
		fn := queue[0]
		queue = queue[1:]
		var next []struct {
			f *ssa.Function
			s ssa.CallInstruction
		}
		if n := cg.Nodes[fn]; n != nil {
			edges := append([]*callgraph.Edge(nil), n.Out...)
			sort.SliceStable(edges, func(i, j int) bool {
				pi, pj := token.NoPos, token.NoPos
				if edges[i].Site != nil {
					pi = edges[i].Site.Pos()
				}
				if edges[j].Site != nil {
					pj = edges[j].Site.Pos()
				}
				return pi < pj
			})
			for _, e := range edges {
				next = append(next, struct {
					f *ssa.Function
					s ssa.CallInstruction
				}{e.Callee.Func, e.Site})
			}
		}
		for _, a := range fn.AnonFuncs {
			// a closure runs on behalf of its parent when the parent calls, defers or
			// spawns it, or hands it to a callee as a callback. A closure that is only
			// stored (a handler kept in a struct field) runs when whoever loads the
			// field calls it: the VTA edges cover that.
			if closureUsedAsCallback(fn, a) {
				next = append(next, struct {
					f *ssa.Function
					s ssa.CallInstruction
				}{a, nil})
			}
		}
		for _, nx := range next {
			if nx.f == nil || !p.InModule(nx.f) {
				continue
			}
			if _, ok := out[nx.f]; ok {
				continue
			}
			out[nx.f] = reachInfo{from: fn, site: nx.s}
			queue = append(queue, nx.f)
		}
	}
	return out
}

// closureUsedAsCallback: parent calls/defers/spawns the closure or passes it as a call argument
// (possibly after storing it in a local variable).
func closureUsedAsCallback(parent, anon *ssa.Function) bool {
	used := false
	var visitVal func(v ssa.Value, depth int)
	visitVal = func(v ssa.Value, depth int) {
		if depth > 4 || used {
			return
		}
		refs := v.Referrers()
		if refs == nil {
			return
		}
		for _, ref := range *refs {
			switch x := ref.(type) {
			case ssa.CallInstruction:
				cc := x.Common()
				if cc.Value == v {
					used = true
					return
				}
				for _, a := range cc.Args {
					if a == v {
						used = true
						return
					}
				}
			case *ssa.Store:
				// stored into a local cell: follow loads of the cell
				if al, ok := x.Addr.(*ssa.Alloc); ok && x.Val == v {
					for _, r2 := range *al.Referrers() {
						if u, ok := r2.(*ssa.UnOp); ok {
							visitVal(u, depth+1)
						}
					}
				}
			case *ssa.Phi, *ssa.ChangeType, *ssa.MakeInterface:
				visitVal(x.(ssa.Value), depth+1)
			}
		}
	}
	for _, b := range parent.Blocks {
		for _, in := range b.Instrs {
			switch x := in.(type) {
			case *ssa.MakeClosure:
				if x.Fn == anon {
					visitVal(x, 0)
				}
			case ssa.CallInstruction:
				if f, ok := x.Common().Value.(*ssa.Function); ok && f == anon {
					used = true
				}
				for _, a := range x.Common().Args {
					if f, ok := a.(*ssa.Function); ok && f == anon {
						used = true
					}
				}
			}
		}
	}
	return used
}

// callPath renders the shortest call path root → fn.
func (p *Program) callPath(reach map[*ssa.Function]reachInfo, fn *ssa.Function) string {
	var parts []string
	for i := 0; fn != nil && i < 64; i++ {
		parts = append([]string{shortFunc(fn)}, parts...)
		fn = reach[fn].from
	}
	return strings.Join(parts, " → ")
}

// ---------------------------------------------------------------------------
// Roots
// ---------------------------------------------------------------------------

// implementsIface: does *T or T (named type of larking) implement the interface?
func implementsAny(t *types.Named, ifaces ...*types.Interface) bool {
	for _, it := range ifaces {
		if it == nil {
			continue
		}
		if types.Implements(t, it) || types.Implements(types.NewPointer(t), it) {
			return true
		}
	}
	return false
}

func (p *Program) lookupIface(pkgPath, name string) *types.Interface {
	pk := p.ByPath[pkgPath]
	if pk == nil || pk.Types == nil {
		return nil
	}
	obj := pk.Types.Scope().Lookup(name)
	if obj == nil {
		return nil
	}
	it, _ := obj.Type().Underlying().(*types.Interface)
	return it
}

// ServingRoots: (*Mux).ServeHTTP plus every method of every larking type that
// implements an interface through which handler code or net/http calls back
// (grpc.ServerStream, grpc.ServerTransportStream, http.ResponseWriter,
// io.Reader, io.Writer, io.Closer, Codec, Compressor), plus the exported
// HttpBody helpers.
func (p *Program) ServingRoots() []*ssa.Function {
	var roots []*ssa.Function
	add := func(f *ssa.Function) {
		if f != nil {
			roots = append(roots, f)
		}
	}
	add(p.Method("Mux", "ServeHTTP"))
	add(p.Func("AsHTTPBodyReader"))
	add(p.Func("AsHTTPBodyWriter"))
	ifaces := []*types.Interface{
		p.lookupIface("google.golang.org/grpc", "ServerStream"),
		p.lookupIface("google.golang.org/grpc", "ServerTransportStream"),
		p.lookupIface("net/http", "ResponseWriter"),
		p.lookupIface("net/http", "Flusher"),
		p.lookupIface("io", "Reader"),
		p.lookupIface("io", "Writer"),
		p.lookupIface("io", "Closer"),
		p.lookupIface(larkPath, "Codec"),
		p.lookupIface(larkPath, "Compressor"),
	}
	sc := p.Lark.Types.Scope()
	for _, n := range sc.Names() {
		tn, ok := sc.Lookup(n).(*types.TypeName)
		if !ok {
			continue
		}
		named, ok := tn.Type().(*types.Named)
		if !ok {
			continue
		}
		if _, isIface := named.Underlying().(*types.Interface); isIface {
			continue
		}
		if !implementsAny(named, ifaces...) {
			continue
		}
		// reflection-server type is a registration-side helper, not a serving path of the mux
		ms := p.SSA.MethodSets.MethodSet(types.NewPointer(named))
		for i := 0; i < ms.Len(); i++ {
			f := p.SSA.MethodValue(ms.At(i))
			if f != nil && p.InModule(f) {
				// skip promoted wrappers of dependency methods: InModule is false for them
				add(f)
			}
		}
	}
	return dedupFuncs(roots)
}

func (p *Program) RegistrationRoots() []*ssa.Function {
	var roots []*ssa.Function
	for _, n := range []string{"RegisterService", "registerService", "RegisterConn", "DropConn"} {
		if f := p.Method("Mux", n); f != nil {
			roots = append(roots, f)
		}
	}
	return roots
}

func dedupFuncs(in []*ssa.Function) []*ssa.Function {
	seen := map[*ssa.Function]bool{}
	var out []*ssa.Function
	for _, f := range in {
		if f != nil && !seen[f] {
			seen[f] = true
			out = append(out, f)
		}
	}
	sort.Slice(out, func(i, j int) bool { return out[i].String() < out[j].String() })
	return out
}

// ---------------------------------------------------------------------------
// misc
// ---------------------------------------------------------------------------

func typeString(t types.Type) string {
	return types.TypeString(t, func(p *types.Package) string {
		if p.Path() == larkPath {
			return ""
		}
		return p.Name()
	})
}

func namedOf(t types.Type) *types.Named {
	for {
		switch x := t.(type) {
		case *types.Pointer:
			t = x.Elem()
		case *types.Named:
			return x
		default:
			return nil
		}
	}
}

func isNamed(t types.Type, pkgPath, name string) bool {
	n := namedOf(t)
	if n == nil || n.Obj() == nil || n.Obj().Pkg() == nil {
		return false
	}
	return n.Obj().Pkg().Path() == pkgPath && n.Obj().Name() == name
}

func must(cond bool, format string, args ...interface{}) {
	if !cond {
		panic(fmt.Sprintf(format, args...))
	}
}
