package main

import (
	"fmt"
	"go/ast"
	"go/constant"
	"go/token"
	"go/types"
	"strings"

	"golang.org/x/tools/go/ssa"
)

func init() {
	register(&Rule{Name: "ADD-REMOVE-SYMMETRY", Floor: 2,
		Doc: "the dispatch containers registration fills (state.handlers, state.conns) are all emptied by removal",
		Run: ruleAddRemoveSymmetry})
	register(&Rule{Name: "REMOVE-FILTER", Floor: 3,
		Doc: "removeHandler keeps a handler exactly on the edge where it is not one of the dropped connection's handlers, deletes the per-method entry exactly on the empty edge, and returns before any write for an unknown connection",
		Run: ruleRemoveFilter})
	register(&Rule{Name: "PICK-CURRENT", Floor: 2,
		Doc: "pickMethodHandler indexes the handlers map of its receiver snapshot by the requested name, picks within bounds, and answers Unimplemented exactly when no handler is left",
		Run: rulePickCurrent})
	register(&Rule{Name: "SLOT-CHECK", Floor: 1,
		Doc: "every write of a binding slot (path.methods[verb] / path.methodAll) in addRule is preceded on every path by the lookup of that slot, whose occupied branch returns (error for another method, nil for the same)",
		Run: ruleSlotCheck})
	register(&Rule{Name: "ADDITIONAL-BINDINGS", Floor: 1,
		Doc: "the recursion over AdditionalBindings is preceded by the rejection of nested additional bindings and propagates the recursive error",
		Run: ruleAdditionalBindings})
	register(&Rule{Name: "SEL-KEY", Floor: 1,
		Doc: "service-config rules are looked up by string(desc.FullName()) of the method being registered",
		Run: ruleSelKey})
	register(&Rule{Name: "SEL-SAME-BINDER", Floor: 3,
		Doc: "implicit, service-config and annotation rules are all bound by calls of the same addRule with the same (descriptor, handler method) arguments; a config rule's failure is returned",
		Run: ruleSelSameBinder})
	register(&Rule{Name: "SEL-BUILD", Floor: 1,
		Doc: "ServiceConfigOption feeds the service config's http rules to the selector trie",
		Run: ruleSelBuild})
	register(&Rule{Name: "HEALTH-TABLE", Floor: 3,
		Doc: "each healthz rule's selector names a method of grpc.health.v1.Health with the streaming shape its verb needs (Check: unary/GET, Watch: server-streaming/WEBSOCKET), both at /v1/healthz, merged into the caller's config",
		Run: ruleHealthTable})
	register(&Rule{Name: "PREFIX-AGREE", Floor: 2,
		Doc: "in NewServer each mount is Handle(P+\"/\", http.StripPrefix(P, mux)) with the same P, or Handle(\"/\", mux) for the empty prefix",
		Run: rulePrefixAgree})
	register(&Rule{Name: "MUX-REUSE", Floor: 2,
		Doc: "the ServeMux handed to h2c.NewHandler is the one that received HTTPHandlerOption's registrations (a fresh one only when none exists)",
		Run: ruleMuxReuse})
	register(&Rule{Name: "DEFAULT-ROOT", Floor: 1,
		Doc: "without mount patterns the mux is mounted at \"/\"",
		Run: ruleDefaultRoot})
	register(&Rule{Name: "H2-WIRED", Floor: 2,
		Doc: "http2.ConfigureServer and h2c.NewHandler receive the same http2.Server; the http.Server's handler is the h2c handler",
		Run: ruleH2Wired})
}

func ruleAddRemoveSymmetry(r *Run) {
	p := r.P
	e := p.Effects()
	add := map[string]bool{}
	for _, n := range []string{"appendHandler", "addConnHandler"} {
		fn := p.Method("state", n)
		if fn == nil {
			r.missing("method (*state)." + n)
			continue
		}
		for _, w := range p.regionWrites(e, fn) {
			if w.Owner == "state" && !strings.HasSuffix(w.Target(), "[]") {
				add[w.Target()] = true
			}
		}
	}
	rm := p.Method("state", "removeHandler")
	if rm == nil {
		r.missing("method (*state).removeHandler")
		return
	}
	del := map[string]bool{}
	for _, w := range p.regionWrites(e, rm) {
		if w.Kind == "delete" {
			del[w.Target()] = true
		}
	}
	if len(add) == 0 {
		r.undecided("state/add-path", token.NoPos, "registration writes no state container")
	}
	// a connection leaves state.conns only together with its handlers: the only function that deletes from
	// state.conns is the one that filters state.handlers (a bare delete in the refresh path of addConnHandler leaves
	// the previous generation of handlers registered under a connection nobody can drop any more)
	rmRegion := map[*ssa.Function]bool{}
	for _, g := range p.region(rm) {
		rmRegion[g] = true
	}
	strays := 0
	for _, fn := range p.ModuleFuncs() {
		if rmRegion[fn] {
			continue
		}
		for _, w := range e.OwnWrites(fn) {
			if w.Kind == "delete" && w.Target() == "state.conns" {
				strays++
				r.bad(shortFunc(fn)+"/conns-delete-outside-removeHandler", w.Instr.Pos(), "%s deletes a connection from state.conns without going through removeHandler: the connection's handlers and routes stay registered, and DropConn no longer finds them", shortFunc(fn))
			}
		}
	}
	if strays == 0 {
		r.ok("state.conns/deleted-only-with-handlers", rm.Pos(), "state.conns is deleted from only in removeHandler, next to the filtering of state.handlers")
	}
	for t := range add {
		if t == "state.handlers" && !del[t] {
			if hr := p.handlersRemoval(rm); hr.mode == "keep-empty" {
				r.ok("removeHandler/empties:"+t, rm.Pos(), "removal writes the filtered (possibly empty) list back for every method of the dropped connection")
				continue
			}
		}
		r.check(del[t], "removeHandler/empties:"+t, rm.Pos(), "removal deletes from "+t, "registration fills "+t+" but removeHandler never deletes from it: a dropped connection stays registered there")
	}
}

// handlersRemoval describes how removeHandler leaves state.handlers[name] once the dropped connection's handlers
// are filtered out: "delete-empty" (the entry is deleted when nothing is left and written back otherwise: a key is
// present iff the method has a backend), "keep-empty" (the filtered list is written back whatever its length: an
// entry may be present and empty, so presence means nothing), or "bad".
type handlersRemoval struct {
	del, upd ssa.Instruction
	mode     string
}

func emptinessEdge(in ssa.Instruction, wantEmpty bool) bool {
	for _, g := range guardsOf(in.Block()) {
		bo, ok := g.Cond.(*ssa.BinOp)
		if !ok {
			continue
		}
		lc, ok := bo.X.(*ssa.Call)
		if !ok || calleeName(lc) != "builtin.len" {
			continue
		}
		k, isC := constInt(bo.Y)
		if !isC || k != 0 {
			continue
		}
		isEmpty := (bo.Op == token.EQL && g.True) || (bo.Op == token.NEQ && !g.True) || (bo.Op == token.GTR && !g.True) || (bo.Op == token.LEQ && g.True)
		isNonEmpty := (bo.Op == token.EQL && !g.True) || (bo.Op == token.NEQ && g.True) || (bo.Op == token.GTR && g.True) || (bo.Op == token.LEQ && !g.True)
		if wantEmpty && isEmpty {
			return true
		}
		if !wantEmpty && isNonEmpty {
			return true
		}
	}
	return false
}

func (p *Program) handlersRemoval(rm *ssa.Function) handlersRemoval {
	var hr handlersRemoval
	for _, w := range p.regionWrites(p.Effects(), rm) {
		if w.Target() == "state.handlers" {
			switch w.Kind {
			case "delete":
				hr.del = w.Instr
			case "mapupdate":
				hr.upd = w.Instr
			}
		}
	}
	hr.mode = "bad"
	switch {
	case hr.del != nil && hr.upd != nil:
		if emptinessEdge(hr.del, true) && emptinessEdge(hr.upd, false) {
			hr.mode = "delete-empty"
		}
	case hr.upd != nil:
		mu, ok := hr.upd.(*ssa.MapUpdate)
		if !ok || emptinessEdge(hr.upd, true) || emptinessEdge(hr.upd, false) {
			break
		}
		// what is written back is the list built by the filter (nil when nothing was kept), never the old list
		built := true
		for _, o := range p.origins(mu.Value, originOpts{}) {
			if isNilConst(o) {
				continue
			}
			if c, ok := o.(*ssa.Call); ok && calleeName(c) == "builtin.append" {
				continue
			}
			if _, ok := o.(*ssa.MakeSlice); ok {
				continue
			}
			built = false
		}
		if built {
			hr.mode = "keep-empty"
		}
	}
	return hr
}

func ruleRemoveFilter(r *Run) {
	p := r.P
	rm := p.Method("state", "removeHandler")
	if rm == nil {
		r.missing("method (*state).removeHandler")
		return
	}
	// (1) unknown connection: return before any write
	r.check(p.falseBeforeFirstWrite(rm), "removeHandler/unknown-conn-safe", rm.Pos(), "for an unknown connection removeHandler returns false before its first write",
		"removeHandler can report false after it already modified the state (or report true for an unknown connection)")
	// (2) keep-filter: the append into the kept list is on the edge `mhd != hd`
	var keepCmp *ssa.BinOp
	p.eachInstrRegion(rm, func(_ *ssa.Function, in ssa.Instruction) {
		bo, ok := in.(*ssa.BinOp)
		if !ok || (bo.Op != token.NEQ && bo.Op != token.EQL) {
			return
		}
		if namedOf(bo.X.Type()) == p.NamedType("handler") && namedOf(bo.Y.Type()) == p.NamedType("handler") {
			keepCmp = bo
		}
	})
	if keepCmp == nil {
		r.bad("removeHandler/keep-filter", rm.Pos(), "removeHandler does not compare handlers: it cannot tell the dropped connection's handlers from those of other backends")
	} else {
		// the append of the compared method-handler happens on the "different" edge
		good := false
		p.eachInstrRegion(rm, func(_ *ssa.Function, in ssa.Instruction) {
			c, ok := in.(*ssa.Call)
			if !ok || calleeName(c) != "builtin.append" {
				return
			}
			elems := p.flattenAppend(c.Call.Args[1], 0)
			isKept := false
			for _, el := range elems {
				if el == keepCmp.X || el == keepCmp.Y {
					isKept = true
				}
			}
			if !isKept {
				return
			}
			for _, g := range guardsOf(c.Block()) {
				if g.Cond == ssa.Value(keepCmp) && ((keepCmp.Op == token.NEQ && g.True) || (keepCmp.Op == token.EQL && !g.True)) {
					good = true
				}
			}
		})
		r.check(good, "removeHandler/keep-filter", keepCmp.Pos(), "a handler is kept exactly when it is not the dropped connection's handler", "the kept list is built on the wrong edge of the handler comparison: dropping a connection removes the other backends and keeps the dropped one")
		// the two operands: one from s.handlers[name], the other from the dropped conn's list
		src := func(v ssa.Value) string {
			for _, o := range p.origins(v, originOpts{}) {
				u, ok := o.(*ssa.UnOp)
				if !ok {
					continue
				}
				ia, ok := u.X.(*ssa.IndexAddr)
				if !ok {
					continue
				}
				for _, so := range p.origins(ia.X, originOpts{}) {
					switch x := so.(type) {
					case *ssa.Lookup:
						for _, mo := range p.origins(x.X, originOpts{}) {
							if f := loadedField(mo); f != nil && f.Name() == "handlers" && p.fieldOwner(f) == "state" {
								return "state.handlers"
							}
						}
					case *ssa.Field:
						st := x.X.Type().Underlying().(*types.Struct)
						if st.Field(x.Field).Name() == "handlers" {
							return "connList.handlers"
						}
					case *ssa.UnOp:
						if f := loadedField(x); f != nil && f.Name() == "handlers" && p.fieldOwner(f) == "connList" {
							return "connList.handlers"
						}
					}
				}
			}
			return "?"
		}
		a, b := src(keepCmp.X), src(keepCmp.Y)
		r.check((a == "state.handlers" && b == "connList.handlers") || (b == "state.handlers" && a == "connList.handlers"), "removeHandler/compares-method-vs-conn-handlers", keepCmp.Pos(),
			"the comparison is between a handler registered for the method and a handler of the dropped connection", fmt.Sprintf("the comparison is between %s and %s, not between the method's handlers and the dropped connection's handlers", a, b))
	}
	// (3) the per-method entry after the filter: deleted when empty and written back otherwise, or written back always
	hr := p.handlersRemoval(rm)
	switch hr.mode {
	case "delete-empty":
		r.ok("removeHandler/empty-edge", hr.del.Pos(), "the per-method entry is deleted exactly when no handler is left and written back otherwise")
	case "keep-empty":
		r.ok("removeHandler/empty-edge", hr.upd.Pos(), "the filtered list is written back whatever its length (an entry may stay present and empty: see HANDLERS-PRESENCE for its readers)")
	default:
		if hr.del == nil || hr.upd == nil {
			r.bad("removeHandler/empty-edge", rm.Pos(), "removeHandler neither deletes empty per-method entries and writes back non-empty ones, nor writes the filtered list back unconditionally (delete: %v, write-back: %v): a dropped connection's handlers stay registered", hr.del != nil, hr.upd != nil)
		} else {
			r.bad("removeHandler/empty-edge", hr.del.Pos(), "the per-method entry is deleted / written back on the wrong edge of the emptiness test: a method with a live backend is reported unimplemented, or an empty entry stays")
		}
	}
	// (5) the filter runs for every method of the dropped connection: no way from the start of removeHandler to the
	// delete / write-back of a per-method entry skips the loop over that method's current handlers (a "nothing can be
	// shared" shortcut forgets the handlers of local services, which are in no connection's list)
	handlersF := p.StructField("state", "handlers")
	isFilterRead := func(x ssa.Instruction) bool {
		lk, ok := x.(*ssa.Lookup)
		if !ok {
			return false
		}
		for _, o := range p.origins(lk.X, originOpts{local: true}) {
			if loadsField(o, handlersF) {
				// read as the source of a range (its length or elements are used), not as a map-update
				return true
			}
		}
		return false
	}
	var sinks []ssa.Instruction
	if hr.del != nil {
		sinks = append(sinks, hr.del)
	}
	if hr.upd != nil {
		sinks = append(sinks, hr.upd)
	}
	skipped := false
	for _, sk := range sinks {
		sk := sk
		if sk.Parent() != rm {
			continue
		}
		// the entry of the loop over the connection's handlers: start from the function entry
		if w, _ := (pathQuery{fn: rm, target: func(x ssa.Instruction) bool { return x == sk }, barrier: isFilterRead}).find(); w != nil {
			skipped = true
			r.bad("removeHandler/filter-always-runs", sk.Pos(), "a per-method handler entry is deleted or rewritten on a path that never read the method's current handler list (%s): a shortcut around the filter removes the handlers of everyone else - local services registered with RegisterService are in no connection's list - and a method with a live backend is answered Unimplemented", p.describePath(w))
			break
		}
	}
	if !skipped && len(sinks) > 0 {
		r.ok("removeHandler/filter-always-runs", rm.Pos(), "every deletion / write-back of a per-method entry follows a read of that method's current handlers")
	}
}

func init() {
	register(&Rule{Name: "HANDLERS-PRESENCE", Floor: 3,
		Doc: "a key of state.handlers means 'this method has a backend' only if removeHandler deletes the entries it empties; when removal writes the filtered list back whatever its length, no reader of state.handlers may branch on the presence of a key (comma-ok): a dropped method would be dispatched to (rand.Intn(0) panics) or treated as already registered (its rules are never bound again)",
		Run: ruleHandlersPresence})
}

func ruleHandlersPresence(r *Run) {
	p := r.P
	rm := p.Method("state", "removeHandler")
	hf := p.StructField("state", "handlers")
	if rm == nil || hf == nil {
		r.missing("method (*state).removeHandler / field state.handlers")
		return
	}
	hr := p.handlersRemoval(rm)
	site := map[*ssa.Function]int{}
	for _, fn := range p.ModuleFuncs() {
		eachInstr(fn, func(in ssa.Instruction) {
			l, ok := in.(*ssa.Lookup)
			if !ok {
				return
			}
			is := false
			for _, o := range p.origins(l.X, originOpts{}) {
				if loadsField(o, hf) {
					is = true
				}
			}
			if !is {
				return
			}
			site[fn]++
			key := fmt.Sprintf("%s/state.handlers-lookup#%d", shortFunc(fn), site[fn])
			switch {
			case !l.CommaOk:
				r.ok(key, l.Pos(), "the list is read by value (an absent key and an empty list are the same to this reader)")
			case hr.mode == "delete-empty":
				r.ok(key, l.Pos(), "presence of the key is tested; removeHandler deletes the entries it empties, so present means non-empty")
			case hr.mode == "keep-empty":
				r.bad(key, l.Pos(), "this reader branches on the presence of a key of state.handlers, but removeHandler leaves present-and-empty entries behind (it writes the filtered list back whatever its length): a method whose last backend was dropped still counts as registered here")
			default:
				r.info(key, l.Pos(), "presence of the key is tested; removeHandler's treatment of emptied entries is reported by REMOVE-FILTER")
			}
		})
	}
}

func rulePickCurrent(r *Run) {
	p := r.P
	fn := p.Method("state", "pickMethodHandler")
	if fn == nil {
		r.missing("method (*state).pickMethodHandler")
		return
	}
	hf := p.StructField("state", "handlers")
	var lk *ssa.Lookup
	eachInstr(fn, func(in ssa.Instruction) {
		l, ok := in.(*ssa.Lookup)
		if !ok {
			return
		}
		for _, o := range p.origins(l.X, originOpts{}) {
			if u, ok := o.(*ssa.UnOp); ok && loadsField(u, hf) {
				if fa, ok := u.X.(*ssa.FieldAddr); ok && fa.X == ssa.Value(fn.Params[0]) {
					lk = l
				}
			}
		}
	})
	if lk == nil {
		r.bad("pickMethodHandler/indexes-snapshot", fn.Pos(), "pickMethodHandler does not index the handlers map of its receiver snapshot")
		return
	}
	r.check(lk.Index == ssa.Value(fn.Params[1]), "pickMethodHandler/indexes-snapshot", lk.Pos(), "handlers of the receiver snapshot, keyed by the requested method name", "the handlers map is not keyed by the requested method name")
	// returns a handler only under len > 0; Unimplemented otherwise
	retOK, unimpl := true, false
	eachInstr(fn, func(in ssa.Instruction) {
		rt, ok := in.(*ssa.Return)
		if !ok {
			return
		}
		if !isNilConst(rt.Results[0]) {
			nonEmpty := false
			for _, g := range guardsOf(rt.Block()) {
				if bo, ok := g.Cond.(*ssa.BinOp); ok {
					if lc, ok := bo.X.(*ssa.Call); ok && calleeName(lc) == "builtin.len" {
						if k, isC := constInt(bo.Y); isC && k == 0 && ((bo.Op == token.GTR && g.True) || (bo.Op == token.NEQ && g.True) || (bo.Op == token.EQL && !g.True)) {
							nonEmpty = true
						}
					}
				}
			}
			if !nonEmpty {
				retOK = false
			}
			// the element index is bounded by len (rand.Intn(len(hds)) or a constant 0)
			for _, o := range p.origins(rt.Results[0], originOpts{}) {
				if u, ok := o.(*ssa.UnOp); ok {
					if ia, ok := u.X.(*ssa.IndexAddr); ok {
						bounded := false
						if k, isC := constInt(ia.Index); isC && k == 0 {
							bounded = true
						}
						if c, ok := ia.Index.(*ssa.Call); ok && (calleeName(c) == "math/rand.Intn" || calleeName(c) == "math/rand/v2.IntN") {
							if lc, ok := c.Call.Args[0].(*ssa.Call); ok && calleeName(lc) == "builtin.len" {
								bounded = true
							}
						}
						if !bounded {
							retOK = false
						}
					}
				}
			}
		} else {
			for _, o := range p.origins(rt.Results[1], originOpts{}) {
				if c, ok := o.(*ssa.Call); ok && strings.HasPrefix(calleeName(c), "google.golang.org/grpc/status.Error") {
					if k, isC := constInt(c.Call.Args[0]); isC && k == 12 {
						unimpl = true
					}
				}
			}
		}
	})
	r.check(retOK && unimpl, "pickMethodHandler/unimplemented-iff-empty", fn.Pos(), "a handler is returned only when the list is non-empty (index within bounds); otherwise codes.Unimplemented",
		"pickMethodHandler can return a handler without the non-empty test / with an unbounded index, or does not answer Unimplemented when none is left")
}

func ruleSlotCheck(r *Run) {
	p := r.P
	ar := p.Method("path", "addRule")
	if ar == nil {
		r.missing("method (*path).addRule")
		return
	}
	methodsF := p.StructField("path", "methods")
	allF := p.StructField("path", "methodAll")
	// the occupied test: a value loaded from methods[verb] / methodAll is compared with nil (or its comma-ok flag tested) and the occupied edge returns
	isSlotRead := func(v ssa.Value) bool {
		for _, o := range p.origins(v, originOpts{}) {
			switch x := o.(type) {
			case *ssa.Extract:
				if lk, ok := x.Tuple.(*ssa.Lookup); ok {
					for _, mo := range p.origins(lk.X, originOpts{}) {
						if loadsField(mo, methodsF) {
							return true
						}
					}
				}
			case *ssa.Lookup:
				for _, mo := range p.origins(x.X, originOpts{}) {
					if loadsField(mo, methodsF) {
						return true
					}
				}
			case *ssa.UnOp:
				if loadsField(x, allF) {
					return true
				}
			}
		}
		return false
	}
	// lookups whose value is (also) nil-tested
	nilTested := map[*ssa.Lookup]bool{}
	eachInstr(ar, func(in ssa.Instruction) {
		ifi, ok := in.(*ssa.If)
		if !ok {
			return
		}
		bo, ok := ifi.Cond.(*ssa.BinOp)
		if !ok || !isNilConst(bo.Y) {
			return
		}
		for _, o := range p.origins(bo.X, originOpts{}) {
			if ex, ok := o.(*ssa.Extract); ok {
				if lk, ok := ex.Tuple.(*ssa.Lookup); ok {
					nilTested[lk] = true
				}
			}
		}
	})
	// edges on which the slot is known to be occupied
	occupiedEdge := func(b *ssa.BasicBlock, succ int) bool {
		ifi := blockIf(b)
		if ifi == nil {
			return false
		}
		if bo, ok := ifi.Cond.(*ssa.BinOp); ok && isNilConst(bo.Y) && isSlotRead(bo.X) {
			return (bo.Op == token.NEQ && succ == 0) || (bo.Op == token.EQL && succ == 1)
		}
		if ex, ok := ifi.Cond.(*ssa.Extract); ok && ex.Index == 1 {
			if lk, ok := ex.Tuple.(*ssa.Lookup); ok {
				if nilTested[lk] {
					return false // the looked-up value itself is nil-tested: that test decides "occupied"
				}
				for _, mo := range p.origins(lk.X, originOpts{}) {
					if loadsField(mo, methodsF) {
						return succ == 0
					}
				}
			}
		}
		return false
	}
	n := 0
	slotWrite := func(in ssa.Instruction) (bool, string) {
		switch x := in.(type) {
		case *ssa.MapUpdate:
			for _, mo := range p.origins(x.Map, originOpts{}) {
				if loadsField(mo, methodsF) {
					return true, "path.methods[verb]"
				}
			}
		case *ssa.Store:
			if fa, ok := x.Addr.(*ssa.FieldAddr); ok && fieldOfAddr(fa) == allF {
				return true, "path.methodAll"
			}
		}
		return false, ""
	}
	seenWhat := map[string]bool{}
	eachInstr(ar, func(in ssa.Instruction) {
		isWrite, what := slotWrite(in)
		if !isWrite {
			// a transparent helper that writes a slot (bind(verb, m)): the call is the write
			if c, ok := in.(ssa.CallInstruction); ok {
				if callee := c.Common().StaticCallee(); callee != nil && !c.Common().IsInvoke() && p.isTransparent(callee) {
					p.eachInstrR(callee, func(x ssa.Instruction) {
						if w, wh := slotWrite(x); w && !seenWhat[wh+p.Pos(in.Pos())] {
							isWrite, what = true, wh
						}
					})
				}
			}
		}
		if !isWrite {
			return
		}
		seenWhat[what+p.Pos(in.Pos())] = true
		n++
		// (a) a slot test dominates the write
		tested := false
		for _, b := range ar.Blocks {
			ifi := blockIf(b)
			if ifi == nil {
				continue
			}
			if (occupiedEdge(b, 0) || occupiedEdge(b, 1)) && instrDominates(ifi, in) {
				tested = true
			}
		}
		// (b) from an occupied edge the write is unreachable
		reach := false
		for _, b := range ar.Blocks {
			for s := 0; s < len(b.Succs); s++ {
				if !occupiedEdge(b, s) {
					continue
				}
				ifi := blockIf(b)
				q := pathQuery{fn: ar, start: ifi, target: func(x ssa.Instruction) bool { return x == in },
					edgeOK: func(bb *ssa.BasicBlock, ss int) bool {
						if bb == b {
							return ss == s
						}
						return true
					}}
				if w, _ := q.find(); w != nil {
					reach = true
				}
			}
		}
		r.check(tested && !reach, "(*path).addRule/slot-checked:"+what, in.Pos(), "the binding is written only after the slot was found empty",
			"the binding slot "+what+" is written without the occupied-slot check returning first: a later rule silently replaces another method's binding instead of being rejected as a duplicate")
	})
	if n == 0 {
		r.undecided("(*path).addRule/slot-writes", ar.Pos(), "no write of a binding slot found")
	}
}

func ruleAdditionalBindings(r *Run) {
	p := r.P
	ar := p.Method("path", "addRule")
	if ar == nil {
		r.missing("method (*path).addRule")
		return
	}
	var rec *ssa.Call
	eachInstr(ar, func(in ssa.Instruction) {
		if c, ok := in.(*ssa.Call); ok && calleeName(c) == "(*larking.io/larking.path).addRule" {
			rec = c
		}
	})
	if rec == nil {
		r.bad("(*path).addRule/additional-bindings", ar.Pos(), "addRule does not recurse over AdditionalBindings: additional bindings are never registered")
		return
	}
	// the recursive call is guarded by len(addRule.AdditionalBindings) == 0 (the != 0 edge returns an error)
	guarded := false
	for _, g := range guardsOf(rec.Block()) {
		bo, ok := g.Cond.(*ssa.BinOp)
		if !ok {
			continue
		}
		lc, ok := bo.X.(*ssa.Call)
		if !ok || calleeName(lc) != "builtin.len" {
			continue
		}
		isAB := false
		for _, o := range p.origins(lc.Call.Args[0], originOpts{}) {
			if f := loadedField(o); f != nil && f.Name() == "AdditionalBindings" {
				isAB = true
			}
		}
		k, isC := constInt(bo.Y)
		if isAB && isC && k == 0 && ((bo.Op == token.NEQ && !g.True) || (bo.Op == token.EQL && g.True) || (bo.Op == token.GTR && !g.True)) {
			guarded = true
		}
	}
	r.check(guarded, "(*path).addRule/nested-bindings-rejected", rec.Pos(), "a binding that itself has additional bindings is rejected before the recursion", "nested additional bindings are not rejected before the recursive addRule call")
	// its error is returned
	ret := false
	eachInstr(ar, func(in ssa.Instruction) {
		rt, ok := in.(*ssa.Return)
		if !ok {
			return
		}
		for _, o := range p.origins(rt.Results[0], originOpts{}) {
			if o == ssa.Value(rec) {
				ret = true
			}
		}
	})
	r.check(ret, "(*path).addRule/binding-error-returned", rec.Pos(), "the error of an additional binding is returned", "the error of an additional binding is dropped: an invalid additional binding is silently accepted")
	// same descriptor and name
	r.check(rec.Call.Args[2] == ssa.Value(ar.Params[2]) && rec.Call.Args[3] == ssa.Value(ar.Params[3]), "(*path).addRule/binding-same-method", rec.Pos(),
		"additional bindings are registered for the same method descriptor and name", "additional bindings are registered with another descriptor or name than the rule they belong to")
}

// ---------------------------------------------------------------------------
// C19
// ---------------------------------------------------------------------------

func ruleSelKey(r *Run) {
	p := r.P
	ah := p.Method("state", "appendHandler")
	if ah == nil {
		r.missing("method (*state).appendHandler")
		return
	}
	n := 0
	eachInstr(ah, func(in ssa.Instruction) {
		c, ok := in.(*ssa.Call)
		if !ok || calleeName(c) != "(*larking.io/larking.ruleSelector).getRules" {
			return
		}
		n++
		good := false
		for _, o := range p.origins(c.Call.Args[1], originOpts{throughConvert: true}) {
			if fc, ok := isInvokeNamed(o, "FullName"); ok && p.isRegisteredMethodDesc(ah, fc.Common().Value) {
				good = true
			}
		}
		r.check(good, "(*state).appendHandler/selector-key", in.Pos(), "config rules are selected by the full name of the method being registered", "config rules are not looked up by string(desc.FullName()) of the method being registered: rules leak onto other methods or never bind")
		// on the options' httprules
		recvOK := false
		if fa, ok := c.Call.Args[0].(*ssa.FieldAddr); ok && fieldOfAddr(fa).Name() == "httprules" {
			recvOK = true
		}
		for _, o := range p.origins(c.Call.Args[0], originOpts{}) {
			if fa, ok := o.(*ssa.FieldAddr); ok && fieldOfAddr(fa).Name() == "httprules" {
				recvOK = true
			}
		}
		r.check(recvOK, "(*state).appendHandler/selector-source", in.Pos(), "the selector trie is the options' httprules", "the selector trie queried is not opts.httprules")
	})
	if n == 0 {
		r.bad("(*state).appendHandler/selector-key", ah.Pos(), "appendHandler never consults the service-config rules")
		return
	}
	// … on every way to a successful registration. A test that skips the lookup for an "empty" configuration is
	// accepted only if it reads every container of the selector that setRules fills (a bare "*" rule lives in the
	// root's rules, not under path: a test of path alone takes such a configuration for empty)
	rs := p.NamedType("ruleSelector")
	var containers []*types.Var
	if rs != nil {
		if st, ok := rs.Underlying().(*types.Struct); ok {
			for i := 0; i < st.NumFields(); i++ {
				switch st.Field(i).Type().Underlying().(type) {
				case *types.Map, *types.Slice:
					containers = append(containers, st.Field(i))
				}
			}
		}
	}
	readsAll := func(cond ssa.Value) bool {
		read := map[*types.Var]bool{}
		var fns []*ssa.Function
		seenV := map[ssa.Value]bool{}
		var walk func(v ssa.Value, depth int)
		walk = func(v ssa.Value, depth int) {
			if v == nil || seenV[v] || depth > 8 {
				return
			}
			seenV[v] = true
			if f := loadedField(v); f != nil {
				read[f] = true
			}
			// only the test itself is read: comparisons, negations, loads, len(), and a predicate method of the
			// selector (looking further - through the operands of other calls or through phis - reaches the
			// lookup itself from the loop over its result and would accept every test of the function)
			switch x := v.(type) {
			case *ssa.BinOp:
				walk(x.X, depth+1)
				walk(x.Y, depth+1)
			case *ssa.UnOp:
				walk(x.X, depth+1)
			case *ssa.Call:
				if b, ok := x.Call.Value.(*ssa.Builtin); ok && b.Name() == "len" {
					walk(x.Call.Args[0], depth+1)
				} else if callee := x.Call.StaticCallee(); callee != nil && p.InModule(callee) && len(x.Call.Args) == 1 && callee.Signature.Recv() != nil {
					if nm := namedOf(callee.Signature.Recv().Type()); nm != nil && nm.Obj().Name() == "ruleSelector" {
						fns = append(fns, callee)
					}
				}
			}
		}
		walk(cond, 0)
		for _, f := range fns {
			p.eachInstrRegion(f, func(_ *ssa.Function, in ssa.Instruction) {
				if u, ok := in.(*ssa.UnOp); ok {
					if fl := loadedField(u); fl != nil {
						read[fl] = true
					}
				}
			})
		}
		if len(containers) == 0 {
			return false
		}
		for _, c := range containers {
			if !read[c] {
				return false
			}
		}
		return true
	}
	ei := errResultIndex(ah)
	var hitRet ssa.Instruction
	q := pathQuery{fn: ah,
		barrier: func(x ssa.Instruction) bool {
			c, ok := x.(ssa.CallInstruction)
			return ok && calleeName(c) == "(*larking.io/larking.ruleSelector).getRules"
		},
		edgeOK: func(b *ssa.BasicBlock, succ int) bool {
			ifi := blockIf(b)
			if ifi == nil {
				return true
			}
			return !readsAll(ifi.Cond) // a complete emptiness test may skip the lookup
		},
		target: func(x ssa.Instruction) bool {
			rt, ok := x.(*ssa.Return)
			if !ok {
				return false
			}
			if ei >= 0 && (p.returnUnderErrTest(rt) || isFreshError(rt.Results[ei])) {
				return false
			}
			hitRet = x
			return true
		}}
	if w, _ := q.find(); w != nil {
		r.bad("(*state).appendHandler/selector-always", hitRet.Pos(), "a method can be registered without the service-config rules having been looked up for it (%s): rules that select it are not bound (a test that skips the lookup must read every container of the selector: rules of the bare \"*\" selector are kept at the root)", p.describePath(w))
	} else {
		r.ok("(*state).appendHandler/selector-always", ah.Pos(), "every successful registration passes the lookup of the configured rules")
	}
}

// isRegisteredMethodDesc: v is "the descriptor of the method being registered" in appendHandler: its parameter of
// type protoreflect.MethodDescriptor, or the desc field of its *handler parameter (the two are the same value at
// every call site; which one the function reads is a matter of signature style).
func (p *Program) isRegisteredMethodDesc(ah *ssa.Function, v ssa.Value) bool {
	hd := p.StructField("handler", "desc")
	os := p.origins(v, originOpts{})
	if len(os) == 0 {
		return false
	}
	for _, o := range os {
		if par, ok := o.(*ssa.Parameter); ok && par.Parent() == ah {
			if nm := namedOf(par.Type()); nm != nil && nm.Obj().Name() == "MethodDescriptor" {
				continue
			}
		}
		if hd != nil && loadsField(o, hd) {
			// loaded from a handler that is appendHandler's parameter
			if u, ok := o.(*ssa.UnOp); ok {
				if fa, ok := u.X.(*ssa.FieldAddr); ok {
					fromParam := false
					for _, bo := range p.origins(fa.X, originOpts{}) {
						if par, ok := bo.(*ssa.Parameter); ok && par.Parent() == ah {
							fromParam = true
						}
					}
					if fromParam {
						continue
					}
				}
			}
		}
		return false
	}
	return true
}

func ruleSelSameBinder(r *Run) {
	p := r.P
	ah := p.Method("state", "appendHandler")
	if ah == nil {
		r.missing("method (*state).appendHandler")
		return
	}
	var calls []*ssa.Call
	eachInstr(ah, func(in ssa.Instruction) {
		if c, ok := in.(*ssa.Call); ok && calleeName(c) == "(*larking.io/larking.path).addRule" {
			calls = append(calls, c)
		}
	})
	if len(calls) < 3 {
		r.bad("(*state).appendHandler/binders", ah.Pos(), "expected three addRule calls (implicit, service config, annotation), found %d", len(calls))
		return
	}
	hm := p.StructField("handler", "method")
	for i, c := range calls {
		kind := "?"
		for _, o := range p.origins(c.Call.Args[1], originOpts{}) {
			switch x := o.(type) {
			case *ssa.Alloc:
				kind = "implicit"
			case *ssa.Call:
				if calleeName(x) == "larking.io/larking.getExtensionHTTP" {
					kind = "annotation"
				}
			case *ssa.UnOp:
				if _, ok := x.X.(*ssa.IndexAddr); ok {
					kind = "service-config"
				}
			}
		}
		descOK := p.isRegisteredMethodDesc(ah, c.Call.Args[2])
		nameOK := false
		for _, o := range p.origins(c.Call.Args[3], originOpts{}) {
			if loadsField(o, hm) {
				nameOK = true
			}
		}
		pathOK := false
		if f := loadedField(c.Call.Args[0]); f != nil && f.Name() == "path" {
			pathOK = true
		}
		// its failure makes appendHandler fail: a non-nil error is returned where this call's error is non-nil
		errRet := false
		eachInstr(ah, func(in ssa.Instruction) {
			rt, ok := in.(*ssa.Return)
			if !ok || len(rt.Results) == 0 {
				return
			}
			mayNil := false
			for _, o := range p.origins(rt.Results[len(rt.Results)-1], originOpts{local: true}) {
				if isNilConst(o) {
					mayNil = true
				}
			}
			if mayNil {
				return
			}
			for _, g := range guardsOf(rt.Block()) {
				x, y, op, ok := g.cmp()
				if !ok || op != token.NEQ || !isNilConst(y) {
					continue
				}
				for _, o := range p.origins(x, originOpts{local: true}) {
					if o == ssa.Value(c) {
						errRet = true
					}
				}
			}
		})
		r.check(descOK && nameOK && pathOK && errRet, fmt.Sprintf("(*state).appendHandler/addRule#%d:%s", i+1, kind), c.Pos(),
			"bound on the state's trie with the method's descriptor and the handler's method name; failure is returned",
			fmt.Sprintf("this %s rule is not bound like the others (descriptor ok: %v, handler name ok: %v, trie ok: %v, error returned: %v): a config-declared rule does not behave like the same rule written as an annotation", kind, descOK, nameOK, pathOK, errRet))
	}
}

func ruleSelBuild(r *Run) {
	p := r.P
	fn := p.Func("ServiceConfigOption")
	if fn == nil {
		r.missing("func ServiceConfigOption")
		return
	}
	good := false
	for _, g := range allFuncsDeep(fn) {
		eachInstr(g, func(in ssa.Instruction) {
			c, ok := in.(*ssa.Call)
			if !ok || calleeName(c) != "(*larking.io/larking.ruleSelector).setRules" {
				return
			}
			// receiver is opts.httprules, argument is sc.Http.GetRules()
			recvOK := false
			if fa, ok := c.Call.Args[0].(*ssa.FieldAddr); ok && fieldOfAddr(fa).Name() == "httprules" {
				recvOK = true
			}
			argOK := false
			for _, o := range p.origins(c.Call.Args[1], originOpts{}) {
				if gc, ok := o.(*ssa.Call); ok && strings.HasSuffix(calleeName(gc), "annotations.Http).GetRules") {
					argOK = true
				}
			}
			if recvOK && argOK {
				good = true
			}
		})
	}
	r.check(good, "ServiceConfigOption/builds-selector", fn.Pos(), "opts.httprules is built from sc.Http.GetRules()", "ServiceConfigOption does not build opts.httprules from the service config's http rules")
}

func ruleHealthTable(r *Run) {
	p := r.P
	var fd *ast.FuncDecl
	for _, f := range p.Health.Syntax {
		for _, d := range f.Decls {
			if x, ok := d.(*ast.FuncDecl); ok && x.Name.Name == "AddHealthz" {
				fd = x
			}
		}
	}
	if fd == nil {
		r.missing("func health.AddHealthz")
		return
	}
	// the health service descriptor's methods from grpc_health_v1 (loaded dependency): Health_ServiceDesc
	shape := map[string]string{} // method -> unary | server-stream | client-stream | bidi
	if pk := p.ByPath["google.golang.org/grpc/health/grpc_health_v1"]; pk != nil {
		if init := globalInit(pk, "Health_ServiceDesc"); init != nil {
			ast.Inspect(init, func(n ast.Node) bool {
				cl, ok := n.(*ast.CompositeLit)
				if !ok {
					return true
				}
				name, server, client, isStream := "", false, false, false
				for _, el := range cl.Elts {
					kv, ok := el.(*ast.KeyValueExpr)
					if !ok {
						continue
					}
					k, _ := kv.Key.(*ast.Ident)
					if k == nil {
						continue
					}
					v := constOf(pk, kv.Value)
					switch k.Name {
					case "MethodName":
						if v != nil {
							name = constant.StringVal(v)
						}
					case "StreamName":
						if v != nil {
							name, isStream = constant.StringVal(v), true
						}
					case "ServerStreams":
						server = v != nil && constant.BoolVal(v)
					case "ClientStreams":
						client = v != nil && constant.BoolVal(v)
					}
				}
				if name != "" {
					switch {
					case !isStream:
						shape[name] = "unary"
					case server && client:
						shape[name] = "bidi"
					case server:
						shape[name] = "server-stream"
					case client:
						shape[name] = "client-stream"
					}
				}
				return true
			})
		}
	}
	if len(shape) == 0 {
		r.undecided("grpc_health_v1.Health_ServiceDesc", fd.Pos(), "could not read the health service descriptor from the dependency's syntax")
		return
	}
	info := p.Health.TypesInfo
	nRules := 0
	// the rule literals may be written in a helper of AddHealthz (healthzConfig()): follow calls of functions of
	// the health package
	inspectHealth := func(root ast.Node, f func(ast.Node) bool) {
		seen := map[*ast.FuncDecl]bool{}
		var visit func(n ast.Node, depth int)
		visit = func(n ast.Node, depth int) {
			ast.Inspect(n, func(x ast.Node) bool {
				if x == nil {
					return true
				}
				if !f(x) {
					return false
				}
				call, ok := x.(*ast.CallExpr)
				if !ok || depth >= 3 {
					return true
				}
				id, _ := call.Fun.(*ast.Ident)
				if id == nil {
					return true
				}
				fobj, ok := info.Uses[id].(*types.Func)
				if !ok || fobj.Pkg() != p.Health.Types {
					return true
				}
				for _, file := range p.Health.Syntax {
					for _, d := range file.Decls {
						if hd, ok := d.(*ast.FuncDecl); ok && hd.Body != nil && info.Defs[hd.Name] == types.Object(fobj) && !seen[hd] {
							seen[hd] = true
							visit(hd.Body, depth+1)
						}
					}
				}
				return true
			})
		}
		visit(root, 0)
	}
	inspectHealth(fd.Body, func(n ast.Node) bool {
		cl, ok := n.(*ast.CompositeLit)
		if !ok {
			return true
		}
		// an HttpRule literal: has Selector
		sel, verb, path := "", "", ""
		for _, el := range cl.Elts {
			kv, ok := el.(*ast.KeyValueExpr)
			if !ok {
				continue
			}
			k, _ := kv.Key.(*ast.Ident)
			if k == nil {
				continue
			}
			switch k.Name {
			case "Selector":
				if v := constOf(p.Health, kv.Value); v != nil {
					sel = constant.StringVal(v)
				}
			case "Pattern":
				ast.Inspect(kv.Value, func(m ast.Node) bool {
					c2, ok := m.(*ast.CompositeLit)
					if !ok {
						return true
					}
					if t := info.TypeOf(c2); t != nil {
						if nm := namedOf(t); nm != nil && strings.HasPrefix(nm.Obj().Name(), "HttpRule_") {
							verb = strings.ToUpper(strings.TrimPrefix(nm.Obj().Name(), "HttpRule_"))
						}
					}
					for _, e2 := range c2.Elts {
						kv2, ok := e2.(*ast.KeyValueExpr)
						if !ok {
							continue
						}
						k2, _ := kv2.Key.(*ast.Ident)
						if k2 == nil {
							continue
						}
						if v := constOf(p.Health, kv2.Value); v != nil && v.Kind() == constant.String {
							switch k2.Name {
							case "Get", "Put", "Post", "Delete", "Patch", "Path":
								path = constant.StringVal(v)
							case "Kind":
								verb = strings.ToUpper(constant.StringVal(v))
							}
						}
					}
					return true
				})
			}
		}
		if sel == "" {
			return true
		}
		nRules++
		key := "health.AddHealthz/rule:" + sel
		const prefix = "grpc.health.v1.Health."
		if !strings.HasPrefix(sel, prefix) {
			r.bad(key, cl.Pos(), "selector %q does not name a method of grpc.health.v1.Health", sel)
			return true
		}
		m := strings.TrimPrefix(sel, prefix)
		sh, ok := shape[m]
		if !ok {
			r.bad(key, cl.Pos(), "selector %q names no method of the health service (methods: %v): the rule binds nothing and /v1/healthz is not served", sel, shape)
			return true
		}
		wantShape := "unary"
		if verb == "WEBSOCKET" {
			wantShape = "server-stream"
		}
		good := sh == wantShape || (verb == "WEBSOCKET" && sh != "unary")
		r.check(good && path == "/v1/healthz", key, cl.Pos(), fmt.Sprintf("%s %s -> %s (%s)", verb, path, m, sh),
			fmt.Sprintf("rule %s %s -> %s: the method is %s but the verb needs %s, or the path is not /v1/healthz", verb, path, m, sh, wantShape))
		return true
	})
	if nRules < 2 {
		r.bad("health.AddHealthz/rules", fd.Pos(), "expected rules for Check and Watch, found %d", nRules)
	}
	// merged into the caller's config
	merged := false
	ast.Inspect(fd.Body, func(n ast.Node) bool {
		call, ok := n.(*ast.CallExpr)
		if !ok {
			return true
		}
		if sel, ok := call.Fun.(*ast.SelectorExpr); ok && sel.Sel.Name == "Merge" && len(call.Args) == 2 {
			if id, ok := call.Args[0].(*ast.Ident); ok && fd.Type.Params != nil && len(fd.Type.Params.List) > 0 && id.Name == fd.Type.Params.List[0].Names[0].Name {
				merged = true
			}
		}
		return true
	})
	r.check(merged, "health.AddHealthz/merged-into-config", fd.Pos(), "the rules are merged into the caller's service config", "the healthz rules are not merged into the service config passed in")
	// what is merged is the rule table written above, whole: the Rules field of the merged message is assigned
	// the literal list only (a list filtered or rebuilt on the way - "skip selectors the config already has" -
	// leaves /v1/healthz unbound for a method the user also exposes elsewhere)
	var fn *ssa.Function
	for _, f := range p.ModuleFuncs() {
		if f.Name() == "AddHealthz" && f.Parent() == nil && f.Pkg != nil && f.Pkg.Pkg == p.Health.Types {
			fn = f
		}
	}
	if fn == nil {
		r.undecided("health.AddHealthz/rules-unfiltered", fd.Pos(), "AddHealthz not found in the SSA program")
		return
	}
	nStores, bad := 0, ""
	var badPos token.Pos = fd.Pos()
	regionFns := map[*ssa.Function]bool{}
	for _, g := range p.region(fn) {
		regionFns[g] = true
	}
	// helpers of the health package are followed whether or not they count as transparent
	for changed := true; changed; {
		changed = false
		for g := range regionFns {
			eachInstr(g, func(in ssa.Instruction) {
				if c, ok := in.(ssa.CallInstruction); ok {
					if callee := c.Common().StaticCallee(); callee != nil && callee.Pkg != nil && callee.Pkg.Pkg == p.Health.Types && len(callee.Blocks) > 0 && !regionFns[callee] {
						regionFns[callee] = true
						changed = true
					}
				}
			})
		}
	}
	for g := range regionFns {
		eachInstr(g, func(in ssa.Instruction) {
			st, ok := in.(*ssa.Store)
			if !ok {
				return
			}
			fa, ok := st.Addr.(*ssa.FieldAddr)
			if !ok || fieldOfAddr(fa).Name() != "Rules" {
				return
			}
			nStores++
			for _, o := range p.origins(st.Val, originOpts{throughSlice: true}) {
				if al, ok := o.(*ssa.Alloc); ok && al.Comment == "slicelit" {
					continue
				}
				bad = describeValue(o)
				if n := sourceCall(o); n != "" {
					bad = "the result of " + shortName(n)
				}
				badPos = st.Pos()
			}
		})
	}
	if nStores == 0 {
		r.undecided("health.AddHealthz/rules-unfiltered", fd.Pos(), "no assignment of an Http.Rules field found")
		return
	}
	r.check(bad == "", "health.AddHealthz/rules-unfiltered", badPos, "the merged Http.Rules is the literal rule list",
		fmt.Sprintf("Http.Rules of the merged config is assigned %s, not the literal healthz rule list: a rule can be dropped before the merge and /v1/healthz stays unbound for that method", bad))
}

// ---------------------------------------------------------------------------
// C20
// ---------------------------------------------------------------------------

func ruleNewServerFn(r *Run) *ssa.Function {
	fn := r.P.Func("NewServer")
	if fn == nil {
		r.missing("func NewServer")
	}
	return fn
}

func rulePrefixAgree(r *Run) {
	p := r.P
	fn := ruleNewServerFn(r)
	if fn == nil {
		return
	}
	muxPar := fn.Params[0]
	n := 0
	p.eachInstrRegion(fn, func(_ *ssa.Function, in ssa.Instruction) {
		c, ok := in.(ssa.CallInstruction)
		if !ok || calleeName(c) != "(*net/http.ServeMux).Handle" {
			return
		}
		n++
		pat, h := c.Common().Args[1], c.Common().Args[2]
		key := fmt.Sprintf("NewServer/Handle#%d", n)
		// handler: StripPrefix(P, mux) or mux
		var hroot ssa.Value = h
		if mi, ok := h.(*ssa.MakeInterface); ok {
			hroot = mi.X
		}
		if p.onlyFrom(hroot, muxPar) {
			s, isC := constString(pat)
			r.check(isC && s == "/", key, in.Pos(), "the bare mux is mounted at \"/\"", "the bare mux (no StripPrefix) is mounted under a pattern other than \"/\": requests reach it with the prefix still on the path")
			return
		}
		sp, ok := hroot.(*ssa.Call)
		if !ok || calleeName(sp) != "net/http.StripPrefix" {
			r.bad(key, in.Pos(), "the handler registered is neither the mux nor http.StripPrefix(prefix, mux)")
			return
		}
		var inner ssa.Value = sp.Call.Args[1]
		if mi, ok := inner.(*ssa.MakeInterface); ok {
			inner = mi.X
		}
		if !p.onlyFrom(inner, muxPar) {
			r.bad(key, in.Pos(), "StripPrefix does not wrap the mux")
			return
		}
		stripped := sp.Call.Args[0]
		// pattern = stripped + "/"
		good := false
		if bo, ok := pat.(*ssa.BinOp); ok && bo.Op == token.ADD {
			if s, isC := constString(bo.Y); isC && s == "/" && (bo.X == stripped || p.sameValue(bo.X, stripped)) {
				good = true
			}
		}
		r.check(good, key, in.Pos(), "pattern is P + \"/\" and the handler strips the same P", "the pattern registered and the prefix stripped are not the same value P (pattern P+\"/\", StripPrefix(P, mux)): under the mount the mux sees a different path than the bare mux would")
		// P itself is the pattern without its trailing slash
		pOK := false
		for _, o := range p.origins(stripped, originOpts{}) {
			if tc, ok := o.(*ssa.Call); ok && calleeName(tc) == "strings.TrimSuffix" {
				if s, isC := constString(tc.Call.Args[1]); isC && s == "/" {
					pOK = true
				}
			}
		}
		r.check(pOK, key+"/prefix", in.Pos(), "P is the configured pattern without its trailing slash", "P is not strings.TrimSuffix(pattern, \"/\")")
	})
	if n == 0 {
		r.bad("NewServer/Handle", fn.Pos(), "NewServer never mounts the mux")
	}
}

func ruleMuxReuse(r *Run) {
	p := r.P
	fn := ruleNewServerFn(r)
	if fn == nil {
		return
	}
	smF := p.StructField("serverOptions", "serveMux")
	// the ServeMux used for Handle and handed to h2c.NewHandler: phi(load svrOpts.serveMux, http.NewServeMux()) with New only on the nil edge
	var h2c *ssa.Call
	eachInstr(fn, func(in ssa.Instruction) {
		if c, ok := in.(*ssa.Call); ok && strings.HasSuffix(calleeName(c), "http2/h2c.NewHandler") {
			h2c = c
		}
	})
	if h2c == nil {
		r.bad("NewServer/h2c", fn.Pos(), "NewServer does not wrap its handler with h2c.NewHandler")
		return
	}
	var hv ssa.Value = h2c.Call.Args[0]
	if mi, ok := hv.(*ssa.MakeInterface); ok {
		hv = mi.X
	}
	fromOpt, fresh, other := false, false, false
	for _, o := range p.origins(hv, originOpts{}) {
		switch x := o.(type) {
		case *ssa.UnOp:
			if loadsField(x, smF) {
				fromOpt = true
			} else {
				other = true
			}
		case *ssa.Call:
			if calleeName(x) == "net/http.NewServeMux" {
				fresh = true
				// only on the nil edge
				onNil := false
				for _, g := range guardsOf(x.Block()) {
					if bo, ok := g.Cond.(*ssa.BinOp); ok && isNilConst(bo.Y) && ((bo.Op == token.EQL && g.True) || (bo.Op == token.NEQ && !g.True)) {
						for _, oo := range p.origins(bo.X, originOpts{}) {
							if loadsField(oo, smF) {
								onNil = true
							}
						}
					}
				}
				if !onNil {
					other = true
				}
			} else {
				other = true
			}
		default:
			other = true
		}
	}
	if fromOpt && !fresh && !other {
		// the other sound shape: the option's own field is served, created in place when it is still nil
		// (func (o *serverOptions) httpMux() *http.ServeMux { if o.serveMux == nil { o.serveMux = http.NewServeMux() }; return o.serveMux })
		for _, st := range p.storesToField(nil, "serverOptions", "serveMux") {
			inRegion := false
			for _, g := range p.region(fn) {
				if g == st.Parent() {
					inRegion = true
				}
			}
			c, isNew := st.Val.(*ssa.Call)
			if !inRegion || !isNew || calleeName(c) != "net/http.NewServeMux" {
				continue
			}
			for _, g := range guardsOf(st.Block()) {
				if bo, ok := g.Cond.(*ssa.BinOp); ok && isNilConst(bo.Y) && ((bo.Op == token.EQL && g.True) || (bo.Op == token.NEQ && !g.True)) {
					for _, oo := range p.origins(bo.X, originOpts{}) {
						if loadsField(oo, smF) {
							fresh = true
						}
					}
				}
			}
		}
	}
	r.check(fromOpt && fresh && !other, "NewServer/serve-mux-reused", h2c.Pos(), "the served ServeMux is the one HTTPHandlerOption filled, a fresh one only if none exists",
		"the ServeMux that is served is not {options' ServeMux | a fresh one exactly when that is nil}: handlers added with HTTPHandlerOption are dropped")
	// the Handle calls use the same value
	same := true
	eachInstr(fn, func(in ssa.Instruction) {
		c, ok := in.(ssa.CallInstruction)
		if !ok || calleeName(c) != "(*net/http.ServeMux).Handle" {
			return
		}
		if c.Common().Args[0] != hv {
			same = false
		}
	})
	r.check(same, "NewServer/mounts-on-served-mux", h2c.Pos(), "the mux is mounted on the very ServeMux that is served", "the mux is mounted on a ServeMux other than the one that is served")
	// HTTPHandlerOption registers on opts.serveMux
	ho := p.Func("HTTPHandlerOption")
	if ho == nil {
		r.missing("func HTTPHandlerOption")
		return
	}
	reg := false
	for _, g := range allFuncsDeep(ho) {
		eachInstr(g, func(in ssa.Instruction) {
			c, ok := in.(ssa.CallInstruction)
			if !ok || calleeName(c) != "(*net/http.ServeMux).Handle" {
				return
			}
			for _, o := range p.origins(c.Common().Args[0], originOpts{}) {
				if loadsField(o, smF) {
					// pattern and handler are the option's arguments
					if c.Common().Args[1] != nil {
						reg = true
					}
				}
			}
		})
	}
	r.check(reg, "HTTPHandlerOption/registers-on-options-mux", ho.Pos(), "HTTPHandlerOption registers its handler on the options' ServeMux", "HTTPHandlerOption does not register on serverOptions.serveMux")
}

func ruleDefaultRoot(r *Run) {
	p := r.P
	fn := ruleNewServerFn(r)
	if fn == nil {
		return
	}
	mpF := p.StructField("serverOptions", "muxPatterns")
	good := false
	eachInstr(fn, func(in ssa.Instruction) {
		st, ok := in.(*ssa.Store)
		if !ok {
			return
		}
		fa, ok := st.Addr.(*ssa.FieldAddr)
		if !ok || fieldOfAddr(fa) != mpF {
			return
		}
		// value: slice literal {"/"}; guarded by len(patterns) == 0
		isRoot := false
		for _, el := range p.flattenAppend(st.Val, 0) {
			if s, isC := constString(el); isC && s == "/" {
				isRoot = true
			}
		}
		guarded := false
		for _, g := range guardsOf(st.Block()) {
			if x, y, op, ok := g.cmp(); ok {
				if lc, ok := x.(*ssa.Call); ok && calleeName(lc) == "builtin.len" {
					if k, isC := constInt(y); isC && ((k == 0 && (op == token.EQL || op == token.LEQ)) || (k == 1 && op == token.LSS)) {
						guarded = true
					}
				}
			}
		}
		if isRoot && guarded {
			good = true
		}
	})
	if !good {
		good = p.defaultRootByValue(fn, mpF)
	}
	r.check(good, "NewServer/default-root", fn.Pos(), "no patterns means the mux is mounted at \"/\"", "without MuxHandleOption the mux is not mounted at \"/\"")
}

// defaultRootByValue: the list of patterns that is ranged over to mount the mux (in NewServer or a transparent
// helper) is, when the configured list is empty, the literal {"/"} — written with a local variable instead of a
// store back into the options.
func (p *Program) defaultRootByValue(fn *ssa.Function, mpF *types.Var) bool {
	good := false
	hasHandle := false
	p.eachInstrR(fn, func(in ssa.Instruction) {
		if c, ok := in.(ssa.CallInstruction); ok && calleeName(c) == "(*net/http.ServeMux).Handle" {
			hasHandle = true
		}
	})
	if !hasHandle {
		return false
	}
	for _, g := range p.region(fn) {
		eachInstr(g, func(in ssa.Instruction) {
			ia, ok := in.(*ssa.IndexAddr)
			if !ok {
				return
			}
			st, ok := ia.X.Type().Underlying().(*types.Slice)
			if !ok {
				return
			}
			if b, ok := st.Elem().Underlying().(*types.Basic); !ok || b.Kind() != types.String {
				return
			}
			for _, bind := range p.bindings(g) {
				seq := bind.subst(ia.X)
				fromOpt, rootWhenEmpty := false, false
				for _, l := range p.guardedLeaves(seq) {
					if loadsField(l.v, mpF) {
						fromOpt = true
						continue
					}
					isRoot := false
					els := p.flattenAppend(l.v, 0)
					if len(els) == 1 {
						if s, isC := constString(els[0]); isC && s == "/" {
							isRoot = true
						}
					}
					if !isRoot {
						continue
					}
					for _, gf := range p.expandFacts(l.facts) {
						if x, y, op, ok := gf.cmp(); ok {
							if lc, ok := x.(*ssa.Call); ok && calleeName(lc) == "builtin.len" {
								fromField := false
								for _, o := range p.origins(lc.Call.Args[0], originOpts{}) {
									if loadsField(o, mpF) {
										fromField = true
									}
								}
								if k, isC := constInt(y); isC && fromField && ((k == 0 && (op == token.EQL || op == token.LEQ)) || (k == 1 && op == token.LSS)) {
									rootWhenEmpty = true
								}
							}
						}
					}
				}
				if fromOpt && rootWhenEmpty {
					good = true
				}
			}
		})
	}
	return good
}

func ruleH2Wired(r *Run) {
	p := r.P
	fn := ruleNewServerFn(r)
	if fn == nil {
		return
	}
	var h2c, conf *ssa.Call
	eachInstr(fn, func(in ssa.Instruction) {
		c, ok := in.(*ssa.Call)
		if !ok {
			return
		}
		n := calleeName(c)
		if strings.HasSuffix(n, "http2/h2c.NewHandler") {
			h2c = c
		}
		if strings.HasSuffix(n, "net/http2.ConfigureServer") {
			conf = c
		}
	})
	if h2c == nil || conf == nil {
		r.bad("NewServer/http2", fn.Pos(), "NewServer does not both wrap the handler with h2c.NewHandler and call http2.ConfigureServer (h2c: %v, ConfigureServer: %v): gRPC needs HTTP/2 on clear-text and TLS listeners", h2c != nil, conf != nil)
		return
	}
	r.check(h2c.Call.Args[1] == conf.Call.Args[1], "NewServer/same-http2-server", conf.Pos(), "h2c.NewHandler and http2.ConfigureServer share one http2.Server", "h2c.NewHandler and http2.ConfigureServer are given different http2.Server values")
	// the http.Server configured has the h2c handler as Handler
	handlerOK := false
	for _, o := range p.origins(conf.Call.Args[0], originOpts{}) {
		al, ok := o.(*ssa.Alloc)
		if !ok {
			continue
		}
		for _, ref := range *al.Referrers() {
			fa, ok := ref.(*ssa.FieldAddr)
			if !ok || fieldOfAddr(fa).Name() != "Handler" {
				continue
			}
			for _, r2 := range *fa.Referrers() {
				if st, ok := r2.(*ssa.Store); ok {
					for _, so := range p.origins(st.Val, defaultOrigin) {
						if so == ssa.Value(h2c) {
							handlerOK = true
						}
					}
				}
			}
		}
	}
	r.check(handlerOK, "NewServer/handler-is-h2c", h2c.Pos(), "the returned server's Handler is the h2c handler", "the returned http.Server's Handler is not the h2c.NewHandler result")
}
