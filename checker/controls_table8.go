package main

// Controls for the rules and clauses added after the seventh round of seeded changes.
func init() {
	control(&Control{ID: "handlerpattern-rooted", Rule: "HANDLER-PATTERN-VERBATIM", File: "larking/server.go",
		Old: "\t\topts.serveMux.Handle(pattern, handler)\n", New: "\t\topts.serveMux.Handle(\"/\"+strings.TrimPrefix(pattern, \"/\"), handler)\n",
		Expect: "HTTPHandlerOption/pattern", Why: "pattern rewritten before registration"})
	control(&Control{ID: "wsdata-text-only", Rule: "WS-DATA-KINDS", File: "larking/websocket.go",
		Old: "\t\tb, _, err := wsutil.ReadClientData(s.conn)\n", New: "\t\tb, err := wsutil.ReadClientText(s.conn)\n",
		Expect: "reads:ReadClientText", Why: "binary frames discarded"})
	control(&Control{ID: "hasbody-known-length-only", Rule: "BODY-UNKNOWN-LENGTH", File: "larking/http.go",
		Old: "r.ContentLength > 0 || r.ContentLength == -1,", New: "r.Body != http.NoBody && r.ContentLength > 0,",
		Expect: "hasBody", Why: "undeclared length treated as no body"})
	control(&Control{ID: "connowns-reset-per-service", Rule: "CONN-OWNS-ALL", File: "larking/mux.go",
		Old: "\t\tmds := sd.Methods()\n\t\tfor j := 0; j < mds.Len(); j++ {\n", New: "\t\tmds := sd.Methods()\n\t\thandlers = make([]*handler, 0, mds.Len())\n\t\tfor j := 0; j < mds.Len(); j++ {\n",
		Expect: "accumulates", Why: "handler list re-made per service"})
	control(&Control{ID: "sendheader-deferred-write", Rule: "SENDHEADER-WRITES", File: "larking/http.go",
		Old: "\th := s.wHeader\n\tsetOutgoingHeader(h, s.header)\n", New: "\th := s.wHeader\n\t_ = h\n",
		Expect: "(*streamHTTP).SendHeader/writes-header-metadata", Why: "header metadata not written by SendHeader"})
	control(&Control{ID: "respwalk-break-unset", Rule: "RESP-WALK-TOTAL", File: "larking/http.go",
		Old: "\tfor _, fd := range s.method.resp {\n\t\tcur = cur.Mutable(fieldOf(cur, fd)).Message()\n\t}\n\tmsg := cur.Interface()\n\n\tcontentType", New: "\tfor _, fd := range s.method.resp {\n\t\tif !cur.Has(fieldOf(cur, fd)) {\n\t\t\tbreak\n\t\t}\n\t\tcur = cur.Mutable(fieldOf(cur, fd)).Message()\n\t}\n\tmsg := cur.Interface()\n\n\tcontentType",
		Expect: "resp-walk", Why: "walk stops at an unset field"})
	control(&Control{ID: "joinexit-close-deferred-first", Rule: "JOIN-EXIT", File: "larking/grpc.go",
		Old: "\t// Sync handler return to stream methods.\n\tdefer func() {\n", New: "\tdefer r.Body.Close()\n\t// Sync handler return to stream methods.\n\tdefer func() {\n",
		Expect: "body-closed-before-join", Why: "body closed only after the join"})
	control(&Control{ID: "joinexit-inline-wait", Rule: "JOIN-EXIT", File: "larking/grpc.go",
		Old: "\tdefer func() {\n\t\tcancel()\n\t\tstream.wg.Wait()\n\t}()\n", New: "\tdefer cancel()\n\tdefer func() { _ = stream }()\n",
		Expect: "join-deferred", Why: "no deferred join"})
	control(&Control{ID: "cleanend-unexpected-eof", Rule: "CLEAN-END-EOF-ONLY", File: "larking/http.go",
		Old: "\t\tb, n, err := codec.ReadNext(b, s.r, s.opts.maxReceiveMessageSize)\n\t\tif err == io.EOF {\n", New: "\t\tb, n, err := codec.ReadNext(b, s.r, s.opts.maxReceiveMessageSize)\n\t\tif err == io.EOF || err == io.ErrUnexpectedEOF {\n",
		Expect: "error-cleared", Why: "truncation treated as a clean end"})
	control(&Control{ID: "loopprogress-small-cap", Rule: "LOOP-PROGRESS", File: "larking/codec.go",
		Old: "\t} else if oldcap < 1024 {\n", New: "\t} else if oldcap < 1 {\n",
		Expect: "fractional-growth", Why: "1.25x loop entered with small capacities"})
	control(&Control{ID: "iconce-reply-substituted", Rule: "IC-ONCE", File: "larking/mux.go",
		Old: "\t\t\treturn stream.SendMsg(reply)\n\t\t}\n\n\t\treturn &handler{", New: "\t\t\tmsg, ok := reply.(*dynamicpb.Message)\n\t\t\tif !ok || msg == nil {\n\t\t\t\tmsg = dynamicpb.NewMessage(replyDesc)\n\t\t\t}\n\t\t\treturn stream.SendMsg(msg)\n\t\t}\n\n\t\treturn &handler{",
		Expect: "reply-unchanged", Why: "interceptor's reply replaced"})
	control(&Control{ID: "pooluap-returned-object-memory", Rule: "POOL-UAP", File: "larking/compress.go",
		Old: "func (z *gzipReader) Read(p []byte) (n int, err error) {\n", New: "func pooledReaderHeader(c *CompressorGzip) *gzip.Header {\n\tz, ok := c.poolDecompressor.Get().(*gzipReader)\n\tif !ok {\n\t\treturn nil\n\t}\n\tdefer z.pool.Put(z)\n\treturn &z.Reader.Header\n}\n\nfunc (z *gzipReader) Read(p []byte) (n int, err error) {\n",
		Expect: "use-after-Put", Why: "memory of the pooled object returned under a deferred Put"})
	control(&Control{ID: "fwdeof-first-send", Rule: "FWD-EOF-FILTERED", File: "larking/mux.go",
		Old: "\t\t\tif err := clientStream.SendMsg(args); err != nil && err != io.EOF {\n", New: "\t\t\tif err := clientStream.SendMsg(args); err != nil {\n",
		Expect: "pump-error-return", Why: "io.EOF of the first SendMsg on the backend stream returned to the client (D43)"})
}
