package main

import (
	"fmt"
	"go/token"
	"go/types"
	"strings"

	"golang.org/x/tools/go/ssa"
)

// Rules added after the seventh round of seeded changes (DESIGN.md section 10.6).

func init() {
	register(&Rule{Name: "HANDLER-PATTERN-VERBATIM", Floor: 1,
		Doc: "HTTPHandlerOption registers the handler under the very pattern it was given (ServeMux patterns may carry a method or a host in front of the path: 'GET /metrics', 'admin.example.com/'; rewriting them - rooting them at '/' - silently moves the handler to another pattern or panics at construction)",
		Run: ruleHandlerPatternVerbatim})
	register(&Rule{Name: "WS-DATA-KINDS", Floor: 1,
		Doc: "the WebSocket stream reads client messages with a reader that delivers both text and binary data frames (wsutil.ReadClientData and the like); the single-kind readers (ReadClientText, ReadClientBinary, ReadText, ReadBinary) silently discard messages of the other kind",
		Run: ruleWSDataKinds})
	register(&Rule{Name: "BODY-UNKNOWN-LENGTH", Floor: 1,
		Doc: "whenever the HTTP stream decides that a request has no body to decode (streamHTTP.hasBody false), Content-Length is known not to be -1: a request of undeclared length (chunked HTTP/1.1, HTTP/2 without content-length) has its body decoded like any other",
		Run: ruleBodyUnknownLength})
	register(&Rule{Name: "CONN-OWNS-ALL", Floor: 1,
		Doc: "the handler list recorded for a connection (connList.handlers) only ever grows while the reflected files are processed: inside the loops that create and install handlers the accumulating variable is assigned nothing but append(itself, …) (re-made per service or file it forgets the earlier handlers, which DropConn then never removes)",
		Run: ruleConnOwnsAll})
	register(&Rule{Name: "SENDHEADER-WRITES", Floor: 2,
		Doc: "every stream type's SendHeader hands the accumulated header metadata to the outgoing metadata gate before it reports success (deferring the write to the first message loses the headers of replies that bypass writeMsg: AsHTTPBodyWriter)",
		Run: ruleSendHeaderWrites})
	register(&Rule{Name: "RESP-WALK-TOTAL", Floor: 1,
		Doc: "the response_body selector is walked to its end for every reply: the loop over method.resp in SendMsg has no way out but the end of the list (stopping at an unset field sends the enclosing message with all its sibling fields instead of the selected one)",
		Run: ruleRespWalkTotal})
	register(&Rule{Name: "JOIN-EXIT", Floor: 2,
		Doc: "serveGRPC joins the stream's in-flight RecvMsg/SendMsg calls (wg.Wait) on every way out once the stream exists - the Wait is deferred, not written on one path - and the request body is closed before that Wait runs (an inline Close ahead of the return, or a defer registered after the joining defer): a body still open when Wait starts leaves a RecvMsg parked in the body read and the request never completes",
		Run: ruleJoinExit})
}

func ruleHandlerPatternVerbatim(r *Run) {
	p := r.P
	fn := p.Func("HTTPHandlerOption")
	if fn == nil {
		r.missing("func HTTPHandlerOption")
		return
	}
	n := 0
	p.eachInstrRegion(fn, func(g *ssa.Function, in ssa.Instruction) {
		c, ok := in.(ssa.CallInstruction)
		if !ok || calleeName(c) != "(*net/http.ServeMux).Handle" || len(c.Common().Args) < 3 {
			return
		}
		n++
		bad := ""
		for _, o := range p.origins(c.Common().Args[1], originOpts{}) {
			if o == ssa.Value(fn.Params[0]) {
				continue
			}
			bad = describeValue(o)
			if s := sourceCall(o); s != "" {
				bad = "the result of " + shortName(s)
			}
		}
		r.check(bad == "", "HTTPHandlerOption/pattern", in.Pos(), "the handler is registered under the option's pattern argument itself",
			fmt.Sprintf("the pattern handed to ServeMux.Handle can be %s instead of the option's pattern argument: method- or host-qualified patterns are rewritten", bad))
	})
	if n == 0 {
		r.undecided("HTTPHandlerOption/pattern", fn.Pos(), "no ServeMux.Handle call found")
	}
}

func ruleWSDataKinds(r *Run) {
	p := r.P
	fn := p.Method("streamWS", "RecvMsg")
	if fn == nil {
		r.missing("method (*streamWS).RecvMsg")
		return
	}
	n := 0
	p.eachInstrRegion(fn, func(g *ssa.Function, in ssa.Instruction) {
		c, ok := in.(ssa.CallInstruction)
		if !ok {
			return
		}
		name := calleeName(c)
		if !strings.Contains(name, "github.com/gobwas/ws/wsutil.") {
			return
		}
		short := name[strings.LastIndex(name, ".")+1:]
		if !strings.HasPrefix(short, "Read") && !strings.HasPrefix(short, "NextReader") {
			return
		}
		n++
		oneKind := strings.HasSuffix(short, "Text") || strings.HasSuffix(short, "Binary")
		r.check(!oneKind, "(*streamWS).RecvMsg/reads:"+short, in.Pos(), "reads data frames of either kind",
			fmt.Sprintf("wsutil.%s delivers only one kind of data frame and silently discards the other: messages a client sends in the other frame type never reach the handler", short))
	})
	if n == 0 {
		r.undecided("(*streamWS).RecvMsg/reads", fn.Pos(), "no wsutil read call found")
	}
}

func ruleBodyUnknownLength(r *Run) {
	p := r.P
	stores := p.storesToField(nil, "streamHTTP", "hasBody")
	if len(stores) == 0 {
		r.missing("store to streamHTTP.hasBody")
		return
	}
	isCL := func(v ssa.Value) bool {
		for _, o := range p.origins(v, originOpts{throughConvert: true}) {
			if f := loadedField(o); f != nil && f.Name() == "ContentLength" {
				return true
			}
		}
		return false
	}
	for i, st := range stores {
		key := fmt.Sprintf("%s/hasBody#%d", shortFunc(st.Parent()), i+1)
		fs, never := p.factsWhen(st.Val, false)
		ok := never
		for _, f := range p.expandFacts(fs) {
			x, y, op, isCmp := f.cmp()
			if !isCmp {
				continue
			}
			k, isC := constInt(y)
			if !isC || !isCL(x) {
				continue
			}
			switch {
			case op == token.NEQ && k == -1, op == token.GEQ && k >= 0, op == token.GTR && k >= -1, op == token.EQL && k != -1:
				ok = true
			}
		}
		r.check(ok, key, st.Pos(), "hasBody is false only where Content-Length is known not to be -1",
			"hasBody can be false for a request whose Content-Length is -1 (undeclared: chunked or HTTP/2 without content-length): its body is never decoded and the handler gets the message built from path and query only")
	}
}

func ruleConnOwnsAll(r *Run) {
	p := r.P
	ah := p.Method("state", "addConnHandler")
	hf := p.StructField("connList", "handlers")
	if ah == nil || hf == nil {
		r.missing("method (*state).addConnHandler / field connList.handlers")
		return
	}
	// appends of a handler that was installed (passed to appendHandler) to an accumulating slice, in a loop
	n := 0
	p.eachInstrRegion(ah, func(g *ssa.Function, in ssa.Instruction) {
		c, ok := in.(*ssa.Call)
		if !ok || calleeName(c) != "builtin.append" || len(c.Call.Args) != 2 || !blockInLoop(in.Block()) {
			return
		}
		st, ok := c.Type().Underlying().(*types.Slice)
		if !ok || namedOf(st.Elem()) != p.NamedType("handler") {
			return
		}
		n++
		key := fmt.Sprintf("%s/accumulates#%d", shortFunc(g), n)
		// the destination, followed back around every enclosing loop, is the zero value before the loops or an
		// earlier append of the same chain - never something (re)made inside a loop
		bad := ""
		seen := map[ssa.Value]bool{}
		var walk func(v ssa.Value)
		walk = func(v ssa.Value) {
			if v == nil || seen[v] {
				return
			}
			seen[v] = true
			switch x := v.(type) {
			case *ssa.Phi:
				for _, e := range x.Edges {
					walk(e)
				}
			case *ssa.Call:
				if calleeName(x) == "builtin.append" && len(x.Call.Args) > 0 {
					walk(x.Call.Args[0])
					return
				}
				if i, ok := v.(ssa.Instruction); ok && blockInLoop(i.Block()) {
					bad = "the result of " + shortName(calleeName(x))
				}
			case *ssa.Const, *ssa.Parameter:
			case *ssa.UnOp:
				if al, ok := p.cellRoot(x.X).(*ssa.Alloc); ok && x.Op == token.MUL {
					for _, s := range p.cellStores(al) {
						if blockInLoop(s.Block()) {
							walk(s.Val)
						}
					}
					return
				}
			default:
				if i, ok := v.(ssa.Instruction); ok && blockInLoop(i.Block()) {
					bad = describeValue(v)
				}
			}
		}
		walk(c.Call.Args[0])
		r.check(bad == "", key, in.Pos(), "the list only grows inside the loops", fmt.Sprintf("inside a loop the handler list is restarted from %s: handlers collected in earlier iterations are forgotten, the connection no longer owns them and DropConn leaves them registered", bad))
	})
	if n == 0 {
		r.undecided("addConnHandler/handler-list", ah.Pos(), "no loop appending handlers to a list found")
	}
}

func ruleSendHeaderWrites(r *Run) {
	p := r.P
	for _, typ := range []string{"streamHTTP", "streamGRPC"} {
		fn := p.Method(typ, "SendHeader")
		if fn == nil {
			r.missing("method (*" + typ + ").SendHeader")
			continue
		}
		isGate := func(in ssa.Instruction) bool {
			c, ok := in.(ssa.CallInstruction)
			if !ok {
				return false
			}
			switch calleeName(c) {
			case "larking.io/larking.setOutgoingHeader", "larking.io/larking.setOutgoingMetadata":
				return true
			}
			return p.callMust(c, func(x ssa.Instruction) bool {
				cc, ok := x.(ssa.CallInstruction)
				return ok && (calleeName(cc) == "larking.io/larking.setOutgoingHeader" || calleeName(cc) == "larking.io/larking.setOutgoingMetadata")
			})
		}
		var hit ssa.Instruction
		q := pathQuery{fn: fn, barrier: isGate, target: func(x ssa.Instruction) bool {
			rt, ok := x.(*ssa.Return)
			if !ok || len(rt.Results) != 1 {
				return false
			}
			if p.returnUnderErrTest(rt) {
				return false // a failure
			}
			os := p.origins(rt.Results[0], originOpts{})
			fresh := len(os) > 0
			for _, o := range os {
				if !isFreshError(o) {
					fresh = false
				}
			}
			if fresh {
				return false // a failure made here
			}
			hit = x
			return true
		}}
		key := "(*" + typ + ").SendHeader/writes-header-metadata"
		if w, _ := q.find(); w != nil {
			r.bad(key, hit.Pos(), "SendHeader can report success without having passed the header metadata to the outgoing gate (%s): replies that do not go through the first-message path lose the handler's headers", p.describePath(w))
		} else {
			r.ok(key, fn.Pos(), "every successful return follows setOutgoingHeader")
		}
	}
}

func ruleRespWalkTotal(r *Run) {
	p := r.P
	respF := p.StructField("method", "resp")
	if respF == nil {
		r.missing("field method.resp")
		return
	}
	n := 0
	for _, fn := range p.ModuleFuncs() {
		eachInstr(fn, func(in ssa.Instruction) {
			// the element read of a loop over method.resp
			ia, ok := in.(*ssa.IndexAddr)
			if !ok || !blockInLoop(in.Block()) {
				return
			}
			is := false
			for _, o := range p.origins(ia.X, originOpts{throughSlice: true}) {
				if loadsField(o, respF) {
					is = true
				}
			}
			if !is {
				return
			}
			// the loop: header = innermost loop header dominating the read; exits = edges from loop blocks to blocks outside
			var head *ssa.BasicBlock
			for b := in.Block(); b != nil; b = b.Idom() {
				for _, pr := range b.Preds {
					if blockReaches(in.Block(), pr) && b.Dominates(pr) {
						head = b
					}
				}
				if head != nil {
					break
				}
			}
			if head == nil {
				return
			}
			n++
			key := fmt.Sprintf("%s/resp-walk#%d", shortFunc(fn), n)
			inLoop := func(b *ssa.BasicBlock) bool { return head.Dominates(b) && blockReaches(b, head) }
			bad := false
			var pos token.Pos = in.Pos()
			for _, b := range fn.Blocks {
				if !inLoop(b) || b == head {
					continue
				}
				for _, sb := range b.Succs {
					if inLoop(sb) {
						continue
					}
					// leaving from inside the body: fine if it ends the function with an error
					leavesWithError := false
					for x := sb; x != nil; {
						if len(x.Instrs) > 0 {
							if rt, ok := x.Instrs[len(x.Instrs)-1].(*ssa.Return); ok {
								for _, rv := range rt.Results {
									if isErrorType(rv.Type()) && !isNilConst(rv) {
										leavesWithError = true
									}
								}
							}
						}
						if len(x.Succs) == 1 && !inLoop(x.Succs[0]) && x.Succs[0] != x {
							x = x.Succs[0]
							if len(x.Preds) > 1 {
								break
							}
							continue
						}
						break
					}
					if !leavesWithError {
						bad = true
						if len(b.Instrs) > 0 {
							pos = b.Instrs[len(b.Instrs)-1].Pos()
						}
					}
				}
			}
			r.check(!bad, key, pos, "the selector path is walked to its end (the loop is left only when the list is exhausted, or with an error)",
				"the loop over the response_body path can be left before the path is exhausted: the reply encoded is an enclosing message, not the selected field")
		})
	}
	if n == 0 {
		r.undecided("method.resp walk", token.NoPos, "no loop over method.resp found")
	}
}

func ruleJoinExit(r *Run) {
	p := r.P
	fn := p.Method("Mux", "serveGRPC")
	if fn == nil {
		r.missing("method (*Mux).serveGRPC")
		return
	}
	isWG := func(t types.Type) bool {
		n := namedOf(t)
		return n != nil && n.Obj().Pkg() != nil && n.Obj().Pkg().Path() == "sync" && n.Obj().Name() == "WaitGroup"
	}
	// the deferred call (or deferred closure) that waits on the stream's WaitGroup
	waits := func(c ssa.CallInstruction) bool {
		isWait := func(x ssa.Instruction) bool {
			cc, ok := x.(ssa.CallInstruction)
			if !ok || calleeName(cc) != "(*sync.WaitGroup).Wait" || len(cc.Common().Args) == 0 {
				return false
			}
			for _, o := range p.origins(cc.Common().Args[0], originOpts{}) {
				if fa, ok := o.(*ssa.FieldAddr); ok && isWG(fieldOfAddr(fa).Type()) {
					return true
				}
			}
			return false
		}
		if isWait(c) {
			return true
		}
		if callee := staticCallee(c); callee != nil && p.InModule(callee) {
			found := false
			for _, g := range allFuncsDeep(callee) {
				eachInstr(g, func(x ssa.Instruction) {
					if isWait(x) {
						found = true
					}
				})
			}
			return found
		}
		return false
	}
	closesBody := func(c ssa.CallInstruction) bool {
		if !c.Common().IsInvoke() || c.Common().Method.Name() != "Close" {
			return false
		}
		for _, o := range p.origins(c.Common().Value, originOpts{}) {
			if f := loadedField(o); f != nil && f.Name() == "Body" {
				return true
			}
		}
		return false
	}
	var waitDefer *ssa.Defer
	var inlineWait ssa.Instruction
	var closeDefers, closeInline []ssa.Instruction
	eachInstr(fn, func(in ssa.Instruction) {
		c, ok := in.(ssa.CallInstruction)
		if !ok {
			return
		}
		if d, isDefer := in.(*ssa.Defer); isDefer {
			if waits(c) {
				waitDefer = d
			}
			if closesBody(c) {
				closeDefers = append(closeDefers, in)
			}
			return
		}
		if waits(c) {
			inlineWait = in
		}
		if closesBody(c) {
			closeInline = append(closeInline, in)
		}
	})
	if waitDefer == nil {
		if inlineWait != nil {
			r.bad("(*Mux).serveGRPC/join-deferred", inlineWait.Pos(), "the Wait on the stream's WaitGroup is written on one path instead of being deferred: an earlier return (headers could not be sent: context done) leaves the function while a RecvMsg/SendMsg of the stream is still running on another goroutine, reading a request body and writing a response that are no longer this request's")
		} else {
			r.undecided("(*Mux).serveGRPC/join-deferred", fn.Pos(), "no Wait on the stream's WaitGroup found in serveGRPC")
		}
		return
	}
	r.ok("(*Mux).serveGRPC/join-deferred", waitDefer.Pos(), "the join is deferred: it runs on every way out after this point")
	// body closed before the join runs
	bad := ""
	for _, cd := range closeDefers {
		// defers run last-in-first-out: a Close deferred BEFORE the joining defer runs AFTER it
		if instrDominates(cd, waitDefer) || !instrDominates(waitDefer, cd) {
			bad = "the request body is closed by a defer registered before the joining defer, so it runs after the Wait"
		}
	}
	if len(closeDefers) == 0 && len(closeInline) == 0 {
		bad = "the request body is never closed in serveGRPC"
	}
	r.check(bad == "", "(*Mux).serveGRPC/body-closed-before-join", waitDefer.Pos(), "the request body is closed before the deferred Wait runs (inline, or by a later defer)",
		bad+": a RecvMsg parked in the body read is only released by that Close, the Wait never returns and the client never gets its status")
}

func init() {
	register(&Rule{Name: "CLEAN-END-EOF-ONLY", Floor: 1,
		Doc: "in the HTTP stream's message reader a read error is turned into 'no error, end of stream' only under the identity err == io.EOF, on every path to that assignment: io.ErrUnexpectedEOF (connection closed mid-body, fewer bytes than Content-Length) treated the same way hands the handler a truncated upload as a complete one",
		Run: ruleCleanEndEOFOnly})
}

func ruleCleanEndEOFOnly(r *Run) {
	p := r.P
	fn := p.Method("streamHTTP", "readMsg")
	if fn == nil {
		r.missing("method (*streamHTTP).readMsg")
		return
	}
	isEOFIdent := func(g guardFact) bool {
		x, y, op, ok := g.cmp()
		if !ok || op != token.EQL {
			return false
		}
		return (isIOEOF(x) && isErrorType(y.Type())) || (isIOEOF(y) && isErrorType(x.Type()))
	}
	ei := errResultIndex(fn)
	n := 0
	eachInstr(fn, func(in ssa.Instruction) {
		rt, ok := in.(*ssa.Return)
		if !ok || ei < 0 {
			return
		}
		for _, l := range p.guardedLeaves(rt.Results[ei]) {
			if !isNilConst(l.v) || l.pred == nil {
				continue // not an `err = nil` assignment
			}
			// only assignments made after some error was compared with a sentinel are "swallowing" ones
			swallow := false
			for _, g := range p.expandFacts(l.facts) {
				if x, y, _, ok := g.cmp(); ok && isErrorType(x.Type()) && !isNilConst(y) && !isNilConst(x) {
					swallow = true
				}
			}
			if !swallow && !p.guardedInEveryContext(l.pred, func(g guardFact) bool {
				x, y, _, ok := g.cmp()
				return ok && isErrorType(x.Type()) && !isNilConst(y) && !isNilConst(x)
			}) {
				continue
			}
			n++
			key := fmt.Sprintf("(*streamHTTP).readMsg/error-cleared#%d", n)
			r.check(p.guardedInEveryContext(l.pred, isEOFIdent), key, rt.Pos(), "the read error is cleared only where it is io.EOF itself",
				"the read error can be cleared on a path where it was not found identical to io.EOF (another sentinel - io.ErrUnexpectedEOF - is treated as a clean end): a body cut short is delivered to the handler as a complete stream")
		}
	})
	if n == 0 {
		r.undecided("(*streamHTTP).readMsg/error-cleared", fn.Pos(), "no place where a read error is replaced by nil found")
	}
}

func init() {
	register(&Rule{Name: "LOOP-PROGRESS", Floor: 1,
		Doc: "a loop that grows a counter by a fraction of itself (x += x / k) until it reaches a bound is entered only where x >= k was established: below k the increment is 0 and the loop never ends (growcap's 1.25x loop entered with a capacity of 1..3: ReadNext hangs instead of returning the message)",
		Run: ruleLoopProgress})
}

func ruleLoopProgress(r *Run) {
	p := r.P
	n := 0
	for _, fn := range p.ModuleFuncs() {
		eachInstr(fn, func(in ssa.Instruction) {
			ph, ok := in.(*ssa.Phi)
			if !ok || !blockInLoop(ph.Block()) {
				return
			}
			// a way back that brings phi + phi/k
			var k int64
			var init []ssa.Value
			self := false
			for i, e := range ph.Edges {
				pred := ph.Block().Preds[i]
				if !blockReaches(ph.Block(), pred) {
					init = append(init, e)
					continue
				}
				add, ok := e.(*ssa.BinOp)
				if !ok || add.Op != token.ADD {
					return
				}
				other := add.Y
				if add.Y == ssa.Value(ph) {
					other = add.X
				} else if add.X != ssa.Value(ph) {
					return
				}
				q, ok := other.(*ssa.BinOp)
				if !ok || (q.Op != token.QUO && q.Op != token.SHR) || q.X != ssa.Value(ph) {
					return
				}
				c, isC := constInt(q.Y)
				if !isC || c <= 0 {
					return
				}
				if q.Op == token.SHR {
					c = 1 << uint(c)
				}
				k, self = c, true
			}
			if !self || len(init) == 0 {
				return
			}
			n++
			key := fmt.Sprintf("%s/fractional-growth#%d", shortFunc(fn), n)
			// the initial value is at least k on entry
			atLeast := func(g guardFact) bool {
				x, y, op, ok := g.cmp()
				if !ok {
					return false
				}
				c, isC := constInt(y)
				if !isC {
					return false
				}
				isInit := false
				for _, iv := range init {
					if x == iv || p.sameValue(x, iv) || p.sameOrigins(x, iv) {
						isInit = true
					}
				}
				if !isInit {
					return false
				}
				return (op == token.GEQ && c >= k) || (op == token.GTR && c >= k-1)
			}
			entry := ph.Block()
			for i := range ph.Edges {
				if !blockReaches(ph.Block(), ph.Block().Preds[i]) {
					entry = ph.Block().Preds[i]
				}
			}
			r.check(p.guardedInEveryContext(entry, atLeast), key, ph.Pos(), fmt.Sprintf("entered only where the counter is at least %d (the increment x/%d is positive)", k, k),
				fmt.Sprintf("the loop grows its counter by x/%d but can be entered with x < %d: the increment is 0, the counter never reaches its bound and the call never returns", k, k))
		})
	}
	if n == 0 {
		r.undecided("fractional growth loops", token.NoPos, "no loop of the form x += x/k found (growcap)")
	}
}
