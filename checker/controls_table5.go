package main

// Controls for the rules and clauses added after the fourth round of seeded changes.
func init() {
	control(&Control{ID: "quote-no-escape", Rule: "QUOTE-ESCAPES", File: "larking/rules.go",
		Old: "raw = strconv.AppendQuote(raw[:0], string(raw))", New: "_ = strconv.IntSize\n\t\traw = append(append([]byte{'\"'}, raw...), '\"')", Expect: "quote/escapes", Why: "URL text wrapped in bare quotes"})
	control(&Control{ID: "sublow-unguarded", Rule: "SUB-LOW", File: "larking/lexer.go",
		Old: "\t} else if l.pos > l.width {\n", New: "\t} else if l.pos > 0 {\n", Expect: "low-bound-difference", Why: "pos-width not known non-negative"})
	control(&Control{ID: "compressflag-by-negotiation", Rule: "COMPRESS-FLAG", File: "larking/grpc.go",
		Old: "\tif isCompressed {\n", New: "\tif isCompressed || s.comp != nil {\n", Expect: "decompress-iff-flag", Why: "decompress whenever a compressor was negotiated"})
	control(&Control{ID: "readfail-ctx-error", Rule: "READ-FAIL-NONNIL", File: "larking/grpc.go",
		Old: "\t\t\tmsg := err.Error()\n\t\t\treturn status.Errorf(codes.Canceled, msg)\n\t\t}\n\t\treturn err\n\t}\n\tisCompressed", New: "\t\t\treturn status.FromContextError(s.ctx.Err()).Err()\n\t\t}\n\t\treturn err\n\t}\n\tisCompressed", Expect: "after-failed-read", Why: "error computed from the context can be nil"})
	control(&Control{ID: "statspure-outcome-write", Rule: "STATS-PURE", File: "larking/http.go",
		Old: "\t\t\tendErr := herr\n\t\t\tif endErr == nil {\n\t\t\t\tendErr = err\n\t\t\t}\n", New: "\t\t\tendErr := herr\n\t\t\tif endErr == nil {\n\t\t\t\tendErr = err\n\t\t\t} else {\n\t\t\t\terr = herr\n\t\t\t}\n", Expect: "outcome-write:err", Why: "the deferred End assigns the function's result"})
	control(&Control{ID: "mdgate-canonical-test", Rule: "MD-GATE-OUT", File: "larking/grpc.go",
		Old: "\t\tif isReservedResponseHeader(k) {\n", New: "\t\tif isReservedResponseHeader(textproto.CanonicalMIMEHeaderKey(k)) {\n", Expect: "reserved-filter-case", Why: "reserved test on the canonical key"})
	control(&Control{ID: "cow5-early-empty", Rule: "COW-5", File: "larking/rules.go",
		Old: "\tpc := newPath()\n\tif p == nil {\n\t\treturn pc\n\t}\n", New: "\tpc := newPath()\n\tif p == nil || len(p.methods)+len(p.variables)+len(p.segments) == 0 {\n\t\treturn pc\n\t}\n", Expect: "carries-on-every-path", Why: "clone returns empty for a node that only has methodAll"})
	control(&Control{ID: "escapeset-no-padding", Rule: "ESCAPE-SET", File: "larking/grpc.go",
		Old: "\"%%%02x\"", New: "\"%%%x\"", Expect: "escape-format", Why: "single hex digit for bytes below 0x10"})
}
