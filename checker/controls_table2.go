package main

func init() {
	// ---- C01 / C02 ----
	control(&Control{ID: "stopset-star", Rule: "STOP-SET", File: "larking/rules.go",
		Old: "toks[i:].indexAny(tokenSlash | tokenVerb)", New: "toks[i:].indexAny(tokenSlash)", Expect: "stop-set:*", Why: "'*' stops at '/' only (runs over a ':verb')"})
	control(&Control{ID: "stopset-starstar", Rule: "STOP-SET", File: "larking/rules.go",
		Old: "toks[i:].index(tokenVerb)", New: "toks[i:].index(tokenSlash)", Expect: "stop-set:**", Why: "'**' stops at the next '/'"})
	control(&Control{ID: "litcmp-drop-text", Rule: "LITERAL-COMPARE", File: "larking/rules.go",
		Old: "if toks[i].typ != tokenPath || tok.val != toks[i].val {", New: "if toks[i].typ != tokenPath {", Expect: "literal-text-compared", Why: "literal inside a variable pattern no longer compares text"})
	control(&Control{ID: "offsetbase-whole-slice", Rule: "OFFSET-BASE", File: "larking/rules.go",
		Old: "toks[i:].index(tokenVerb)", New: "toks.index(tokenVerb)", Expect: "cursor+=", Why: "restore D3: search the whole slice, add to the cursor"})
	control(&Control{ID: "keyagree-reader", Rule: "KEY-AGREE", File: "larking/rules.go",
		Old: "segment := toks[0].val + toks[1].val", New: "segment := toks[1].val", Expect: "search/key", Why: "search looks the edge up without the separator text"})
	control(&Control{ID: "patternverb-put", Rule: "PATTERN-VERB", File: "larking/rules.go",
		Old: "verb = http.MethodPut", New: "verb = http.MethodPost", Expect: "pattern:Put", Why: "put: rules registered under POST"})
	control(&Control{ID: "verbkey-const", Rule: "VERB-KEY", File: "larking/rules.go",
		Old: "if m, ok := p.methods[verb]; ok {\n\t\t\treturn m, nil, nil", New: "if m, ok := p.methods[\"GET\"]; ok {\n\t\t\treturn m, nil, nil", Expect: "leaf-keyed-by-verb", Why: "leaf table indexed by a constant verb"})
	control(&Control{ID: "leaf-early", Rule: "LEAF-EXHAUSTED", File: "larking/rules.go",
		Old: "if n := len(toks); n <= 1 {", New: "if n := len(toks); n <= 3 {", Expect: "leaf-only-when-exhausted", Why: "method returned with a segment left unmatched"})
	control(&Control{ID: "varsonly-body", Rule: "VARS-ONLY", File: "larking/rules.go",
		Old: "fds := m.vars[len(m.vars)-len(ps)-1]", New: "fds := m.body", Expect: "param-fields-from-method.vars", Why: "capture bound to the body field path instead of the template's variable"})
	control(&Control{ID: "litfirst-ignore-success", Rule: "LITERAL-FIRST", File: "larking/rules.go",
		Old: "if m, ps, err := next.search(toks[2:], verb); err == nil {\n\t\t\treturn m, ps, nil\n\t\t}", New: "if _, _, err := next.search(toks[2:], verb); err == nil {\n\t\t}", Expect: "literal-success-returns", Why: "literal success falls through to the variables"})
	control(&Control{ID: "backtrack-propagate", Rule: "BACKTRACK", File: "larking/rules.go",
		Old: "m, ps, err := v.next.search(toks[l:], verb)\n\t\tif err != nil {\n\t\t\tcontinue\n\t\t}", New: "m, ps, err := v.next.search(toks[l:], verb)\n\t\tif err != nil {\n\t\t\treturn nil, nil, err\n\t\t}", Expect: "sub-search-error-not-returned", Why: "first failing variable aborts the search"})
	control(&Control{ID: "backtrack-break", Rule: "BACKTRACK", File: "larking/rules.go",
		Old: "if l == 0 {\n\t\t\tcontinue\n\t\t}", New: "if l == 0 {\n\t\t\tbreak\n\t\t}", Expect: "continue:no-match", Why: "a non-matching variable ends the loop"})
	control(&Control{ID: "sortedvars-no-sort", Rule: "SORTED-VARS", File: "larking/rules.go",
		Old: "\tp.variables = append(p.variables, v)\n\tsort.Sort(p.variables)\n", New: "\tp.variables = append(p.variables, v)\n", Expect: "sorted-after-add", Why: "variables kept in registration order"})
	control(&Control{ID: "sortedvars-nonstrict", Rule: "SORTED-VARS", File: "larking/rules.go",
		Old: "return p[i].name < p[j].name", New: "return p[i].name <= p[j].name", Expect: "strict-on-name", Why: "Less is not strict"})
	control(&Control{ID: "nomaporder-range", Rule: "NO-MAP-ORDER", File: "larking/rules.go",
		Old: "\tif next, ok := p.segments[segment]; ok {\n", New: "\tfor k, next := range p.segments {\n\t\tif k != segment {\n\t\t\tcontinue\n\t\t}\n", Expect: "range-over-map", Why: "search ranges over the segments map"})

	// ---- C03 ----
	control(&Control{ID: "kind-drop-sfixed64", Rule: "KIND-EXHAUSTIVE", File: "larking/rules.go",
		Old: "case protoreflect.Int64Kind, protoreflect.Sint64Kind, protoreflect.Sfixed64Kind:", New: "case protoreflect.Int64Kind, protoreflect.Sint64Kind:", Expect: "case:Sfixed64Kind", Why: "sfixed64 falls to the default error"})
	control(&Control{ID: "kindvalue-float", Rule: "KIND-VALUE-AGREE", File: "larking/rules.go",
		Old: "protoreflect.ValueOfFloat32(x)", New: "protoreflect.ValueOfFloat64(float64(x))", Expect: "FloatKind", Why: "float field set with a float64 value (Set panics)"})
	control(&Control{ID: "wkt-uint32", Rule: "WKT-TABLE", File: "larking/rules.go",
		Old: "var msg wrapperspb.UInt32Value", New: "var msg wrapperspb.Int32Value", Expect: "wkt:UInt32Value", Why: "UInt32Value parsed into an Int32Value"})
	control(&Control{ID: "bytes-no-url", Rule: "BYTES-ALPHABETS", File: "larking/rules.go",
		Old: "enc = base64.URLEncoding", New: "enc = base64.StdEncoding", Expect: "alphabets", Why: "URL-safe base64 no longer accepted"})
	control(&Control{ID: "nameres-no-proto-name", Rule: "NAME-RESOLUTION", File: "larking/rules.go",
		Old: "\t\tif fd == nil {\n\t\t\tfd = fieldDescs.ByName(protoreflect.Name(name))\n\t\t}\n", New: "", Expect: "json-then-proto-name", Why: "proto-name spelling of fields stops resolving"})
	control(&Control{ID: "fieldpath-p1", Rule: "FIELDPATH-SINGULAR", File: "larking/rules.go",
		Old: "\t\t\tif !isSingularMessage(fd) {\n\t\t\t\treturn nil\n\t\t\t}", New: "\t\t\tif fd.Message() == nil {\n\t\t\t\treturn nil\n\t\t\t}", Expect: "fieldPath/P1", Why: "restore D32: walk through repeated/map message fields"})
	control(&Control{ID: "fieldpath-p2", Rule: "FIELDPATH-SINGULAR", File: "larking/rules.go",
		Old: "if m.body == nil || !isSingularMessage(m.body[len(m.body)-1]) {", New: "if m.body == nil {", Expect: "P:body", Why: "body selector naming a scalar is accepted"})
	control(&Control{ID: "decode-params-every-message", Rule: "DECODE-THEN-PARAMS", File: "larking/websocket.go",
		Old: "if s.recvN == 1 {", New: "if s.recvN >= 1 {", Expect: "params-on-first-message", Why: "params applied to every WebSocket message"})
	control(&Control{ID: "descrole-resp-input", Rule: "DESC-ROLE", File: "larking/rules.go",
		Old: "m.resp = fieldPath(desc.Output().Fields(), strings.Split(rule.ResponseBody", New: "m.resp = fieldPath(desc.Input().Fields(), strings.Split(rule.ResponseBody", Expect: "method.resp/descriptor", Why: "response_body resolved on the request type"})
	control(&Control{ID: "descrole-proxy-reply", Rule: "DESC-ROLE", File: "larking/mux.go",
		Old: "reply := dynamicpb.NewMessage(replyDesc)\n\t\t\t\tif outErr = clientStream.RecvMsg(reply)", New: "reply := dynamicpb.NewMessage(argsDesc)\n\t\t\t\tif outErr = clientStream.RecvMsg(reply)", Expect: "RecvMsg:grpc.ClientStream", Why: "backend replies decoded with the request schema"})
	control(&Control{ID: "decomp-wrong-header", Rule: "DECOMP-AGREE", File: "larking/http.go",
		Old: "contentEncoding := r.Header.Get(\"Content-Encoding\")", New: "contentEncoding := r.Header.Get(\"Accept-Encoding\")", Expect: "decompressor-by-content-encoding", Why: "request body decompressed according to Accept-Encoding"})

	// ---- C04 ----
	control(&Control{ID: "ctagree-request-type", Rule: "CT-AGREE", File: "larking/http.go",
		Old: "\tcontentType := s.accept\n\tc, err := s.getCodec(contentType, cur)", New: "\tcontentType := s.contentType\n\tc, err := s.getCodec(s.accept, cur)", Expect: "content-type-source", Why: "Content-Type echoes the request's type while the codec follows Accept"})
	control(&Control{ID: "ceagree-header-outside", Rule: "CE-AGREE", File: "larking/http.go",
		Old: "\tif cz := m.opts.compressors[acceptEncoding]; cz != nil {\n\t\tw.Header().Set(\"Content-Encoding\", acceptEncoding)\n", New: "\tw.Header().Set(\"Content-Encoding\", acceptEncoding)\n\tif cz := m.opts.compressors[acceptEncoding]; cz != nil {\n", Expect: "content-encoding-guard", Why: "Content-Encoding announced even when no compressor applies"})
	control(&Control{ID: "offers-wrong-list", Rule: "OFFERS-AGREE", File: "larking/http.go",
		Old: "accept := negotiateContentType(r.Header, m.opts.contentTypeOffers, contentType)", New: "accept := negotiateContentType(r.Header, m.opts.encodingTypeOffers, contentType)", Expect: "streamHTTP.accept", Why: "content type negotiated over the encoding offers"})
	control(&Control{ID: "resp-not-applied-ws", Rule: "RESP-APPLIED", File: "larking/websocket.go",
		Old: "\tmsg := cur.Interface()\n\n\t// TODO: contentType check?\n\tb, err := protojson.Marshal(msg)", New: "\tmsg := reply\n\n\t// TODO: contentType check?\n\tb, err := protojson.Marshal(msg)", Expect: "streamWS).SendMsg/marshals", Why: "WebSocket replies ignore response_body"})
	control(&Control{ID: "reserved-drop-grpc-status", Rule: "MD-RESERVED-TABLE", File: "larking/grpc.go",
		Old: "\"grpc-message\", \"grpc-status\", \"grpc-timeout\",", New: "\"grpc-message\", \"grpc-timeout\",", Expect: "reserved:grpc-status", Why: "grpc-status no longer reserved"})

	// ---- C05 ----
	control(&Control{ID: "statustable-notfound", Rule: "STATUS-TABLE", File: "larking/code.go",
		Old: "http.StatusNotFound,", New: "http.StatusGone,", Expect: "[5 NOT_FOUND]", Why: "NOT_FOUND mapped to 410"})
	control(&Control{ID: "tableguard-off-by-one", Rule: "TABLE-GUARD", File: "larking/code.go",
		Old: "if c >= codes.Code(len(codeToHTTPStatus)) {", New: "if c > codes.Code(len(codeToHTTPStatus)) {", Expect: "HTTPStatusCode/index", Why: "restore D19"})
	control(&Control{ID: "twirp-cancelled", Rule: "TWIRP-TABLE", File: "larking/code.go",
		Old: "\"canceled\",", New: "\"cancelled\",", Expect: "[1 CANCELLED]", Why: "restore D20 spelling"})
	control(&Control{ID: "encoder-no-close", Rule: "ENCODER-CLOSE", File: "larking/web.go",
		Old: "\tif c, ok := w.resp.(io.Closer); ok {\n\t\tc.Close()\n\t}\n", New: "", Expect: "encoder-closed", Why: "restore D21"})
	control(&Control{ID: "tailflush-drop", Rule: "TAIL-FLUSH", File: "larking/grpc.go",
		Old: "\tsb.WriteString(msg[pos:])\n", New: "", Expect: "encodeGrpcMessage/tail", Why: "restore D13"})
	control(&Control{ID: "panic-getcodec", Rule: "PANIC-REACH-SERVE", File: "larking/http.go",
		Old: "\treturn nil, status.Errorf(codes.Internal, \"no codec registered for content-type %q\", mediaType)", New: "\tpanic(\"no codec registered for \" + mediaType)", Expect: "getCodec/panic", Why: "unknown content type panics"})
	control(&Control{ID: "errstatus-two-values", Rule: "ERR-SAME-STATUS", File: "larking/grpc.go",
		Old: "if m := st.Message(); m != \"\" {", New: "if m := status.Convert(err).Message(); m != \"\" {", Expect: "serveGRPC/one-status", Why: "grpc-message taken from another error than grpc-status"})
	control(&Control{ID: "grpcmessage-raw", Rule: "GRPC-TRAILER-VALUES", File: "larking/grpc.go",
		Old: "h.Set(\"Grpc-Message\", encodeGrpcMessage(m))", New: "h.Set(\"Grpc-Message\", m)", Expect: "serveGRPC/Grpc-Message", Why: "grpc-message sent unencoded"})

	// ---- C06 ----
	control(&Control{ID: "carryover-drop", Rule: "CARRY-OVER", File: "larking/http.go",
		Old: "\t\ts.rbuf = append(s.rbuf[:0], b[n:]...)\n", New: "", Expect: "tail-saved", Why: "bytes read past the message are dropped"})
	control(&Control{ID: "frame-little-endian", Rule: "FRAME-AGREE", File: "larking/grpc.go",
		Old: "binary.BigEndian.PutUint32(b[1:], size)", New: "binary.LittleEndian.PutUint32(b[1:], size)", Expect: "byte-order", Why: "frame length written little-endian"})

	// ---- C07 ----
	control(&Control{ID: "paramorder-restore", Rule: "PARAM-ORDER", File: "larking/http.go",
		Old: "params = append(queryParams, params...)", New: "params = append(params, queryParams...)", Expect: ".params", Why: "restore D12"})
	control(&Control{ID: "lastwriter-has", Rule: "LAST-WRITER", File: "larking/rules.go",
		Old: "\t\t\t\tdefault:\n\t\t\t\t\tcur.Set(fd, p.val)\n", New: "\t\t\t\tdefault:\n\t\t\t\t\tif !cur.Has(fd) {\n\t\t\t\t\t\tcur.Set(fd, p.val)\n\t\t\t\t\t}\n", Expect: "set-unconditional", Why: "first writer wins"})

	// ---- C08 / C17 ----
	control(&Control{ID: "limitsrc-no-postcheck", Rule: "LIMIT-SRC", File: "larking/grpc.go",
		Old: "if n := buf.Len(); n > s.opts.maxReceiveMessageSize {", New: "if n := buf.Len(); n > math.MaxInt32 {", Expect: "decompress/Buffer.ReadFrom", Why: "restore D17: no limit check after decompression"})
	control(&Control{ID: "limitsrc-readnext-zero", Rule: "LIMIT-SRC", File: "larking/http.go",
		Old: "codec.ReadNext(b, s.r, s.opts.maxReceiveMessageSize)", New: "codec.ReadNext(b, s.r, 0)", Expect: "readMsg/ReadNext", Why: "stream codec reads without a limit"})
	control(&Control{ID: "limitsrc-ws", Rule: "LIMIT-SRC", File: "larking/websocket.go",
		Old: "if len(b) > s.opts.maxReceiveMessageSize {", New: "if len(b) > 1<<40 {", Expect: "streamWS).RecvMsg", Why: "restore D22"})
	control(&Control{ID: "limitstrict-geq", Rule: "LIMIT-STRICT", File: "larking/mux.go",
		Old: "if total > int64(o.maxReceiveMessageSize) {", New: "if total >= int64(o.maxReceiveMessageSize) {", Expect: "readAll/limit-guard", Why: "a body exactly at the limit is refused"})
	control(&Control{ID: "limitimpl-proto", Rule: "LIMIT-IMPL", File: "larking/codec.go",
		Old: "if size > math.MaxInt || limit < 0 || size > uint64(limit) {", New: "if size > math.MaxInt {", Expect: "CodecProto).ReadNext/limit-on-every-success-path", Why: "CodecProto ignores its limit"})
	control(&Control{ID: "limitdefaults-swap", Rule: "LIMIT-DEFAULTS", File: "larking/mux.go",
		Old: "return func(opts *muxOptions) { opts.maxSendMessageSize = s }", New: "return func(opts *muxOptions) { opts.maxReceiveMessageSize = s }", Expect: "MaxSendMessageSizeOption", Why: "send option overwrites the receive limit"})
	control(&Control{ID: "signconv-restore", Rule: "SIGNCONV", File: "larking/codec.go",
		Old: "if size > math.MaxInt || limit < 0 || size > uint64(limit) {", New: "if int(size) > math.MaxInt32 || limit < 0 || int(size) > limit {", Expect: "conv:uint64->int", Why: "restore D23"})

	// ---- C09 ----
	control(&Control{ID: "commaok-restore-d9", Rule: "COMMAOK-SERVE", File: "larking/http.go",
		Old: "return count, fmt.Errorf(\"codec %s does not support streaming\", c.Name())", New: "return count, fmt.Errorf(\"codec %s does not support streaming\", codec.Name())", Expect: "writeMsg/type-assertion", Why: "restore D9"})
	control(&Control{ID: "assert-unchecked-flusher", Rule: "ASSERT-CHECKED", File: "larking/http.go",
		Old: "\tif fRsp, ok := s.w.(http.Flusher); ok {\n\t\tdefer fRsp.Flush()\n\t}\n", New: "\tdefer s.w.(http.Flusher).Flush()\n", Expect: "assert:http.Flusher", Why: "unchecked Flusher assertion on a writer that may be a gzip writer"})
	control(&Control{ID: "nilmap-methods", Rule: "NIL-MAP-WRITE", File: "larking/rules.go",
		Old: "\t\tmethods:  make(map[string]*method),\n", New: "", Expect: "path.methods", Why: "newPath leaves methods nil"})
	control(&Control{ID: "tokenkinds-ident", Rule: "TOKEN-KINDS", File: "larking/rules.go",
		Old: "case tokenSlash, tokenStar, tokenStarStar, tokenLiteral:\n\t\t\t\t\t\tvars = append(vars, nxt)", New: "case tokenSlash, tokenStar, tokenStarStar, tokenLiteral, tokenIdent:\n\t\t\t\t\t\tvars = append(vars, nxt)", Expect: "append-to-pattern", Why: "a token kind the matcher panics on is stored in the pattern"})
	control(&Control{ID: "statspure-return", Rule: "STATS-PURE", File: "larking/http.go",
		Old: "\t\tstats.HandleRPC(s.ctx, outPayload(false, m, b, time.Now()))\n\t}\n\treturn nil\n}", New: "\t\tstats.HandleRPC(s.ctx, outPayload(false, m, b, time.Now()))\n\t\treturn io.EOF\n\t}\n\treturn nil\n}", Expect: "stats-region/return", Why: "a different result is returned inside a stats block (a `return nil` there, identical to the one that follows, is behaviour-preserving and no longer reported)"})
	control(&Control{ID: "statspure-slice", Rule: "STATS-PURE", File: "larking/grpc.go",
		Old: "\t\tstats.HandleRPC(s.ctx, inPayload(false, m, b, time.Now()))", New: "\t\tstats.HandleRPC(s.ctx, inPayload(false, m, b[headerLen:], time.Now()))", Expect: "RecvMsg/stats-region/slice", Why: "restore D18"})

	// ---- C10 ----
	control(&Control{ID: "fwdmd-no-metadata", Rule: "FWD-MD", File: "larking/mux.go",
		Old: "clientStream, err := cc.NewStream(ctx, sd, method)", New: "clientStream, err := cc.NewStream(stream.Context(), sd, method)", Expect: "NewStream/metadata", Why: "backend stream opened without the inbound metadata"})
	control(&Control{ID: "fwdclosesend-wrong-error", Rule: "FWD-CLOSESEND", File: "larking/mux.go",
		Old: "if inErr == io.EOF {", New: "if inErr == io.ErrUnexpectedEOF {", Expect: "inbound-EOF-forwarded", Why: "restore D29: half-close not forwarded on EOF"})
	control(&Control{ID: "fwdpair-empty-message", Rule: "FWD-PAIR", File: "larking/mux.go",
		Old: "if inErr = clientStream.SendMsg(args); inErr != nil {", New: "if inErr = clientStream.SendMsg(dynamicpb.NewMessage(argsDesc)); inErr != nil {", Expect: "same-message", Why: "the pump forwards an empty message"})
	control(&Control{ID: "fwderr-wrapped", Rule: "FWD-ERR-IDENTITY", File: "larking/mux.go",
		Old: "\t\t\tif isStreamError(outErr) {\n\t\t\t\treturn outErr\n\t\t\t}", New: "\t\t\tif isStreamError(outErr) {\n\t\t\t\treturn fmt.Errorf(\"proxy: %v\", outErr)\n\t\t\t}", Expect: "errors-unmodified", Why: "backend status replaced by a plain error"})
	control(&Control{ID: "goshared-no-wait", Rule: "GO-SHARED", File: "larking/mux.go",
		Old: "\t\t\tif sd.ClientStreams {\n\t\t\t\twg.Wait()\n", New: "\t\t\tif sd.ClientStreams {\n", Expect: "shared:inErr", Why: "inErr read without joining the pump"})
	control(&Control{ID: "goshared-pump-sends", Rule: "GO-SHARED", File: "larking/mux.go",
		Old: "\t\t\t\t\tif inErr == io.EOF {\n", New: "\t\t\t\t\tstream.SetTrailer(nil)\n\t\t\t\t\tif inErr == io.EOF {\n", Expect: "inbound-read-only", Why: "the pump touches the response side of the inbound stream"})

	// ---- C11 ----
	control(&Control{ID: "addremove-conns", Rule: "ADD-REMOVE-SYMMETRY", File: "larking/mux.go",
		Old: "\tdelete(s.conns, cc)\n", New: "", Expect: "empties:state.conns", Why: "dropped connection stays in conns"})
	control(&Control{ID: "removefilter-flip", Rule: "REMOVE-FILTER", File: "larking/mux.go",
		Old: "if mhd != hd {", New: "if mhd == hd {", Expect: "keep-filter", Why: "drop keeps the dropped backend and removes the others"})
	control(&Control{ID: "pick-empty", Rule: "PICK-CURRENT", File: "larking/mux.go",
		Old: "if len(hds) > 0 {", New: "if len(hds) >= 0 {", Expect: "unimplemented-iff-empty", Why: "empty handler list indexed"})

	// ---- C13 ----
	control(&Control{ID: "poolescape-valueofbytes", Rule: "POOL-ESCAPE", File: "larking/http.go",
		Old: "cur.Set(fdData, protoreflect.ValueOfBytes(cpy))", New: "cur.Set(fdData, protoreflect.ValueOfBytes(b))", Expect: "decodeRequestArgs/escape", Why: "HttpBody data aliases the pooled buffer"})
	control(&Control{ID: "poolescape-rbuf", Rule: "POOL-ESCAPE", File: "larking/http.go",
		Old: "s.rbuf = append(s.rbuf[:0], b[n:]...)", New: "s.rbuf = b[n:]", Expect: "decodeRequestArgs/escape", Why: "carry-over buffer aliases the pooled buffer"})
	control(&Control{ID: "pooluap-put-before-copy", Rule: "POOL-UAP", File: "larking/grpc.go",
		Old: "\t\tcopy(b[5:], buf.Bytes())\n\t\tsize = uint32(bufSize)\n\t\tbufPool.Put(buf)", New: "\t\tbufPool.Put(buf)\n\t\tcopy(b[5:], buf.Bytes())\n\t\tsize = uint32(bufSize)", Expect: "SendMsg/use-after-Put", Why: "buffer returned to the pool before its bytes are copied"})
	control(&Control{ID: "poolreset-drop", Rule: "POOL-RESET", File: "larking/grpc.go",
		Old: "\t\tbuf.Reset()\n\t\tif err := s.decompress(buf, b); err != nil {", New: "\t\tif err := s.decompress(buf, b); err != nil {", Expect: "RecvMsg/reset-after-Get", Why: "pooled buffer used without Reset"})
	control(&Control{ID: "poolonce-defer", Rule: "POOL-ONCE", File: "larking/grpc.go",
		Old: "\t\tbuf.Reset()\n\t\tif err := s.compress(buf, b[5:]); err != nil {", New: "\t\tbuf.Reset()\n\t\tdefer bufPool.Put(buf)\n\t\tif err := s.compress(buf, b[5:]); err != nil {", Expect: "Put-once", Why: "buffer put twice (deferred and explicit)"})
	control(&Control{ID: "pooltype-new", Rule: "POOL-TYPE", File: "larking/codec.go",
		Old: "\t\tb := make([]byte, 0, 64)\n\t\treturn &b", New: "\t\tb := make([]byte, 0, 64)\n\t\treturn b", Expect: "Get:bytesPool", Why: "pool New supplies []byte, Get asserts *[]byte"})
	control(&Control{ID: "sendrecv-shared-counter", Rule: "SENDRECV-DISJOINT", File: "larking/websocket.go",
		Old: "\ts.recvN += 1\n", New: "\ts.sendN += 1\n", Expect: "streamWS/send-recv-disjoint", Why: "receive half counts in the send counter"})

	// ---- C14 ----
	control(&Control{ID: "mdgateout-no-filter", Rule: "MD-GATE-OUT", File: "larking/grpc.go",
		Old: "\t\tif isReservedResponseHeader(k) {\n\t\t\tcontinue\n\t\t}\n", New: "", Expect: "reserved-filter", Why: "handler metadata copied without the reserved filter"})
	control(&Control{ID: "mdgatein-no-lower", Rule: "MD-GATE-IN", File: "larking/grpc.go",
		Old: "\t\tk = strings.ToLower(k)\n\t\tif isReservedHeader(k) && !isWhitelistedHeader(k) {\n", New: "\t\tif isReservedHeader(k) && !isWhitelistedHeader(k) {\n", Expect: "lower-case", Why: "metadata keys keep canonical header case"})
	control(&Control{ID: "binpadding-raw", Rule: "BIN-PADDING", File: "larking/grpc.go",
		Old: "b, err = base64.StdEncoding.DecodeString(v)", New: "b, err = base64.RawStdEncoding.DecodeString(v)", Expect: "padded-and-unpadded", Why: "restore D14"})
	control(&Control{ID: "identbranch-raw", Rule: "IDENT-BRANCH", File: "larking/grpc.go",
		Old: "b, err = base64.StdEncoding.DecodeString(v)", New: "b, err = base64.RawStdEncoding.DecodeString(v)", Expect: "identical-if-else", Why: "restore D14 (identical arms)"})
	control(&Control{ID: "trailerphase-unprefixed", Rule: "TRAILER-PHASE", File: "larking/grpc.go",
		Old: "\tsetOutgoingTrailer(h, stream.trailer)\n", New: "\tsetOutgoingHeader(h, stream.trailer)\n", Expect: "after-handler:setOutgoingHeader", Why: "restore D30"})
	control(&Control{ID: "stsrouting-trailer", Rule: "STS-ROUTING", File: "larking/handler.go",
		Old: "\ts.ServerStream.SetTrailer(md)\n\treturn nil", New: "\treturn nil", Expect: "SetTrailer", Why: "grpc.SetTrailer from handler code is dropped"})

	// ---- C15 ----
	control(&Control{ID: "ctx-background", Rule: "CTX-ANCESTRY", File: "larking/http.go",
		Old: "ctx, mdata := newIncomingContext(r.Context(), r.Header)", New: "ctx, mdata := newIncomingContext(context.Background(), r.Header)", Expect: "streamHTTP.ctx", Why: "handler context detached from the request"})
	control(&Control{ID: "timeout-not-decoded-value", Rule: "TIMEOUT-APPLIED", File: "larking/grpc.go",
		Old: "tctx, cancel := context.WithTimeout(ctx, to)", New: "tctx, cancel := context.WithTimeout(ctx, to*0+time.Minute)", Expect: "with-timeout", Why: "a fixed timeout replaces the client's"})
	control(&Control{ID: "timeout-not-refused", Rule: "TIMEOUT-REFUSED", File: "larking/grpc.go",
		Old: "\t\t\tmsg := fmt.Sprintf(\"malformed grpc-timeout: %v\", err)\n\t\t\thttp.Error(w, msg, http.StatusBadRequest)\n\t\t\treturn\n", New: "\t\t\tmsg := fmt.Sprintf(\"malformed grpc-timeout: %v\", err)\n\t\t\thttp.Error(w, msg, http.StatusBadRequest)\n", Expect: "malformed-timeout-refused", Why: "malformed timeout no longer stops the request"})
	control(&Control{ID: "unit-minute", Rule: "UNIT-TABLE", File: "larking/grpc.go",
		Old: "\tcase 'M':\n\t\treturn time.Minute", New: "\tcase 'M':\n\t\treturn time.Millisecond", Expect: "timeoutUnit['M']", Why: "'M' decoded as milliseconds"})

	// ---- C16 ----
	control(&Control{ID: "panicreg-appendhandler", Rule: "PANIC-REACH-REG", File: "larking/mux.go",
		Old: "\t\treturn fmt.Errorf(\"[%s] invalid implicit rule %s: %w\", desc.FullName(), h.method, err)", New: "\t\tpanic(err)", Expect: "appendHandler/panic", Why: "restore D2 in appendHandler"})
	control(&Control{ID: "commaokreg-restore-d1", Rule: "COMMAOK-REG", File: "larking/rules.go",
		Old: "\ty, ok := cursor.methods[verb]\n\tif !ok {\n\t\ty = cursor.methodAll\n\t}\n\tif y != nil {", New: "\ty, ok := cursor.methods[verb]\n\tif ok || cursor.methodAll != nil {", Expect: "addRule/map-lookup", Why: "restore D1"})
	control(&Control{ID: "slotcheck-overwrite", Rule: "SLOT-CHECK", File: "larking/rules.go",
		Old: "\tif y != nil {\n\t\tif y.desc.FullName() != desc.FullName() {\n\t\t\treturn fmt.Errorf(\"duplicate rule %v\", rule)\n\t\t}\n\t\treturn nil // Method already registered.\n\t}", New: "\tif y != nil && y.desc.FullName() == desc.FullName() {\n\t\treturn nil // Method already registered.\n\t}", Expect: "slot-checked", Why: "a conflicting binding silently replaces the earlier one"})
	control(&Control{ID: "addbindings-nested", Rule: "ADDITIONAL-BINDINGS", File: "larking/rules.go",
		Old: "\t\tif len(addRule.AdditionalBindings) != 0 {\n\t\t\treturn fmt.Errorf(\"nested rules\") // TODO: errors...\n\t\t}\n", New: "", Expect: "nested-bindings-rejected", Why: "nested additional bindings accepted"})

	// ---- C18 ----
	control(&Control{ID: "iconce-nil-interceptor", Rule: "IC-ONCE", File: "larking/handler.go",
		Old: "d.Handler(ss, ctx, stream.RecvMsg, opts.unaryInterceptor)", New: "d.Handler(ss, ctx, stream.RecvMsg, nil)", Expect: "registerService$2/mediated", Why: "generated handler invoked without the interceptor"})
	control(&Control{ID: "icpassthru-ctx", Rule: "IC-PASSTHRU", File: "larking/mux.go",
		Old: "return ui(ctx, req, info, handler)", New: "return ui(context.Background(), req, info, handler)", Expect: "unary/args", Why: "interceptor receives another context"})
	control(&Control{ID: "roleagree-swap", Rule: "ROLE-AGREE", File: "larking/handler.go",
		Old: "IsClientStream: d.ClientStreams,\n\t\t\t\t\tIsServerStream: d.ServerStreams,", New: "IsClientStream: d.ServerStreams,\n\t\t\t\t\tIsServerStream: d.ClientStreams,", Expect: "StreamServerInfo.IsClientStream", Why: "streaming flags swapped"})
	control(&Control{ID: "statspair-no-defer", Rule: "STATS-PAIR", File: "larking/http.go",
		Old: "\t\tdefer func() {\n\t\t\tendErr := herr", New: "\t\tfunc() {\n\t\t\tendErr := herr", Expect: "exit-after:", Why: "the End closure is called on the spot instead of deferred: no exit ends the RPC"})
	control(&Control{ID: "statserr-nil", Rule: "STATS-ERR", File: "larking/http.go",
		Old: "\t\t\t\tError:     endErr,", New: "\t\t\t\tError:     nil,", Expect: "End.Error#1", Why: "End reports success for a failed RPC"})
	control(&Control{ID: "statsorder-ctx", Rule: "STATS-ORDER", File: "larking/grpc.go",
		Old: "sh.HandleRPC(ctx, &stats.End{", New: "sh.HandleRPC(r.Context(), &stats.End{", Expect: "serveGRPC/ctx:End", Why: "End emitted with the untagged context"})

	// ---- C19 ----
	control(&Control{ID: "selkey-short-name", Rule: "SEL-KEY", File: "larking/mux.go",
		Old: "name := string(desc.FullName())", New: "name := string(desc.Name())", Expect: "selector-key", Why: "config rules selected by the short method name"})
	control(&Control{ID: "selsame-other-name", Rule: "SEL-SAME-BINDER", File: "larking/mux.go",
		Old: "for _, rule := range opts.httprules.getRules(name) {\n\t\tif err := s.path.addRule(rule, desc, h.method); err != nil {", New: "for _, rule := range opts.httprules.getRules(name) {\n\t\tif err := s.path.addRule(rule, desc, name); err != nil {", Expect: "addRule#2", Why: "config rules bound under the descriptor name, not the handler key"})
	control(&Control{ID: "selbuild-nil", Rule: "SEL-BUILD", File: "larking/mux.go",
		Old: "opts.httprules.setRules(sc.Http.GetRules())", New: "opts.httprules.setRules(nil)", Expect: "builds-selector", Why: "service config rules never reach the selector"})
	control(&Control{ID: "health-typo", Rule: "HEALTH-TABLE", File: "health/health.go",
		Old: "Selector: \"grpc.health.v1.Health.Check\",", New: "Selector: \"grpc.health.v1.Health.Chec\",", Expect: "rule:", Why: "healthz selector names no method"})

	// ---- C20 ----
	control(&Control{ID: "prefix-strip-pattern", Rule: "PREFIX-AGREE", File: "larking/server.go",
		Old: "h.Handle(prefix+\"/\", http.StripPrefix(prefix, mux))", New: "h.Handle(prefix+\"/\", http.StripPrefix(pattern, mux))", Expect: "Handle#1", Why: "strips the pattern (with its slash) instead of the prefix"})
	control(&Control{ID: "muxreuse-always-new", Rule: "MUX-REUSE", File: "larking/server.go",
		Old: "\th := svrOpts.serveMux\n\tif h == nil {\n\t\th = http.NewServeMux()\n\t}", New: "\th := http.NewServeMux()", Expect: "serve-mux-reused", Why: "HTTPHandlerOption's handlers are dropped"})
	control(&Control{ID: "defaultroot-api", Rule: "DEFAULT-ROOT", File: "larking/server.go",
		Old: "svrOpts.muxPatterns = []string{\"/\"}", New: "svrOpts.muxPatterns = []string{\"/api\"}", Expect: "default-root", Why: "default mount is not the root"})
	control(&Control{ID: "h2-two-servers", Rule: "H2-WIRED", File: "larking/server.go",
		Old: "if err := http2.ConfigureServer(hs, h2s); err != nil {", New: "if err := http2.ConfigureServer(hs, &http2.Server{}); err != nil {", Expect: "same-http2-server", Why: "TLS and clear-text listeners configured with different http2 servers"})
}
