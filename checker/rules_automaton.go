package main

import (
	"fmt"
	"go/constant"
	"go/token"
	"go/types"
	"strings"

	"golang.org/x/tools/go/ssa"
)

// JSON-FRAME-TABLE
//
// CodecJSON.ReadNext frames a stream of JSON objects with a byte-level scanner:
// a handful of scalar variables carried around one loop, updated from the
// current byte by constant comparisons only. That makes its transition
// function a finite table (state x byte class -> state | accept | refuse) that
// can be read off the loop body by constant folding, without any input. The
// rule extracts that table and compares it, by a product walk over the states
// both sides can reach, with the table of the JSON grammar restricted to what
// framing needs (brace depth outside strings, string start/end, backslash
// escapes inside strings).

func init() {
	register(&Rule{Name: "JSON-FRAME-TABLE", Floor: 1,
		Doc: "the transition table of CodecJSON.ReadNext's byte scanner (read off its loop body by constant folding: loop-carried scalars x {'{', '}', '\"', '\\\\', other} -> next scalars | message ends here | refuse), walked together with the table of JSON's lexical structure from the initial state up to brace depth 4, agrees with it on every transition: same continuation, message end exactly at the brace that returns to depth 0 outside a string, refusal exactly at a surplus closing brace; and the transition depends on nothing but those scalars and the current byte",
		Run: ruleJSONFrameTable})
}

// av is an abstract value of the folding interpreter.
type av struct {
	k byte  // 'u' unknown, 'i' integer, 'b' boolean, 'x' current index + i, 'n' nil, 'e' certainly non-nil error
	i int64 // integer value, 0/1 for booleans, offset for 'x'
}

var avUnknown = av{k: 'u'}

func (a av) String() string {
	switch a.k {
	case 'i':
		return fmt.Sprint(a.i)
	case 'b':
		return fmt.Sprint(a.i != 0)
	case 'x':
		return fmt.Sprintf("i+%d", a.i)
	case 'n':
		return "nil"
	case 'e':
		return "error"
	}
	return "?"
}

type scanOutcome struct {
	kind byte // 'L' next iteration, 'A' message ends at this byte, 'E' refused, '?' not classifiable
	next []av
	why  string
}

func (o scanOutcome) key() string {
	return fmt.Sprintf("%c%v", o.kind, o.next)
}

type byteScanner struct {
	p      *Program
	fn     *ssa.Function
	head   *ssa.BasicBlock
	idx    *ssa.Phi
	state  []*ssa.Phi
	consts map[int64]bool // byte constants the current byte is compared with
}

// findByteScanner locates the scan loop of fn: a loop-header phi of integer type that indexes a byte load and is
// advanced by one on every way back to the header; the other scalar phis of that header are the scanner's state.
func (p *Program) findByteScanner(fn *ssa.Function) (*byteScanner, string) {
	var idx *ssa.Phi
	eachInstr(fn, func(in ssa.Instruction) {
		u, ok := in.(*ssa.UnOp)
		if !ok || u.Op != token.MUL {
			return
		}
		ia, ok := u.X.(*ssa.IndexAddr)
		if !ok {
			return
		}
		if bt, ok := u.Type().Underlying().(*types.Basic); !ok || bt.Kind() != types.Uint8 {
			return
		}
		if ph, ok := ia.Index.(*ssa.Phi); ok && blockInLoop(ph.Block()) {
			if idx == nil || idx == ph {
				idx = ph
			}
		}
	})
	if idx == nil {
		return nil, "no byte load indexed by a loop counter found"
	}
	sc := &byteScanner{p: p, fn: fn, head: idx.Block(), idx: idx, consts: map[int64]bool{}}
	for _, in := range sc.head.Instrs {
		ph, ok := in.(*ssa.Phi)
		if !ok {
			break
		}
		if ph == idx {
			continue
		}
		if bt, ok := ph.Type().Underlying().(*types.Basic); ok && bt.Info()&(types.IsInteger|types.IsBoolean) != 0 {
			sc.state = append(sc.state, ph)
		}
	}
	if len(sc.state) == 0 {
		return nil, "the scan loop carries no scalar state"
	}
	// byte constants compared with anything of byte type in the function (and its helpers)
	p.eachInstrRegion(fn, func(_ *ssa.Function, in ssa.Instruction) {
		bo, ok := in.(*ssa.BinOp)
		if !ok {
			return
		}
		for _, pair := range [][2]ssa.Value{{bo.X, bo.Y}, {bo.Y, bo.X}} {
			if bt, ok := pair[0].Type().Underlying().(*types.Basic); ok && bt.Kind() == types.Uint8 {
				if k, ok := constInt(pair[1]); ok {
					sc.consts[k] = true
				}
			}
		}
	})
	return sc, ""
}

func (sc *byteScanner) initial() ([]av, string) {
	var out []av
	for _, ph := range sc.state {
		var v av
		found := false
		for i, e := range ph.Edges {
			pred := sc.head.Preds[i]
			if blockReaches(sc.head, pred) {
				continue // a way back, not the way in
			}
			c, ok := e.(*ssa.Const)
			if !ok {
				return nil, "state variable " + ph.Comment + " does not start from a constant"
			}
			cv := constAV(c)
			if found && cv != v {
				return nil, "state variable " + ph.Comment + " has two initial values"
			}
			v, found = cv, true
		}
		if !found {
			return nil, "state variable " + ph.Comment + " has no initial value"
		}
		out = append(out, v)
	}
	return out, ""
}

// blockReaches: to is reachable from from along CFG edges.
func blockReaches(from, to *ssa.BasicBlock) bool {
	seen := map[*ssa.BasicBlock]bool{}
	stack := []*ssa.BasicBlock{from}
	for len(stack) > 0 {
		x := stack[len(stack)-1]
		stack = stack[:len(stack)-1]
		if x == to {
			return true
		}
		if seen[x] {
			continue
		}
		seen[x] = true
		stack = append(stack, x.Succs...)
	}
	return false
}

func constAV(c *ssa.Const) av {
	if c.Value == nil {
		return av{k: 'n'}
	}
	switch c.Value.Kind() {
	case constant.Bool:
		if constant.BoolVal(c.Value) {
			return av{k: 'b', i: 1}
		}
		return av{k: 'b'}
	case constant.Int:
		if k, ok := constant.Int64Val(c.Value); ok {
			return av{k: 'i', i: k}
		}
	}
	return avUnknown
}

type scanPath struct {
	blk, prev *ssa.BasicBlock
	pc        int // next instruction of blk
	env       map[ssa.Value]av
	tup       map[ssa.Value][]av // results of multi-value calls
	steps     int
}

func (pt scanPath) clone() scanPath {
	c := pt
	c.env = make(map[ssa.Value]av, len(pt.env))
	for k, v := range pt.env {
		c.env[k] = v
	}
	c.tup = make(map[ssa.Value][]av, len(pt.tup))
	for k, v := range pt.tup {
		c.tup[k] = v
	}
	return c
}

// enterBlock moves the path to block b (coming from its current block) and assigns b's phis.
func (sc *byteScanner) enterBlock(pt *scanPath, b *ssa.BasicBlock, cur byte) {
	from := pt.blk
	pi := predIndex(b, from)
	vals := map[*ssa.Phi]av{}
	for _, in := range b.Instrs {
		ph, ok := in.(*ssa.Phi)
		if !ok {
			break
		}
		if pi >= 0 {
			vals[ph] = sc.eval(pt, ph.Edges[pi], cur)
		} else {
			vals[ph] = avUnknown
		}
	}
	for ph, v := range vals {
		pt.env[ph] = v
	}
	pt.prev, pt.blk, pt.pc = from, b, 0
}

// run enumerates the ways through a function body from the given start, forking where a condition does not fold
// and where a helper can return several results. atHead is consulted on every block entry (nil inside helpers);
// a way that makes an interface call (reads more input) is dropped.
func (sc *byteScanner) run(start scanPath, cur byte, depth int, atHead func(pt *scanPath, to *ssa.BasicBlock) bool, onReturn func(pt *scanPath, rt *ssa.Return), onStuck func(why string)) {
	work := []scanPath{start}
	for len(work) > 0 {
		pt := work[len(work)-1]
		work = work[:len(work)-1]
	path:
		for {
			pt.steps++
			if pt.steps > 2000 {
				onStuck("no end of the iteration found")
				break
			}
			b := pt.blk
			if pt.pc >= len(b.Instrs) {
				onStuck("block without terminator")
				break
			}
			in := b.Instrs[pt.pc]
			pt.pc++
			goTo := func(to *ssa.BasicBlock) bool {
				if atHead != nil && atHead(&pt, to) {
					return false
				}
				sc.enterBlock(&pt, to, cur)
				return true
			}
			switch x := in.(type) {
			case *ssa.Phi:
			case *ssa.Call:
				if x.Call.IsInvoke() {
					break path // reads more input: not a transition on the current byte
				}
				results := sc.callAll(&pt, x, cur, depth)
				if len(results) == 0 {
					break path // every way through the helper reads more input
				}
				for _, res := range results[1:] {
					alt := pt.clone()
					alt.bind(x, res)
					work = append(work, alt)
				}
				pt.bind(x, results[0])
			case *ssa.If:
				c := sc.eval(&pt, x.Cond, cur)
				switch {
				case c.k == 'b' && c.i != 0:
					if !goTo(b.Succs[0]) {
						break path
					}
				case c.k == 'b':
					if !goTo(b.Succs[1]) {
						break path
					}
				default:
					alt := pt.clone()
					if atHead == nil || !atHead(&alt, b.Succs[1]) {
						sc.enterBlock(&alt, b.Succs[1], cur)
						work = append(work, alt)
					}
					if !goTo(b.Succs[0]) {
						break path
					}
				}
			case *ssa.Jump:
				if !goTo(b.Succs[0]) {
					break path
				}
			case *ssa.Return:
				onReturn(&pt, x)
				break path
			case *ssa.Panic:
				onStuck("panics")
				break path
			case ssa.Value:
				pt.env[x] = sc.eval(&pt, x, cur)
			}
		}
	}
}

func (pt *scanPath) bind(c *ssa.Call, res []av) {
	if len(res) == 1 {
		pt.env[c] = res[0]
		return
	}
	pt.tup[c] = res
}

// callAll: the result tuples a static call can yield (one per way through a module helper).
func (sc *byteScanner) callAll(pt *scanPath, c *ssa.Call, cur byte, depth int) [][]av {
	nres := 1
	if t, ok := c.Type().(*types.Tuple); ok {
		nres = t.Len()
	}
	unknown := func() [][]av {
		out := make([]av, nres)
		for i := range out {
			out[i] = avUnknown
		}
		return [][]av{out}
	}
	switch calleeName(c) {
	case "fmt.Errorf", "errors.New", "google.golang.org/grpc/status.Error", "google.golang.org/grpc/status.Errorf":
		return [][]av{{{k: 'e'}}}
	}
	callee := c.Call.StaticCallee()
	if callee == nil || !sc.p.InModule(callee) || len(callee.Blocks) == 0 || depth > 3 {
		return unknown()
	}
	start := scanPath{blk: callee.Blocks[0], env: map[ssa.Value]av{}, tup: map[ssa.Value][]av{}}
	for i, par := range callee.Params {
		if i < len(c.Call.Args) {
			start.env[par] = sc.eval(pt, c.Call.Args[i], cur)
		}
	}
	// a closure reads the caller's values through its free variables: not followed (unknown)
	var out [][]av
	seen := map[string]bool{}
	stuck := false
	sc.run(start, cur, depth+1, nil, func(ip *scanPath, rt *ssa.Return) {
		res := make([]av, len(rt.Results))
		for i, rv := range rt.Results {
			res[i] = sc.eval(ip, rv, cur)
		}
		if k := fmt.Sprint(res); !seen[k] {
			seen[k] = true
			out = append(out, res)
		}
	}, func(string) { stuck = true })
	if stuck {
		return unknown()
	}
	return out
}

// step folds one iteration of the scan loop for the given state and current byte. The index is assumed to be in
// range of every bound it is compared with (enough input buffered, limit not reached): those cases are the subject
// of LIMIT-IMPL and CARRY-OVER. Ways that read more input (an interface call) are not transitions.
func (sc *byteScanner) step(state []av, cur byte) []scanOutcome {
	start := scanPath{blk: sc.head, env: map[ssa.Value]av{sc.idx: {k: 'x'}}, tup: map[ssa.Value][]av{}}
	for i, ph := range sc.state {
		start.env[ph] = state[i]
	}
	var outs []scanOutcome
	seen := map[string]bool{}
	add := func(o scanOutcome) {
		if !seen[o.key()] {
			seen[o.key()] = true
			outs = append(outs, o)
		}
	}
	atHead := func(pt *scanPath, to *ssa.BasicBlock) bool {
		if to != sc.head {
			return false
		}
		// back at the header: the next state is what the phis select for this way back
		pi := predIndex(to, pt.blk)
		o := scanOutcome{kind: 'L'}
		if pi < 0 {
			o = scanOutcome{kind: '?', why: "unknown way back"}
		} else {
			if nx := sc.eval(pt, sc.idx.Edges[pi], cur); nx.k != 'x' || nx.i != 1 {
				o = scanOutcome{kind: '?', why: "the index is not advanced by exactly one byte (" + nx.String() + ")"}
			}
			for _, ph := range sc.state {
				o.next = append(o.next, sc.eval(pt, ph.Edges[pi], cur))
			}
		}
		add(o)
		return true
	}
	sc.run(start, cur, 0, atHead, func(pt *scanPath, x *ssa.Return) {
		o := scanOutcome{kind: '?', why: "return not classifiable"}
		if len(x.Results) == 3 {
			n, e := sc.eval(pt, x.Results[1], cur), sc.eval(pt, x.Results[2], cur)
			switch {
			case e.k == 'n' && n.k == 'x' && n.i == 1:
				o = scanOutcome{kind: 'A'}
			case e.k == 'n':
				o = scanOutcome{kind: '?', why: "returns length " + n.String() + " with a nil error (a message ends after the current byte: i+1)"}
			case e.k == 'e':
				o = scanOutcome{kind: 'E'}
			default:
				o = scanOutcome{kind: '?', why: "returns an error that is neither nil nor certainly non-nil"}
			}
		}
		add(o)
	}, func(why string) { add(scanOutcome{kind: '?', why: why}) })
	return outs
}

func predIndex(b, pred *ssa.BasicBlock) int {
	for i, p := range b.Preds {
		if p == pred {
			return i
		}
	}
	return -1
}

func (sc *byteScanner) eval(pt *scanPath, v ssa.Value, cur byte) av {
	if a, ok := pt.env[v]; ok {
		return a
	}
	switch x := v.(type) {
	case *ssa.Const:
		return constAV(x)
	case *ssa.Extract:
		if t, ok := pt.tup[x.Tuple]; ok && x.Index < len(t) {
			return t[x.Index]
		}
		return avUnknown
	case *ssa.Convert:
		a := sc.eval(pt, x.X, cur)
		if a.k == 'i' || a.k == 'x' {
			return a
		}
		return avUnknown
	case *ssa.ChangeType:
		return sc.eval(pt, x.X, cur)
	case *ssa.MakeInterface:
		if isErrorType(x.Type()) {
			if _, isPtr := x.X.Type().Underlying().(*types.Pointer); isPtr {
				if _, isAlloc := x.X.(*ssa.Alloc); isAlloc {
					return av{k: 'e'}
				}
			}
		}
		return sc.eval(pt, x.X, cur)
	case *ssa.UnOp:
		switch x.Op {
		case token.NOT:
			if a := sc.eval(pt, x.X, cur); a.k == 'b' {
				return av{k: 'b', i: 1 - a.i}
			}
		case token.SUB:
			if a := sc.eval(pt, x.X, cur); a.k == 'i' {
				return av{k: 'i', i: -a.i}
			}
		case token.MUL:
			// the current byte: element [index] of a byte slice; any other load is not part of the state
			if ia, ok := x.X.(*ssa.IndexAddr); ok {
				if bt, ok := x.Type().Underlying().(*types.Basic); ok && bt.Kind() == types.Uint8 {
					if i := sc.eval(pt, ia.Index, cur); i.k == 'x' && i.i == 0 {
						return av{k: 'i', i: int64(cur)}
					}
				}
			}
		}
		return avUnknown
	case *ssa.BinOp:
		a, b := sc.eval(pt, x.X, cur), sc.eval(pt, x.Y, cur)
		return foldBin(x.Op, a, b)
	}
	return avUnknown
}

func foldBin(op token.Token, a, b av) av {
	bv := func(t bool) av {
		if t {
			return av{k: 'b', i: 1}
		}
		return av{k: 'b'}
	}
	switch {
	case a.k == 'i' && b.k == 'i':
		switch op {
		case token.ADD:
			return av{k: 'i', i: a.i + b.i}
		case token.SUB:
			return av{k: 'i', i: a.i - b.i}
		case token.MUL:
			return av{k: 'i', i: a.i * b.i}
		case token.AND:
			return av{k: 'i', i: a.i & b.i}
		case token.OR:
			return av{k: 'i', i: a.i | b.i}
		case token.XOR:
			return av{k: 'i', i: a.i ^ b.i}
		case token.EQL:
			return bv(a.i == b.i)
		case token.NEQ:
			return bv(a.i != b.i)
		case token.LSS:
			return bv(a.i < b.i)
		case token.LEQ:
			return bv(a.i <= b.i)
		case token.GTR:
			return bv(a.i > b.i)
		case token.GEQ:
			return bv(a.i >= b.i)
		}
	case a.k == 'b' && b.k == 'b':
		switch op {
		case token.EQL:
			return bv(a.i == b.i)
		case token.NEQ:
			return bv(a.i != b.i)
		case token.AND, token.LAND:
			return bv(a.i != 0 && b.i != 0)
		case token.OR, token.LOR:
			return bv(a.i != 0 || b.i != 0)
		}
	case a.k == 'x' && b.k == 'i':
		switch op {
		case token.ADD:
			return av{k: 'x', i: a.i + b.i}
		case token.SUB:
			return av{k: 'x', i: a.i - b.i}
		}
	case a.k == 'i' && b.k == 'x' && op == token.ADD:
		return av{k: 'x', i: a.i + b.i}
	case a.k == 'x' && b.k == 'u':
		// the index against a bound it is assumed to be within (enough input, limit not reached)
		switch op {
		case token.LSS, token.LEQ, token.NEQ:
			return bv(true)
		case token.GEQ, token.GTR, token.EQL:
			return bv(false)
		}
	case a.k == 'u' && b.k == 'x':
		switch op {
		case token.GTR, token.GEQ, token.NEQ:
			return bv(true)
		case token.LEQ, token.LSS, token.EQL:
			return bv(false)
		}
	case (a.k == 'n' || a.k == 'e') && (b.k == 'n' || b.k == 'e'):
		if a.k == 'e' && b.k == 'e' {
			return avUnknown
		}
		switch op {
		case token.EQL:
			return bv(a.k == b.k)
		case token.NEQ:
			return bv(a.k != b.k)
		}
	}
	return avUnknown
}

// jsonRefStep: JSON's lexical structure as far as framing needs it.
type jsonRef struct {
	depth    int
	str, esc bool
}

func (s jsonRef) step(c byte) (byte, jsonRef) {
	switch {
	case s.esc:
		s.esc = false
	case s.str:
		switch c {
		case '\\':
			s.esc = true
		case '"':
			s.str = false
		}
	default:
		switch c {
		case '{':
			s.depth++
		case '}':
			s.depth--
			if s.depth == 0 {
				return 'A', s
			}
			if s.depth < 0 {
				return 'E', s
			}
		case '"':
			s.str = true
		}
	}
	return 'L', s
}

func ruleJSONFrameTable(r *Run) {
	p := r.P
	fn := p.Method("CodecJSON", "ReadNext")
	if fn == nil {
		r.missing("method (CodecJSON).ReadNext")
		return
	}
	key := "(CodecJSON).ReadNext/frame-table"
	sc, why := p.findByteScanner(fn)
	if sc == nil {
		r.undecided(key, fn.Pos(), "cannot read a byte scanner off CodecJSON.ReadNext: %s", why)
		return
	}
	init, why := sc.initial()
	if init == nil {
		r.undecided(key, fn.Pos(), "cannot read the scanner's initial state: %s", why)
		return
	}
	// alphabet: JSON's structural bytes for framing and one byte the scanner compares with nothing
	neutral := byte(0)
	for _, c := range []byte("a0 x\n,:") {
		if !sc.consts[int64(c)] {
			neutral = c
			break
		}
	}
	if neutral == 0 {
		r.undecided(key, fn.Pos(), "no neutral byte found")
		return
	}
	alphabet := []byte{'{', '}', '"', '\\', neutral}
	names := []string{}
	for _, ph := range sc.state {
		names = append(names, ph.Comment)
	}
	type pair struct {
		impl  []av
		ref   jsonRef
		trail string
	}
	seen := map[string]bool{}
	queue := []pair{{impl: init, ref: jsonRef{}}}
	checked := 0
	const maxDepth = 4
	for len(queue) > 0 {
		cur := queue[0]
		queue = queue[1:]
		k := fmt.Sprintf("%v|%v", cur.impl, cur.ref)
		if seen[k] {
			continue
		}
		seen[k] = true
		for _, c := range alphabet {
			wantKind, wantNext := cur.ref.step(c)
			if wantNext.depth > maxDepth {
				continue
			}
			outs := sc.step(cur.impl, c)
			checked++
			trail := cur.trail + string(c)
			show := func() string {
				return fmt.Sprintf("after the bytes %q (scanner state %s = %v; JSON: depth %d, in string %v, after backslash %v)", trail[:len(trail)-1], strings.Join(names, ","), cur.impl, cur.ref.depth, cur.ref.str, cur.ref.esc)
			}
			if len(outs) != 1 {
				var ds []string
				for _, o := range outs {
					ds = append(ds, fmt.Sprintf("%c%v%s", o.kind, o.next, o.why))
				}
				r.bad(key, fn.Pos(), "%s the scanner's reaction to %q is not a function of its state and that byte (%d different outcomes: %s): it depends on something else - bytes already consumed, the buffer, the reader", show(), string(c), len(outs), strings.Join(ds, "; "))
				return
			}
			o := outs[0]
			if o.kind == '?' {
				r.undecided(key, fn.Pos(), "%s the scanner's reaction to %q cannot be folded: %s", show(), string(c), o.why)
				return
			}
			for _, nv := range o.next {
				if nv.k != 'i' && nv.k != 'b' {
					r.undecided(key, fn.Pos(), "%s the scanner's next state on %q is not constant (%v)", show(), string(c), o.next)
					return
				}
			}
			if o.kind != wantKind {
				what := map[byte]string{'L': "goes on scanning", 'A': "ends the message here", 'E': "refuses the input"}
				r.bad(key, fn.Pos(), "%s on %q the scanner %s where JSON's structure %s: a message containing this byte sequence is framed at the wrong place (merged with the next one, cut short, or refused)", show(), string(c), what[o.kind], what[wantKind])
				return
			}
			if o.kind == 'L' {
				queue = append(queue, pair{impl: o.next, ref: wantNext, trail: trail})
			}
		}
	}
	// bisimulation needs more than matching outputs on the walked pairs: one scanner state must not stand for two
	// JSON states with different futures - the walk above would have found the difference on some byte, since every
	// reachable pair was expanded on the whole alphabet.
	r.ok(key, fn.Pos(), "%d transitions over %d reachable (scanner state, JSON state) pairs agree (state variables %s; alphabet { } \" \\ and %q; brace depth <= %d; index assumed within buffer and limit)",
		checked, len(seen), strings.Join(names, ","), string(neutral), maxDepth)
}
