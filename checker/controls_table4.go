package main

// Controls for the rules added after the third round of seeded changes.
func init() {
	control(&Control{ID: "nilstate-match-unguarded", Rule: "NIL-STATE", File: "larking/mux.go",
		Old: "\tif s == nil {\n\t\treturn nil, nil, status.Error(codes.NotFound, \"not found\")\n\t}\n\treturn s.path.match(route, verb)", New: "\treturn s.path.match(route, verb)", Expect: "loadState#", Why: "state.match touches a nil snapshot: any request on an empty Mux panics"})
	control(&Control{ID: "mdowned-first-by-reference", Rule: "MD-OWNED", File: "larking/websocket.go",
		Old: "\ts.trailer = metadata.Join(s.trailer, md)", New: "\tif len(s.trailer) == 0 {\n\t\ts.trailer = md\n\t\treturn\n\t}\n\ts.trailer = metadata.Join(s.trailer, md)", Expect: "streamWS.trailer", Why: "the first trailer map is kept by reference"})
	control(&Control{ID: "b64buf-other-input", Rule: "B64-BUF", File: "larking/rules.go",
		Old: "dst := make([]byte, enc.DecodedLen(len(raw)))", New: "dst := make([]byte, base64.StdEncoding.DecodedLen(len(raw)))", Expect: "Decode#1", Why: "buffer sized with the padded encoding, decoded with the selected one"})
	control(&Control{ID: "pathcharset-no-plus", Rule: "PATH-CHARSET", File: "larking/lexer.go",
		Old: "r == '*' || r == '+' ||", New: "r == '*' ||", Expect: "isPath/charset", Why: "'+' no longer a path character"})
	control(&Control{ID: "descbyname-identity", Rule: "DESC-BY-NAME", File: "larking/rules.go",
		Old: "if y.desc.FullName() != desc.FullName() {", New: "if y.desc != desc {", Expect: "descriptor-identity", Why: "same method from a second backend is a duplicate"})
	control(&Control{ID: "negotiate-precedence", Rule: "NEGOTIATE-ADMITS", File: "larking/negotiate.go",
		Old: "\t\t\tif spec.Q > bestQ &&\n\t\t\t\t(spec.Value == \"*\" || spec.Value == offer) {", New: "\t\t\tif spec.Q > bestQ && spec.Value == \"*\" || spec.Q >= bestQ {", Expect: "negotiateContentEncoding/offer-admitted", Why: "an encoding is selected without the entry admitting it"})
	control(&Control{ID: "timeoutapplied-positive-only", Rule: "TIMEOUT-APPLIED", File: "larking/grpc.go",
		Old: "\t\ttctx, cancel := context.WithTimeout(ctx, to)\n\t\tdefer cancel()\n\t\tctx = tctx\n", New: "\t\tif to > 0 {\n\t\t\ttctx, cancel := context.WithTimeout(ctx, to)\n\t\t\tdefer cancel()\n\t\t\tctx = tctx\n\t\t}\n", Expect: "with-timeout-on-every-path", Why: "a zero timeout loses its deadline"})
	control(&Control{ID: "fwdclosesend-always", Rule: "FWD-CLOSESEND", File: "larking/mux.go",
		Old: "if inErr == io.EOF {", New: "if inErr != nil {", Expect: "half-close-only-on-clean-end", Why: "half-close after a failed inbound stream"})
	control(&Control{ID: "fwderr-filter-canceled-status", Rule: "FWD-ERR-IDENTITY", File: "larking/grpc.go",
		Old: "\tcase nil, io.EOF, context.Canceled:\n\t\treturn false\n\t}\n\treturn true", New: "\tcase nil, io.EOF, context.Canceled:\n\t\treturn false\n\t}\n\treturn status.Code(err) != codes.Canceled", Expect: "filters-only-end-of-stream", Why: "backend status Canceled reported as OK"})
	control(&Control{ID: "limitsrc-limitreader-exact", Rule: "LIMIT-SRC", File: "larking/grpc.go",
		Old: "limit := int64(s.opts.maxReceiveMessageSize) + 1", New: "limit := int64(s.opts.maxReceiveMessageSize)", Expect: "Buffer.ReadFrom", Why: "over-limit input cut to the limit instead of refused"})
	control(&Control{ID: "statspayload-early-return", Rule: "STATS-PAYLOAD-EACH", File: "larking/http.go",
		Old: "\t\tb = append(b, pData.Bytes()...)\n\t\tcontentType = pContentType.String()\n", New: "\t\t_, werr := s.writeMsg(c, pData.Bytes(), pContentType.String())\n\t\treturn werr\n", Expect: "SendMsg/OutPayload-on-every-success", Why: "HttpBody replies return before the payload event"})
}
