package main

import (
	"fmt"
	"go/constant"
	"go/token"
	"go/types"
	"strings"
	"unicode"

	"golang.org/x/tools/go/ssa"
)

// Rules added while finishing the eighth round and during the ninth round of seeded changes (DESIGN.md section 10.5b).

func init() {
	register(&Rule{Name: "SEND-FRAME-FLAG", Floor: 1,
		Doc: "the compressed-flag byte of the frame streamGRPC.SendMsg writes describes the payload on every path: after every (re)allocation of the frame buffer a store to byte 0 follows before the write; the value 1 is stored only after the compressor ran and is not overwritten; every path through the compressor stores 1 and every other path stores 0 (a flag written before the buffer is replaced is lost: the client then parses gzip bytes as a message although Grpc-Encoding says gzip)",
		Run: ruleSendFrameFlag})
}

func isByteSliceType(t types.Type) bool {
	s, ok := t.Underlying().(*types.Slice)
	if !ok {
		return false
	}
	b, ok := s.Elem().Underlying().(*types.Basic)
	return ok && b.Kind() == types.Uint8
}

func ruleSendFrameFlag(r *Run) {
	p := r.P
	fn := p.Method("streamGRPC", "SendMsg")
	if fn == nil {
		r.missing("method (*streamGRPC).SendMsg")
		return
	}
	key := shortFunc(fn)
	// the write of the frame to the response: an invoke of Write whose receiver is loaded from a field of the stream
	// (the compressor's own writer is the result of Compress, not a field), here or in a helper
	isRespWrite := func(in ssa.Instruction) bool {
		c, ok := in.(ssa.CallInstruction)
		if !ok || !c.Common().IsInvoke() || c.Common().Method.Name() != "Write" {
			return false
		}
		for _, o := range p.origins(c.Common().Value, originOpts{local: true, throughConvert: true, throughAssert: true}) {
			if u, ok := o.(*ssa.UnOp); ok && u.Op == token.MUL {
				if _, ok := u.X.(*ssa.FieldAddr); ok {
					return true
				}
			}
		}
		return false
	}
	isCompress := func(in ssa.Instruction) bool {
		c, ok := in.(ssa.CallInstruction)
		return ok && c.Common().IsInvoke() && c.Common().Method.Name() == "Compress"
	}
	var sinks, markers []ssa.Instruction
	eachInstr(fn, func(in ssa.Instruction) {
		c, ok := in.(ssa.CallInstruction)
		if !ok {
			return
		}
		if isRespWrite(in) || p.callMay(c, isRespWrite) {
			sinks = append(sinks, in)
		}
		if isCompress(in) || p.callMay(c, isCompress) {
			markers = append(markers, in)
		}
	})
	if len(sinks) == 0 {
		r.undecided(key+"/frame-write", fn.Pos(), "no write of the frame to the stream's response writer found in SendMsg")
		return
	}
	if len(markers) == 0 {
		r.undecided(key+"/compressor", fn.Pos(), "no compressor call found in SendMsg")
		return
	}
	isSink := func(in ssa.Instruction) bool {
		for _, s := range sinks {
			if s == in {
				return true
			}
		}
		return false
	}
	isMarker := func(in ssa.Instruction) bool {
		for _, s := range markers {
			if s == in {
				return true
			}
		}
		return false
	}
	// stores to byte 0 of a []byte
	type flagStore struct {
		in  *ssa.Store
		val int64 // 0, 1, or -1: a phi of constants chosen by the path (validated below)
	}
	var stores []flagStore
	undec := false
	eachInstr(fn, func(in ssa.Instruction) {
		st, ok := in.(*ssa.Store)
		if !ok {
			return
		}
		ia, ok := st.Addr.(*ssa.IndexAddr)
		if !ok || !isByteSliceType(ia.X.Type()) {
			return
		}
		if k, ok := constInt(ia.Index); !ok || k != 0 {
			return
		}
		if v, ok := constInt(st.Val); ok {
			stores = append(stores, flagStore{st, v})
			return
		}
		// a flag variable: phi of constants; the edge carrying 1 must lie behind the compressor on every path and
		// the edge carrying 0 on none
		if phi, ok := st.Val.(*ssa.Phi); ok {
			good := true
			for i, e := range phi.Edges {
				v, isC := constInt(e)
				if !isC || (v != 0 && v != 1) {
					good = false
					break
				}
				pred := phi.Block().Preds[i]
				last := pred.Instrs[len(pred.Instrs)-1]
				avoid, _ := (pathQuery{fn: fn, target: func(x ssa.Instruction) bool { return x == last }, barrier: isMarker}).find()
				through := false
				for _, m := range markers {
					if w, _ := (pathQuery{fn: fn, start: m, target: func(x ssa.Instruction) bool { return x == last }}).find(); w != nil {
						through = true
					}
				}
				if v == 1 && avoid != nil || v == 0 && through {
					good = false
				}
			}
			if good {
				stores = append(stores, flagStore{st, -1})
				return
			}
		}
		undec = true
		r.undecided(key+"/flag-value", st.Pos(), "byte 0 of the frame is stored with a value the rule cannot read (neither a constant nor a choice of constants made by the compressor branch)")
	})
	if undec {
		return
	}
	// a helper that compresses the frame and sets the flag itself (compressFrame): its call counts as "stores 1"
	// when, inside it, every path from its entry and from every allocation of a []byte (its own or a callee's) to a
	// return that may carry a nil error passes a store of 1 into byte 0
	isAllocIn := func(x ssa.Instruction) bool {
		if mk, ok := x.(*ssa.MakeSlice); ok && isByteSliceType(mk.Type()) {
			return true
		}
		c, ok := x.(ssa.CallInstruction)
		if !ok {
			return false
		}
		if v, isV := x.(ssa.Value); !isV || !isByteSliceType(v.Type()) {
			return false
		}
		return p.callMay(c, func(y ssa.Instruction) bool {
			mk, ok := y.(*ssa.MakeSlice)
			return ok && isByteSliceType(mk.Type())
		})
	}
	helperStores1 := func(g *ssa.Function) bool {
		if g == nil || !p.InModule(g) || len(g.Blocks) == 0 {
			return false
		}
		is1 := func(x ssa.Instruction) bool {
			st, ok := x.(*ssa.Store)
			if !ok {
				return false
			}
			ia, ok := st.Addr.(*ssa.IndexAddr)
			if !ok || !isByteSliceType(ia.X.Type()) {
				return false
			}
			k, ok := constInt(ia.Index)
			v, ok2 := constInt(st.Val)
			return ok && ok2 && k == 0 && v == 1
		}
		if len(instrsOf(g, is1)) == 0 {
			return false
		}
		ei := errResultIndex(g)
		okRet := func(x ssa.Instruction) bool {
			rt, isR := x.(*ssa.Return)
			if !isR {
				return false
			}
			if ei >= 0 && ei < len(rt.Results) && p.certainlyNonNilError(rt.Results[ei], 0) {
				return false
			}
			if ei >= 0 && p.returnUnderErrTest(rt) {
				return false
			}
			return true
		}
		if w, _ := (pathQuery{fn: g, target: okRet, barrier: is1}).find(); w != nil {
			return false
		}
		for _, a := range instrsOf(g, isAllocIn) {
			if w, _ := (pathQuery{fn: g, start: a, target: okRet, barrier: is1}).find(); w != nil {
				return false
			}
		}
		return true
	}
	lifted1 := map[ssa.Instruction]bool{}
	eachInstr(fn, func(in ssa.Instruction) {
		c, ok := in.(ssa.CallInstruction)
		if !ok || c.Common().IsInvoke() {
			return
		}
		if g := c.Common().StaticCallee(); g != nil && helperStores1(g) {
			lifted1[in] = true
		}
	})
	storeOf := func(in ssa.Instruction, vals ...int64) bool {
		if lifted1[in] {
			for _, v := range vals {
				if v == 1 {
					return true
				}
			}
		}
		for _, s := range stores {
			if ssa.Instruction(s.in) == in {
				for _, v := range vals {
					if s.val == v {
						return true
					}
				}
			}
		}
		return false
	}
	anyStore := func(in ssa.Instruction) bool { return storeOf(in, 0, 1, -1) }

	// (A) a fresh frame buffer gets its flag byte after it was made
	nA := 0
	eachInstr(fn, func(in ssa.Instruction) {
		var mk ssa.Value
		if m, ok := in.(*ssa.MakeSlice); ok && isByteSliceType(m.Type()) {
			mk = m
		} else if isAllocIn(in) && !lifted1[in] {
			mk = in.(ssa.Value)
		}
		if mk == nil {
			return
		}
		// does this buffer reach the write?
		relevant := false
		for _, s := range sinks {
			for _, a := range s.(ssa.CallInstruction).Common().Args {
				if !isByteSliceType(a.Type()) {
					continue
				}
				for _, o := range p.origins(a, originOpts{throughSlice: true, throughAppend: true, local: true}) {
					if o == mk {
						relevant = true
					}
				}
				// same variable cell
				for _, c := range cellsOf(a) {
					for _, ref := range *c.Referrers() {
						if st, ok := ref.(*ssa.Store); ok && st.Addr == ssa.Value(c) {
							for _, o := range p.origins(st.Val, originOpts{throughSlice: true, throughAppend: true, local: true}) {
								if o == mk {
									relevant = true
								}
							}
						}
					}
				}
			}
		}
		if !relevant {
			return
		}
		nA++
		k := fmt.Sprintf("%s/flag-after-alloc#%d", key, nA)
		if w, _ := (pathQuery{fn: fn, start: in, target: isSink, barrier: anyStore}).find(); w != nil {
			r.bad(k, in.Pos(), "the frame buffer allocated here reaches the write of the frame without a store to its byte 0 in between: a compressed-flag written into the previous buffer is lost (the new buffer is zeroed), so a compressed payload goes out flagged 'uncompressed' while Grpc-Encoding announces the compressor and the client cannot decode the reply")
		} else {
			r.ok(k, in.Pos(), "every path from this allocation to the frame write stores byte 0")
		}
	})
	// (B) value of the flag
	good := true
	for _, s := range stores {
		if s.val != 1 {
			continue
		}
		// 1 belongs to the compressor's paths: the compressor ran before the store, or runs on every path from the
		// store to the write
		before, _ := (pathQuery{fn: fn, target: func(x ssa.Instruction) bool { return x == ssa.Instruction(s.in) }, barrier: isMarker}).find()
		after, _ := (pathQuery{fn: fn, start: s.in, target: isSink, barrier: isMarker}).find()
		if before != nil && after != nil {
			good = false
			r.bad(key+"/flag-1-only-compressed", s.in.Pos(), "the compressed flag is set to 1 on a path to the write of the frame that does not run the compressor: an uncompressed payload is announced as compressed")
		}
		if w, _ := (pathQuery{fn: fn, start: s.in, target: func(x ssa.Instruction) bool { return storeOf(x, 0) }}).find(); w != nil {
			good = false
			r.bad(key+"/flag-1-kept", s.in.Pos(), "after the compressed flag was set to 1 a path stores 0 into byte 0 again before the function ends")
		}
	}
	is1 := func(x ssa.Instruction) bool { return storeOf(x, 1, -1) }
	for _, m := range markers {
		m := m
		if lifted1[m] {
			continue // the compressing helper sets the flag itself
		}
		before, _ := (pathQuery{fn: fn, target: func(x ssa.Instruction) bool { return x == m }, barrier: is1}).find()
		after, _ := (pathQuery{fn: fn, start: m, target: isSink, barrier: is1}).find()
		if before != nil && after != nil {
			good = false
			r.bad(key+"/compressed-path-flags-1", m.Pos(), "a path through the compressor reaches the write of the frame without setting the compressed flag (byte 0) to 1: the compressed payload goes out as 'uncompressed'")
		}
	}
	if w, _ := (pathQuery{fn: fn, target: isSink, barrier: func(x ssa.Instruction) bool { return isMarker(x) || storeOf(x, 0, -1) }}).find(); w != nil {
		good = false
		r.bad(key+"/plain-path-flags-0", fn.Pos(), "a path that does not run the compressor reaches the write of the frame without storing 0 into the flag byte: the pooled buffer's old byte 0 goes out as the flag")
	}
	if good {
		r.ok(key+"/flag-value", fn.Pos(), "flag 1 exactly on the paths through the compressor (%d flag stores, %d compressor calls, %d frame writes)", len(stores), len(markers), len(sinks))
	}
	if nA == 0 {
		r.info(key+"/flag-after-alloc", fn.Pos(), "SendMsg allocates no frame buffer of its own")
	}
}

// cellsOf: the local variable cells a value is (a slice of) a load of.
func cellsOf(v ssa.Value) []*ssa.Alloc {
	var out []*ssa.Alloc
	seen := map[ssa.Value]bool{}
	var walk func(v ssa.Value)
	walk = func(v ssa.Value) {
		if seen[v] {
			return
		}
		seen[v] = true
		switch x := v.(type) {
		case *ssa.Slice:
			walk(x.X)
		case *ssa.Phi:
			for _, e := range x.Edges {
				walk(e)
			}
		case *ssa.UnOp:
			if x.Op == token.MUL {
				if a, ok := x.X.(*ssa.Alloc); ok {
					out = append(out, a)
				}
			}
		}
	}
	walk(v)
	return out
}

func init() {
	register(&Rule{Name: "LIMIT-RETURN-BOUND", Floor: 3,
		Doc: "the message length an in-repo ReadNext returns is bounded by its limit parameter *as a value*: it is the limit itself, min(x, limit), a value v for which v <= limit (v < limit for v+1) holds on the way to the return, or a choice between such values - a comparison somewhere on the path is not enough when the compared counter is advanced afterwards (a scanner that jumps ahead inside the loop body frames a message that ends beyond the limit)",
		Run: ruleLimitReturnBound})
}

// limitConvention: the edges that are infeasible under the StreamCodec convention limit > 0 (a test of the limit
// parameter against the constant 0).
func (p *Program) limitConvention(fn *ssa.Function, limit ssa.Value) func(*ssa.BasicBlock, int) bool {
	inf := map[*ssa.BasicBlock]int{}
	eachInstr(fn, func(in ssa.Instruction) {
		ifi, ok := in.(*ssa.If)
		if !ok {
			return
		}
		g := guardFact{Cond: ifi.Cond, True: true, If: ifi}
		x, y, op, ok := g.cmp()
		if !ok || p.stripConvAll(x) != limit {
			return
		}
		if k, isC := constInt(y); !isC || k != 0 {
			return
		}
		if p.isPeeledLoopTest(ifi, y, limit) {
			return
		}
		switch op {
		case token.GTR, token.NEQ:
			inf[ifi.Block()] = 1
		case token.LEQ, token.EQL:
			inf[ifi.Block()] = 0
		}
	})
	return func(b *ssa.BasicBlock, succ int) bool {
		if i, ok := inf[b]; ok && i == succ {
			return false
		}
		return true
	}
}

func ruleLimitReturnBound(r *Run) {
	p := r.P
	sc := p.lookupIface(larkPath, "StreamCodec")
	if sc == nil {
		r.missing("interface StreamCodec")
		return
	}
	scope := p.Lark.Types.Scope()
	n := 0
	for _, name := range scope.Names() {
		tn, ok := scope.Lookup(name).(*types.TypeName)
		if !ok {
			continue
		}
		named, ok := tn.Type().(*types.Named)
		if !ok {
			continue
		}
		if _, isIface := named.Underlying().(*types.Interface); isIface {
			continue
		}
		if !types.Implements(named, sc) && !types.Implements(types.NewPointer(named), sc) {
			continue
		}
		fn := p.Method(name, "ReadNext")
		if fn == nil || len(fn.Blocks) == 0 || len(fn.Params) < 4 {
			continue
		}
		n++
		limit := ssa.Value(fn.Params[3])
		edgeOK := p.limitConvention(fn, limit)
		isLimit := func(v ssa.Value) bool { return p.stripConvAll(v) == limit }
		// facts: comparisons holding in block b (dominating edges), plus the edge pred->b itself when given
		type fact struct {
			x, y ssa.Value
			op   token.Token
		}
		factsAt := func(b *ssa.BasicBlock, pred *ssa.BasicBlock) []fact {
			var out []fact
			add := func(g guardFact) {
				if x, y, op, ok := g.cmp(); ok {
					out = append(out, fact{p.stripConvAll(x), p.stripConvAll(y), op})
				}
			}
			at := b
			if pred != nil {
				at = pred
				if ifi := blockIf(pred); ifi != nil {
					for i, s := range pred.Succs {
						if s == b && (len(pred.Succs) < 2 || pred.Succs[0] != pred.Succs[1]) {
							add(guardFact{Cond: ifi.Cond, True: i == 0, If: ifi})
						}
					}
				}
			}
			for _, g := range guardsOfUnder(at, edgeOK) {
				add(g)
			}
			return out
		}
		var bounded func(v ssa.Value, strict bool, b, pred *ssa.BasicBlock, seen map[ssa.Value]bool) bool
		bounded = func(v ssa.Value, strict bool, b, pred *ssa.BasicBlock, seen map[ssa.Value]bool) bool {
			v = p.stripConvAll(v)
			if k, ok := constInt(v); ok {
				return k <= 0
			}
			if v == limit {
				return !strict
			}
			for _, f := range factsAt(b, pred) {
				var op token.Token
				switch {
				case f.x == v && f.y == limit:
					op = f.op
				case f.y == v && f.x == limit:
					switch f.op {
					case token.GTR:
						op = token.LSS
					case token.GEQ:
						op = token.LEQ
					}
				}
				if op == token.LSS || (op == token.LEQ && !strict) {
					return true
				}
			}
			switch x := v.(type) {
			case *ssa.Call:
				if calleeName(x) == "builtin.min" {
					for _, a := range x.Call.Args {
						if isLimit(a) {
							return !strict
						}
					}
				}
			case *ssa.BinOp:
				c, isC := constInt(x.Y)
				if !isC {
					return false
				}
				switch x.Op {
				case token.ADD:
					switch {
					case c <= 0:
						return bounded(x.X, strict, b, pred, seen)
					case c == 1 && !strict:
						return bounded(x.X, true, b, pred, seen)
					}
				case token.SUB:
					switch {
					case c >= 1:
						return bounded(x.X, false, b, pred, seen)
					case c == 0:
						return bounded(x.X, strict, b, pred, seen)
					}
				}
			case *ssa.Phi:
				if seen[v] {
					return false
				}
				seen[v] = true
				defer delete(seen, v)
				for i, e := range x.Edges {
					if !bounded(e, strict, x.Block(), x.Block().Preds[i], seen) {
						return false
					}
				}
				return true
			}
			return false
		}
		site := 0
		eachInstr(fn, func(in ssa.Instruction) {
			rt, ok := in.(*ssa.Return)
			if !ok || len(rt.Results) != 3 {
				return
			}
			if k, ok := constInt(rt.Results[1]); ok && k == 0 {
				return
			}
			// a return that the limit > 0 convention makes unreachable is not judged
			if w, _ := (pathQuery{fn: fn, target: func(x ssa.Instruction) bool { return x == in }, edgeOK: edgeOK}).find(); w == nil {
				return
			}
			site++
			key := fmt.Sprintf("%s/returned-length-bounded#%d", shortFunc(fn), site)
			if bounded(rt.Results[1], false, rt.Block(), nil, map[ssa.Value]bool{}) {
				r.ok(key, rt.Pos(), "the returned length is the limit, a value compared with it on the way (v <= limit, or v < limit for v+1), or a choice between such values")
			} else {
				r.bad(key, rt.Pos(), "the length returned here is not bounded by the limit parameter as a value: no comparison of this very value (or of v for v+1) with the limit holds on the way to the return - a counter that was compared with the limit and then advanced (i += j inside the loop body) frames a message that ends beyond the limit, and the over-limit message is unmarshalled and delivered")
			}
		})
		if site == 0 {
			r.undecided(shortFunc(fn)+"/returned-length-bounded", fn.Pos(), "ReadNext has no return of a possibly non-zero length")
		}
	}
	if n == 0 {
		r.missing("StreamCodec implementations")
	}
}

// ---------------------------------------------------------------------------------------------------------------
// round 9

func init() {
	register(&Rule{Name: "STATE-SLICE-APPEND", Floor: 1,
		Doc: "on request paths no append has as its destination a slice that comes out of the routing state (a field of state/path/variable/method/handler, directly or as the result of a module function such as the matcher): with spare capacity the append writes into memory every concurrent request shares (a per-method 'pre-sized' parameter slice hands request A the path values of request B)",
		Run: ruleStateSliceAppend})
	register(&Rule{Name: "CAPTURE-PAIRING", Floor: 2,
		Doc: "path captures are positional (method.vars[len(vars)-len(ps)-1]) and trie nodes of variables are shared between rules by their pattern, so both sides count one entry per variable node: in addRule every addVariable call is paired with exactly one append to the field-path list, and in path.search every return of a method found through a variable node passes exactly one append to the parameter list",
		Run: ruleCapturePairing})
	register(&Rule{Name: "UNMARSHAL-RESETS", Floor: 1,
		Doc: "the in-repo codecs decode into a reset destination: no proto.UnmarshalOptions with Merge set (a handler receiving a stream into one reused message would otherwise see fields of earlier messages in later ones - merged messages)",
		Run: ruleUnmarshalResets})
	register(&Rule{Name: "NO-FULL-DUPLEX", Floor: 0,
		Doc: "serving code does not switch the HTTP/1 connection to full duplex ((*http.ResponseController).EnableFullDuplex): net/http then no longer drains the request body on the first write, its background read that detects a client disconnect is not armed until the body is read to EOF, and the handler's context is not cancelled when the client goes away",
		Run: ruleNoFullDuplex})
	register(&Rule{Name: "STATUS-BLOCK", Floor: 1,
		Doc: "in serveGRPC the status keys are written after the response headers were flushed on every path from the handler's return - or, on a path without a flush (a Trailers-Only answer), nothing else is put into a different block: no header metadata is written into the map (a gRPC client reads a Trailers-Only block as trailers: grpc.Header() comes back empty) and no handler trailer is written with http.TrailerPrefix (it would travel in a later block than the status, and clients take the status from the last block)",
		Run: ruleStatusBlock})
	register(&Rule{Name: "FDHASH-STREAMED", Floor: 1,
		Doc: "the digest addConnHandler compares to decide that a re-registered connection is unchanged is the Sum of one hash.Hash into which the bytes of every received file descriptor were written (an order-dependent stream): a combination that lets equal inputs cancel (XOR of per-file digests) takes a changed backend for unchanged when reflection lists a file an even number of times",
		Run: ruleFDHashStreamed})
	register(&Rule{Name: "SCAN-PROGRESS", Floor: 1,
		Doc: "a loop on a request path that carries the rest of its input in a string/[]byte variable shortens it strictly on every way round: each value flowing back to the loop head derives from the head's value through a step that provably consumes at least one byte (x[k:] with k >= 1, or the rest of a splitter helper whose token was tested non-empty); a way round made only of steps that may consume nothing (skipSpace, a token helper on a non-token byte) spins forever on such a byte",
		Run: ruleScanProgress})
}

// stateSliceSource: v may be (a reslice of) a slice held in the routing state, looking through module calls.
func (p *Program) stateSliceSource(v ssa.Value, depth int, seen map[string]bool) (bool, string) {
	if depth > 5 {
		return false, ""
	}
	e := p.Effects()
	for _, o := range p.origins(v, originOpts{throughSlice: true, throughAppend: true, throughConvert: true, local: true}) {
		switch x := o.(type) {
		case *ssa.UnOp:
			if x.Op != token.MUL {
				continue
			}
			if fa, ok := x.X.(*ssa.FieldAddr); ok {
				if nm := namedOf(fa.X.Type()); nm != nil {
					if name, ok := e.prot[nm.Origin()]; ok {
						return true, name + "." + fieldOfAddr(fa).Name()
					}
				}
			}
			// an element of a slice of slices held in the state
			if ia, ok := x.X.(*ssa.IndexAddr); ok {
				if ok, what := p.stateSliceSource(ia.X, depth+1, seen); ok {
					return true, what + "[i]"
				}
			}
		case *ssa.Lookup:
			if ok, what := p.stateSliceSource(x.X, depth+1, seen); ok {
				return true, what + "[…]"
			}
		case *ssa.Parameter:
			fn := x.Parent()
			idx := -1
			for i, fp := range fn.Params {
				if fp == x {
					idx = i
				}
			}
			k := fmt.Sprintf("par:%p/%d", fn, idx)
			if idx < 0 || seen[k] {
				continue
			}
			seen[k] = true
			found, what := false, ""
			for _, g := range p.ModuleFuncs() {
				eachInstr(g, func(in ssa.Instruction) {
					c, ok := in.(ssa.CallInstruction)
					if !ok || found || c.Common().IsInvoke() || c.Common().StaticCallee() != fn || idx >= len(c.Common().Args) {
						return
					}
					if ok, w := p.stateSliceSource(c.Common().Args[idx], depth+1, seen); ok {
						found, what = true, w+" (passed to "+shortFunc(fn)+" by "+shortFunc(g)+")"
					}
				})
			}
			if found {
				return true, what
			}
		case *ssa.Call, *ssa.Extract:
			var call *ssa.Call
			idx := 0
			if ex, ok := x.(*ssa.Extract); ok {
				call, _ = ex.Tuple.(*ssa.Call)
				idx = ex.Index
			} else {
				call = x.(*ssa.Call)
			}
			if call == nil {
				continue
			}
			callee := call.Call.StaticCallee()
			if callee == nil || !p.InModule(callee) || len(callee.Blocks) == 0 {
				continue
			}
			k := fmt.Sprintf("%p/%d", callee, idx)
			if seen[k] {
				continue
			}
			seen[k] = true
			found, what := false, ""
			eachInstr(callee, func(in ssa.Instruction) {
				rt, ok := in.(*ssa.Return)
				if !ok || idx >= len(rt.Results) || found {
					return
				}
				if _, isSlice := rt.Results[idx].Type().Underlying().(*types.Slice); !isSlice {
					return
				}
				if ok, w := p.stateSliceSource(rt.Results[idx], depth+1, seen); ok {
					found, what = true, w+" (returned by "+shortFunc(callee)+")"
				}
			})
			if found {
				return true, what
			}
		}
	}
	return false, ""
}

func ruleStateSliceAppend(r *Run) {
	p := r.P
	n, bad := 0, 0
	site := map[*ssa.Function]int{}
	for _, fn := range sortedFuncs(p.reachRequest()) {
		fn := fn
		eachInstr(fn, func(in ssa.Instruction) {
			c, ok := in.(*ssa.Call)
			if !ok {
				return
			}
			b, ok := c.Call.Value.(*ssa.Builtin)
			isAppend := ok && b.Name() == "append" && len(c.Call.Args) >= 1
			if !isAppend {
				// library functions that edit their slice argument in place
				cn := calleeName(c)
				if i := strings.Index(cn, "["); i > 0 {
					cn = cn[:i]
				}
				switch cn {
				case "slices.Delete", "slices.DeleteFunc", "slices.Insert", "slices.Reverse", "slices.Sort", "slices.SortFunc", "slices.SortStableFunc",
					"slices.Compact", "slices.CompactFunc", "slices.Replace", "sort.Slice", "sort.SliceStable", "sort.Strings", "sort.Ints", "builtin.copy", "builtin.clear":
				default:
					return
				}
				if len(c.Call.Args) < 1 {
					return
				}
				if ok, what := p.stateSliceSource(c.Call.Args[0], 0, map[string]bool{}); ok {
					bad++
					site[fn]++
					r.bad(fmt.Sprintf("%s/edits-state-slice#%d", shortFunc(fn), site[fn]), in.Pos(), "request code hands a slice that comes out of the routing state or the mux options (%s) to %s, which edits it in place: the published snapshot / the shared options change under concurrent requests, and later requests see the edited list", what, shortName(cn))
				}
				return
			}
			n++
			if ok, what := p.stateSliceSource(c.Call.Args[0], 0, map[string]bool{}); ok {
				bad++
				site[fn]++
				r.bad(fmt.Sprintf("%s/append-into-state#%d", shortFunc(fn), site[fn]), in.Pos(), "request code appends to a slice that comes out of the routing state (%s): where it has spare capacity the element is written into memory shared by every request on that route - overlapping requests overwrite each other's values - and the published snapshot is no longer read-only", what)
			}
		})
	}
	if n == 0 {
		r.undecided("request-path appends", token.NoPos, "no append found on request paths")
	} else if bad == 0 {
		r.ok("request-path appends", token.NoPos, "%d appends on request paths, none with a destination taken from the routing state", n)
	}
}

func ruleCapturePairing(r *Run) {
	p := r.P
	ar, se := p.Method("path", "addRule"), p.Method("path", "search")
	varsF := p.StructField("method", "vars")
	nextF := p.StructField("variable", "next")
	if ar == nil || se == nil || varsF == nil || nextF == nil {
		r.missing("(*path).addRule / (*path).search / method.vars / variable.next")
		return
	}
	rawAddVar := func(in ssa.Instruction) bool {
		c, ok := in.(ssa.CallInstruction)
		return ok && calleeName(c) == "(*larking.io/larking.path).addVariable"
	}
	rawVarsAppend := func(in ssa.Instruction) bool {
		c, ok := in.(*ssa.Call)
		if !ok {
			return false
		}
		b, ok := c.Call.Value.(*ssa.Builtin)
		return ok && b.Name() == "append" && types.Identical(c.Type(), varsF.Type())
	}
	// a call of a local closure or module helper counts as what its body does: a body with both (a paired
	// "descend" step) is judged on its own and is neutral for the caller
	calleeOf := func(in ssa.Instruction) *ssa.Function {
		c, ok := in.(ssa.CallInstruction)
		if !ok || c.Common().IsInvoke() {
			return nil
		}
		if g := c.Common().StaticCallee(); g != nil && p.InModule(g) && g != ar && calleeName(c) != "(*larking.io/larking.path).addVariable" {
			return g
		}
		if mc, ok := c.Common().Value.(*ssa.MakeClosure); ok {
			return mc.Fn.(*ssa.Function)
		}
		for _, o := range p.origins(c.Common().Value, originOpts{local: true}) {
			if mc, ok := o.(*ssa.MakeClosure); ok {
				return mc.Fn.(*ssa.Function)
			}
		}
		return nil
	}
	bodyHas := func(g *ssa.Function) (addv, app bool) {
		eachInstr(g, func(x ssa.Instruction) {
			if rawAddVar(x) {
				addv = true
			}
			if rawVarsAppend(x) {
				app = true
			}
		})
		return
	}
	var pairedUnits []*ssa.Function
	isAddVar := func(in ssa.Instruction) bool {
		if rawAddVar(in) {
			return true
		}
		if g := calleeOf(in); g != nil {
			a, b := bodyHas(g)
			return a && !b
		}
		return false
	}
	isVarsAppend := func(in ssa.Instruction) bool {
		if rawVarsAppend(in) {
			return true
		}
		if g := calleeOf(in); g != nil {
			a, b := bodyHas(g)
			return b && !a
		}
		return false
	}
	eachInstr(ar, func(in ssa.Instruction) {
		if g := calleeOf(in); g != nil {
			if a, b := bodyHas(g); a && b {
				pairedUnits = append(pairedUnits, g)
			}
		}
	})
	// a paired unit: on every path through it exactly one of each
	for _, g := range pairedUnits {
		key := shortFunc(g)
		w1, _ := (pathQuery{fn: g, target: isReturn, barrier: rawAddVar}).find()
		w2, _ := (pathQuery{fn: g, target: isReturn, barrier: rawVarsAppend}).find()
		bad := w1 != nil || w2 != nil
		for _, a := range instrsOf(g, rawAddVar) {
			if w, _ := (pathQuery{fn: g, start: a, target: rawAddVar}).find(); w != nil {
				bad = true
			}
		}
		for _, a := range instrsOf(g, rawVarsAppend) {
			if w, _ := (pathQuery{fn: g, start: a, target: rawVarsAppend}).find(); w != nil {
				bad = true
			}
		}
		r.check(!bad, key+"/one-field-path-per-variable-node", g.Pos(), "the step adds one variable node and one field-path entry on every path", "a step of addRule that adds variable nodes and field-path entries does not add exactly one of each on every path: positions of captures and field paths no longer agree")
	}
	// addRule
	if len(pairedUnits) > 0 && len(instrsOf(ar, isAddVar)) == 0 && len(instrsOf(ar, isVarsAppend)) == 0 {
		r.ok(shortFunc(ar)+"/one-field-path-per-variable-node", ar.Pos(), "variable nodes and field-path entries are only added by paired steps (%d)", len(pairedUnits))
	} else {
		key := shortFunc(ar)
		var adds, apps []ssa.Instruction
		eachInstr(ar, func(in ssa.Instruction) {
			if isAddVar(in) {
				adds = append(adds, in)
			}
			if isVarsAppend(in) {
				apps = append(apps, in)
			}
		})
		if len(adds) == 0 || len(apps) == 0 {
			r.undecided(key+"/one-field-path-per-variable-node", ar.Pos(), "addRule has no addVariable call or no append to the field-path list (%d / %d)", len(adds), len(apps))
		} else {
			good := true
			starts := append([]ssa.Instruction{nil}, adds...)
			for _, s := range starts {
				if w, hit := (pathQuery{fn: ar, start: s, target: isAddVar, barrier: isVarsAppend}).find(); w != nil {
					good = false
					r.bad(key+"/one-field-path-per-variable-node", hit.Pos(), "a variable node is added to the route trie without an entry in the method's field-path list (method.vars): captures are looked up by position, and the node is shared with every rule that has the same pattern at this place ({field} and a bare * both are \"*\"), so the other rule's capture is dropped or bound to the wrong field")
					break
				}
			}
			for _, a := range apps {
				if !good {
					break
				}
				isUse := func(x ssa.Instruction) bool {
					if isVarsAppend(x) {
						return true
					}
					st, ok := x.(*ssa.Store)
					if !ok {
						return false
					}
					fa, ok := st.Addr.(*ssa.FieldAddr)
					return ok && fieldOfAddr(fa) == varsF
				}
				if w, hit := (pathQuery{fn: ar, start: a, target: isUse, barrier: isAddVar}).find(); w != nil {
					good = false
					r.bad(key+"/one-field-path-per-variable-node", hit.Pos(), "an entry is added to the method's field-path list without a variable node being added to the trie for it: positions of captures and field paths no longer agree")
				}
			}
			if good {
				r.ok(key+"/one-field-path-per-variable-node", ar.Pos(), "%d addVariable calls, each paired with one append to the field-path list", len(adds))
			}
		}
	}
	// search
	{
		key := shortFunc(se)
		paramsT := se.Signature.Results().At(1).Type()
		isParamAppend := func(in ssa.Instruction) bool {
			c, ok := in.(*ssa.Call)
			if !ok {
				return false
			}
			b, ok := c.Call.Value.(*ssa.Builtin)
			return ok && b.Name() == "append" && types.Identical(c.Type(), paramsT)
		}
		n := 0
		good := true
		eachInstr(se, func(in ssa.Instruction) {
			c, ok := in.(*ssa.Call)
			if !ok || c.Call.StaticCallee() != se {
				return
			}
			// receiver reached through variable.next?
			viaVar := false
			for _, o := range p.origins(c.Call.Args[0], originOpts{local: true}) {
				if loadedField(o) == nextF {
					viaVar = true
				}
			}
			if !viaVar {
				return
			}
			n++
			mres := extractOf(c, 0)
			isFoundReturn := func(x ssa.Instruction) bool {
				rt, ok := x.(*ssa.Return)
				if !ok || len(rt.Results) < 2 {
					return false
				}
				if isNilConst(rt.Results[0]) {
					return false
				}
				for _, o := range p.origins(rt.Results[0], originOpts{local: true}) {
					if mres != nil && o == mres {
						return true
					}
				}
				return false
			}
			if w, hit := (pathQuery{fn: se, start: in, target: isFoundReturn, barrier: isParamAppend}).find(); w != nil {
				good = false
				r.bad(key+"/one-param-per-variable-node", hit.Pos(), "a method found below a variable node is returned without a parameter having been appended for that node: captures are positional (method.vars[len(vars)-len(ps)-1]), and a node is shared by every rule with the same pattern, so a skip decided by the node drops or shifts the captures of the other rules (the path-bound field arrives empty or is taken from the query/body)")
				return
			}
			// … and at most one
			for _, a := range instrsOf(se, isParamAppend) {
				if w, _ := (pathQuery{fn: se, start: in, target: func(x ssa.Instruction) bool { return x == a }}).find(); w == nil {
					continue
				}
				if w, hit := (pathQuery{fn: se, start: a, target: isParamAppend, barrier: func(x ssa.Instruction) bool { return x == ssa.Instruction(c) }}).find(); w != nil {
					good = false
					r.bad(key+"/one-param-per-variable-node", hit.Pos(), "two parameters can be appended for one variable node: positions of captures and field paths no longer agree")
				}
			}
		})
		if n == 0 {
			r.undecided(key+"/one-param-per-variable-node", se.Pos(), "no recursive search through variable.next found")
		} else if good {
			r.ok(key+"/one-param-per-variable-node", se.Pos(), "every method found through a variable node is returned with exactly one more parameter")
		}
	}
}

func instrsOf(fn *ssa.Function, pred func(ssa.Instruction) bool) []ssa.Instruction {
	var out []ssa.Instruction
	eachInstr(fn, func(in ssa.Instruction) {
		if pred(in) {
			out = append(out, in)
		}
	})
	return out
}

func ruleUnmarshalResets(r *Run) {
	p := r.P
	n, bad := 0, 0
	for _, fn := range p.ModuleFuncs() {
		fn := fn
		eachInstr(fn, func(in ssa.Instruction) {
			// uses of proto.Unmarshal / UnmarshalOptions.Unmarshal count as instances
			if c, ok := in.(ssa.CallInstruction); ok {
				switch calleeName(c) {
				case "google.golang.org/protobuf/proto.Unmarshal", "(google.golang.org/protobuf/proto.UnmarshalOptions).Unmarshal":
					n++
				}
			}
			st, ok := in.(*ssa.Store)
			if !ok {
				return
			}
			fa, ok := st.Addr.(*ssa.FieldAddr)
			if !ok {
				return
			}
			f := fieldOfAddr(fa)
			if f.Name() != "Merge" || f.Pkg() == nil || f.Pkg().Path() != "google.golang.org/protobuf/proto" {
				return
			}
			if k, isC := st.Val.(*ssa.Const); isC && k.Value != nil && k.Value.String() == "false" {
				return
			}
			bad++
			r.bad(fmt.Sprintf("%s/merge-option#%d", shortFunc(fn), bad), in.Pos(), "proto.UnmarshalOptions.Merge is set: messages are decoded into the destination without clearing it, so a receiver that reuses one message value for a stream sees the fields of earlier messages in later ones (merged messages)")
		})
	}
	if n == 0 {
		r.undecided("proto unmarshal sites", token.NoPos, "no proto.Unmarshal call found in the module")
	} else if bad == 0 {
		r.ok("proto unmarshal sites", token.NoPos, "%d proto unmarshal calls, no Merge option set anywhere in the module", n)
	}
}

func ruleNoFullDuplex(r *Run) {
	p := r.P
	bad := 0
	for _, fn := range p.ModuleFuncs() {
		fn := fn
		eachInstr(fn, func(in ssa.Instruction) {
			c, ok := in.(ssa.CallInstruction)
			if !ok {
				return
			}
			if calleeName(c) == "(*net/http.ResponseController).EnableFullDuplex" || (c.Common().IsInvoke() && c.Common().Method.Name() == "EnableFullDuplex") {
				bad++
				r.bad(fmt.Sprintf("%s/full-duplex#%d", shortFunc(fn), bad), in.Pos(), "the connection is switched to HTTP/1 full duplex: net/http stops draining the request body at the first response write and does not start its disconnect-detecting background read until the body was read to EOF, so a client that goes away while the handler waits on its context is never noticed and the handler's context is not cancelled")
			}
		})
	}
	if bad == 0 {
		r.ok("module/full-duplex", token.NoPos, "no EnableFullDuplex call in the module (%d functions)", len(p.ModuleFuncs()))
	}
}

func ruleStatusBlock(r *Run) {
	p := r.P
	fn := p.Method("Mux", "serveGRPC")
	if fn == nil {
		r.missing("method (*Mux).serveGRPC")
		return
	}
	key := shortFunc(fn)
	hf := p.StructField("handler", "handler")
	var hcall ssa.Instruction
	eachInstr(fn, func(in ssa.Instruction) {
		if c, ok := in.(ssa.CallInstruction); ok && calledField(c) == hf {
			hcall = in
		}
	})
	if hcall == nil {
		r.missing("handler invocation in serveGRPC")
		return
	}
	isFlushI := func(x ssa.Instruction) bool {
		c, ok := x.(ssa.CallInstruction)
		return ok && c.Common().IsInvoke() && c.Common().Method.Name() == "Flush"
	}
	isStatusSet := func(x ssa.Instruction) bool {
		c, ok := x.(ssa.CallInstruction)
		if !ok {
			return false
		}
		cn := calleeName(c)
		if cn != "(net/http.Header).Set" && cn != "(net/http.Header).Add" {
			return false
		}
		k, isC := constString(c.Common().Args[1])
		return isC && strings.EqualFold(k, "Grpc-Status")
	}
	isHeaderMD := func(x ssa.Instruction) bool {
		c, ok := x.(ssa.CallInstruction)
		if !ok || calleeName(c) != "larking.io/larking.setOutgoingHeader" || len(c.Common().Args) < 2 {
			return false
		}
		for _, o := range p.origins(c.Common().Args[1], originOpts{local: true, throughConvert: true}) {
			if f := loadedField(o); f != nil && f.Name() == "header" {
				return true
			}
		}
		return false
	}
	isPrefixed := func(x ssa.Instruction) bool {
		c, ok := x.(ssa.CallInstruction)
		if !ok {
			return false
		}
		callee := staticCallee(c)
		if callee == nil || !p.InModule(callee) {
			return false
		}
		prefixes, writes := p.headerKeyPrefixes(callee, c.Common().Args, 0)
		if !writes {
			return false
		}
		for _, pf := range prefixes {
			if pf == "Trailer:" {
				return true
			}
		}
		return false
	}
	lift := func(pred func(ssa.Instruction) bool) func(ssa.Instruction) bool {
		return func(x ssa.Instruction) bool {
			if x.Parent() != fn {
				return false
			}
			if pred(x) {
				return true
			}
			c, ok := x.(ssa.CallInstruction)
			return ok && p.callMay(c, pred)
		}
	}
	flush, status, hdrMD, prefixed := lift(isFlushI), lift(isStatusSet), lift(isHeaderMD), isPrefixed
	statusSites := instrsOf(fn, func(x ssa.Instruction) bool {
		if !status(x) {
			return false
		}
		w, _ := (pathQuery{fn: fn, start: hcall, target: func(y ssa.Instruction) bool { return y == x }}).find()
		return w != nil
	})
	if len(statusSites) == 0 {
		r.undecided(key+"/status-write", fn.Pos(), "no write of Grpc-Status found after the handler invocation")
		return
	}
	for i, s := range statusSites {
		s := s
		k := fmt.Sprintf("%s/status-block#%d", key, i+1)
		at := func(y ssa.Instruction) bool { return y == s }
		if w, _ := (pathQuery{fn: fn, start: hcall, target: at, barrier: flush}).find(); w == nil {
			r.ok(k, s.Pos(), "every path from the handler's return to the status write flushes the response headers first: the status travels in the trailer block")
			continue
		}
		bad := false
		for _, hm := range instrsOf(fn, hdrMD) {
			hm := hm
			w1, _ := (pathQuery{fn: fn, start: hcall, target: func(y ssa.Instruction) bool { return y == hm }, barrier: flush}).find()
			w2, _ := (pathQuery{fn: fn, start: hm, target: at, barrier: flush}).find()
			if w1 != nil && w2 != nil {
				bad = true
				r.bad(k, hm.Pos(), "on a path from the handler's return to the status write that never flushes the headers, the handler's header metadata is written into the same header map: the response is a single Trailers-Only block, which a gRPC client reads as trailers - grpc.Header() comes back empty and the header metadata shows up among the trailers")
				break
			}
		}
		if !bad {
			for _, t := range instrsOf(fn, prefixed) {
				t := t
				if w, _ := (pathQuery{fn: fn, start: hcall, target: func(y ssa.Instruction) bool { return y == t }, barrier: flush}).find(); w != nil {
					bad = true
					r.bad(k, t.Pos(), "on a path from the handler's return that never flushes the headers the status is written into the header block while the handler's trailer metadata is written with http.TrailerPrefix: net/http sends those keys in a later trailer block, and a gRPC client takes the status from the last block - it sees Unknown with an empty message instead of the handler's status")
					break
				}
			}
		}
		if !bad {
			r.ok(k, s.Pos(), "a path without a flush (Trailers-Only) writes neither header metadata nor prefixed trailers")
		}
	}
}

// deepSources: the root values v may come from, looking through parameters (to the arguments of every static call
// site in the module) and through calls of module functions (to their returned values).
func (p *Program) deepSources(v ssa.Value, opts originOpts) []ssa.Value {
	opts.local = true
	var out []ssa.Value
	seen := map[ssa.Value]bool{}
	var walk func(v ssa.Value, d int)
	walk = func(v ssa.Value, d int) {
		for _, o := range p.origins(v, opts) {
			if seen[o] || d > 6 {
				continue
			}
			seen[o] = true
			switch x := o.(type) {
			case *ssa.Parameter:
				fn := x.Parent()
				idx := -1
				for i, fp := range fn.Params {
					if fp == x {
						idx = i
					}
				}
				found := false
				for _, g := range p.ModuleFuncs() {
					eachInstr(g, func(in ssa.Instruction) {
						if c, ok := in.(ssa.CallInstruction); ok && !c.Common().IsInvoke() && c.Common().StaticCallee() == fn && idx >= 0 && idx < len(c.Common().Args) {
							found = true
							walk(c.Common().Args[idx], d+1)
						}
					})
				}
				if !found {
					out = append(out, o)
				}
				continue
			case *ssa.Call, *ssa.Extract:
				var call *ssa.Call
				idx := 0
				if ex, ok := x.(*ssa.Extract); ok {
					call, _ = ex.Tuple.(*ssa.Call)
					idx = ex.Index
				} else {
					call = x.(*ssa.Call)
				}
				if call != nil && !call.Call.IsInvoke() {
					if callee := call.Call.StaticCallee(); callee != nil && p.InModule(callee) && len(callee.Blocks) > 0 {
						eachInstr(callee, func(in ssa.Instruction) {
							if rt, ok := in.(*ssa.Return); ok && idx < len(rt.Results) {
								walk(rt.Results[idx], d+1)
							}
						})
						continue
					}
				}
			}
			out = append(out, o)
		}
	}
	walk(v, 0)
	return out
}

func ruleFDHashStreamed(r *Run) {
	p := r.P
	fn := p.Method("state", "addConnHandler")
	hashF := p.StructField("connList", "fdHash")
	if fn == nil || hashF == nil {
		r.missing("(*state).addConnHandler / connList.fdHash")
		return
	}
	key := shortFunc(fn) + "/fd-hash"
	// the value stored into connList.fdHash / compared with it
	var vals []ssa.Value
	p.eachInstrRegion(fn, func(_ *ssa.Function, in ssa.Instruction) {
		if st, ok := in.(*ssa.Store); ok {
			if fa, ok := st.Addr.(*ssa.FieldAddr); ok && fieldOfAddr(fa) == hashF {
				vals = append(vals, st.Val)
			}
		}
		if c, ok := in.(*ssa.Call); ok && calleeName(c) == "bytes.Equal" {
			a, b := c.Call.Args[0], c.Call.Args[1]
			if loadedField(a) == hashF {
				vals = append(vals, b)
			} else if loadedField(b) == hashF {
				vals = append(vals, a)
			}
		}
	})
	if len(vals) == 0 {
		r.undecided(key, fn.Pos(), "no store to / comparison with connList.fdHash found")
		return
	}
	// hashes written to in addConnHandler's region (the hash may be handed to a helper as an io.Writer)
	written := map[ssa.Value]bool{}
	p.eachInstrRegion(fn, func(_ *ssa.Function, in ssa.Instruction) {
		if w, ok := in.(ssa.CallInstruction); ok && w.Common().IsInvoke() && w.Common().Method.Name() == "Write" {
			for _, ho := range p.deepSources(w.Common().Value, originOpts{throughConvert: true, throughAssert: true}) {
				written[ho] = true
			}
		}
	})
	for _, v := range vals {
		for _, o := range p.deepSources(v, originOpts{throughSlice: true, throughConvert: true}) {
			if isNilConst(o) {
				continue
			}
			c, ok := o.(*ssa.Call)
			if !ok || !c.Call.IsInvoke() || c.Call.Method.Name() != "Sum" {
				r.bad(key, v.Pos(), "the digest that decides 'connection unchanged' is %s, not the Sum of one streaming hash over the received file descriptors: a combination of per-file digests in which equal inputs cancel (XOR) or that ignores multiplicity takes a changed backend for unchanged, and the refresh keeps the stale methods", describeValue(o))
				return
			}
			wrote := false
			for _, ho := range p.deepSources(c.Call.Value, originOpts{throughConvert: true, throughAssert: true}) {
				if written[ho] {
					wrote = true
				}
			}
			if !wrote {
				r.bad(key, c.Pos(), "nothing is written into the hash whose Sum decides 'connection unchanged'")
				return
			}
		}
	}
	r.ok(key, fn.Pos(), "the digest compared for 'unchanged' is the Sum of a hash the file descriptor bytes are written into")
}

// ---- SCAN-PROGRESS

type scanVerdict int

const (
	scanUnknown scanVerdict = iota
	scanNonStrict
	scanStrict
)

// suffixResult: result idx of fn is, on every return, a suffix of its (single) string/[]byte parameter par
// (par itself, par[i:], or a suffix helper applied to such); prefixIdx >= 0 names a result that is par[:i] with
// the same i wherever result idx is par[i:] (a splitter).
func (p *Program) suffixResult(fn *ssa.Function, idx int, depth int) (par int, prefixIdx int, ok bool) {
	par, prefixIdx = -1, -1
	if fn == nil || !p.InModule(fn) || len(fn.Blocks) == 0 || depth > 3 {
		return -1, -1, false
	}
	okAll := true
	first := true
	prefCand := map[int]bool{}
	eachInstr(fn, func(in ssa.Instruction) {
		rt, isR := in.(*ssa.Return)
		if !isR || !okAll {
			return
		}
		if idx >= len(rt.Results) {
			okAll = false
			return
		}
		var walk func(v ssa.Value, d int) (ssa.Value, ssa.Value, bool) // base param, low bound of the outermost slice
		walk = func(v ssa.Value, d int) (ssa.Value, ssa.Value, bool) {
			if d > 6 {
				return nil, nil, false
			}
			switch x := v.(type) {
			case *ssa.Parameter:
				return x, nil, true
			case *ssa.Slice:
				if x.High != nil || x.Max != nil {
					return nil, nil, false
				}
				b, _, ok := walk(x.X, d+1)
				return b, x.Low, ok
			case *ssa.Const:
				// "" is a suffix of anything (rest after an error)
				if x.Value != nil && x.Value.String() == `""` {
					return nil, nil, true
				}
			case *ssa.Call:
				switch calleeName(x) {
				case "strings.TrimLeft", "strings.TrimPrefix", "bytes.TrimLeft", "bytes.TrimPrefix":
					b, _, ok := walk(x.Call.Args[0], d+1)
					return b, nil, ok
				}
				if callee := x.Call.StaticCallee(); callee != nil && len(x.Call.Args) == 1 {
					if pi, _, ok := p.suffixResult(callee, 0, depth+1); ok && pi == 0 {
						b, _, ok := walk(x.Call.Args[0], d+1)
						return b, nil, ok
					}
				}
			case *ssa.Extract:
				call, isCall := x.Tuple.(*ssa.Call)
				if !isCall {
					return nil, nil, false
				}
				switch calleeName(call) {
				case "strings.CutPrefix", "bytes.CutPrefix":
					if x.Index == 0 {
						b, _, ok := walk(call.Call.Args[0], d+1)
						return b, nil, ok
					}
					return nil, nil, false
				}
				if callee := call.Call.StaticCallee(); callee != nil {
					if pi, _, ok := p.suffixResult(callee, x.Index, depth+1); ok && pi < len(call.Call.Args) {
						b, _, ok := walk(call.Call.Args[pi], d+1)
						return b, nil, ok
					}
				}
			case *ssa.Phi:
				var base ssa.Value
				for _, e := range x.Edges {
					b, _, ok := walk(e, d+1)
					if !ok {
						return nil, nil, false
					}
					if b != nil {
						if base != nil && base != b {
							return nil, nil, false
						}
						base = b
					}
				}
				return base, nil, true
			}
			return nil, nil, false
		}
		b, low, ok := walk(rt.Results[idx], 0)
		if !ok {
			okAll = false
			return
		}
		if b != nil {
			pi := -1
			for i, fp := range fn.Params {
				if ssa.Value(fp) == b {
					pi = i
				}
			}
			if pi < 0 || (par >= 0 && par != pi) {
				okAll = false
				return
			}
			par = pi
		}
		// splitter partner on this return
		cur := map[int]bool{}
		for j, rv := range rt.Results {
			if j == idx {
				continue
			}
			if sl, isS := rv.(*ssa.Slice); isS && sl.Low == nil && sl.High != nil && sl.High == low && sl.X == b {
				cur[j] = true
			}
			if k, isC := rv.(*ssa.Const); isC && k.Value != nil && k.Value.String() == `""` {
				cur[j] = true // an empty token next to any rest
			}
		}
		if first {
			prefCand = cur
			first = false
		} else {
			for j := range prefCand {
				if !cur[j] {
					delete(prefCand, j)
				}
			}
		}
	})
	if !okAll || par < 0 {
		return -1, -1, false
	}
	for j := range prefCand {
		prefixIdx = j
	}
	return par, prefixIdx, true
}

func ruleScanProgress(r *Run) {
	p := r.P
	n := 0
	for _, fn := range sortedFuncs(p.reachRequest()) {
		fn := fn
		site := 0
		for _, b := range fn.Blocks {
			for _, in := range b.Instrs {
				phi, ok := in.(*ssa.Phi)
				if !ok {
					break
				}
				bt, isBasic := phi.Type().Underlying().(*types.Basic)
				if !(isBasic && bt.Info()&types.IsString != 0) && !isByteSliceType(phi.Type()) {
					continue
				}
				// loop head: some predecessor is dominated by this block
				var back []int
				for i, pr := range b.Preds {
					if b.Dominates(pr) {
						back = append(back, i)
					}
				}
				if len(back) == 0 {
					continue
				}
				var verdictOf func(v ssa.Value, at *ssa.BasicBlock, seen map[ssa.Value]bool, d int) scanVerdict
				verdictOf = func(v ssa.Value, at *ssa.BasicBlock, seen map[ssa.Value]bool, d int) scanVerdict {
					if d > 24 {
						return scanUnknown
					}
					if v == ssa.Value(phi) {
						return scanNonStrict
					}
					switch x := v.(type) {
					case *ssa.Slice:
						if x.High != nil || x.Max != nil {
							return scanUnknown
						}
						inner := verdictOf(x.X, at, seen, d+1)
						if inner == scanUnknown {
							return scanUnknown
						}
						if k, ok := constInt(x.Low); ok && k >= 1 {
							return scanStrict
						}
						return inner
					case *ssa.Phi:
						if seen[v] {
							return scanStrict // a value of an inner loop: no longer than what entered it
						}
						seen[v] = true
						defer delete(seen, v)
						res := scanStrict
						for i, e := range x.Edges {
							ev := verdictOf(e, x.Block().Preds[i], seen, d+1)
							if ev == scanUnknown {
								return scanUnknown
							}
							if ev < res {
								res = ev
							}
						}
						return res
					case *ssa.Call:
						callee := x.Call.StaticCallee()
						if callee == nil {
							return scanUnknown
						}
						switch calleeName(x) {
						case "strings.TrimSpace", "strings.TrimLeft", "strings.TrimPrefix", "bytes.TrimSpace", "bytes.TrimLeft", "bytes.TrimPrefix":
							return verdictOf(x.Call.Args[0], at, seen, d+1)
						}
						if pi, _, ok := p.suffixResult(callee, 0, 0); ok && pi < len(x.Call.Args) {
							return verdictOf(x.Call.Args[pi], at, seen, d+1)
						}
					case *ssa.Extract:
						call, ok := x.Tuple.(*ssa.Call)
						if !ok {
							return scanUnknown
						}
						// strings.CutPrefix(x, lit) / bytes.CutPrefix: the rest is x without lit where found, else x
						switch calleeName(call) {
						case "strings.CutPrefix", "bytes.CutPrefix", "strings.Cut", "bytes.Cut":
							isCut := strings.HasSuffix(calleeName(call), ".Cut")
							restIdx, okIdx := 0, 1
							if isCut {
								restIdx, okIdx = 1, 2
							}
							if x.Index != restIdx {
								return scanUnknown
							}
							inner := verdictOf(call.Call.Args[0], at, seen, d+1)
							if inner != scanNonStrict {
								return inner
							}
							lit, isC := constString(call.Call.Args[1])
							if !isC || lit == "" {
								return inner
							}
							found := extractOf(call, okIdx)
							for _, g := range guardsOf(at) {
								if found != nil && g.Cond == found && g.True {
									return scanStrict
								}
							}
							if isCut {
								return scanUnknown // not found: the rest is empty, not the input
							}
							return inner
						}
						callee := call.Call.StaticCallee()
						pi, pref, ok := p.suffixResult(callee, x.Index, 0)
						if !ok || pi >= len(call.Call.Args) {
							return scanUnknown
						}
						inner := verdictOf(call.Call.Args[pi], at, seen, d+1)
						if inner != scanNonStrict || pref < 0 {
							return inner
						}
						// the token of the same call is known non-empty here?
						tok := extractOf(call, pref)
						if tok == nil {
							return inner
						}
						for _, g := range guardsOf(at) {
							xv, yv, op, ok := g.cmp()
							if !ok {
								continue
							}
							nonEmpty := false
							if ys, isC := constString(yv); isC && ys == "" && op == token.NEQ && xv == tok {
								nonEmpty = true
							}
							if lc, isCall := xv.(*ssa.Call); isCall && calleeName(lc) == "builtin.len" && lc.Call.Args[0] == tok {
								if k, isC := constInt(yv); isC && ((op == token.GTR && k == 0) || (op == token.NEQ && k == 0) || (op == token.GEQ && k >= 1)) {
									nonEmpty = true
								}
							}
							if nonEmpty {
								return scanStrict
							}
						}
						return inner
					}
					return scanUnknown
				}
				worst := scanStrict
				for _, i := range back {
					v := verdictOf(phi.Edges[i], b.Preds[i], map[ssa.Value]bool{}, 0)
					if v < worst {
						worst = v
					}
				}
				if worst == scanUnknown {
					continue // not a loop that consumes this variable (refill loops, counters over an unchanged slice)
				}
				n++
				site++
				key := fmt.Sprintf("%s/consumes:%s#%d", shortFunc(fn), phi.Comment, site)
				if worst == scanStrict {
					r.ok(key, phi.Pos(), "every way round the loop shortens %s by at least one byte", phi.Comment)
				} else {
					r.bad(key, phi.Pos(), "the loop carries the rest of its input in %s, and on some way round it %s is only passed through steps that may consume nothing (a whitespace skipper, a token helper standing on a non-token byte): on such a byte the loop spins forever inside the request - a header like `Accept: application/json; charset=\"utf-8\"` wedges the server", phi.Comment, phi.Comment)
				}
			}
		}
	}
	if n == 0 {
		r.undecided("input-consuming loops", token.NoPos, "no loop carrying its input in a string/[]byte variable found on request paths")
	}
}

func init() {
	register(&Rule{Name: "DELRULE-TOTAL", Floor: 3,
		Doc: "path.delRule removes every rule of the method, not the first one it meets: its loops over the children, the variables and the verb table are left only at their end (no return or break from the body), it clears a matching methodAll, and path.alive reads every field of path that can hold a route (a node holding only a kind-'*' route is not dead). Otherwise which binding survives a DropConn depends on map iteration order, the re-registration finds the surviving primary rule ('already registered') and never re-adds the additional bindings: routes of a live method answer 404",
		Run: ruleDelRuleTotal})
}

// naturalLoop: the blocks of the natural loop of back edge tail -> head.
func naturalLoop(head, tail *ssa.BasicBlock) map[*ssa.BasicBlock]bool {
	in := map[*ssa.BasicBlock]bool{head: true}
	var stack []*ssa.BasicBlock
	if !in[tail] {
		in[tail] = true
		stack = append(stack, tail)
	}
	for len(stack) > 0 {
		b := stack[len(stack)-1]
		stack = stack[:len(stack)-1]
		for _, pr := range b.Preds {
			if !in[pr] {
				in[pr] = true
				stack = append(stack, pr)
			}
		}
	}
	return in
}

func ruleDelRuleTotal(r *Run) {
	p := r.P
	fn := p.Method("path", "delRule")
	al := p.Method("path", "alive")
	pt := p.NamedType("path")
	if fn == nil || al == nil || pt == nil {
		r.missing("(*path).delRule / (*path).alive")
		return
	}
	key := shortFunc(fn)
	// loops are left only through their head
	nLoops := 0
	for _, h := range fn.Blocks {
		loop := map[*ssa.BasicBlock]bool{}
		for _, t := range h.Preds {
			if h.Dominates(t) {
				for b := range naturalLoop(h, t) {
					loop[b] = true
				}
			}
		}
		if len(loop) > 0 {
			nLoops++
			var early *ssa.BasicBlock
			for b := range loop {
				if b == h {
					continue
				}
				for _, s := range b.Succs {
					if !loop[s] {
						early = b
					}
				}
			}
			k := fmt.Sprintf("%s/loop-runs-to-its-end#%d", key, nLoops)
			if early != nil {
				pos := h.Instrs[0].Pos()
				if last := early.Instrs[len(early.Instrs)-1]; last.Pos().IsValid() {
					pos = last.Pos()
				}
				r.bad(k, pos, "a loop of delRule is left from its body (return/break after the first hit): only the first rule of the method that the iteration meets is removed - which one depends on map order - and the others stay in the trie; on re-registration addRule finds a surviving primary rule, reports 'already registered' and never re-adds the additional bindings, so a binding that was the one removed answers 404 although the method has a live backend")
			} else {
				r.ok(k, h.Instrs[0].Pos(), "the loop is left only at its head: every child/variable/verb entry is visited")
			}
		}
	}
	if nLoops == 0 {
		r.undecided(key+"/loops", fn.Pos(), "delRule has no loop")
	}
	// methodAll
	st, _ := pt.Underlying().(*types.Struct)
	cleared := map[*types.Var]bool{}
	eachInstr(fn, func(in ssa.Instruction) {
		switch x := in.(type) {
		case *ssa.Store:
			if fa, ok := x.Addr.(*ssa.FieldAddr); ok && isNilConst(x.Val) {
				cleared[fieldOfAddr(fa)] = true
			}
		case *ssa.Call:
			if b, ok := x.Call.Value.(*ssa.Builtin); ok && b.Name() == "delete" {
				if f := loadedField(x.Call.Args[0]); f != nil {
					cleared[f] = true
				}
			}
		}
	})
	readsAlive := map[*types.Var]bool{}
	p.eachInstrRegion(al, func(_ *ssa.Function, in ssa.Instruction) {
		if u, ok := in.(*ssa.UnOp); ok {
			if f := loadedField(u); f != nil {
				readsAlive[f] = true
			}
		}
	})
	for i := 0; st != nil && i < st.NumFields(); i++ {
		f := st.Field(i)
		var holdsMethod bool
		switch t := f.Type().Underlying().(type) {
		case *types.Pointer:
			nm := namedOf(t)
			holdsMethod = nm != nil && nm.Obj().Name() == "method"
		case *types.Map:
			nm := namedOf(t.Elem())
			holdsMethod = nm != nil && nm.Obj().Name() == "method"
		}
		if holdsMethod {
			r.check(cleared[f], fmt.Sprintf("%s/clears:path.%s", key, f.Name()), fn.Pos(), "delRule removes the method from path."+f.Name(),
				"delRule never removes a method from path."+f.Name()+": a rule kept there (the implicit /Service/Method route is a kind-'*' rule) survives the drop, and the re-registration takes it for 'already registered'")
		}
		switch f.Type().Underlying().(type) {
		case *types.Pointer, *types.Map, *types.Slice:
			r.check(readsAlive[f], fmt.Sprintf("%s/reads:path.%s", shortFunc(al), f.Name()), al.Pos(), "alive() looks at path."+f.Name(),
				"alive() does not look at path."+f.Name()+": a node whose only route is kept there counts as dead and is pruned together with a still-registered route when a sibling below it is removed")
		}
	}
}

func init() {
	register(&Rule{Name: "HEADER-MD-ON-FAILURE", Floor: 1,
		Doc: "in serveHTTP every path from the handler's return to the encoding of its error writes the stream's header metadata into the response header (setOutgoingHeader of stream.header), unless the headers were already sent (stream.sentHeader): a failing RPC delivers the header metadata the handler set before it failed, like a successful one",
		Run: ruleHeaderMDOnFailure})
}

func ruleHeaderMDOnFailure(r *Run) {
	p := r.P
	fn := p.Method("Mux", "serveHTTP")
	if fn == nil {
		r.missing("method (*Mux).serveHTTP")
		return
	}
	key := shortFunc(fn)
	hf := p.StructField("handler", "handler")
	sent := p.StructField("streamHTTP", "sentHeader")
	isHeaderMD := func(x ssa.Instruction) bool {
		c, ok := x.(ssa.CallInstruction)
		if !ok || calleeName(c) != "larking.io/larking.setOutgoingHeader" || len(c.Common().Args) < 2 {
			return false
		}
		for _, o := range p.origins(c.Common().Args[1], originOpts{local: true, throughConvert: true}) {
			if f := loadedField(o); f != nil && f.Name() == "header" {
				return true
			}
		}
		return false
	}
	writes := func(x ssa.Instruction) bool {
		if isHeaderMD(x) {
			return true
		}
		c, ok := x.(ssa.CallInstruction)
		return ok && x.Parent() == fn && p.callMay(c, isHeaderMD)
	}
	isEnc := func(x ssa.Instruction) bool {
		c, ok := x.(ssa.CallInstruction)
		return ok && calleeName(c) == "(*larking.io/larking.Mux).encError"
	}
	n := 0
	eachInstr(fn, func(in ssa.Instruction) {
		c, ok := in.(ssa.CallInstruction)
		if !ok || calledField(c) != hf {
			return
		}
		// only handler invocations that can lead to encError inside serveHTTP (the websocket branch ends differently)
		if w, _ := (pathQuery{fn: fn, start: in, target: isEnc}).find(); w == nil {
			return
		}
		n++
		q := pathQuery{fn: fn, start: in, target: isEnc, barrier: writes,
			edgeOK: func(b *ssa.BasicBlock, succ int) bool {
				ifi := blockIf(b)
				if ifi == nil || sent == nil {
					return true
				}
				// `if stream.sentHeader` true edge / `if !stream.sentHeader` false edge: headers (and with them the
				// metadata) went out already
				cond, neg := ifi.Cond, false
				if u, ok := cond.(*ssa.UnOp); ok && u.Op == token.NOT {
					cond, neg = u.X, true
				}
				if loadedField(cond) == sent {
					sentEdge := 0
					if neg {
						sentEdge = 1
					}
					return succ != sentEdge
				}
				return true
			}}
		k := fmt.Sprintf("%s/header-metadata-before-error#%d", key, n)
		if w, hit := q.find(); w != nil {
			r.bad(k, hit.Pos(), "the handler's error is encoded on a path on which the headers were not sent and the stream's header metadata was never written into the response header (%s): metadata set with grpc.SetHeader before the failure is dropped, although the trailer metadata is delivered", p.describePath(w))
		} else {
			r.ok(k, in.Pos(), "every path to the error encoder writes the header metadata or has sent the headers already")
		}
	})
	if n == 0 {
		r.undecided(key+"/header-metadata-before-error", fn.Pos(), "no handler invocation followed by encError found in serveHTTP")
	}
}

func init() {
	register(&Rule{Name: "WEB-FLUSH-COMMITS", Floor: 3,
		Doc: "every way the gRPC-Web writer lets the response headers go out - Write, WriteHeader and Flush - first records them (seeHeaders, unless already recorded): serveGRPC ends the header phase with a Flush and writes status and trailers afterwards, so a Flush that records nothing leaves an RPC that fails before its first reply without the gRPC-Web content type and without a trailer frame (status in plain headers, handler trailers as HTTP trailers a browser cannot read)",
		Run: ruleWebFlushCommits})
}

func ruleWebFlushCommits(r *Run) {
	p := r.P
	see := p.Method("webWriter", "seeHeaders")
	wrote := p.StructField("webWriter", "wroteHeader")
	if see == nil || wrote == nil {
		r.missing("(*webWriter).seeHeaders / webWriter.wroteHeader")
		return
	}
	isSee := func(x ssa.Instruction) bool {
		c, ok := x.(ssa.CallInstruction)
		return ok && c.Common().StaticCallee() == see
	}
	for _, name := range []string{"Write", "WriteHeader", "Flush"} {
		fn := p.Method("webWriter", name)
		if fn == nil {
			r.missing("method (*webWriter)." + name)
			continue
		}
		key := shortFunc(fn) + "/records-headers"
		// the calls that let the headers go out on the underlying writer
		outs := instrsOf(fn, func(x ssa.Instruction) bool {
			c, ok := x.(ssa.CallInstruction)
			if !ok || !c.Common().IsInvoke() {
				return false
			}
			switch c.Common().Method.Name() {
			case "Write", "WriteHeader", "Flush":
				return true
			}
			return false
		})
		if len(outs) == 0 {
			r.undecided(key, fn.Pos(), "no write/flush of the underlying writer found")
			continue
		}
		q := pathQuery{fn: fn,
			target: func(x ssa.Instruction) bool { return isReturn(x) },
			barrier: func(x ssa.Instruction) bool {
				return isSee(x) || (x.Parent() == fn && func() bool { c, ok := x.(ssa.CallInstruction); return ok && p.callMay(c, isSee) }())
			},
			edgeOK: func(b *ssa.BasicBlock, succ int) bool {
				ifi := blockIf(b)
				if ifi == nil {
					return true
				}
				cond, neg := ifi.Cond, false
				if u, ok := cond.(*ssa.UnOp); ok && u.Op == token.NOT {
					cond, neg = u.X, true
				}
				if loadedField(cond) == wrote {
					recorded := 0
					if neg {
						recorded = 1
					}
					return succ != recorded // already recorded: nothing to do on that edge
				}
				return true
			}}
		if w, hit := q.find(); w != nil {
			r.bad(key, hit.Pos(), "%s can return without the response headers having been recorded (no seeHeaders on a path where wroteHeader is false: %s): what serveGRPC writes after its header-phase flush is then not recognised as trailers - an RPC failing before its first reply goes out with Content-Type application/grpc+proto, without a trailer frame, and with the handler's trailers as HTTP trailers", shortFunc(fn), p.describePath(w))
		} else {
			r.ok(key, fn.Pos(), "every path records the headers (seeHeaders) unless they are recorded already")
		}
	}
}

func init() {
	register(&Rule{Name: "LIMIT-DIRECTION", Floor: 2,
		Doc: "a size refusal on a send path (the region of a stream's SendMsg) compares with the send limit and one on a receive path (RecvMsg) with the receive limit: a reply checked against maxReceiveMessageSize is refused although it is within the configured send limit (with a small receive limit and the default send limit every larger gRPC reply fails)",
		Run: ruleLimitDirection})
}

func ruleLimitDirection(r *Run) {
	p := r.P
	n := 0
	for _, typ := range []string{"streamGRPC", "streamHTTP", "streamWS"} {
		for _, dir := range []struct{ method, want, other string }{{"SendMsg", "send", "recv"}, {"RecvMsg", "recv", "send"}} {
			fn := p.Method(typ, dir.method)
			if fn == nil {
				continue
			}
			seen := map[*ssa.Function]bool{}
			site := 0
			p.eachInstrRegion(fn, func(g *ssa.Function, _ ssa.Instruction) {
				if seen[g] {
					return
				}
				seen[g] = true
				for _, lc := range p.limitCompares(g) {
					if lc.kind != "send" && lc.kind != "recv" {
						continue
					}
					if p.refusalEdge(lc.ifi) < 0 {
						continue // pool-retention tests and clamps refuse nothing
					}
					n++
					site++
					key := fmt.Sprintf("(*%s).%s/refusal-uses-%s-limit#%d", typ, dir.method, dir.want, site)
					if lc.kind == dir.other {
						what := map[string]string{"send": "maxSendMessageSize", "recv": "maxReceiveMessageSize"}
						r.bad(key, lc.bo.Pos(), "a message is refused on the %s path by comparing its size with %s: a message within the configured %s limit is refused on size grounds (and one over it may pass) whenever the two limits differ", strings.ToLower(strings.TrimSuffix(dir.method, "Msg")), what[lc.kind], dir.want)
					} else {
						r.ok(key, lc.bo.Pos(), "the refusal compares with the %s limit", dir.want)
					}
				}
			})
		}
	}
	if n == 0 {
		r.undecided("stream size refusals", token.NoPos, "no refusing comparison with a configured size limit found in the stream methods")
	}
}

func init() {
	register(&Rule{Name: "EOF-NO-PHANTOM", Floor: 1,
		Doc: "streamHTTP.readMsg delivers no message where the stream codec reported the end of the body without one: on the way through `err == io.EOF` with a returned length of 0 and at least one message already received, every return carries a non-nil error (io.EOF, or an error for left-over bytes). Clearing the error there hands the handler a phantom empty message - a protobuf stream of three messages arrives as four, a JSON stream ends in an unmarshal error instead of io.EOF",
		Run: ruleEOFNoPhantom})
}

func ruleEOFNoPhantom(r *Run) {
	p := r.P
	fn := p.Method("streamHTTP", "readMsg")
	if fn == nil {
		r.missing("method (*streamHTTP).readMsg")
		return
	}
	key := shortFunc(fn) + "/end-of-body-is-no-message"
	var rn *ssa.Call
	eachInstr(fn, func(in ssa.Instruction) {
		if c, ok := in.(*ssa.Call); ok && c.Call.IsInvoke() && c.Call.Method.Name() == "ReadNext" {
			rn = c
		}
	})
	if rn == nil {
		r.undecided(key, fn.Pos(), "no ReadNext call found in readMsg")
		return
	}
	nv, ev := extractOf(rn, 1), extractOf(rn, 2)
	if nv == nil || ev == nil {
		r.undecided(key, rn.Pos(), "ReadNext's length or error result is not used")
		return
	}
	cnt := p.StructField("streamHTTP", "recvCount")
	isCount := func(v ssa.Value) bool {
		for _, o := range p.origins(v, originOpts{local: true, throughConvert: true}) {
			if loadedField(o) == cnt {
				return true
			}
		}
		return false
	}
	isEOF := func(v ssa.Value) bool {
		for _, o := range p.origins(v, originOpts{local: true}) {
			if u, ok := o.(*ssa.UnOp); ok && u.Op == token.MUL {
				if g, ok := u.X.(*ssa.Global); ok && g.Name() == "EOF" && g.Pkg != nil && g.Pkg.Pkg.Path() == "io" {
					return true
				}
			}
		}
		return false
	}
	sawEOFTest := false
	// edges consistent with: err == io.EOF, n == 0, count >= 1
	edgeOK := func(b *ssa.BasicBlock, succ int) bool {
		ifi := blockIf(b)
		if ifi == nil {
			return true
		}
		g := guardFact{Cond: ifi.Cond, True: succ == 0, If: ifi}
		x, y, op, ok := g.cmp()
		if !ok {
			return true
		}
		xs, ys := p.stripConvAll(x), p.stripConvAll(y)
		switch {
		case (xs == ev && isEOF(ys)) || (ys == ev && isEOF(xs)):
			sawEOFTest = true
			return op == token.EQL
		case xs == ev && isNilConst(ys):
			return op == token.NEQ // the error is io.EOF, not nil
		case xs == nv:
			if k, isC := constInt(ys); isC {
				switch op {
				case token.EQL:
					return k == 0
				case token.NEQ:
					return k != 0
				case token.GTR:
					return 0 > k
				case token.GEQ:
					return 0 >= k
				case token.LSS:
					return 0 < k
				case token.LEQ:
					return 0 <= k
				}
			}
		case isCount(xs):
			if k, isC := constInt(ys); isC {
				switch op { // count >= 1 (a message was received before)
				case token.EQL:
					return k >= 1
				case token.GTR:
					return true
				case token.GEQ:
					return true
				case token.LSS:
					return k >= 2
				case token.LEQ:
					return k >= 1
				}
			}
		}
		return true
	}
	var hit ssa.Instruction
	q := pathQuery{fn: fn, start: rn, edgeOK: edgeOK, target: func(x ssa.Instruction) bool {
		rt, ok := x.(*ssa.Return)
		if !ok || len(rt.Results) < 3 {
			return false
		}
		for _, o := range p.origins(rt.Results[2], originOpts{local: true}) {
			if isNilConst(o) {
				hit = x
				return true
			}
		}
		return false
	}}
	w, _ := q.find()
	switch {
	case !sawEOFTest:
		r.undecided(key, rn.Pos(), "readMsg does not compare ReadNext's error with io.EOF")
	case w != nil:
		r.bad(key, hit.Pos(), "where ReadNext reports the end of the body without a message (io.EOF, length 0) after at least one message, readMsg can still return a nil error (%s): the handler receives an empty message that the client never sent (or an unmarshal error instead of io.EOF)", p.describePath(w))
	default:
		r.ok(key, rn.Pos(), "every return on the path (io.EOF, length 0, a message already received) carries an error")
	}
}

func init() {
	register(&Rule{Name: "LIMIT-AFTER-DECOMPRESS", Floor: 1,
		Doc: "the receive limit is a limit on the message after decompression: a refusal in streamGRPC.RecvMsg that compares the frame's *wire* length (the length field of the frame header) with the receive limit applies only to uncompressed frames (it is guarded by the frame's compressed flag being clear); applied to a compressed frame it refuses an incompressible message that is within the limit but a few bytes longer on the wire (gzip adds about 23 bytes)",
		Run: ruleLimitAfterDecompress})
}

func ruleLimitAfterDecompress(r *Run) {
	p := r.P
	fn := p.Method("streamGRPC", "RecvMsg")
	if fn == nil {
		r.missing("method (*streamGRPC).RecvMsg")
		return
	}
	n := 0
	for _, lc := range p.limitCompares(fn) {
		if lc.kind != "recv" || p.refusalEdge(lc.ifi) < 0 {
			continue
		}
		// the compared value is the length field of the frame header
		wire := false
		for _, o := range p.origins(lc.other, originOpts{throughConvert: true, local: true}) {
			if c, ok := o.(*ssa.Call); ok && strings.Contains(calleeName(c), "encoding/binary") && strings.HasSuffix(calleeName(c), "Uint32") {
				wire = true
			}
		}
		if !wire {
			continue
		}
		n++
		key := fmt.Sprintf("(*streamGRPC).RecvMsg/wire-length-refusal#%d", n)
		guarded := false
		for _, g := range guardsOf(lc.ifi.Block()) {
			x, y, op, ok := g.cmp()
			if !ok {
				continue
			}
			k, isC := constInt(y)
			if !isC {
				continue
			}
			isFlag := false
			for _, o := range p.origins(x, originOpts{local: true}) {
				if u, ok := o.(*ssa.UnOp); ok && u.Op == token.MUL {
					if ia, ok := u.X.(*ssa.IndexAddr); ok {
						if i, isC := constInt(ia.Index); isC && i == 0 {
							isFlag = true
						}
					}
				}
			}
			if isFlag && ((k == 1 && op == token.NEQ) || (k == 0 && op == token.EQL)) {
				guarded = true
			}
		}
		if guarded {
			r.ok(key, lc.bo.Pos(), "the wire length is compared with the receive limit only for uncompressed frames")
		} else {
			r.bad(key, lc.bo.Pos(), "the frame's wire length is compared with the receive limit whether or not the frame is compressed: a message within the limit whose compressed form is longer than the limit (incompressible data: gzip adds about 23 bytes) is refused on size grounds although its size after decompression is within the limit")
		}
	}
	if n == 0 {
		r.info("(*streamGRPC).RecvMsg/wire-length-refusal", fn.Pos(), "RecvMsg does not refuse on the wire length")
	}
}

func init() {
	register(&Rule{Name: "DISPATCH-PREFIX-ORDER", Floor: 1,
		Doc: "Mux.ServeHTTP picks the protocol by content-type prefix; where one tested prefix is itself a prefix of another (\"application/grpc\" of \"application/grpc-web\"), the branch of the shorter one is reached only after the longer one was tested and failed - otherwise the more specific protocol is shadowed (gRPC-Web over HTTP/2 was handed to the gRPC server and refused with 415)",
		Run: ruleDispatchPrefixOrder})
}

func ruleDispatchPrefixOrder(r *Run) {
	p := r.P
	fn := p.Method("Mux", "ServeHTTP")
	if fn == nil {
		r.missing("method (*Mux).ServeHTTP")
		return
	}
	type test struct {
		call *ssa.Call
		lit  string
		subj ssa.Value
	}
	var tests []test
	eachInstr(fn, func(in ssa.Instruction) {
		c, ok := in.(*ssa.Call)
		if !ok || calleeName(c) != "strings.HasPrefix" {
			return
		}
		if lit, ok := constString(c.Call.Args[1]); ok {
			tests = append(tests, test{c, lit, c.Call.Args[0]})
		}
	})
	n := 0
	for _, short := range tests {
		for _, long := range tests {
			if short.call == long.call || len(long.lit) <= len(short.lit) || !strings.HasPrefix(long.lit, short.lit) {
				continue
			}
			sameSubject := p.sameExpr(short.subj, long.subj, 0) || p.sameValue(short.subj, long.subj)
			if !sameSubject {
				// two reads of the same request header
				a, okA := short.subj.(*ssa.Call)
				b, okB := long.subj.(*ssa.Call)
				if okA && okB && calleeName(a) == "(net/http.Header).Get" && calleeName(b) == "(net/http.Header).Get" {
					ka, _ := constString(a.Call.Args[1])
					kb, _ := constString(b.Call.Args[1])
					sameSubject = ka != "" && strings.EqualFold(ka, kb)
				}
			}
			if !sameSubject {
				continue
			}
			n++
			key := fmt.Sprintf("(*Mux).ServeHTTP/prefix-order:%s<%s", short.lit, long.lit)
			ordered := false
			for _, g := range guardsOf(short.call.Block()) {
				if g.Cond == ssa.Value(long.call) && !g.True {
					ordered = true
				}
			}
			if ordered {
				r.ok(key, short.call.Pos(), "the test for %q is reached only where the test for %q failed", short.lit, long.lit)
			} else {
				r.bad(key, short.call.Pos(), "the content type is tested for the prefix %q on a path on which it was not yet tested for %q, which starts with the same text: requests of the more specific protocol take the branch of the other one (a gRPC-Web request over HTTP/2 is handed to the gRPC server and refused with 415)", short.lit, long.lit)
			}
		}
	}
	if n == 0 {
		r.undecided("(*Mux).ServeHTTP/prefix-order", fn.Pos(), "no pair of nested content-type prefixes tested in ServeHTTP")
	}
}

// ---------------------------------------------------------------------------------------------------------------
// round 10

func init() {
	register(&Rule{Name: "PARAM-STABLE-ORDER", Floor: 0,
		Doc: "the parameter list is applied in the order it was composed (last writer wins, repeated values in the order given): it is never sorted with an unstable sort (sort.Slice / sort.Sort / slices.SortFunc): beyond 12 elements pdqsort permutes equal elements - repeated query values arrive permuted and a query value can end up after the path value of the same field",
		Run: ruleParamStableOrder})
	register(&Rule{Name: "VARINT-PREFIX", Floor: 1,
		Doc: "the length prefix CodecProto.WriteNext writes is a varint: it comes from protowire.AppendVarint / binary.PutUvarint, or is a single byte made from the length only where the length is known to be below 128 (a 128-byte message framed with the single byte 0x80 reads as the first byte of a longer varint)",
		Run: ruleVarintPrefix})
	register(&Rule{Name: "CONST-INDEX", Floor: 0,
		Doc: "on request paths a string is indexed with a constant k only where its length is known to exceed k (a dominating len test with the right constant: `len(s) < k` before `s[k]` is off by one)",
		Run: ruleConstIndex})
	register(&Rule{Name: "DEFAULT-SCALAR-ONLY", Floor: 0,
		Doc: "protoreflect's FieldDescriptor.Default() yields an invalid Value for repeated and message-typed fields; on request paths it is called only where the field is known to be a singular scalar",
		Run: ruleDefaultScalarOnly})
	register(&Rule{Name: "MUX-SIDE-STATE", Floor: 0,
		Doc: "registration state lives in the copy-on-write snapshot only: a writer that also records something in a container held by the Mux itself (a sync.Map of claimed names, …) before a step that can fail leaves that record behind when the registration is rejected - 'a failed registration changes nothing' no longer holds and the retry is refused",
		Run: ruleMuxSideState})
}

func isParamsType(t types.Type) bool {
	if nm, ok := t.(*types.Named); ok && nm.Obj().Name() == "params" && nm.Obj().Pkg() != nil && nm.Obj().Pkg().Path() == larkPath {
		return true
	}
	if sl, ok := t.Underlying().(*types.Slice); ok {
		if nm, ok := sl.Elem().(*types.Named); ok && nm.Obj().Name() == "param" && nm.Obj().Pkg() != nil && nm.Obj().Pkg().Path() == larkPath {
			return true
		}
	}
	return false
}

func ruleParamStableOrder(r *Run) {
	p := r.P
	bad := 0
	for _, fn := range p.ModuleFuncs() {
		fn := fn
		eachInstr(fn, func(in ssa.Instruction) {
			c, ok := in.(ssa.CallInstruction)
			if !ok || len(c.Common().Args) == 0 {
				return
			}
			cn := calleeName(c)
			if i := strings.Index(cn, "["); i > 0 {
				cn = cn[:i]
			}
			switch cn {
			case "sort.Slice", "sort.Sort", "slices.SortFunc", "slices.Sort":
			default:
				return
			}
			arg := c.Common().Args[0]
			t := arg.Type()
			if mi, ok := arg.(*ssa.MakeInterface); ok {
				t = mi.X.Type()
			}
			if !isParamsType(t) {
				return
			}
			bad++
			r.bad(fmt.Sprintf("%s/unstable-sort#%d", shortFunc(fn), bad), in.Pos(), "the request's parameter list is sorted with %s, which is not stable: parameters of the same field lose their relative order once the list is longer than 12 entries (repeated values arrive permuted; a query value can be applied after the path value)", shortName(cn))
		})
	}
	if bad == 0 {
		r.ok("module/params-order", token.NoPos, "the parameter list is never sorted with an unstable sort")
	}
}

func ruleVarintPrefix(r *Run) {
	p := r.P
	fn := p.Method("CodecProto", "WriteNext")
	if fn == nil {
		r.missing("method (CodecProto).WriteNext")
		return
	}
	key := shortFunc(fn)
	n, bad := 0, 0
	p.eachInstrRegion(fn, func(g *ssa.Function, in ssa.Instruction) {
		switch x := in.(type) {
		case *ssa.Call:
			switch calleeName(x) {
			case "google.golang.org/protobuf/encoding/protowire.AppendVarint", "encoding/binary.PutUvarint", "encoding/binary.AppendUvarint":
				n++
			}
		case *ssa.Convert:
			bt, ok := x.Type().Underlying().(*types.Basic)
			if !ok || bt.Kind() != types.Uint8 {
				return
			}
			var lenv ssa.Value
			for _, o := range p.origins(x.X, originOpts{local: true, throughConvert: true}) {
				if c, ok := o.(*ssa.Call); ok && calleeName(c) == "builtin.len" {
					lenv = o
				}
			}
			if lenv == nil {
				return
			}
			n++
			small := false
			for _, gf := range guardsOf(x.Block()) {
				xv, yv, op, ok := gf.cmp()
				if !ok {
					continue
				}
				k, isC := constInt(yv)
				if !isC || !(p.stripConvAll(xv) == lenv || p.sameExpr(p.stripConvAll(xv), lenv, 0)) {
					continue
				}
				if (op == token.LSS && k <= 128) || (op == token.LEQ && k <= 127) {
					small = true
				}
			}
			if !small {
				bad++
				r.bad(fmt.Sprintf("%s/single-byte-prefix#%d", key, bad), x.Pos(), "a length is written as a single prefix byte without being known to be below 128: for a message of exactly 128 bytes the byte is 0x80, which a varint reader takes for the first byte of a longer length - that message and everything after it on the stream no longer frame")
			}
		}
	})
	if n == 0 {
		r.undecided(key+"/prefix", fn.Pos(), "no varint encoder call found in WriteNext")
	} else if bad == 0 {
		r.ok(key+"/prefix", fn.Pos(), "the length prefix is a varint (%d encoder calls / guarded single-byte prefixes)", n)
	}
}

func ruleConstIndex(r *Run) {
	p := r.P
	n, bad := 0, 0
	for _, fn := range sortedFuncs(p.reachRequest()) {
		fn := fn
		eachInstr(fn, func(in ssa.Instruction) {
			// go/ssa spells s[i] on a string as Index (Lookup in older versions)
			type strIndex struct {
				X, Index ssa.Value
				blk      *ssa.BasicBlock
			}
			var lk strIndex
			switch x := in.(type) {
			case *ssa.Index:
				lk = strIndex{x.X, x.Index, x.Block()}
			case *ssa.Lookup:
				lk = strIndex{x.X, x.Index, x.Block()}
			default:
				return
			}
			bt, ok := lk.X.Type().Underlying().(*types.Basic)
			if !ok || bt.Info()&types.IsString == 0 {
				return
			}
			k, isC := constInt(lk.Index)
			if !isC {
				// a counter that starts at a constant and only goes down (for n := K; …; n--): its largest value is K
				phi, ok := lk.Index.(*ssa.Phi)
				if !ok {
					return
				}
				ub, have := int64(-1), true
				for _, e := range phi.Edges {
					if c, ok := constInt(e); ok {
						if c > ub {
							ub = c
						}
						continue
					}
					bo, ok := e.(*ssa.BinOp)
					if ok && bo.Op == token.SUB && bo.X == ssa.Value(phi) {
						if c, ok := constInt(bo.Y); ok && c >= 0 {
							continue
						}
					}
					have = false
				}
				if !have || ub < 0 {
					return
				}
				k = ub
			}
			if cs, ok := lk.X.(*ssa.Const); ok && cs.Value != nil {
				return
			}
			n++
			enough := false
			isLenOf := func(v ssa.Value) bool {
				c, ok := p.stripConvAll(v).(*ssa.Call)
				return ok && calleeName(c) == "builtin.len" && (c.Call.Args[0] == lk.X || p.sameValue(c.Call.Args[0], lk.X) || p.sameExpr(c.Call.Args[0], lk.X, 0))
			}
			established := p.guardedInEveryContext(lk.blk, func(gf guardFact) bool {
				xv, yv, op, ok := gf.cmp()
				if !ok {
					return false
				}
				if c, isK := constInt(yv); isK && isLenOf(xv) {
					switch op {
					case token.GTR:
						return c >= k
					case token.GEQ:
						return c >= k+1
					case token.NEQ:
						return c == 0 && k == 0
					case token.EQL:
						return c >= k+1
					}
				}
				// s != "" / HasPrefix(s, lit)
				if cs, isS := constString(yv); isS && (xv == lk.X || p.sameValue(xv, lk.X)) {
					if op == token.NEQ && cs == "" && k == 0 {
						return true
					}
					if op == token.EQL && int64(len(cs)) >= k+1 {
						return true
					}
				}
				if hc, isCall := gf.Cond.(*ssa.Call); isCall && gf.True && calleeName(hc) == "strings.HasPrefix" && (hc.Call.Args[0] == lk.X || p.sameValue(hc.Call.Args[0], lk.X)) {
					if lit, ok := constString(hc.Call.Args[1]); ok && int64(len(lit)) >= k+1 {
						return true
					}
				}
				return false
			})
			enough = established
			if !enough {
				bad++
				r.bad(fmt.Sprintf("%s/string-index[%d]#%d", shortFunc(fn), k, bad), in.Pos(), "the string is indexed with the constant %d on a path on which its length is not known to exceed %d (a `len(s) < %d` guard lets a string of exactly %d bytes through): index out of range inside the request", k, k, k, k)
			}
		})
	}
	if bad == 0 {
		r.ok("request paths/string-const-index", token.NoPos, "%d constant indexes into strings on request paths, each behind a sufficient length test", n)
	}
}

func ruleDefaultScalarOnly(r *Run) {
	p := r.P
	n, bad := 0, 0
	for _, fn := range sortedFuncs(p.reachRequest()) {
		fn := fn
		eachInstr(fn, func(in ssa.Instruction) {
			c, ok := in.(*ssa.Call)
			if !ok || !c.Call.IsInvoke() || c.Call.Method.Name() != "Default" || c.Call.Method.Pkg() == nil || !strings.HasSuffix(c.Call.Method.Pkg().Path(), "protoreflect") {
				return
			}
			n++
			fd := c.Call.Value
			// the field is known singular and not a message: IsList / IsMap false and Message() == nil / Kind tested
			notList, notMsg := false, false
			for _, gf := range guardsOf(c.Block()) {
				if hc, isCall := gf.Cond.(*ssa.Call); isCall && hc.Call.IsInvoke() && (hc.Call.Value == fd || p.sameValue(hc.Call.Value, fd)) {
					switch hc.Call.Method.Name() {
					case "IsList":
						if !gf.True {
							notList = true
						}
					}
				}
				xv, yv, op, ok := gf.cmp()
				if !ok {
					continue
				}
				if mc, isCall := xv.(*ssa.Call); isCall && mc.Call.IsInvoke() && (mc.Call.Value == fd || p.sameValue(mc.Call.Value, fd)) {
					if mc.Call.Method.Name() == "Message" && isNilConst(yv) && op == token.EQL {
						notMsg = true
					}
					if mc.Call.Method.Name() == "Cardinality" && op == token.NEQ {
						notList = true
					}
				}
			}
			if !(notList && notMsg) {
				bad++
				r.bad(fmt.Sprintf("%s/default-of-any-field#%d", shortFunc(fn), bad), in.Pos(), "FieldDescriptor.Default() is used for a field that is not known to be a singular scalar: for repeated and message-typed fields it is an invalid Value, and List.Append / Message.Set panic on it later in the request (`?int32_list=`)")
			}
		})
	}
	if bad == 0 {
		r.ok("request paths/field-defaults", token.NoPos, "%d uses of FieldDescriptor.Default() on request paths, each for a known singular scalar", n)
	}
}

func ruleMuxSideState(r *Run) {
	p := r.P
	mux := p.NamedType("Mux")
	if mux == nil {
		r.missing("type Mux")
		return
	}
	n, bad := 0, 0
	for _, fn := range sortedFuncs(p.reachRegistration()) {
		fn := fn
		eachInstr(fn, func(in ssa.Instruction) {
			c, ok := in.(ssa.CallInstruction)
			if !ok || c.Common().IsInvoke() {
				return
			}
			cn := calleeName(c)
			if !strings.HasPrefix(cn, "(*sync.Map).") {
				return
			}
			switch strings.TrimPrefix(cn, "(*sync.Map).") {
			case "Store", "LoadOrStore", "LoadAndDelete", "Delete", "Swap", "CompareAndSwap", "CompareAndDelete", "Clear":
			default:
				return
			}
			onMux := false
			for _, o := range p.origins(c.Common().Args[0], originOpts{local: true}) {
				if fa, ok := o.(*ssa.FieldAddr); ok {
					if nm := namedOf(fa.X.Type()); nm != nil && nm.Obj() == mux.Obj() {
						onMux = true
					}
				}
			}
			if fa, ok := c.Common().Args[0].(*ssa.FieldAddr); ok {
				if nm := namedOf(fa.X.Type()); nm != nil && nm.Obj() == mux.Obj() {
					onMux = true
				}
			}
			// a package-level registry is the same thing with a wider scope
			if g, ok := c.Common().Args[0].(*ssa.Global); ok && g.Pkg != nil && g.Pkg.Pkg.Path() == larkPath {
				onMux = true
			}
			if !onMux {
				return
			}
			n++
			ei := errResultIndex(fn)
			fails := false
			if ei >= 0 {
				if w, _ := (pathQuery{fn: fn, start: in, target: func(x ssa.Instruction) bool {
					rt, ok := x.(*ssa.Return)
					return ok && ei < len(rt.Results) && !isNilConst(rt.Results[ei])
				}}).find(); w != nil {
					fails = true
				}
			}
			if fails {
				bad++
				r.bad(fmt.Sprintf("%s/side-state-before-failure#%d", shortFunc(fn), bad), in.Pos(), "%s records registration state in a container of the Mux itself (%s), outside the copy-on-write snapshot, and can still fail afterwards: the snapshot of a rejected registration is discarded but this record stays - the registration left a trace, and a retry meets it", shortFunc(fn), shortName(cn))
			}
		})
	}
	if bad == 0 {
		r.ok("registration/side-state", token.NoPos, "no registration step records state in a Mux-held container before a step that can fail (%d such writes)", n)
	}
}

func init() {
	register(&Rule{Name: "TOKEN-CHARSET", Floor: 1,
		Doc: "the character class the Accept / Accept-Encoding parser uses for tokens, evaluated for every ASCII character (a pure classifier function is interpreted; a table filled by an init loop is computed by interpreting that loop), contains RFC 7230's tchar: a media type such as application/problem+json must not be cut at the '+'",
		Run: ruleTokenCharset})
}

// evalSmall evaluates integer/boolean SSA expressions over an environment (constants, conversions, comparisons,
// arithmetic and bit operations, strings.ContainsRune on a constant string).
func evalSmall(env map[ssa.Value]int64, v ssa.Value, depth int) (int64, bool) {
	if depth > 40 {
		return 0, false
	}
	if k, ok := env[v]; ok {
		return k, true
	}
	switch x := v.(type) {
	case *ssa.Const:
		if x.Value == nil {
			return 0, false
		}
		if x.Value.Kind() == constant.Bool {
			if constant.BoolVal(x.Value) {
				return 1, true
			}
			return 0, true
		}
		return constInt(x)
	case *ssa.Convert:
		return evalSmall(env, x.X, depth+1)
	case *ssa.ChangeType:
		return evalSmall(env, x.X, depth+1)
	case *ssa.UnOp:
		if x.Op == token.NOT {
			k, ok := evalSmall(env, x.X, depth+1)
			return 1 - k, ok
		}
	case *ssa.BinOp:
		a, ok1 := evalSmall(env, x.X, depth+1)
		b, ok2 := evalSmall(env, x.Y, depth+1)
		if !ok1 || !ok2 {
			return 0, false
		}
		bl := func(t bool) (int64, bool) {
			if t {
				return 1, true
			}
			return 0, true
		}
		switch x.Op {
		case token.LSS:
			return bl(a < b)
		case token.LEQ:
			return bl(a <= b)
		case token.GTR:
			return bl(a > b)
		case token.GEQ:
			return bl(a >= b)
		case token.EQL:
			return bl(a == b)
		case token.NEQ:
			return bl(a != b)
		case token.ADD:
			return a + b, true
		case token.SUB:
			return a - b, true
		case token.AND:
			return a & b, true
		case token.OR:
			return a | b, true
		case token.SHL:
			return a << uint(b), true
		}
	case *ssa.Call:
		switch calleeName(x) {
		case "strings.ContainsRune":
			if s, ok := constString(x.Call.Args[0]); ok {
				if k, ok := evalSmall(env, x.Call.Args[1], depth+1); ok {
					if strings.ContainsRune(s, rune(k)) {
						return 1, true
					}
					return 0, true
				}
			}
		case "strings.IndexByte", "strings.IndexRune":
			if s, ok := constString(x.Call.Args[0]); ok {
				if k, ok := evalSmall(env, x.Call.Args[1], depth+1); ok {
					return int64(strings.IndexRune(s, rune(k))), true
				}
			}
		}
	}
	return 0, false
}

// tableByInitLoop computes tbl[c] for a package-level table that an init function fills in a loop
// `for c := …; …; c++ { …; tbl[c] = v }`, by interpreting one round of the loop with c fixed.
func (p *Program) tableByInitLoop(tbl *ssa.Global, c int64) (int64, bool) {
	for _, fn := range p.ModuleFuncs() {
		if !strings.HasPrefix(fn.Name(), "init") {
			continue
		}
		var store *ssa.Store
		eachInstr(fn, func(in ssa.Instruction) {
			if st, ok := in.(*ssa.Store); ok {
				if ia, ok := st.Addr.(*ssa.IndexAddr); ok && ia.X == ssa.Value(tbl) {
					store = st
				}
			}
		})
		if store == nil {
			continue
		}
		idx, ok := store.Addr.(*ssa.IndexAddr).Index.(*ssa.Phi)
		if !ok {
			return 0, false
		}
		env := map[ssa.Value]int64{idx: c}
		// enter the round: the loop test in the phi's block decides the first body block
		b := idx.Block()
		var prev *ssa.BasicBlock
		for steps := 0; steps < 200; steps++ {
			for _, in := range b.Instrs {
				switch x := in.(type) {
				case *ssa.Phi:
					if x == idx {
						continue
					}
					for i, pb := range b.Preds {
						if pb == prev {
							k, ok := evalSmall(env, x.Edges[i], 0)
							if !ok {
								return 0, false
							}
							env[x] = k
						}
					}
				case *ssa.Store:
					if x == store {
						return evalSmall(env, x.Val, 0)
					}
					return 0, false
				case *ssa.If:
					k, ok := evalSmall(env, x.Cond, 0)
					if !ok {
						return 0, false
					}
					prev = b
					if k != 0 {
						b = b.Succs[0]
					} else {
						b = b.Succs[1]
					}
				case *ssa.Jump:
					prev, b = b, b.Succs[0]
				case *ssa.Return:
					return 0, false
				}
			}
		}
		return 0, false
	}
	return 0, false
}

func ruleTokenCharset(r *Run) {
	p := r.P
	ets := p.Func("expectTokenSlash")
	if ets == nil {
		r.missing("func expectTokenSlash")
		return
	}
	// how a byte is classed as a token byte inside expectTokenSlash's region: tbl[b] & mask, or classifier(b)
	var tbl *ssa.Global
	var mask int64
	var classifier *ssa.Function
	p.eachInstrRegion(ets, func(g *ssa.Function, in ssa.Instruction) {
		switch x := in.(type) {
		case *ssa.BinOp:
			if x.Op != token.AND {
				return
			}
			if u, ok := x.X.(*ssa.UnOp); ok && u.Op == token.MUL {
				if ia, ok := u.X.(*ssa.IndexAddr); ok {
					if gl, ok := ia.X.(*ssa.Global); ok {
						if k, ok := constInt(x.Y); ok {
							tbl, mask = gl, k
						}
					}
				}
			}
		case *ssa.Call:
			callee := x.Call.StaticCallee()
			if callee == nil || !p.InModule(callee) || len(callee.Params) != 1 || callee.Signature.Results().Len() != 1 {
				return
			}
			if bt, ok := callee.Signature.Results().At(0).Type().Underlying().(*types.Basic); ok && bt.Kind() == types.Bool {
				if pt, ok := callee.Params[0].Type().Underlying().(*types.Basic); ok && pt.Info()&types.IsInteger != 0 && g == ets {
					classifier = callee
				}
			}
		}
	})
	isTok := func(c int64) (bool, bool) {
		if tbl != nil {
			v, ok := p.tableByInitLoop(tbl, c)
			return v&mask != 0, ok
		}
		if classifier != nil {
			v, ok := interpPureP(p, classifier, c, 0)
			return v != 0, ok
		}
		return false, false
	}
	if tbl == nil && classifier == nil {
		r.undecided("expectTokenSlash/token-class", ets.Pos(), "no token class (table & mask, or classifier function) found in expectTokenSlash")
		return
	}
	var missing []string
	for c := int64(0x21); c < 0x7f; c++ {
		ch := rune(c)
		must := unicode.IsLetter(ch) || unicode.IsDigit(ch) || strings.ContainsRune("!#$%&'*+-.^_`|~", ch)
		if !must {
			continue
		}
		ok, decided := isTok(c)
		if !decided {
			r.undecided("expectTokenSlash/token-class", ets.Pos(), "the token class could not be evaluated for %q", ch)
			return
		}
		if !ok {
			missing = append(missing, fmt.Sprintf("%q", ch))
		}
	}
	r.check(len(missing) == 0, "expectTokenSlash/token-class", ets.Pos(), "every RFC 7230 tchar is a token character (evaluated for all ASCII characters)",
		"the token class of the Accept parser lacks "+strings.Join(missing, " ")+": a media range containing it (application/problem+json) is cut there and the rest of the Accept line is dropped - the reply goes out in the request's own type although the header admits a registered codec")
}
