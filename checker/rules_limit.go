package main

import (
	"fmt"
	"go/token"
	"go/types"
	"strings"

	"golang.org/x/tools/go/ssa"
)

func init() {
	register(&Rule{Name: "LIMIT-SRC", Floor: 4,
		Doc: "every way request bytes enter memory in request-reachable transport code is bounded by the configured receive limit before use (bounded ReadFull, limit passed to ReadNext, accumulate-and-compare loops, bounded or checked decompression / whole-message reads); an io.LimitReader in front of a length check lets at least limit+1 bytes through",
		Run: ruleLimitSrc})
	register(&Rule{Name: "LIMIT-STRICT", Floor: 3,
		Doc: "at every limit guard whose refused edge returns an error, a message is refused iff size > limit (>= would refuse a message exactly at the limit)",
		Run: ruleLimitStrict})
	register(&Rule{Name: "LIMIT-IMPL", Floor: 3,
		Doc: "every StreamCodec.ReadNext in the module compares against its limit parameter on every path to a successful return of a message (assuming limit > 0)",
		Run: ruleLimitImpl})
	register(&Rule{Name: "LIMIT-DEFAULTS", Floor: 2,
		Doc: "MaxReceiveMessageSizeOption / MaxSendMessageSizeOption store their argument into the receive / send limit respectively",
		Run: ruleLimitDefaults})
}

// limitKind classifies v as derived from a configured limit:
// "recv" (muxOptions.maxReceiveMessageSize), "send" (maxSendMessageSize),
// "param" (the limit parameter of a StreamCodec.ReadNext implementation), or "".
func (p *Program) limitKind(v ssa.Value) string {
	seen := map[ssa.Value]bool{}
	var walk func(v ssa.Value) string
	walk = func(v ssa.Value) string {
		if v == nil || seen[v] {
			return ""
		}
		seen[v] = true
		switch x := v.(type) {
		case *ssa.Convert:
			return walk(x.X)
		case *ssa.ChangeType:
			return walk(x.X)
		case *ssa.BinOp:
			if x.Op == token.ADD || x.Op == token.SUB {
				if _, ok := constInt(x.Y); ok {
					return walk(x.X)
				}
			}
		case *ssa.Parameter:
			fn := x.Parent()
			if fn.Name() == "ReadNext" && fn.Signature.Recv() != nil && len(fn.Params) == 4 && fn.Params[3] == x {
				return "param"
			}
		case *ssa.Phi:
			k := ""
			for _, e := range x.Edges {
				if kk := walk(e); kk != "" {
					k = kk
				}
			}
			return k
		}
		if f := loadedField(v); f != nil {
			switch f.Name() {
			case "maxReceiveMessageSize":
				return "recv"
			case "maxSendMessageSize":
				return "send"
			}
		}
		if u, ok := v.(*ssa.UnOp); ok && u.Op == token.MUL {
			if al, ok := p.cellRoot(u.X).(*ssa.Alloc); ok {
				for _, st := range p.cellStores(al) {
					if k := walk(st.Val); k != "" {
						return k
					}
				}
			}
		}
		return ""
	}
	return walk(v)
}

// limitCompare describes an If that compares something with a limit-derived value.
type limitCompare struct {
	ifi   *ssa.If
	bo    *ssa.BinOp
	other ssa.Value   // the non-limit operand
	op    token.Token // normalised as: other OP limit
	kind  string
}

func (p *Program) limitCompares(fn *ssa.Function) []limitCompare {
	var out []limitCompare
	eachInstr(fn, func(in ssa.Instruction) {
		ifi, ok := in.(*ssa.If)
		if !ok {
			return
		}
		bo, ok := ifi.Cond.(*ssa.BinOp)
		if !ok {
			return
		}
		switch bo.Op {
		case token.LSS, token.LEQ, token.GTR, token.GEQ, token.EQL, token.NEQ:
		default:
			return
		}
		if k := p.limitKind(bo.Y); k != "" {
			out = append(out, limitCompare{ifi, bo, bo.X, bo.Op, k})
		} else if k := p.limitKind(bo.X); k != "" {
			op := bo.Op
			switch bo.Op {
			case token.LSS:
				op = token.GTR
			case token.LEQ:
				op = token.GEQ
			case token.GTR:
				op = token.LSS
			case token.GEQ:
				op = token.LEQ
			}
			out = append(out, limitCompare{ifi, bo, bo.Y, op, k})
		}
	})
	return out
}

// refusalEdge returns the successor index (0/1) whose block returns a non-nil error (and the other does not), or -1.
func (p *Program) refusalEdge(ifi *ssa.If) int {
	fn := ifi.Parent()
	ei := errResultIndex(fn)
	// per successor: 2 = returns a freshly built error (a refusal), 1 = returns an error that may be non-nil
	// (e.g. the result of the next processing step), 0 = neither
	var grade [2]int
	// a clamp (`if size > limit { size = limit }` right before a shared return) decides nothing about refusal: both
	// arms end in the same return
	reach := func(b *ssa.BasicBlock) *ssa.Return {
		for hop := 0; hop < 4 && b != nil; hop++ {
			for _, in := range b.Instrs {
				if rt, ok := in.(*ssa.Return); ok {
					return rt
				}
			}
			if len(b.Succs) != 1 {
				return nil
			}
			b = b.Succs[0]
		}
		return nil
	}
	if r0, r1 := reach(ifi.Block().Succs[0]), reach(ifi.Block().Succs[1]); r0 != nil && r0 == r1 {
		return -1
	}
	for succ := 0; succ < 2; succ++ {
		b := ifi.Block().Succs[succ]
		for _, in := range b.Instrs {
			rt, ok := in.(*ssa.Return)
			if !ok || ei < 0 {
				continue
			}
			nonNil, fresh := false, true
			for _, o := range p.origins(rt.Results[ei], originOpts{}) {
				if isNilConst(o) {
					fresh = false
					continue
				}
				nonNil = true
				if !isFreshError(o) {
					fresh = false
				}
			}
			switch {
			case nonNil && fresh:
				grade[succ] = 2
			case nonNil && grade[succ] == 0:
				grade[succ] = 1
			}
		}
	}
	switch {
	case grade[0] == 2 && grade[1] < 2:
		return 0
	case grade[1] == 2 && grade[0] < 2:
		return 1
	case grade[0] > 0 && grade[1] > 0:
		return -1 // both edges may fail: not a refusing guard we can orient
	case grade[0] > 0:
		return 0
	case grade[1] > 0:
		return 1
	}
	return -1
}

// isFreshError: an error value built on the spot (constructor call, sentinel variable, literal), as
// opposed to the error result of further processing.
func isFreshError(v ssa.Value) bool {
	switch x := v.(type) {
	case *ssa.Call:
		n := calleeName(x)
		return n == "fmt.Errorf" || n == "errors.New" || strings.HasSuffix(n, "status.Errorf") || strings.HasSuffix(n, "status.Error") ||
			strings.HasSuffix(n, "Status).Err") || strings.HasSuffix(n, "protowire.ParseError")
	case *ssa.MakeInterface:
		return true
	case *ssa.UnOp:
		_, isGlobal := x.X.(*ssa.Global)
		return x.Op == token.MUL && isGlobal
	case *ssa.Alloc:
		return true
	}
	return false
}

// assumeLimitPositive returns an edge filter under which `limit > 0`-style
// convention tests of a ReadNext's limit parameter take their "limited" edge.
func (p *Program) assumeLimitPositive(fn *ssa.Function) func(*ssa.BasicBlock, int) bool {
	infeasible := map[*ssa.BasicBlock]int{}
	eachInstr(fn, func(in ssa.Instruction) {
		ifi, ok := in.(*ssa.If)
		if !ok {
			return
		}
		bo, ok := ifi.Cond.(*ssa.BinOp)
		if !ok {
			return
		}
		kx, ky := p.limitKind(bo.X) != "", p.limitKind(bo.Y) != ""
		if !kx && !ky {
			return
		}
		other := bo.Y
		if ky {
			other = bo.X
		}
		k, isConst := constInt(other)
		if !isConst || k != 0 {
			return
		}
		op := bo.Op
		if ky {
			switch op {
			case token.LSS:
				op = token.GTR
			case token.LEQ:
				op = token.GEQ
			case token.GTR:
				op = token.LSS
			case token.GEQ:
				op = token.LEQ
			}
		}
		switch op {
		case token.GTR, token.GEQ, token.NEQ:
			infeasible[ifi.Block()] = 1
		case token.LEQ, token.LSS, token.EQL:
			infeasible[ifi.Block()] = 0
		}
	})
	return func(b *ssa.BasicBlock, succ int) bool {
		if inf, ok := infeasible[b]; ok && inf == succ {
			return false
		}
		return true
	}
}

// isSizeOperand: v denotes a message size (len, Buffer.Len, decoded wire length, running total), not a loop index.
func (p *Program) isSizeOperand(v ssa.Value) (bool, string) {
	v = p.stripConvAll(v)
	switch x := v.(type) {
	case *ssa.Call:
		n := calleeName(x)
		if n == "builtin.len" {
			return true, "len(…)"
		}
		if n == "(*bytes.Buffer).Len" {
			return true, "Buffer.Len()"
		}
		if wireLengthProducers[n] {
			return true, "decoded wire length"
		}
	case *ssa.Extract:
		if c, ok := x.Tuple.(*ssa.Call); ok && wireLengthProducers[calleeName(c)] {
			return true, "decoded wire length"
		}
	case *ssa.Phi:
		// running total: phi whose back edge adds a non-constant
		for _, e := range x.Edges {
			if bo, ok := e.(*ssa.BinOp); ok && bo.Op == token.ADD {
				if _, isConst := constInt(bo.Y); !isConst {
					return true, "accumulated byte total"
				}
				return false, "loop index"
			}
		}
	case *ssa.BinOp:
		if x.Op == token.ADD {
			if ok, why := p.isSizeOperand(x.X); ok {
				return ok, why
			}
			if _, isConst := constInt(x.Y); !isConst {
				// total + n
				if ph, ok := p.stripConvAll(x.X).(*ssa.Phi); ok {
					for _, e := range ph.Edges {
						if e == ssa.Value(x) || p.stripConvAll(e) == ssa.Value(x) {
							return true, "accumulated byte total"
						}
					}
				}
			}
		}
		if x.Op == token.SUB {
			return p.isSizeOperand(x.X)
		}
	case *ssa.UnOp:
		if x.Op == token.MUL {
			if al, ok := p.cellRoot(x.X).(*ssa.Alloc); ok {
				for _, st := range p.cellStores(al) {
					if ok, why := p.isSizeOperand(st.Val); ok {
						return ok, why
					}
				}
			}
		}
	}
	return false, ""
}

// stripConvAll looks through every integer conversion (value-preserving or not).
func (p *Program) stripConvAll(v ssa.Value) ssa.Value {
	for {
		switch x := v.(type) {
		case *ssa.Convert:
			v = x.X
			continue
		case *ssa.ChangeType:
			v = x.X
			continue
		}
		return v
	}
}

func isReaderReadImpl(fn *ssa.Function) bool {
	if fn.Signature.Recv() == nil || fn.Name() != "Read" {
		return false
	}
	ps, rs := fn.Signature.Params(), fn.Signature.Results()
	return ps.Len() == 1 && rs.Len() == 2
}

func (p *Program) isStreamCodecReadNext(fn *ssa.Function) bool {
	if fn.Signature.Recv() == nil || fn.Name() != "ReadNext" {
		return false
	}
	sc := p.lookupIface(larkPath, "StreamCodec")
	return sc != nil && (types.Implements(fn.Signature.Recv().Type(), sc) || types.Implements(types.NewPointer(fn.Signature.Recv().Type()), sc))
}

func ruleLimitSrc(r *Run) {
	p := r.P
	reach := p.reachRequest()
	for _, fn := range sortedFuncs(reach) {
		fn := fn
		site := map[string]int{}
		eachInstr(fn, func(in ssa.Instruction) {
			c, ok := in.(ssa.CallInstruction)
			if !ok {
				return
			}
			n := calleeName(c)
			mk := func(what string) string {
				site[what]++
				return fmt.Sprintf("%s/%s#%d", shortFunc(fn), what, site[what])
			}
			switch {
			case n == "io.ReadFull" || n == "io.ReadAtLeast":
				if p.isStreamCodecReadNext(fn) {
					key := mk("ReadFull")
					// bounded by the limit parameter: the slice's upper bound is guarded by a compare with limit (LIMIT-IMPL re-checks the paths)
					ok, why := p.sliceBoundedByLimit(c.Common().Args[1], in)
					r.check(ok, key, in.Pos(), why, "ReadFull inside a stream codec fills a buffer whose size is not bounded by a comparison with the limit parameter: "+why)
					return
				}
				key := mk("ReadFull")
				ok, why := p.sliceBoundedByLimit(c.Common().Args[1], in)
				r.check(ok, key, in.Pos(), why, "io.ReadFull fills a buffer whose length comes from the wire and is not dominated by a comparison with the receive limit: "+why)
			case c.Common().IsInvoke() && c.Common().Method.Name() == "ReadNext" && len(c.Common().Args) == 3:
				key := mk("ReadNext")
				k := p.limitKind(c.Common().Args[2])
				r.check(k == "recv" || k == "param", key, in.Pos(), "limit argument is the configured receive limit",
					"the limit handed to StreamCodec.ReadNext is not the configured receive limit ("+describeValue(c.Common().Args[2])+"): stream messages are not bounded")
			case n == "(*bytes.Buffer).ReadFrom":
				key := mk("Buffer.ReadFrom")
				ok, why := p.readFromBounded(c, in, reach)
				r.check(ok, key, in.Pos(), why, "bytes.Buffer.ReadFrom reads the whole (decompressed) stream into memory: "+why)
			case n == "io.ReadAll" || n == "io/ioutil.ReadAll" || strings.HasPrefix(n, "github.com/gobwas/ws/wsutil.Read"):
				key := mk(shortName(n))
				cv, isVal := in.(ssa.Value)
				if !isVal {
					r.bad(key, in.Pos(), "whole-message read whose result is not bound to a value")
					return
				}
				ok, why := p.resultLenChecked(cv, fn)
				r.check(ok, key, in.Pos(), why, shortName(n)+" reads a whole message of any size into memory: "+why)
			case isRawRead(c) || p.helperDoesRawRead(c):
				if isReaderReadImpl(fn) {
					return // pass-through adapter reading into the caller's buffer
				}
				// accumulate-and-compare: every path from the Read to a return or back to the Read passes a limit comparison
				bounded := func(fn *ssa.Function, in ssa.Instruction) []*ssa.BasicBlock {
					isCmp := map[ssa.Instruction]bool{}
					for _, lc := range p.limitCompares(fn) {
						isCmp[lc.ifi] = true
					}
					q := pathQuery{fn: fn, start: in,
						barrier: func(x ssa.Instruction) bool { return isCmp[x] },
						target:  func(x ssa.Instruction) bool { return x == in || isReturn(x) }}
					w, _ := q.find()
					return w
				}
				if !isRawRead(c) {
					// a helper that reads: nothing to add when the helper compares with the limit itself
					selfBounded := true
					eachInstr(c.Common().StaticCallee(), func(y ssa.Instruction) {
						if yc, ok := y.(ssa.CallInstruction); ok && isRawRead(yc) && bounded(y.Parent(), y) != nil {
							selfBounded = false
						}
					})
					if selfBounded {
						return
					}
				}
				if p.isTransparent(fn) && !p.isStreamCodecReadNext(fn) && bounded(fn, in) != nil {
					return // not bounded here: judged at the helper's call sites, where the limit comparison lives
				}
				key := mk("Read")
				if p.isStreamCodecReadNext(fn) {
					r.ok(key, in.Pos(), "raw Read inside a StreamCodec.ReadNext: bounded by rule LIMIT-IMPL")
					return
				}
				if w := bounded(fn, in); w != nil {
					r.bad(key, in.Pos(), "raw Read into memory with a path to a return / the next Read that passes no comparison with the receive limit (%s)", p.describePath(w))
				} else {
					r.ok(key, in.Pos(), "every path from the Read passes a comparison with the configured limit before returning or reading again")
				}
			}
		})
	}
}

// isRawRead: io.Reader.Read through the interface.
func isRawRead(c ssa.CallInstruction) bool {
	return c.Common().IsInvoke() && c.Common().Method.Name() == "Read" && c.Common().Method.Pkg() != nil && c.Common().Method.Pkg().Path() == "io"
}

// helperDoesRawRead: c calls a transparent helper whose region performs a raw Read (the grow-and-read
// block of a codec extracted into a function): the call is then the read, as far as the caller's limit
// comparisons are concerned.
func (p *Program) helperDoesRawRead(c ssa.CallInstruction) bool {
	callee := c.Common().StaticCallee()
	if callee == nil || c.Common().IsInvoke() || !p.isTransparent(callee) {
		return false
	}
	return p.callMay(c, func(in ssa.Instruction) bool {
		cc, ok := in.(ssa.CallInstruction)
		return ok && isRawRead(cc)
	})
}

// sliceBoundedByLimit: buf is x[lo:hi] with hi constant, or hi (modulo conversions) compared with a limit-derived value on a refusing guard that dominates `at`.
func (p *Program) sliceBoundedByLimit(buf ssa.Value, at ssa.Instruction) (bool, string) {
	var highs []ssa.Value
	for _, o := range p.origins(buf, originOpts{throughConvert: true, throughAssert: true}) {
		sl, ok := o.(*ssa.Slice)
		if !ok {
			return false, "buffer is " + describeValue(o) + ", not a bounded reslice"
		}
		if sl.High == nil {
			return false, "reslice has no upper bound"
		}
		highs = append(highs, sl.High)
	}
	if len(highs) == 0 {
		return false, "no reslice found"
	}
	// a bound that is the parameter of a helper (b = resize(b, int(size))): judged on what the reading function
	// passes for it
	var expanded []ssa.Value
	for _, h := range highs {
		par, ok := p.stripConvAll(h).(*ssa.Parameter)
		if !ok || par.Parent() == at.Parent() {
			expanded = append(expanded, h)
			continue
		}
		helper := par.Parent()
		idx := -1
		for i, fp := range helper.Params {
			if fp == par {
				idx = i
			}
		}
		found := false
		eachInstr(at.Parent(), func(in ssa.Instruction) {
			if c, ok := in.(ssa.CallInstruction); ok && !c.Common().IsInvoke() && c.Common().StaticCallee() == helper && idx >= 0 && idx < len(c.Common().Args) {
				// only calls whose result can still be the buffer at the read
				if w, _ := (pathQuery{fn: at.Parent(), start: in, target: func(x ssa.Instruction) bool { return x == at }}).find(); w == nil {
					return
				}
				expanded = append(expanded, c.Common().Args[idx])
				found = true
			}
		})
		if !found {
			expanded = append(expanded, h)
		}
	}
	highs = expanded
	for _, h := range highs {
		if _, ok := constInt(h); ok {
			continue
		}
		hs := p.stripConvAll(h)
		found := false
		for _, lc := range p.limitCompares(at.Parent()) {
			if p.stripConvAll(lc.other) != hs && !p.sameValue(p.stripConvAll(lc.other), hs) {
				continue
			}
			re := p.refusalEdge(lc.ifi)
			if re < 0 {
				continue
			}
			// the accepting edge must dominate the read (a limit <= 0 means "unlimited" by convention)
			if edgeDominatesUnder(lc.ifi.Block(), 1-re, at.Block(), p.assumeLimitPositive(at.Parent())) {
				found = true
			}
		}
		if !found {
			return false, "upper bound " + describeValue(h) + " is not dominated by a refusing comparison with the limit"
		}
	}
	return true, "buffer length is constant or was compared with the limit on a refusing guard that dominates the read"
}

// readFromBounded: the reader is an io.LimitReader over a limit-derived bound, or, in every caller, the
// buffer's Len() is compared with the limit on a refusing guard before its bytes are used.
func (p *Program) readFromBounded(c ssa.CallInstruction, in ssa.Instruction, reach map[*ssa.Function]reachInfo) (bool, string) {
	// (a) reader argument
	limited := false
	// a cap of exactly the limit turns "too large" into "cut to the limit": the Len() > limit refusal that follows
	// can only fire if the reader lets at least one byte more than the limit through (limit + k, k >= 1)
	cutAtLimit := false
	for _, o := range p.origins(c.Common().Args[1], defaultOrigin) {
		if lc, ok := o.(*ssa.Call); ok && calleeName(lc) == "io.LimitReader" && p.limitKind(lc.Call.Args[1]) != "" {
			limited = true
			plus := false
			for _, bo := range p.origins(lc.Call.Args[1], defaultOrigin) {
				if add, ok := bo.(*ssa.BinOp); ok && add.Op == token.ADD {
					if k, isC := constInt(add.Y); isC && k >= 1 {
						plus = true
					}
					if k, isC := constInt(add.X); isC && k >= 1 {
						plus = true
					}
				}
			}
			if !plus {
				cutAtLimit = true
			}
		}
		if mi, ok := o.(*ssa.MakeInterface); ok {
			_ = mi
		}
	}
	// look through MakeInterface of *io.LimitedReader
	for _, o := range p.origins(c.Common().Args[1], defaultOrigin) {
		if al, ok := o.(*ssa.Alloc); ok && isNamed(al.Type(), "io", "LimitedReader") {
			limited = true
		}
	}
	// (b) buffer length checked by whoever uses the bytes: the buffer is the receiver; find its origin
	buf := c.Common().Args[0]
	checked := p.bufferLenChecked(buf, in.Parent(), reach)
	switch {
	case limited && cutAtLimit:
		return false, "the reader is capped at exactly the receive limit (io.LimitReader(r, limit), not limit+1): a message that inflates past the limit is cut to the limit and delivered, the length check behind it can never fire"
	case limited && checked:
		return true, "reader is an io.LimitReader over a limit-derived bound and the buffer length is checked against the limit before use"
	case checked:
		return true, "the buffer's Len() is compared with the receive limit on a refusing guard before its bytes are used (allocation is not bounded, delivery is)"
	case limited:
		return false, "the reader is limited, but nothing compares the decompressed length with the limit: an over-limit message is silently truncated/delivered"
	}
	return false, "neither an io.LimitReader over the receive limit nor a Len() check against it before the bytes are used: the post-decompression size is unbounded"
}

// bufferLenChecked: buf is a parameter of fn; in every caller the argument's Len() is limit-checked after the call and before Bytes().
func (p *Program) bufferLenChecked(buf ssa.Value, fn *ssa.Function, reach map[*ssa.Function]reachInfo) bool {
	par, ok := buf.(*ssa.Parameter)
	if !ok {
		return p.lenCheckedBeforeBytes(buf, fn)
	}
	idx := -1
	for i, x := range fn.Params {
		if x == par {
			idx = i
		}
	}
	if idx < 0 {
		return false
	}
	n := 0
	all := true
	cg := p.CallGraph()
	if node := cg.Nodes[fn]; node != nil {
		for _, e := range node.In {
			if e.Site == nil || !p.InModule(e.Caller.Func) {
				continue
			}
			n++
			args := e.Site.Common().Args
			if idx >= len(args) {
				all = false
				continue
			}
			if !p.lenCheckedBeforeBytes(args[idx], e.Caller.Func) {
				all = false
			}
		}
	}
	return n > 0 && all
}

// lenCheckedBeforeBytes: every (*bytes.Buffer).Bytes() on buf in fn is dominated by the accepting edge of a refusing limit compare of buf.Len().
func (p *Program) lenCheckedBeforeBytes(buf ssa.Value, fn *ssa.Function) bool {
	var uses []ssa.Instruction
	eachInstr(fn, func(in ssa.Instruction) {
		c, ok := in.(ssa.CallInstruction)
		if !ok {
			return
		}
		n := calleeName(c)
		if (n == "(*bytes.Buffer).Bytes" || n == "(*bytes.Buffer).String" || n == "(*bytes.Buffer).Read" || n == "(*bytes.Buffer).WriteTo") && p.sameValue(c.Common().Args[0], buf) {
			uses = append(uses, in)
		}
	})
	if len(uses) == 0 {
		return false
	}
	for _, u := range uses {
		ok := false
		for _, lc := range p.limitCompares(fn) {
			oc, isCall := p.stripConvAll(lc.other).(*ssa.Call)
			if !isCall || calleeName(oc) != "(*bytes.Buffer).Len" || !p.sameValue(oc.Call.Args[0], buf) {
				continue
			}
			re := p.refusalEdge(lc.ifi)
			if re >= 0 && edgeDominates(lc.ifi.Block(), 1-re, u.Block()) {
				ok = true
			}
		}
		if !ok {
			return false
		}
	}
	return true
}

// resultLenChecked: every use of the byte slice result #0 of call cv (other than len) is dominated by the accepting edge of a refusing limit compare of its len.
func (p *Program) resultLenChecked(cv ssa.Value, fn *ssa.Function) (bool, string) {
	var data ssa.Value
	if refs := cv.Referrers(); refs != nil {
		for _, ref := range *refs {
			if ex, ok := ref.(*ssa.Extract); ok && ex.Index == 0 {
				data = ex
			}
		}
	}
	if data == nil {
		data = cv
	}
	refs := data.Referrers()
	if refs == nil {
		return true, "result unused"
	}
	for _, u := range *refs {
		if c, ok := u.(*ssa.Call); ok && calleeName(c) == "builtin.len" {
			continue
		}
		if _, ok := u.(*ssa.DebugRef); ok {
			continue
		}
		ok := false
		for _, lc := range p.limitCompares(fn) {
			oc, isCall := p.stripConvAll(lc.other).(*ssa.Call)
			if !isCall || calleeName(oc) != "builtin.len" || oc.Call.Args[0] != data {
				continue
			}
			re := p.refusalEdge(lc.ifi)
			if re >= 0 && edgeDominates(lc.ifi.Block(), 1-re, u.Block()) {
				ok = true
			}
		}
		if !ok {
			return false, fmt.Sprintf("the message bytes are used at %s without a prior comparison of their length with the receive limit", p.Pos(u.Pos()))
		}
	}
	return true, "every use of the message bytes is dominated by a refusing comparison of their length with the receive limit"
}

func ruleLimitStrict(r *Run) {
	p := r.P
	n := 0
	for _, fn := range p.ModuleFuncs() {
		site := 0
		for _, lc := range p.limitCompares(fn) {
			re := p.refusalEdge(lc.ifi)
			if re < 0 {
				continue // not a refusing guard (loop condition, clamp, …)
			}
			if lc.op == token.EQL || lc.op == token.NEQ {
				continue // chunk / loop guards (the HttpBody chunker returns a chunk when total == limit), not size refusals
			}
			isSize, what := p.isSizeOperand(lc.other)
			if !isSize {
				continue
			}
			site++
			n++
			key := fmt.Sprintf("%s/limit-guard:%s#%d", shortFunc(fn), lc.kind, site)
			// refused iff other > limit
			op := lc.op
			if re == 1 { // refusal on the false edge: negate
				switch op {
				case token.LSS:
					op = token.GEQ
				case token.LEQ:
					op = token.GTR
				case token.GTR:
					op = token.LEQ
				case token.GEQ:
					op = token.LSS
				}
			}
			switch op {
			case token.GTR:
				r.ok(key, lc.bo.Pos(), "%s is refused iff it is > the limit (a message exactly at the limit is accepted)", what)
			case token.GEQ:
				r.bad(key, lc.bo.Pos(), "%s is refused when it is >= the limit: a message exactly at the configured limit is refused on size grounds", what)
			default:
				r.bad(key, lc.bo.Pos(), "limit guard refuses on `size %s limit`: not the `size > limit` test the limit semantics require", op)
			}
		}
	}
	if n == 0 {
		r.undecided("limit-guards", token.NoPos, "no refusing limit guard found")
	}
}

func ruleLimitImpl(r *Run) {
	p := r.P
	sc := p.lookupIface(larkPath, "StreamCodec")
	if sc == nil {
		r.missing("interface StreamCodec")
		return
	}
	scope := p.Lark.Types.Scope()
	n := 0
	for _, name := range scope.Names() {
		tn, ok := scope.Lookup(name).(*types.TypeName)
		if !ok {
			continue
		}
		named, ok := tn.Type().(*types.Named)
		if !ok {
			continue
		}
		if _, isIface := named.Underlying().(*types.Interface); isIface {
			continue
		}
		if !types.Implements(named, sc) && !types.Implements(types.NewPointer(named), sc) {
			continue
		}
		fn := p.Method(name, "ReadNext")
		if fn == nil || len(fn.Blocks) == 0 {
			continue
		}
		n++
		key := shortFunc(fn) + "/limit-on-every-success-path"
		limit := fn.Params[3]
		isLimitCmp := map[ssa.Instruction]bool{}
		assumePos := map[*ssa.BasicBlock]int{} // block -> successor index that is infeasible under limit > 0
		eachInstr(fn, func(in ssa.Instruction) {
			// min(x, limit) is the comparison and the clamp in one
			if c, ok := in.(*ssa.Call); ok && calleeName(c) == "builtin.min" {
				for _, a := range c.Call.Args {
					if p.stripConvAll(a) == ssa.Value(limit) {
						isLimitCmp[in] = true
					}
				}
				return
			}
			ifi, ok := in.(*ssa.If)
			if !ok {
				return
			}
			bo, ok := ifi.Cond.(*ssa.BinOp)
			if !ok {
				return
			}
			lx, ly := p.stripConvAll(bo.X) == ssa.Value(limit), p.stripConvAll(bo.Y) == ssa.Value(limit)
			if !lx && !ly {
				return
			}
			other := bo.Y
			if ly {
				other = bo.X
			}
			if k, isConst := constInt(other); isConst {
				// `for i := range limit` is lowered to a rotated loop: `0 < limit` at the entry is the bound test of
				// the first iteration (the counter's initial value compared with the limit), not a convention test
				if p.isPeeledLoopTest(ifi, other, limit) {
					isLimitCmp[ifi] = true
					return
				}
				// limit > 0 style convention test: under the assumption limit > 0 one edge is infeasible
				if k == 0 {
					op := bo.Op
					if ly { // 0 OP limit  => limit OP' 0
						switch op {
						case token.LSS:
							op = token.GTR
						case token.LEQ:
							op = token.GEQ
						case token.GTR:
							op = token.LSS
						case token.GEQ:
							op = token.LEQ
						}
					}
					switch op {
					case token.GTR, token.GEQ, token.NEQ: // limit > 0 : false edge infeasible
						assumePos[ifi.Block()] = 1
					case token.LEQ, token.LSS, token.EQL: // limit <= 0 : true edge infeasible
						assumePos[ifi.Block()] = 0
					}
				}
				return
			}
			isLimitCmp[ifi] = true
		})
		var hit ssa.Instruction
		q := pathQuery{fn: fn,
			barrier: func(x ssa.Instruction) bool { return isLimitCmp[x] },
			edgeOK: func(b *ssa.BasicBlock, succ int) bool {
				if inf, ok := assumePos[b]; ok && inf == succ {
					return false
				}
				return true
			},
			target: func(x ssa.Instruction) bool {
				rt, ok := x.(*ssa.Return)
				if !ok || len(rt.Results) != 3 {
					return false
				}
				// success with a message: err may be nil and n not the constant 0
				errNil := false
				for _, o := range p.origins(rt.Results[2], originOpts{}) {
					if isNilConst(o) {
						errNil = true
					}
				}
				if k, ok := constInt(rt.Results[1]); ok && k == 0 {
					return false
				}
				if errNil {
					hit = x
				}
				return errNil
			}}
		if w, _ := q.find(); w != nil {
			r.bad(key, hit.Pos(), "ReadNext can return a message with a nil error on a path that never compares anything with its limit parameter (assuming limit > 0): %s", p.describePath(w))
		} else {
			r.ok(key, fn.Pos(), "every path to a successful return of a message passes a comparison with the limit parameter (limit > 0 assumed; %d limit comparisons)", len(isLimitCmp))
		}
		// the same for a length reported together with an error: callers that take (n > 0, io.EOF) as the last
		// message (the HttpBody chunker's contract) must not be handed more than the limit either
		var hit2 ssa.Instruction
		q2 := pathQuery{fn: fn,
			barrier: func(x ssa.Instruction) bool { return isLimitCmp[x] },
			edgeOK:  q.edgeOK,
			target: func(x ssa.Instruction) bool {
				rt, ok := x.(*ssa.Return)
				if !ok || len(rt.Results) != 3 {
					return false
				}
				for _, o := range p.origins(rt.Results[1], originOpts{throughConvert: true}) {
					if k, ok := constInt(o); ok && k == 0 {
						continue
					}
					hit2 = x
					return true
				}
				return false
			}}
		key2 := shortFunc(fn) + "/limit-before-any-length"
		if w, _ := q2.find(); w != nil {
			r.bad(key2, hit2.Pos(), "ReadNext can report a non-zero message length (with or without an error) on a path that never compares anything with its limit parameter: a caller that accepts the bytes read together with io.EOF receives more than the limit: %s", p.describePath(w))
		} else {
			r.ok(key2, fn.Pos(), "every return of a possibly non-zero length, also next to an error, passes a comparison with the limit parameter")
		}
	}
	if n == 0 {
		r.missing("StreamCodec implementations")
	}
}

// isPeeledLoopTest: ifi compares the constant initial value of a loop counter with `bound` before the first
// iteration of a rotated loop whose latch compares counter+1 with the same bound (go/ssa's lowering of
// range-over-int and of `for i := K; i < bound; i++` after rotation).
func (p *Program) isPeeledLoopTest(ifi *ssa.If, init ssa.Value, bound ssa.Value) bool {
	k0, ok := constInt(init)
	if !ok {
		return false
	}
	for _, sb := range ifi.Block().Succs {
		for _, in := range sb.Instrs {
			ph, ok := in.(*ssa.Phi)
			if !ok {
				break
			}
			fromHere, latch := false, false
			for i, e := range ph.Edges {
				if sb.Preds[i] == ifi.Block() {
					if k, ok := constInt(e); ok && k == k0 {
						fromHere = true
					}
					continue
				}
				bo, ok := e.(*ssa.BinOp)
				if !ok || bo.Op != token.ADD || bo.X != ssa.Value(ph) {
					continue
				}
				if refs := bo.Referrers(); refs != nil {
					for _, ref := range *refs {
						if cmp, ok := ref.(*ssa.BinOp); ok && (p.stripConvAll(cmp.X) == bound || p.stripConvAll(cmp.Y) == bound) {
							latch = true
						}
					}
				}
			}
			if fromHere && latch {
				return true
			}
		}
	}
	return false
}

func ruleLimitDefaults(r *Run) {
	p := r.P
	for _, spec := range []struct{ fn, field string }{
		{"MaxReceiveMessageSizeOption", "maxReceiveMessageSize"},
		{"MaxSendMessageSizeOption", "maxSendMessageSize"},
	} {
		fn := p.Func(spec.fn)
		if fn == nil {
			r.missing("func " + spec.fn)
			continue
		}
		key := spec.fn
		good, n := false, 0
		var pos token.Pos = fn.Pos()
		for _, g := range allFuncsDeep(fn) {
			eachInstr(g, func(in ssa.Instruction) {
				st, ok := in.(*ssa.Store)
				if !ok {
					return
				}
				fa, ok := st.Addr.(*ssa.FieldAddr)
				if !ok || namedOf(fa.X.Type()) != p.NamedType("muxOptions") {
					return
				}
				n++
				pos = in.Pos()
				fromParam := false
				for _, o := range p.origins(st.Val, defaultOrigin) {
					if par, ok := o.(*ssa.Parameter); ok && par.Parent() == fn {
						fromParam = true
					}
				}
				if fieldOfAddr(fa).Name() == spec.field && fromParam {
					good = true
				}
			})
		}
		r.check(good && n == 1, key, pos, "stores its argument into muxOptions."+spec.field+" (and nothing else)",
			fmt.Sprintf("%s does not store exactly its argument into muxOptions.%s (%d option stores): the configured limit is not the one enforced", spec.fn, spec.field, n))
	}
	// NewMux starts from defaults in which both limits are positive constants
	init := globalInit(p.Lark, "defaultMuxOptions")
	if init == nil {
		r.missing("var defaultMuxOptions")
	}
}
