package main

import (
	"fmt"
	"go/token"
	"go/types"
	"strings"
	"unicode"

	"golang.org/x/tools/go/ssa"
)

// Rules added after the third round of seeded changes (DESIGN.md section 10.6).

func init() {
	register(&Rule{Name: "NIL-STATE", Floor: 3, // the two serving readers and at least one writer (writers may share one load-and-clone helper)
		Doc: "the snapshot returned by loadState is nil until the first successful registration: every use of it is a nil comparison, a call of a method that tests its receiver against nil before touching it, or a field access dominated by a non-nil test",
		Run: ruleNilState})
}

// nilSafeReceiver: every dereference of fn's receiver (field access, load, call of a method that is not itself
// nil-safe) runs only where the receiver was tested non-nil. memo breaks recursion (optimistically).
func (p *Program) nilSafeReceiver(fn *ssa.Function, memo map[*ssa.Function]bool) (bool, ssa.Instruction) {
	if v, ok := memo[fn]; ok {
		return v, nil
	}
	memo[fn] = true
	if len(fn.Blocks) == 0 || len(fn.Params) == 0 {
		memo[fn] = false
		return false, nil
	}
	bad := p.firstNilDeref(fn.Params[0], memo)
	memo[fn] = bad == nil
	return bad == nil, bad
}

// firstNilDeref returns a use of the possibly-nil pointer v that dereferences it without a dominating non-nil test.
func (p *Program) firstNilDeref(v ssa.Value, memo map[*ssa.Function]bool) ssa.Instruction {
	seen := map[ssa.Value]bool{}
	var bad ssa.Instruction
	var walk func(v ssa.Value)
	nonNil := func(b *ssa.BasicBlock, val ssa.Value) bool {
		return p.guardedInEveryContext(b, func(g guardFact) bool {
			x, y, op, ok := g.cmp()
			return ok && op == token.NEQ && isNilConst(y) && (x == val || x == v)
		})
	}
	walk = func(val ssa.Value) {
		if seen[val] || bad != nil || val.Referrers() == nil {
			return
		}
		seen[val] = true
		for _, ref := range *val.Referrers() {
			if bad != nil {
				return
			}
			switch x := ref.(type) {
			case *ssa.Phi:
				walk(x)
			case *ssa.FieldAddr:
				if x.X == val && !nonNil(x.Block(), val) {
					bad = x
				}
			case *ssa.UnOp:
				if x.Op == token.MUL && x.X == val && !nonNil(x.Block(), val) {
					bad = x
				}
			case *ssa.Store:
				if x.Addr == val && !nonNil(x.Block(), val) {
					bad = x
				}
			case ssa.CallInstruction:
				cc := x.Common()
				if cc.IsInvoke() || len(cc.Args) == 0 || cc.Args[0] != val {
					continue // passed as an ordinary argument or stored: not followed
				}
				callee := cc.StaticCallee()
				if callee == nil || callee.Signature.Recv() == nil {
					continue
				}
				if nonNil(x.Block(), val) {
					continue
				}
				if ok, _ := p.nilSafeReceiver(callee, memo); !ok {
					bad = x
				}
			}
		}
	}
	walk(v)
	return bad
}

func ruleNilState(r *Run) {
	p := r.P
	ls := p.Method("Mux", "loadState")
	if ls == nil {
		r.missing("method (*Mux).loadState")
		return
	}
	memo := map[*ssa.Function]bool{}
	site := map[*ssa.Function]int{}
	n := 0
	for _, fn := range p.ModuleFuncs() {
		eachInstr(fn, func(in ssa.Instruction) {
			c, ok := in.(*ssa.Call)
			if !ok || c.Call.StaticCallee() != ls {
				return
			}
			n++
			site[fn]++
			key := fmt.Sprintf("%s/loadState#%d", shortFunc(fn), site[fn])
			if bad := p.firstNilDeref(c, memo); bad != nil {
				what := "dereferenced"
				if bc, ok := bad.(ssa.CallInstruction); ok {
					what = "handed as receiver to " + shortName(calleeName(bc)) + ", which touches it before any nil test,"
				}
				r.bad(key, bad.Pos(), "the snapshot returned by loadState is %s at %s without a non-nil test: it is nil until the first successful registration, so this panics on a Mux nothing was registered on yet (a request, or DropConn/cleanup after a failed first RegisterConn)", what, p.Pos(bad.Pos()))
			} else {
				r.ok(key, in.Pos(), "used only through nil comparisons, nil-tolerant methods and guarded field accesses")
			}
		})
	}
	if n == 0 {
		r.undecided("loadState/uses", ls.Pos(), "no call of loadState found")
	}
}

func init() {
	register(&Rule{Name: "MD-OWNED", Floor: 6,
		Doc: "the header and trailer metadata a stream accumulates are its own maps: every value stored into a stream's header/trailer field is freshly built (metadata.Join/Copy/New/Pairs, make, nil), never the map the handler passed in, so later edits of the handler's map cannot change what is sent",
		Run: ruleMDOwned})
}

func ruleMDOwned(r *Run) {
	p := r.P
	n := 0
	site := map[string]int{}
	for _, fn := range p.ModuleFuncs() {
		eachInstr(fn, func(in ssa.Instruction) {
			st, ok := in.(*ssa.Store)
			if !ok {
				return
			}
			// the field is written directly, or through a pointer handed to a helper (appendHeader(&s.header, …)):
			// one instance per field the store can reach
			type target struct {
				f     *types.Var
				owner string
			}
			var targets []target
			for _, a := range p.origins(st.Addr, originOpts{}) {
				fa, ok := a.(*ssa.FieldAddr)
				if !ok {
					continue
				}
				g := fieldOfAddr(fa)
				if (g.Name() != "header" && g.Name() != "trailer") || !isMDType(g.Type()) {
					continue
				}
				if o := p.fieldOwner(g); len(o) >= 6 && o[:6] == "stream" {
					dup := false
					for _, t := range targets {
						dup = dup || t.f == g
					}
					if !dup {
						targets = append(targets, target{g, o})
					}
				}
			}
			if len(targets) == 0 {
				return
			}
			bad := ""
			for _, o := range p.origins(st.Val, originOpts{}) {
				switch x := o.(type) {
				case *ssa.Const, *ssa.MakeMap:
					continue
				case *ssa.Call:
					switch calleeName(x) {
					case "google.golang.org/grpc/metadata.Join", "(google.golang.org/grpc/metadata.MD).Copy",
						"google.golang.org/grpc/metadata.New", "google.golang.org/grpc/metadata.Pairs":
						continue
					}
					bad = "the result of " + shortName(calleeName(x))
				case *ssa.Parameter:
					bad = "parameter " + x.Name() + " of " + shortFunc(x.Parent()) + " (the caller's own map)"
				default:
					bad = describeValue(o)
				}
			}
			for _, t := range targets {
				n++
				k := shortFunc(fn) + "/" + t.owner + "." + t.f.Name()
				site[k]++
				key := fmt.Sprintf("%s#%d", k, site[k])
				r.check(bad == "", key, in.Pos(), "the stored metadata is freshly built (Join/Copy/New/make)",
					fmt.Sprintf("the stream keeps %s as its %s metadata: the map is shared with the handler, so what the client receives changes when the handler edits or reuses that map after the call", bad, t.f.Name()))
			}
		})
	}
	// and it accumulates: what successive SetHeader/SendHeader/SetTrailer calls give for one key is appended
	// (metadata.Join, MD.Append, append(md[k], …)), never replaced (MD.Set, md[k] = vs): an interceptor and the
	// handler each adding a value of the same key must both reach the client, in order
	isStreamMD := func(v ssa.Value) (string, bool) {
		for _, o := range p.origins(v, originOpts{}) {
			if f := loadedField(o); f != nil && (f.Name() == "header" || f.Name() == "trailer") && isMDType(f.Type()) {
				if ow := p.fieldOwner(f); len(ow) >= 6 && ow[:6] == "stream" {
					return ow + "." + f.Name(), true
				}
			}
		}
		return "", false
	}
	replaced := 0
	for _, fn := range p.ModuleFuncs() {
		eachInstr(fn, func(in ssa.Instruction) {
			switch x := in.(type) {
			case *ssa.Call:
				if calleeName(x) == "(google.golang.org/grpc/metadata.MD).Set" && len(x.Call.Args) > 0 {
					if what, ok := isStreamMD(x.Call.Args[0]); ok {
						replaced++
						r.bad(fmt.Sprintf("%s/replaces:%s#%d", shortFunc(fn), what, replaced), in.Pos(), "%s is updated with MD.Set, which replaces the values an earlier SetHeader/SendHeader/SetTrailer call gave for the same key instead of appending to them: only the last caller's values reach the client", what)
					}
				}
			case *ssa.MapUpdate:
				what, ok := isStreamMD(x.Map)
				if !ok {
					return
				}
				appends := false
				for _, o := range p.origins(x.Value, originOpts{}) {
					if c, isC := o.(*ssa.Call); isC && calleeName(c) == "builtin.append" && len(c.Call.Args) > 0 {
						for _, ao := range p.origins(c.Call.Args[0], originOpts{}) {
							lk, isLk := ao.(*ssa.Lookup)
							if ex, isEx := ao.(*ssa.Extract); isEx {
								lk, isLk = ex.Tuple.(*ssa.Lookup)
							}
							if isLk {
								if _, same := isStreamMD(lk.X); same {
									appends = true
								}
							}
						}
					}
				}
				if !appends {
					replaced++
					r.bad(fmt.Sprintf("%s/replaces:%s#%d", shortFunc(fn), what, replaced), in.Pos(), "%s[key] is assigned a value that is not append(%s[key], …): the values an earlier call gave for the key are dropped", what, what)
				}
			}
		})
	}
	if replaced == 0 && n > 0 {
		r.ok("stream metadata/accumulates", token.NoPos, "no MD.Set / key assignment on a stream's accumulated header or trailer metadata")
	}
	if n == 0 {
		r.undecided("stream header/trailer stores", token.NoPos, "no store into a stream's header/trailer metadata field found")
	}
}

func init() {
	register(&Rule{Name: "B64-BUF", Floor: 1,
		Doc: "a buffer handed to (*base64.Encoding).Decode/Encode is sized by DecodedLen/EncodedLen of that same encoding value and that same input (Decode writes past a buffer sized for another padding variant: index out of range)",
		Run: ruleB64Buf})
}

func ruleB64Buf(r *Run) {
	p := r.P
	n := 0
	site := map[*ssa.Function]int{}
	for _, fn := range p.ModuleFuncs() {
		eachInstr(fn, func(in ssa.Instruction) {
			c, ok := in.(*ssa.Call)
			if !ok {
				return
			}
			var lenName string
			switch calleeName(c) {
			case "(*encoding/base64.Encoding).Decode":
				lenName = "(*encoding/base64.Encoding).DecodedLen"
			case "(*encoding/base64.Encoding).Encode":
				lenName = "(*encoding/base64.Encoding).EncodedLen"
			default:
				return
			}
			n++
			site[fn]++
			key := fmt.Sprintf("%s/%s#%d", shortFunc(fn), shortName(calleeName(c)), site[fn])
			enc, dst, src := c.Call.Args[0], c.Call.Args[1], c.Call.Args[2]
			bad := ""
			sized := false
			for _, o := range p.origins(dst, originOpts{throughSlice: true}) {
				ms, ok := o.(*ssa.MakeSlice)
				if !ok {
					bad = "the destination is " + describeValue(o) + ", not a buffer made for this call"
					continue
				}
				lc, ok := ms.Len.(*ssa.Call)
				if !ok || calleeName(lc) != lenName {
					bad = "the destination's length is not " + shortName(lenName) + "(len(input))"
					continue
				}
				sized = true
				if lc.Call.Args[0] != enc && !p.sameValue(lc.Call.Args[0], enc) {
					bad = "the buffer is sized with another encoding value than the one that decodes into it (the encoding is changed in between, e.g. padding removed): the padded and unpadded variants need different lengths"
				}
				// the length argument is len(src)
				if ll, ok := p.stripConvAll(lc.Call.Args[1]).(*ssa.Call); !ok || calleeName(ll) != "builtin.len" || (ll.Call.Args[0] != src && !p.sameValue(ll.Call.Args[0], src)) {
					bad = "the buffer is sized for another input than the one decoded into it"
				}
			}
			if !sized && bad == "" {
				bad = "no sizing of the destination found"
			}
			r.check(bad == "", key, in.Pos(), "destination sized by the same encoding's length function of the same input",
				bad+" — base64 writes past the end of a short destination (index out of range panic)")
		})
	}
	if n == 0 {
		r.info("base64 Decode/Encode into a caller buffer", token.NoPos, "no such call in the module: rule has no instance")
		r.ok("module/no-b64-buffer-calls", token.NoPos, "no (*base64.Encoding).Decode/Encode call")
	}
}

func init() {
	register(&Rule{Name: "PATH-CHARSET", Floor: 1,
		Doc: "the character class the request-path lexer accepts inside a segment (isPath), evaluated for every ASCII character, contains at least RFC 3986 pchar without ':' and '%': unreserved (letters, digits, - . _ ~), sub-delims (! $ & ' ( ) * + , ; =) and '@' — a matching request whose capture uses one of them is otherwise answered 404",
		Run: rulePathCharset})
}

func rulePathCharset(r *Run) {
	p := r.P
	fn := p.Func("isPath")
	if fn == nil || len(fn.Params) != 1 {
		r.missing("func isPath(rune) bool")
		return
	}
	// it is the class used for request path segments: lexPath's region applies it
	used := false
	if lp := p.Func("lexPath"); lp != nil {
		for _, g := range p.staticReach(lp) {
			eachInstr(g, func(in ssa.Instruction) {
				for _, op := range in.Operands(nil) {
					if op != nil && *op == ssa.Value(fn) {
						used = true
					}
				}
			})
		}
	}
	if !used {
		r.undecided("isPath/used-by-lexPath", fn.Pos(), "isPath is not the class lexPath applies to request segments: the rule has lost its subject")
		return
	}
	var missing []string
	for c := rune(0x21); c < 0x7f; c++ {
		must := unicode.IsLetter(c) || unicode.IsDigit(c) || strings.ContainsRune("-._~!$&'()*+,;=@", c)
		if !must {
			continue
		}
		v, ok := interpPureP(p, fn, int64(c), 0)
		if !ok {
			r.undecided("isPath/charset", fn.Pos(), "isPath could not be evaluated for %q (it is no longer a pure character-class function)", c)
			return
		}
		if v == 0 {
			missing = append(missing, fmt.Sprintf("%q", c))
		}
	}
	r.check(len(missing) == 0, "isPath/charset", fn.Pos(), "accepts every unreserved, sub-delim and '@' character (evaluated for all ASCII characters)",
		"request path segments containing "+strings.Join(missing, " ")+" are rejected by the lexer (404) although RFC 3986 pchar / the documented segment characters allow them: a registered template that matches such a path is never reached")
}

func init() {
	register(&Rule{Name: "DESC-BY-NAME", Floor: 1,
		Doc: "protoreflect descriptors are never compared by identity: the same method or message arrives as a different descriptor object from every RegisterConn backend (protodesc.NewFile per connection) and from RegisterService, so 'is this the same method' is a comparison of full names",
		Run: ruleDescByName})
}

func ruleDescByName(r *Run) {
	p := r.P
	isDesc := func(v ssa.Value) bool {
		if isNilConst(v) {
			return false
		}
		nm := namedOf(v.Type())
		if nm == nil || nm.Obj().Pkg() == nil || nm.Obj().Pkg().Path() != protoreflect {
			return false
		}
		_, isIface := nm.Underlying().(*types.Interface)
		return isIface && strings.HasSuffix(nm.Obj().Name(), "Descriptor")
	}
	n, bad := 0, 0
	nameCmp := 0
	for _, fn := range p.ModuleFuncs() {
		eachInstr(fn, func(in ssa.Instruction) {
			bo, ok := in.(*ssa.BinOp)
			if !ok || (bo.Op != token.EQL && bo.Op != token.NEQ) {
				return
			}
			if isDesc(bo.X) && isDesc(bo.Y) {
				n++
				// identity as a fast path ("same object, done; otherwise look it up by number/name") is fine; what
				// is wrong is a decision taken on "different objects": the inequality edge refuses with an error
				refuses := false
				if refs := bo.Referrers(); refs != nil {
					for _, ref := range *refs {
						ifi, ok := ref.(*ssa.If)
						if !ok {
							continue
						}
						neq := 1
						if bo.Op == token.NEQ {
							neq = 0
						}
						b := ifi.Block().Succs[neq]
						for hop := 0; hop < 3 && b != nil; hop++ {
							for _, x := range b.Instrs {
								if rt, ok := x.(*ssa.Return); ok {
									for _, rv := range rt.Results {
										if isErrorType(rv.Type()) && isFreshError(rv) {
											refuses = true
										}
									}
								}
							}
							if len(b.Succs) == 1 {
								b = b.Succs[0]
							} else {
								b = nil
							}
						}
					}
				}
				if !refuses {
					nameCmp++ // counted as an instance: an identity fast path with a fallback
					return
				}
				bad++
				r.bad(fmt.Sprintf("%s/descriptor-identity#%d", shortFunc(fn), bad), in.Pos(), "two %s values are compared by identity: descriptors of the same method built for another connection, file or registration are different objects, so a repeated registration of the same service looks like a conflicting method (or a conflicting one like the same)", typeString(bo.X.Type()))
				return
			}
			// comparisons of descriptor full names (the right way) are the instances that keep the rule non-vacuous
			isFullName := func(v ssa.Value) bool {
				for _, o := range p.origins(v, originOpts{}) {
					if c, ok := o.(*ssa.Call); ok && c.Common().IsInvoke() && c.Common().Method.Name() == "FullName" {
						return true
					}
				}
				return false
			}
			if isFullName(bo.X) && isFullName(bo.Y) {
				nameCmp++
			}
		})
	}
	if bad == 0 {
		if nameCmp == 0 {
			r.undecided("module/descriptor-comparisons", token.NoPos, "neither an identity nor a full-name comparison of descriptors found: the rule has lost its subject")
			return
		}
		r.ok("module/descriptor-comparisons", token.NoPos, "no descriptor identity comparison; %d comparisons of descriptor full names", nameCmp)
	}
}

func init() {
	register(&Rule{Name: "NEGOTIATE-ADMITS", Floor: 2,
		Doc: "content negotiation returns an offer only where the Accept(-Encoding) entry under consideration admits it: the entry is the full wildcard, equals the offer, or is a type wildcard whose prefix the offer has — on every path to the assignment (a condition `A && B || C` that lets C alone select the offer breaks this)",
		Run: ruleNegotiateAdmits})
}

func ruleNegotiateAdmits(r *Run) {
	p := r.P
	for _, name := range []string{"negotiateContentType", "negotiateContentEncoding"} {
		fn := p.Func(name)
		if fn == nil || len(fn.Params) < 2 {
			r.missing("func " + name)
			continue
		}
		offers := fn.Params[1]
		// a value seen inside a helper of the negotiator (matchMediaRange(spec.Value, offer)) stands for the
		// argument of every call chain that leads there
		atCallers := func(v ssa.Value) []ssa.Value {
			par, ok := v.(*ssa.Parameter)
			if !ok || par.Parent() == fn || !p.isTransparent(par.Parent()) {
				return []ssa.Value{v}
			}
			var out []ssa.Value
			for _, b := range p.bindings(par.Parent()) {
				out = append(out, b.subst(v))
			}
			return out
		}
		isOffer := func(v ssa.Value) bool {
			vs := atCallers(v)
			for _, w := range vs {
				u, ok := w.(*ssa.UnOp)
				if !ok || u.Op != token.MUL {
					return false
				}
				ia, ok := u.X.(*ssa.IndexAddr)
				if !ok || ia.X != ssa.Value(offers) {
					return false
				}
			}
			return len(vs) > 0
		}
		isSpecValue := func(v ssa.Value) bool {
			for _, o0 := range p.origins(v, originOpts{throughSlice: true, local: true}) {
				for _, o := range atCallers(o0) {
					for _, o2 := range p.origins(o, originOpts{throughSlice: true, local: true}) {
						if f, ok := o2.(*ssa.Field); ok {
							if st, ok := f.X.Type().Underlying().(*types.Struct); ok && st.Field(f.Field).Name() == "Value" {
								return true
							}
						}
						if lf := loadedField(o2); lf != nil && lf.Name() == "Value" {
							return true
						}
					}
				}
			}
			return false
		}
		admits := func(g guardFact) bool {
			if c, ok := g.Cond.(*ssa.Call); ok && g.True {
				switch calleeName(c) {
				case "strings.HasPrefix":
					return isOffer(c.Call.Args[0]) && isSpecValue(c.Call.Args[1])
				case "strings.EqualFold":
					return (isOffer(c.Call.Args[0]) && isSpecValue(c.Call.Args[1])) || (isOffer(c.Call.Args[1]) && isSpecValue(c.Call.Args[0]))
				}
				return false
			}
			x, y, op, ok := g.cmp()
			if !ok || op != token.EQL {
				return false
			}
			if s, isC := constString(y); isC && isSpecValue(x) {
				return s == "*/*" || s == "*"
			}
			return (isSpecValue(x) && isOffer(y)) || (isSpecValue(y) && isOffer(x))
		}
		nSel, bad := 0, ""
		var badPos token.Pos
		eachInstr(fn, func(in ssa.Instruction) {
			rt, ok := in.(*ssa.Return)
			if !ok || len(rt.Results) != 1 {
				return
			}
			for _, l := range p.guardedLeaves(rt.Results[0]) {
				if !isOffer(l.v) {
					continue
				}
				nSel++
				ok := false
				for _, g := range p.expandFacts(l.facts) {
					if admits(g) {
						ok = true
					}
				}
				// or one of several admitting tests on every path to the assignment (`v == "*" || v == offer`)
				if !ok && l.pred != nil && p.guardedInEveryContext(l.pred, admits) {
					ok = true
				}
				if !ok {
					bad = "an offer can be selected on a path on which the Accept entry was not tested to admit it"
					if i, isI := l.v.(ssa.Instruction); isI {
						badPos = i.Pos()
					}
				}
			}
		})
		key := name + "/offer-admitted"
		switch {
		case nSel == 0:
			r.undecided(key, fn.Pos(), "no assignment of an offer to the result found")
		case bad != "":
			if badPos == token.NoPos {
				badPos = fn.Pos()
			}
			r.bad(key, badPos, "%s (wildcard/equality/prefix test missing on some path): a response is then sent in a content type or encoding the request's Accept header does not admit, instead of the next admitted offer or the default", bad)
		default:
			r.ok(key, fn.Pos(), "every selection of an offer (%d paths) is under a test that the Accept entry admits it", nSel)
		}
	}
}
