package main

import (
	"fmt"
	"go/token"
	"strings"

	"golang.org/x/tools/go/ssa"
)

func init() {
	register(&Rule{Name: "CTX-ANCESTRY", Floor: 6,
		Doc: "the context stored in each stream object and returned by each stream's Context() descends from the request's context through context-deriving calls only; streamGRPC.done is Done() of the very context stored in the stream",
		Run: ruleCtxAncestry})
	register(&Rule{Name: "TIMEOUT-APPLIED", Floor: 3,
		Doc: "where the grpc-timeout header is non-empty the handler context's chain contains context.WithTimeout(_, d) with d = result of decodeTimeout of that header value; on every path from the decoded header to the handler invocation (a legal zero timeout included)",
		Run: ruleTimeoutApplied})
	register(&Rule{Name: "TIMEOUT-REFUSED", Floor: 1,
		Doc: "no path from the error edge of decodeTimeout reaches the handler invocation (a malformed timeout is refused before the handler can run)",
		Run: ruleTimeoutRefused})
}

// ctxLeaves: the non-deriving roots of a context value.
func (p *Program) ctxLeaves(v ssa.Value) []ssa.Value {
	var out []ssa.Value
	for _, a := range p.ctxAncestors(v) {
		var c *ssa.Call
		switch x := a.(type) {
		case *ssa.Call:
			c = x
		case *ssa.Extract:
			c, _ = x.Tuple.(*ssa.Call)
		}
		if c != nil && isCtxDeriving(calleeName(c)) {
			continue
		}
		out = append(out, a)
	}
	return out
}

func isRequestContext(v ssa.Value) bool {
	c, ok := v.(*ssa.Call)
	return ok && calleeName(c) == "(*net/http.Request).Context"
}

func ruleCtxAncestry(r *Run) {
	p := r.P
	// newIncomingContext must itself derive from its parameter
	if nic := p.Func("newIncomingContext"); nic != nil {
		good := true
		eachInstr(nic, func(in ssa.Instruction) {
			rt, ok := in.(*ssa.Return)
			if !ok {
				return
			}
			for _, l := range p.ctxLeaves(rt.Results[0]) {
				if par, ok := l.(*ssa.Parameter); !ok || par.Parent() != nic {
					good = false
				}
			}
		})
		r.check(good, "newIncomingContext/derives-from-parameter", nic.Pos(), "the returned context derives from the context passed in", "newIncomingContext returns a context that does not derive from its argument: cancellation and deadlines of the request are cut off")
	} else {
		r.missing("func newIncomingContext")
	}
	for _, typ := range []string{"streamGRPC", "streamHTTP", "streamWS"} {
		stores := p.storesToField(nil, typ, "ctx")
		if len(stores) == 0 {
			r.undecided(typ+".ctx", token.NoPos, "no store to %s.ctx found", typ)
			continue
		}
		for _, st := range stores {
			key := fmt.Sprintf("%s/%s.ctx", shortFunc(st.Parent()), typ)
			leaves := p.ctxLeaves(st.Val)
			good := len(leaves) > 0
			what := ""
			for _, l := range leaves {
				if !isRequestContext(l) {
					good = false
					what = describeValue(l)
				}
			}
			r.check(good, key, st.Pos(), "descends from r.Context() through context-deriving calls only",
				"the stream's context has a root that is not the request's context ("+what+"): client disconnects, cancellations and deadlines do not reach the handler")
		}
		// Context() returns a derivative of s.ctx
		cm := p.Method(typ, "Context")
		if cm == nil {
			r.missing("method (*" + typ + ").Context")
			continue
		}
		ctxField := p.StructField(typ, "ctx")
		good := true
		n := 0
		eachInstr(cm, func(in ssa.Instruction) {
			rt, ok := in.(*ssa.Return)
			if !ok {
				return
			}
			n++
			for _, l := range p.ctxLeaves(rt.Results[0]) {
				if !loadsField(l, ctxField) {
					good = false
				}
			}
		})
		r.check(good && n > 0, shortFunc(cm)+"/returns-stream-ctx", cm.Pos(), "Context() derives from the context stored in the stream", "Context() does not derive from the context stored in the stream")
	}
	// streamGRPC.done = ctx.Done() of the stored ctx
	for _, st := range p.storesToField(nil, "streamGRPC", "done") {
		key := shortFunc(st.Parent()) + "/streamGRPC.done"
		good := false
		for _, o := range p.origins(st.Val, originOpts{}) {
			dc, ok := isInvokeNamed(o, "Done")
			if !ok {
				continue
			}
			for _, cs := range p.storesToField(nil, "streamGRPC", "ctx") {
				if cs.Parent() == st.Parent() && (cs.Val == dc.Common().Value || p.sameValue(cs.Val, dc.Common().Value)) {
					good = true
				}
			}
		}
		r.check(good, key, st.Pos(), "done is Done() of the very context stored in the stream", "streamGRPC.done is not the Done channel of the context stored in the stream: stream methods are not released when the call's context ends")
	}
}

func ruleTimeoutApplied(r *Run) {
	p := r.P
	fn := p.Method("Mux", "serveGRPC")
	if fn == nil {
		r.missing("method (*Mux).serveGRPC")
		return
	}
	var dec *ssa.Call
	eachInstr(fn, func(in ssa.Instruction) {
		if c, ok := in.(*ssa.Call); ok && calleeName(c) == "larking.io/larking.decodeTimeout" {
			dec = c
		}
	})
	if dec == nil {
		r.bad("(*Mux).serveGRPC/decodeTimeout", fn.Pos(), "serveGRPC never decodes a grpc-timeout header: deadlines are ignored")
		return
	}
	k, ok := p.headerGetConst(dec.Call.Args[0])
	r.check(ok && strings.EqualFold(k, "grpc-timeout"), "(*Mux).serveGRPC/timeout-header", dec.Pos(), "decodeTimeout is applied to the grpc-timeout request header", "decodeTimeout is not applied to the grpc-timeout request header value")
	// WithTimeout(_, d) with d = dec #0
	var wt *ssa.Call
	eachInstr(fn, func(in ssa.Instruction) {
		c, ok := in.(*ssa.Call)
		if !ok || calleeName(c) != "context.WithTimeout" {
			return
		}
		for _, o := range p.origins(c.Call.Args[1], originOpts{}) {
			if ex, ok := o.(*ssa.Extract); ok && ex.Tuple == ssa.Value(dec) && ex.Index == 0 {
				wt = c
			}
		}
	})
	if wt == nil {
		r.bad("(*Mux).serveGRPC/with-timeout", dec.Pos(), "the decoded timeout is never installed with context.WithTimeout: the handler runs without the client's deadline")
		return
	}
	r.ok("(*Mux).serveGRPC/with-timeout", wt.Pos(), "context.WithTimeout(ctx, decodeTimeout(header))")
	// … on every path: once the header decoded, the handler is not reached without passing that WithTimeout
	// (a test like `if timeout > 0` in between drops the deadline of the legal value 0, which must expire at once)
	{
		hf := p.StructField("handler", "handler")
		isWT := func(x ssa.Instruction) bool {
			c, ok := x.(*ssa.Call)
			if !ok || calleeName(c) != "context.WithTimeout" {
				return false
			}
			for _, o := range p.origins(c.Call.Args[1], originOpts{}) {
				if ex, ok := o.(*ssa.Extract); ok && ex.Tuple == ssa.Value(dec) && ex.Index == 0 {
					return true
				}
			}
			return false
		}
		var hit ssa.Instruction
		q := pathQuery{fn: fn, start: dec, barrier: isWT, target: func(x ssa.Instruction) bool {
			if c, ok := x.(ssa.CallInstruction); ok && hf != nil && calledField(c) == hf {
				hit = x
				return true
			}
			return false
		}}
		if w, _ := q.find(); w != nil {
			r.bad("(*Mux).serveGRPC/with-timeout-on-every-path", hit.Pos(), "after grpc-timeout was decoded the handler can be reached without context.WithTimeout(…, decoded) (%s): for some decoded values (e.g. 0, which must expire immediately) the handler runs without the client's deadline", p.describePath(w))
		} else {
			r.ok("(*Mux).serveGRPC/with-timeout-on-every-path", wt.Pos(), "every path from the decoded header to the handler invocation installs the decoded timeout")
		}
	}
	// the stream's ctx descends from it
	inChain := false
	for _, st := range p.storesToField(nil, "streamGRPC", "ctx") {
		for _, a := range p.ctxAncestors(st.Val) {
			if ex, ok := a.(*ssa.Extract); ok && ex.Tuple == ssa.Value(wt) && ex.Index == 0 {
				inChain = true
			}
		}
	}
	r.check(inChain, "(*Mux).serveGRPC/timeout-in-handler-context", wt.Pos(), "the handler's context descends from the WithTimeout context", "the WithTimeout context is created but the handler's context does not descend from it")
	// … and stays in it: every call made after the WithTimeout whose context result flows into the handler's
	// context is itself given a context that descends from the WithTimeout one (a helper that re-derives "the"
	// context from r.Context() silently drops the deadline)
	{
		wtCtx := extractOf(wt, 0)
		var chainCalls []*ssa.Call
		seenV := map[ssa.Value]bool{}
		var chain func(v ssa.Value, d int)
		chain = func(v ssa.Value, d int) {
			if d > 12 {
				return
			}
			for _, o := range p.origins(v, originOpts{local: true}) {
				if seenV[o] {
					continue
				}
				seenV[o] = true
				var c *ssa.Call
				switch x := o.(type) {
				case *ssa.Call:
					c = x
				case *ssa.Extract:
					c, _ = x.Tuple.(*ssa.Call)
				}
				if c == nil || c == wt {
					continue
				}
				chainCalls = append(chainCalls, c)
				for _, a := range c.Call.Args {
					if isContextType(a.Type()) {
						chain(a, d+1)
					}
				}
				if c.Call.IsInvoke() && isContextType(c.Call.Value.Type()) {
					chain(c.Call.Value, d+1)
				}
			}
		}
		for _, st := range p.storesToField(nil, "streamGRPC", "ctx") {
			if st.Parent() == fn {
				chain(st.Val, 0)
			}
		}
		descends := func(v ssa.Value) bool {
			if wtCtx == nil {
				return false
			}
			for _, a := range p.ctxAncestors(v) {
				if a == wtCtx {
					return true
				}
			}
			return false
		}
		kept := true
		for _, c := range chainCalls {
			if c.Parent() != fn {
				continue
			}
			if w, _ := (pathQuery{fn: fn, start: wt, target: func(x ssa.Instruction) bool { return x == ssa.Instruction(c) }}).find(); w == nil {
				continue
			}
			ok := false
			for _, a := range c.Call.Args {
				if isContextType(a.Type()) && descends(a) {
					ok = true
				}
			}
			if !ok {
				kept = false
				r.bad("(*Mux).serveGRPC/timeout-kept", c.Pos(), "%s runs after the timeout was installed and supplies (part of) the handler's context, but is not given a context that descends from the WithTimeout one: on that path the handler's context is re-derived without the client's deadline", shortName(calleeName(c)))
			}
		}
		if kept {
			r.ok("(*Mux).serveGRPC/timeout-kept", wt.Pos(), "every later step of the handler context's derivation starts from a context that carries the timeout")
		}
	}
	// the parent of WithTimeout is the request-derived context
	good := true
	for _, l := range p.ctxLeaves(wt.Call.Args[0]) {
		if !isRequestContext(l) {
			good = false
		}
	}
	r.check(good, "(*Mux).serveGRPC/timeout-parent", wt.Pos(), "the timeout context's parent descends from the request context", "the timeout context is not derived from the request's context")
}

func ruleTimeoutRefused(r *Run) {
	p := r.P
	fn := p.Method("Mux", "serveGRPC")
	if fn == nil {
		r.missing("method (*Mux).serveGRPC")
		return
	}
	hf := p.StructField("handler", "handler")
	var dec *ssa.Call
	eachInstr(fn, func(in ssa.Instruction) {
		if c, ok := in.(*ssa.Call); ok && calleeName(c) == "larking.io/larking.decodeTimeout" {
			dec = c
		}
	})
	if dec == nil {
		r.bad("(*Mux).serveGRPC/decodeTimeout", fn.Pos(), "serveGRPC never decodes a grpc-timeout header")
		return
	}
	var errv ssa.Value
	for _, ref := range *dec.Referrers() {
		if ex, ok := ref.(*ssa.Extract); ok && ex.Index == 1 {
			errv = ex
		}
	}
	if errv == nil {
		r.bad("(*Mux).serveGRPC/malformed-timeout-refused", dec.Pos(), "the error result of decodeTimeout is discarded: a malformed grpc-timeout is silently treated as some duration and the handler runs")
		return
	}
	tested := false
	q := pathQuery{fn: fn, start: dec,
		target: func(in ssa.Instruction) bool {
			c, ok := in.(ssa.CallInstruction)
			return ok && calledField(c) == hf
		},
		edgeOK: func(b *ssa.BasicBlock, succ int) bool {
			ifi := blockIf(b)
			if ifi == nil {
				return true
			}
			bo, ok := ifi.Cond.(*ssa.BinOp)
			if !ok || !isNilConst(bo.Y) {
				return true
			}
			is := false
			for _, o := range p.origins(bo.X, originOpts{}) {
				if o == errv {
					is = true
				}
			}
			if !is {
				return true
			}
			tested = true
			if bo.Op == token.NEQ {
				return succ == 0
			}
			return succ == 1
		}}
	w, _ := q.find()
	if !tested {
		r.bad("(*Mux).serveGRPC/malformed-timeout-refused", dec.Pos(), "the error of decodeTimeout is never tested: a malformed grpc-timeout does not stop the request")
		return
	}
	if w != nil {
		r.bad("(*Mux).serveGRPC/malformed-timeout-refused", dec.Pos(), "from the error edge of decodeTimeout the handler invocation is still reachable: a malformed grpc-timeout does not prevent the handler from running (%s)", p.describePath(w))
	} else {
		r.ok("(*Mux).serveGRPC/malformed-timeout-refused", dec.Pos(), "the handler invocation is unreachable from the error edge of decodeTimeout")
	}
}
