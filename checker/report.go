package main

import (
	"encoding/json"
	"fmt"
	"go/token"
	"os"
	"path/filepath"
	"sort"
	"strings"
)

// Obligation is one thing a rule had to establish about one construct.
type Obligation struct {
	Rule      string `json:"rule"`
	Construct string `json:"construct"` // stable key: function / type / field / callee, never a line
	Pos       string `json:"pos"`
	Status    string `json:"status"` // discharged | violated | undecided | info
	Detail    string `json:"detail"`
}

const (
	stOK        = "discharged"
	stViolated  = "violated"
	stUndecided = "undecided"
	stInfo      = "info"
)

// Run collects the obligations of one property check.
type Run struct {
	P    *Program
	Obs  []Obligation
	rule string // rule currently executing
}

func (r *Run) add(status, construct string, pos token.Pos, format string, args ...interface{}) {
	r.Obs = append(r.Obs, Obligation{
		Rule: r.rule, Construct: construct, Pos: r.P.Pos(pos), Status: status,
		Detail: fmt.Sprintf(format, args...),
	})
}

func (r *Run) ok(construct string, pos token.Pos, format string, args ...interface{}) {
	r.add(stOK, construct, pos, format, args...)
}
func (r *Run) bad(construct string, pos token.Pos, format string, args ...interface{}) {
	r.add(stViolated, construct, pos, format, args...)
}
func (r *Run) undecided(construct string, pos token.Pos, format string, args ...interface{}) {
	r.add(stUndecided, construct, pos, format, args...)
}
func (r *Run) info(construct string, pos token.Pos, format string, args ...interface{}) {
	r.add(stInfo, construct, pos, format, args...)
}

// missing records an unresolved anchor: a rule that cannot find its subject must fail.
func (r *Run) missing(construct string) {
	r.add(stUndecided, construct, token.NoPos, "unresolved anchor: %s not found in the loaded program (rule cannot be evaluated; this is a failure, never a vacuous pass)", construct)
}

// check is a convenience: ok if cond else bad.
func (r *Run) check(cond bool, construct string, pos token.Pos, okMsg, badMsg string) {
	if cond {
		r.ok(construct, pos, "%s", okMsg)
	} else {
		r.bad(construct, pos, "%s", badMsg)
	}
}

// ---- known findings ----

type KnownFinding struct {
	Property  string `json:"property"`
	Rule      string `json:"rule"`
	Construct string `json:"construct"`
	What      string `json:"what"`
}

type KnownFile struct {
	Comment string         `json:"comment,omitempty"`
	Known   []KnownFinding `json:"known"`
	Fixed   []string       `json:"fixed"`
}

func loadKnown(path string) (*KnownFile, error) {
	b, err := os.ReadFile(path)
	if err != nil {
		if os.IsNotExist(err) {
			return &KnownFile{}, nil
		}
		return nil, err
	}
	var k KnownFile
	if err := json.Unmarshal(b, &k); err != nil {
		return nil, fmt.Errorf("%s: %w", path, err)
	}
	return &k, nil
}

func (k *KnownFile) match(prop string, o Obligation) *KnownFinding {
	for i := range k.Known {
		f := &k.Known[i]
		if f.Property == prop && f.Rule == o.Rule && f.Construct == o.Construct {
			return f
		}
	}
	return nil
}

// ---- evidence ----

type Evidence struct {
	PropertyID  string                 `json:"property_id"`
	Tier        string                 `json:"tier"`
	Seed        int                    `json:"seed"`
	Level       string                 `json:"level"`
	Coverage    map[string]interface{} `json:"coverage"`
	Assumptions []string               `json:"assumptions"`
	WallS       float64                `json:"wall_s"`
	Violations  int                    `json:"violations"`
}

func writeJSON(path string, v interface{}) error {
	if err := os.MkdirAll(filepath.Dir(path), 0o755); err != nil {
		return err
	}
	b, err := json.MarshalIndent(v, "", " ")
	if err != nil {
		return err
	}
	tmp := path + ".tmp"
	if err := os.WriteFile(tmp, append(b, '\n'), 0o644); err != nil {
		return err
	}
	return os.Rename(tmp, path)
}

func sortObs(obs []Obligation) {
	sort.SliceStable(obs, func(i, j int) bool {
		if obs[i].Rule != obs[j].Rule {
			return obs[i].Rule < obs[j].Rule
		}
		if obs[i].Construct != obs[j].Construct {
			return obs[i].Construct < obs[j].Construct
		}
		return obs[i].Pos < obs[j].Pos
	})
}

func sanitize(s string) string {
	var b strings.Builder
	for _, r := range s {
		switch {
		case r >= 'a' && r <= 'z', r >= 'A' && r <= 'Z', r >= '0' && r <= '9', r == '-', r == '_', r == '.':
			b.WriteRune(r)
		default:
			b.WriteByte('_')
		}
	}
	out := b.String()
	if len(out) > 80 {
		out = out[:80]
	}
	return out
}
