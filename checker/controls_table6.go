package main

// Controls for the rules and clauses added after the fifth round of seeded changes.
func init() {
	control(&Control{ID: "handlers-presence-pick", Rule: "HANDLERS-PRESENCE", File: "larking/mux.go",
		Old:    "\t\tif len(hds) == 0 {\n\t\t\tdelete(s.handlers, name)\n\t\t\ts.path.delRule(name)\n\t\t} else {\n\t\t\ts.handlers[name] = hds\n\t\t}\n",
		New:    "\t\ts.handlers[name] = hds\n\t\tif len(hds) == 0 {\n\t\t\ts.path.delRule(name)\n\t\t}\n\t\tif _, ok := s.handlers[name]; !ok {\n\t\t\tcontinue\n\t\t}\n",
		Expect: "state.handlers-lookup", Why: "removal keeps empty entries and a reader branches on presence"})
	control(&Control{ID: "matchsource-global", Rule: "MATCH-SOURCE", File: "larking/mux.go",
		Old: "\treturn s.path.match(route, verb)\n", New: "\tif lastMethod != nil && route == \"\" {\n\t\treturn lastMethod, nil, nil\n\t}\n\treturn s.path.match(route, verb)\n}\n\nvar lastMethod *method\n\nfunc init() {\n\t_ = lastMethod\n",
		Expect: "method-source", Why: "a method remembered in a package variable is returned"})
	control(&Control{ID: "fdlocaliser-positional", Rule: "FD-LOCALISER", File: "larking/rules.go",
		Old: "\tif lfd := md.Fields().ByNumber(fd.Number()); lfd != nil {\n\t\treturn lfd\n\t}\n", New: "\tif i := fd.Index(); i < md.Fields().Len() {\n\t\treturn md.Fields().Get(i)\n\t}\n",
		Expect: "wire-stable-key", Why: "positional lookup of the local field"})
	control(&Control{ID: "fwdeof-bare-nil", Rule: "FWD-EOF-FILTERED", File: "larking/mux.go",
		Old: "\t\t\t\tif isStreamError(inErr) {\n", New: "\t\t\t\tif inErr != nil {\n", Expect: "pump-error-return", Why: "io.EOF of the pump returned as an error"})
	control(&Control{ID: "statsjoined-recv", Rule: "STATS-JOINED", File: "larking/grpc.go",
		Old: "func (s *streamGRPC) RecvMsg(m interface{}) error {\n\ts.wg.Add(1)\n\tdefer s.wg.Done()\n", New: "func (s *streamGRPC) RecvMsg(m interface{}) error {\n",
		Expect: "registered-before-events", Why: "RecvMsg reports InPayload without joining the WaitGroup"})
	control(&Control{ID: "poolself-field-not-cleared", Rule: "POOL-SELF-TERMINAL", File: "larking/compress.go",
		Old: "\t\tz.pool.Put(z.Reader)\n\t\tz.Reader = nil\n", New: "\t\tz.pool.Put(z.Reader)\n",
		Expect: "field-cleared-after-put", Why: "pooled gzip.Reader stays reachable from the finished stream"})
	control(&Control{ID: "poolself-unguarded-use", Rule: "POOL-SELF-TERMINAL", File: "larking/compress.go",
		Old: "\tif z.Reader == nil {\n\t\treturn 0, io.EOF\n\t}\n", New: "",
		Expect: "field-cleared-after-put", Why: "field used without the nil test"})
	control(&Control{ID: "ows-semicolon", Rule: "OWS-BEFORE-SEP", File: "larking/negotiate.go",
		Old: "\t\t\tspec.Q = 1.0\n\t\t\ts = skipSpace(s)\n", New: "\t\t\tspec.Q = 1.0\n", Expect: "head-test:\";\"", Why: "';' tested on unskipped input"})
	control(&Control{ID: "limitbound-unclamped-length-with-error", Rule: "LIMIT-RETURN-BOUND", File: "larking/codec.go",
		Old:    "\t\tif err != nil {\n\t\t\tif total > limit {\n\t\t\t\ttotal = limit\n\t\t\t}\n\t\t\treturn b, total, err\n\t\t}\n",
		New:    "\t\tif err != nil {\n\t\t\treturn b, total, err\n\t\t}\n",
		Expect: "(codecHTTPBody).ReadNext/returned-length-bounded", Why: "over-read length returned together with the read error"})
	control(&Control{ID: "storedslice-kept-by-callee", Rule: "STORED-SLICE-REUSE", File: "larking/rules.go",
		Old: "\t\t\tv := cursor.addVariable(vars)\n\t\t\tcursor = v.next\n", New: "\t\t\tv := cursor.addVariable(vars)\n\t\t\tcursor = v.next\n\t\t\tvars = append(vars[:0], token{typ: tokenSlash, val: \"/\"})\n\t\t\t_ = vars\n",
		Expect: "kept-by", Why: "token slice re-used as an append buffer after addVariable kept it"})
}
