package main

import (
	"fmt"
	"go/ast"
	"go/constant"
	"go/token"
	"go/types"
	"strings"

	"golang.org/x/tools/go/ssa"
)

func init() {
	register(&Rule{Name: "CT-AGREE", Floor: 4,
		Doc: "the value written to Content-Type and the value that selected the reply codec are the same (the negotiated type), or the HttpBody message's own content_type with its data field as body; the header is set before the first body write",
		Run: ruleCTAgree})
	register(&Rule{Name: "CE-AGREE", Floor: 2,
		Doc: "Content-Encoding is set (to a non-constant value) only inside the branch where the compressor looked up by that same value is non-nil, and in that branch the response writer is that compressor's Compress result",
		Run: ruleCEAgree})
	register(&Rule{Name: "OFFERS-AGREE", Floor: 4,
		Doc: "content type offers are the keys of the codec map that is indexed; the negotiated type is negotiateContentType(request header, offers, request content type); encError indexes the codec map with the value it announces",
		Run: ruleOffersAgree})
	register(&Rule{Name: "RESP-APPLIED", Floor: 2,
		Doc: "in every SendMsg the message handed to the codec is the one reached by walking method.resp from the reply",
		Run: ruleRespApplied})
	register(&Rule{Name: "DECOMP-AGREE", Floor: 4,
		Doc: "the request reader is the Decompress result exactly when the compressor looked up by the request's Content-Encoding is non-nil; the request codec is selected by the request's Content-Type (default application/json)",
		Run: ruleDecompAgree})
}

// headerGetConst: v is r.Header.Get("K") on a request header; returns K.
func (p *Program) headerGetConst(v ssa.Value) (string, bool) {
	for _, o := range p.origins(v, originOpts{}) {
		c, ok := o.(*ssa.Call)
		if !ok || calleeName(c) != "(net/http.Header).Get" {
			continue
		}
		if k, ok := constString(c.Call.Args[1]); ok {
			return k, true
		}
	}
	return "", false
}

func (p *Program) storesToField(f interface{ Name() string }, typ, field string) []*ssa.Store {
	fv := p.StructField(typ, field)
	var out []*ssa.Store
	if fv == nil {
		return nil
	}
	for _, fn := range p.ModuleFuncs() {
		eachInstr(fn, func(in ssa.Instruction) {
			st, ok := in.(*ssa.Store)
			if !ok {
				return
			}
			if fa, ok := st.Addr.(*ssa.FieldAddr); ok && fieldOfAddr(fa) == fv {
				out = append(out, st)
			}
		})
	}
	return out
}

func ruleCTAgree(r *Run) {
	p := r.P
	wm := p.Method("streamHTTP", "writeMsg")
	sm := p.Method("streamHTTP", "SendMsg")
	if wm == nil || sm == nil {
		r.missing("methods (*streamHTTP).writeMsg / SendMsg")
		return
	}
	accept := p.StructField("streamHTTP", "accept")
	// (a) writeMsg sets Content-Type from its contentType parameter, before any body write of the first message
	var set ssa.Instruction
	isCTSet := func(in ssa.Instruction) bool {
		c, ok := in.(ssa.CallInstruction)
		if !ok || calleeName(c) != "(net/http.Header).Set" {
			return false
		}
		k, ok := constString(c.Common().Args[1])
		return ok && strings.EqualFold(k, "Content-Type")
	}
	// (in writeMsg or in a helper it calls: s.beginResponse(contentType))
	p.eachInstrR(wm, func(in ssa.Instruction) {
		if isCTSet(in) {
			set = in
		}
	})
	if set == nil {
		r.bad("(*streamHTTP).writeMsg/content-type-set", wm.Pos(), "writeMsg never sets Content-Type")
	} else {
		val := set.(ssa.CallInstruction).Common().Args[2]
		isParam := false
		for _, o := range p.origins(val, originOpts{}) {
			if par, ok := o.(*ssa.Parameter); ok && par.Parent() == wm && strings.Contains(typeString(par.Type()), "string") {
				isParam = true
			}
		}
		r.check(isParam, "(*streamHTTP).writeMsg/content-type-value", set.Pos(), "Content-Type is the content type handed in by SendMsg",
			"Content-Type is not the content type SendMsg computed for this body")
		// before the first body write
		isBodyWrite := func(in ssa.Instruction) bool {
			c, ok := in.(ssa.CallInstruction)
			if !ok {
				return false
			}
			if c.Common().IsInvoke() && (c.Common().Method.Name() == "WriteNext" || c.Common().Method.Name() == "Write") {
				return true
			}
			return calleeName(c) == "(*larking.io/larking.muxOptions).writeAll"
		}
		firstMsg := func(b *ssa.BasicBlock, succ int) bool {
			ifi := blockIf(b)
			if ifi == nil {
				return true
			}
			if bo, ok := ifi.Cond.(*ssa.BinOp); ok && bo.Op == token.EQL {
				if k, ok := constInt(bo.Y); ok && k == 0 {
					for _, o := range p.origins(bo.X, originOpts{}) {
						if f := loadedField(o); f != nil && f.Name() == "sendCount" {
							return succ == 0
						}
					}
				}
			}
			return true
		}
		q := pathQuery{fn: wm, edgeOK: firstMsg, barrier: func(in ssa.Instruction) bool {
			if in == set {
				return true
			}
			if c, ok := in.(ssa.CallInstruction); ok && set.Parent() != wm {
				return p.callMust(c, isCTSet)
			}
			return false
		}, target: isBodyWrite}
		w, _ := q.find()
		r.check(w == nil, "(*streamHTTP).writeMsg/content-type-before-body", set.Pos(), "on the first message Content-Type is set before any body byte is written",
			"on the first message a body write can precede the Content-Type header write (the header is then already sent)")
	}
	// (b) SendMsg: codec selected by s.accept; content type handed to writeMsg is s.accept or the HttpBody message's content_type
	var getCodec, write ssa.CallInstruction
	eachInstr(sm, func(in ssa.Instruction) {
		if isCall(in, "(*larking.io/larking.streamHTTP).getCodec") {
			getCodec = in.(ssa.CallInstruction)
		}
		if isCall(in, "(*larking.io/larking.streamHTTP).writeMsg") {
			write = in.(ssa.CallInstruction)
		}
	})
	if getCodec == nil || write == nil {
		r.bad("(*streamHTTP).SendMsg/shape", sm.Pos(), "SendMsg does not call getCodec and writeMsg")
		return
	}
	codecKeyOK := true
	for _, o := range p.origins(p.stringArg(getCodec, 1), originOpts{}) {
		if !loadsField(o, accept) {
			codecKeyOK = false
		}
	}
	r.check(codecKeyOK, "(*streamHTTP).SendMsg/codec-by-accept", getCodec.Pos(), "the reply codec is selected by the negotiated type (s.accept)",
		"the reply codec is not selected by the negotiated content type")
	ctOK, what := true, ""
	nAccept, nBody := 0, 0
	for _, o := range p.origins(p.stringArg(write, 3), originOpts{}) {
		if loadsField(o, accept) {
			nAccept++
			continue
		}
		if c, ok := o.(*ssa.Call); ok && strings.HasSuffix(calleeName(c), "protoreflect.Value).String") {
			// value of Get(fd) with fd = ByName("content_type")
			if p.valueOfNamedField(c.Call.Args[0], "content_type") {
				nBody++
				continue
			}
		}
		ctOK = false
		what = describeValue(o)
	}
	r.check(ctOK && nAccept > 0, "(*streamHTTP).SendMsg/content-type-source", write.Pos(),
		fmt.Sprintf("Content-Type is the negotiated type that selected the codec, or the HttpBody reply's own content_type (%d/%d sources)", nAccept, nBody),
		"the Content-Type handed to writeMsg is "+what+": it does not name the codec that produced the body")
	// HttpBody: the body bytes are the data field
	dataOK := false
	eachInstr(sm, func(in ssa.Instruction) {
		c, ok := in.(*ssa.Call)
		if !ok || !strings.HasSuffix(calleeName(c), "protoreflect.Value).Bytes") {
			return
		}
		if p.valueOfNamedField(c.Call.Args[0], "data") {
			dataOK = true
		}
	})
	r.check(dataOK, "(*streamHTTP).SendMsg/httpbody-data", sm.Pos(), "an HttpBody reply is delivered as the bytes of its data field", "the HttpBody branch does not take the body from the message's data field")
}

// valueOfNamedField: v = msg.Get(fd) with fd = fields.ByName("name").
func (p *Program) valueOfNamedField(v ssa.Value, name string) bool {
	for _, o := range p.origins(v, originOpts{}) {
		g, ok := isInvokeNamed(o, "Get", "Mutable")
		if !ok {
			continue
		}
		for _, fo := range p.origins(g.Common().Args[0], originOpts{}) {
			bn, ok := isInvokeNamed(fo, "ByName", "ByJSONName", "ByTextName")
			if !ok {
				continue
			}
			for _, no := range p.origins(bn.Common().Args[0], originOpts{throughConvert: true}) {
				if s, ok := constString(no); ok && s == name {
					return true
				}
			}
		}
	}
	return false
}

func ruleCEAgree(r *Run) {
	p := r.P
	fn := p.Method("Mux", "serveHTTP")
	if fn == nil {
		r.missing("method (*Mux).serveHTTP")
		return
	}
	compField := p.StructField("muxOptions", "compressors")
	n := 0
	eachInstr(fn, func(in ssa.Instruction) {
		c, ok := in.(ssa.CallInstruction)
		if !ok || calleeName(c) != "(net/http.Header).Set" {
			return
		}
		k, ok := constString(c.Common().Args[1])
		if !ok || !strings.EqualFold(k, "Content-Encoding") {
			return
		}
		val := c.Common().Args[2]
		if s, isC := constString(val); isC {
			if s != "identity" && s != "" {
				n++
				r.bad("(*Mux).serveHTTP/content-encoding-const:"+s, in.Pos(), "Content-Encoding is set to the constant %q regardless of what compresses the body", s)
			}
			return
		}
		n++
		// guard: lookup of compressors[val] != nil
		var lookup *ssa.Lookup
		for _, g := range guardsOf(in.Block()) {
			bo, ok := g.Cond.(*ssa.BinOp)
			if !ok || !isNilConst(bo.Y) || !((bo.Op == token.NEQ && g.True) || (bo.Op == token.EQL && !g.True)) {
				continue
			}
			// the value tested is the compressor registered under the announced value and nothing else (a
			// variable shared with the request side can still hold the request's compressor)
			var cand *ssa.Lookup
			all := true
			for _, o := range p.origins(bo.X, originOpts{}) {
				lk, ok := o.(*ssa.Lookup)
				if !ok {
					all = false
					continue
				}
				fromComp := false
				for _, mo := range p.origins(lk.X, originOpts{}) {
					if loadsField(mo, compField) {
						fromComp = true
					}
				}
				if fromComp && (lk.Index == val || p.sameValue(lk.Index, val)) {
					cand = lk
				} else {
					all = false
				}
			}
			if cand != nil && all {
				lookup = cand
			}
		}
		if lookup == nil {
			r.bad("(*Mux).serveHTTP/content-encoding-guard", in.Pos(), "Content-Encoding is set outside the branch where the compressor registered under that very value is non-nil: the header can name an encoding that is not applied to the body")
			return
		}
		r.ok("(*Mux).serveHTTP/content-encoding-guard", in.Pos(), "set only where compressors[value] != nil")
		// the response writer is that compressor's Compress result
		var compress *ssa.Call
		eachInstr(fn, func(x ssa.Instruction) {
			cc, ok := x.(*ssa.Call)
			if !ok || !cc.Common().IsInvoke() || cc.Common().Method.Name() != "Compress" {
				return
			}
			only := true
			os := p.origins(cc.Common().Value, originOpts{})
			for _, o := range os {
				if o != ssa.Value(lookup) {
					only = false
				}
			}
			if only && len(os) > 0 {
				compress = cc
			}
		})
		wOK := false
		if compress != nil {
			for _, st := range p.storesToField(nil, "streamHTTP", "w") {
				for _, o := range p.origins(st.Val, originOpts{}) {
					if ex, ok := o.(*ssa.Extract); ok && ex.Tuple == ssa.Value(compress) && ex.Index == 0 {
						wOK = true
					}
				}
			}
		}
		r.check(wOK, "(*Mux).serveHTTP/content-encoding-writer", in.Pos(), "in that branch the stream writes through that compressor's Compress result",
			"the header announces the encoding but the stream's writer is not the Compress result of the compressor registered under it: header and bytes disagree")
	})
	if n == 0 {
		r.undecided("(*Mux).serveHTTP/content-encoding", fn.Pos(), "no Content-Encoding header write found")
	}
}

func ruleOffersAgree(r *Run) {
	p := r.P
	codecs := p.StructField("muxOptions", "codecs")
	offers := p.StructField("muxOptions", "contentTypeOffers")
	if codecs == nil || offers == nil {
		r.missing("fields muxOptions.codecs / contentTypeOffers")
		return
	}
	// (a) NewMux: offers are the keys of codecs
	nm := p.Func("NewMux")
	if nm == nil {
		r.missing("func NewMux")
	} else {
		good, n := false, 0
		p.eachInstrR(nm, func(in ssa.Instruction) {
			st, ok := in.(*ssa.Store)
			if !ok {
				return
			}
			fa, ok := st.Addr.(*ssa.FieldAddr)
			if !ok || fieldOfAddr(fa) != offers {
				return
			}
			n++
			for _, src := range p.flattenAppend(st.Val, 0) {
				ex, ok := src.(*ssa.Extract)
				if !ok {
					continue
				}
				nx, ok := ex.Tuple.(*ssa.Next)
				if !ok || ex.Index != 1 {
					continue
				}
				if rg, ok := nx.Iter.(*ssa.Range); ok {
					for _, o := range p.origins(rg.X, originOpts{}) {
						if loadsField(o, codecs) {
							good = true
						}
					}
				}
			}
		})
		r.check(good && n > 0, "NewMux/offers-from-codec-keys", nm.Pos(), "contentTypeOffers collects the keys of the codecs map", "contentTypeOffers is not built from the keys of the codecs map: a type can be negotiated for which no codec is registered")
	}
	// (b) streamHTTP.accept = negotiateContentType(r.Header, offers, contentType)
	ctStores := p.storesToField(nil, "streamHTTP", "contentType")
	for _, st := range p.storesToField(nil, "streamHTTP", "accept") {
		key := shortFunc(st.Parent()) + "/streamHTTP.accept"
		good := false
		for _, o := range p.origins(st.Val, originOpts{}) {
			c, ok := o.(*ssa.Call)
			if !ok || calleeName(c) != "larking.io/larking.negotiateContentType" {
				continue
			}
			offOK := false
			for _, oo := range p.origins(c.Call.Args[1], originOpts{}) {
				if loadsField(oo, offers) {
					offOK = true
				}
			}
			defOK := false
			for _, cs := range ctStores {
				if cs.Parent() == st.Parent() && (cs.Val == c.Call.Args[2] || p.sameValue(cs.Val, c.Call.Args[2])) {
					defOK = true
				}
			}
			hdrOK := false
			if f := loadedField(c.Call.Args[0]); f != nil && f.Name() == "Header" {
				hdrOK = true
			}
			good = offOK && defOK && hdrOK
		}
		r.check(good, key, st.Pos(), "negotiated from the request's Accept header over the registered offers, defaulting to the request's own content type",
			"the response type is not negotiateContentType(r.Header, registered offers, request content type)")
	}
	// (c) encError: the codec indexed and the Content-Type announced are the same value
	ee := p.Method("Mux", "encError")
	if ee == nil {
		r.missing("method (*Mux).encError")
		return
	}
	var lk *ssa.Lookup
	eachInstr(ee, func(in ssa.Instruction) {
		l, ok := in.(*ssa.Lookup)
		if !ok {
			return
		}
		for _, o := range p.origins(l.X, originOpts{}) {
			if loadsField(o, codecs) {
				lk = l
			}
		}
	})
	if lk == nil {
		r.bad("(*Mux).encError/codec-lookup", ee.Pos(), "encError does not index the codecs map")
		return
	}
	same := false
	// the header may be written by a helper of encError (writeStatusHeader(w, accept, st)): the value under the
	// arguments of each call chain that leads to it
	p.eachInstrRegion(ee, func(fn *ssa.Function, in ssa.Instruction) {
		c, ok := in.(ssa.CallInstruction)
		if !ok || calleeName(c) != "(net/http.Header).Set" {
			return
		}
		if k, ok := constString(c.Common().Args[1]); ok && strings.EqualFold(k, "Content-Type") {
			v := c.Common().Args[2]
			if v == lk.Index || p.sameValue(v, lk.Index) {
				same = true
			}
			if fn != ee {
				for _, b := range p.bindings(fn) {
					if w := b.subst(v); w == lk.Index || p.sameValue(w, lk.Index) {
						same = true
					}
				}
			}
		}
	})
	r.check(same, "(*Mux).encError/content-type-is-codec-key", lk.Pos(), "the error body's codec is indexed by the very value announced as Content-Type",
		"the error body is marshalled with a codec looked up under another key than the Content-Type announced")
	negOK := false
	for _, o := range p.origins(lk.Index, originOpts{}) {
		if c, ok := o.(*ssa.Call); ok && calleeName(c) == "larking.io/larking.negotiateContentType" {
			for _, oo := range p.origins(c.Call.Args[1], originOpts{}) {
				if loadsField(oo, offers) {
					negOK = true
				}
			}
		}
	}
	r.check(negOK, "(*Mux).encError/negotiated", lk.Pos(), "the error content type is negotiated over the registered offers", "the error content type is not negotiated over the registered offers")
}

func ruleRespApplied(r *Run) {
	p := r.P
	resp := p.StructField("method", "resp")
	for _, typ := range []string{"streamHTTP", "streamWS"} {
		fn := p.Method(typ, "SendMsg")
		if fn == nil {
			r.missing("method (*" + typ + ").SendMsg")
			continue
		}
		key := shortFunc(fn) + "/marshals-selected-message"
		// the marshal call
		var marg ssa.Value
		var mpos token.Pos
		eachInstr(fn, func(in ssa.Instruction) {
			c, ok := in.(ssa.CallInstruction)
			if !ok {
				return
			}
			n := calleeName(c)
			if c.Common().IsInvoke() && c.Common().Method.Name() == "MarshalAppend" {
				marg, mpos = c.Common().Args[1], in.Pos()
			}
			if strings.HasSuffix(n, "protojson.Marshal") {
				marg, mpos = c.Common().Args[0], in.Pos()
			}
		})
		if marg == nil {
			r.undecided(key, fn.Pos(), "no marshal call found")
			continue
		}
		walks := false
		for _, o := range p.origins(marg, defaultOrigin) {
			ic, ok := isInvokeNamed(o, "Interface")
			if !ok {
				continue
			}
			for _, co := range p.origins(ic.Common().Value, originOpts{}) {
				if c, ok := co.(*ssa.Call); ok && strings.HasSuffix(calleeName(c), "protoreflect.Value).Message") {
					// inside a loop over method.resp?
					if mc, ok := isInvokeNamed(c.Call.Args[0], "Mutable", "Get"); ok {
						for _, fo := range p.origins(p.throughLocaliser(mc.Common().Args[0]), originOpts{}) {
							if u, ok := fo.(*ssa.UnOp); ok {
								if ia, ok := u.X.(*ssa.IndexAddr); ok {
									for _, so := range p.origins(ia.X, originOpts{}) {
										if loadsField(so, resp) {
											walks = true
										}
									}
								}
							}
						}
					}
				}
			}
		}
		r.check(walks, key, mpos, "the marshalled message is reached by walking method.resp from the reply", "the marshalled message is not the one selected by response_body (method.resp is not walked): the whole reply is sent instead of the selected field")
	}
}

func ruleDecompAgree(r *Run) {
	p := r.P
	fn := p.Method("Mux", "serveHTTP")
	if fn == nil {
		r.missing("method (*Mux).serveHTTP")
		return
	}
	compField := p.StructField("muxOptions", "compressors")
	var decomp *ssa.Call
	// (in serveHTTP or in a helper it calls: m.requestBody(r, contentEncoding))
	p.eachInstrR(fn, func(in ssa.Instruction) {
		if c, ok := in.(*ssa.Call); ok && c.Common().IsInvoke() && c.Common().Method.Name() == "Decompress" {
			decomp = c
		}
	})
	if decomp == nil {
		r.bad("(*Mux).serveHTTP/decompress", fn.Pos(), "serveHTTP never decompresses the request body: Content-Encoding: gzip requests reach the codec compressed")
	} else {
		// the compressor is compressors[r.Header.Get("Content-Encoding")] and the call is guarded by != nil
		var lk *ssa.Lookup
		for _, o := range p.origins(decomp.Common().Value, originOpts{}) {
			if l, ok := o.(*ssa.Lookup); ok {
				for _, mo := range p.origins(l.X, originOpts{}) {
					if loadsField(mo, compField) {
						lk = l
					}
				}
			}
		}
		keyOK := false
		if lk != nil {
			if k, ok := p.headerGetConst(lk.Index); ok && strings.EqualFold(k, "Content-Encoding") {
				keyOK = true
			}
		}
		r.check(keyOK, "(*Mux).serveHTTP/decompressor-by-content-encoding", decomp.Pos(), "the decompressor is the one registered under the request's Content-Encoding",
			"the decompressor is not looked up by the request's Content-Encoding header value")
		guarded := false
		for _, g := range guardsOf(decomp.Block()) {
			if bo, ok := g.Cond.(*ssa.BinOp); ok && isNilConst(bo.Y) && ((bo.Op == token.NEQ && g.True) || (bo.Op == token.EQL && !g.True)) {
				for _, o := range p.origins(bo.X, originOpts{}) {
					if lk != nil && o == ssa.Value(lk) {
						guarded = true
					}
				}
			}
		}
		r.check(guarded, "(*Mux).serveHTTP/decompress-iff-registered", decomp.Pos(), "Decompress runs exactly where the looked-up compressor is non-nil", "Decompress is not guarded by the non-nil test of the looked-up compressor")
		// streamHTTP.r is the Decompress result (or the raw body)
		rOK, raw := false, false
		for _, st := range p.storesToField(nil, "streamHTTP", "r") {
			for _, o := range p.origins(st.Val, defaultOrigin) {
				if ex, ok := o.(*ssa.Extract); ok && ex.Tuple == ssa.Value(decomp) && ex.Index == 0 {
					rOK = true
				}
				if f := loadedField(o); f != nil && f.Name() == "Body" {
					raw = true
				}
			}
		}
		r.check(rOK && raw, "(*Mux).serveHTTP/stream-reader", decomp.Pos(), "the stream reads the Decompress result when a compressor applies and the raw body otherwise",
			"the stream's reader is not {Decompress result | raw body}: the codec sees compressed bytes or the decompressed stream is discarded")
	}
	// request content type
	ctOK := true
	stores := p.storesToField(nil, "streamHTTP", "contentType")
	if len(stores) == 0 {
		ctOK = false
	}
	for _, st := range stores {
		for _, o := range p.origins(st.Val, originOpts{}) {
			if s, ok := constString(o); ok {
				if s != "application/json" {
					ctOK = false
				}
				continue
			}
			if c, ok := o.(*ssa.Call); ok && calleeName(c) == "(net/http.Header).Get" {
				if k, ok := constString(c.Call.Args[1]); ok && strings.EqualFold(k, "Content-Type") {
					continue
				}
			}
			// a configurable default: an option field validated by NewMux to name a registered codec
			if p.validatedCodecKey(o) {
				continue
			}
			ctOK = false
		}
	}
	r.check(ctOK, "(*Mux).serveHTTP/request-content-type", fn.Pos(), "streamHTTP.contentType is the request's Content-Type, defaulting to application/json",
		"streamHTTP.contentType is not the request's Content-Type header (default application/json)")
	// request-side codec selection uses it
	dra := p.Method("streamHTTP", "decodeRequestArgs")
	if dra == nil {
		r.missing("method (*streamHTTP).decodeRequestArgs")
		return
	}
	ctField := p.StructField("streamHTTP", "contentType")
	sel := false
	eachInstr(dra, func(in ssa.Instruction) {
		if isCall(in, "(*larking.io/larking.streamHTTP).getCodec") {
			for _, o := range p.origins(in.(ssa.CallInstruction).Common().Args[1], originOpts{}) {
				if loadsField(o, ctField) {
					sel = true
				}
			}
		}
	})
	r.check(sel, "(*streamHTTP).decodeRequestArgs/codec-by-content-type", dra.Pos(), "the request codec is selected by the request's content type", "the request codec is not selected by the request's Content-Type")
}

// ---------------------------------------------------------------------------
// CODEC-LOOKUP-TOTAL
// ---------------------------------------------------------------------------

func init() {
	register(&Rule{Name: "CODEC-LOOKUP-TOTAL", Floor: 1,
		Doc: "a codec/compressor obtained from the option maps without a comma-ok or nil test is used only when its key is provably present: the result of negotiateContentType over the registered offers with a constant default that is a key of the built-in codec table",
		Run: ruleCodecLookupTotal})
}

func ruleCodecLookupTotal(r *Run) {
	p := r.P
	reach := p.reachRequest()
	maps := map[*types.Var]bool{}
	for _, n := range []string{"codecs", "codecsByName", "compressors"} {
		if f := p.StructField("muxOptions", n); f != nil {
			maps[f] = true
		}
	}
	// keys of the built-in codec table
	builtin := map[string]bool{}
	if init := globalInit(p.Lark, "defaultCodecs"); init != nil {
		if m, ok := mapLiteralKeys(p, init); ok {
			builtin = m
		}
	}
	n := 0
	for _, fn := range sortedFuncs(reach) {
		site := 0
		eachInstr(fn, func(in ssa.Instruction) {
			lk, ok := in.(*ssa.Lookup)
			if !ok || lk.CommaOk {
				return
			}
			isOpt := false
			for _, o := range p.origins(lk.X, originOpts{}) {
				if f := loadedField(o); f != nil && maps[f] {
					isOpt = true
				}
			}
			if !isOpt {
				return
			}
			// invoked without a nil test?
			var unguarded ssa.Instruction
			for _, use := range p.usesThroughCells(lk) {
				c, ok := use.(ssa.CallInstruction)
				if !ok || !c.Common().IsInvoke() {
					continue
				}
				if !p.knownNonNil(lk, nil, use) && !p.valueNonNilAt(lk, use) {
					unguarded = use
				}
			}
			if unguarded == nil {
				return
			}
			site++
			n++
			key := fmt.Sprintf("%s/unchecked-lookup#%d", shortFunc(fn), site)
			// the key: negotiateContentType(_, offers, constant default in the built-in table)
			good, why := false, "the key is not the result of negotiateContentType"
			for _, o := range p.origins(lk.Index, originOpts{}) {
				c, ok := o.(*ssa.Call)
				if !ok || calleeName(c) != "larking.io/larking.negotiateContentType" {
					continue
				}
				def, isC := constString(c.Call.Args[2])
				switch {
				case !isC && p.validatedCodecKey(c.Call.Args[2]):
					// an option field that NewMux refuses to accept unless a codec is registered under it
					good = true
				case !isC:
					why = "the default offer handed to negotiateContentType is not a constant (" + describeValue(c.Call.Args[2]) + "): when nothing is negotiated the lookup key is whatever the request sent"
				case !builtin[def]:
					why = fmt.Sprintf("the default offer %q is not a key of the built-in codec table", def)
				default:
					good = true
				}
			}
			r.check(good, key, unguarded.Pos(), "the looked-up codec is always present: negotiated over the registered offers with a built-in constant default",
				"a method is invoked on the result of an option-map lookup without comma-ok/nil test and the key is not provably present ("+why+"): nil interface method call (the error path crashes instead of producing a response)")
		})
	}
	if n == 0 {
		r.ok("option-map lookups", token.NoPos, "every option-map lookup on request paths is comma-ok or nil-tested before use")
	}
}

// valueNonNilAt: a nil test of v (through a local variable) dominates `at`.
func (p *Program) valueNonNilAt(v ssa.Value, at ssa.Instruction) bool {
	for _, g := range guardsOf(at.Block()) {
		bo, ok := g.Cond.(*ssa.BinOp)
		if !ok || !isNilConst(bo.Y) {
			continue
		}
		for _, o := range p.origins(bo.X, originOpts{}) {
			if o == v && ((bo.Op == token.NEQ && g.True) || (bo.Op == token.EQL && !g.True)) {
				return true
			}
		}
	}
	return false
}

func mapLiteralKeys(p *Program, e ast.Expr) (map[string]bool, bool) {
	cl, ok := ast.Unparen(e).(*ast.CompositeLit)
	if !ok {
		return nil, false
	}
	out := map[string]bool{}
	for _, el := range cl.Elts {
		kv, ok := el.(*ast.KeyValueExpr)
		if !ok {
			return nil, false
		}
		if k := constOf(p.Lark, kv.Key); k != nil && k.Kind() == constant.String {
			out[constant.StringVal(k)] = true
		}
	}
	return out, true
}

// stringArg returns the argument of call c bound to the callee's only parameter of type string (so that a
// reordering of an internal function's parameters does not matter); the positional argument `fallback` when the
// callee has no or several such parameters.
func (p *Program) stringArg(c ssa.CallInstruction, fallback int) ssa.Value {
	callee := c.Common().StaticCallee()
	if callee != nil {
		idx, n := -1, 0
		for i, par := range callee.Params {
			if b, ok := par.Type().(*types.Basic); ok && b.Kind() == types.String {
				idx = i
				n++
			}
		}
		if n == 1 && idx < len(c.Common().Args) {
			return c.Common().Args[idx]
		}
	}
	if fallback < len(c.Common().Args) {
		return c.Common().Args[fallback]
	}
	return nil
}

// validatedCodecKey: every origin of v is a load of a muxOptions string field F such that NewMux's region looks
// codecs[F] up in the comma-ok form and returns an error when the key is absent (so that, the options being
// read-only after NewMux, codecs[F] is present whenever a Mux exists).
func (p *Program) validatedCodecKey(v ssa.Value) bool {
	codecs := p.StructField("muxOptions", "codecs")
	nm := p.Func("NewMux")
	if codecs == nil || nm == nil {
		return false
	}
	os := p.origins(v, originOpts{})
	if len(os) == 0 {
		return false
	}
	for _, o := range os {
		f := loadedField(o)
		if f == nil || p.fieldOwner(f) != "muxOptions" {
			return false
		}
		validated := false
		p.eachInstrR(nm, func(in ssa.Instruction) {
			lk, ok := in.(*ssa.Lookup)
			if !ok || !lk.CommaOk {
				return
			}
			onCodecs := false
			for _, mo := range p.origins(lk.X, originOpts{}) {
				if loadsField(mo, codecs) {
					onCodecs = true
				}
			}
			byField := false
			for _, io := range p.origins(lk.Index, originOpts{}) {
				if loadsField(io, f) {
					byField = true
				}
			}
			if !onCodecs || !byField {
				return
			}
			// a helper's verdict must be looked at by its caller
			if h := in.Parent(); h != nm {
				for _, st := range p.helpers().sites[h] {
					checked := false
					if sv, ok := st.(ssa.Value); ok && sv.Referrers() != nil {
						for _, ref := range *sv.Referrers() {
							if bo, ok := ref.(*ssa.BinOp); ok && (bo.Op == token.NEQ || bo.Op == token.EQL) && (isNilConst(bo.X) || isNilConst(bo.Y)) {
								checked = true
							}
						}
					}
					if !checked {
						return
					}
				}
			}
			// the absent edge returns an error
			okv := extractOfValue(lk, 1)
			if okv == nil || okv.Referrers() == nil {
				return
			}
			for _, ref := range *okv.Referrers() {
				ifi, isIf := ref.(*ssa.If)
				if !isIf {
					continue
				}
				absent := ifi.Block().Succs[1]
				for hop := 0; hop < 3 && absent != nil; hop++ {
					for _, x := range absent.Instrs {
						if rt, ok := x.(*ssa.Return); ok {
							for _, rv := range rt.Results {
								if isErrorType(rv.Type()) && isFreshError(rv) {
									validated = true
								}
							}
						}
					}
					if len(absent.Succs) == 1 {
						absent = absent.Succs[0]
					} else {
						absent = nil
					}
				}
			}
		})
		if !validated {
			return false
		}
	}
	return true
}

func extractOfValue(v ssa.Value, idx int) ssa.Value {
	if v.Referrers() == nil {
		return nil
	}
	for _, ref := range *v.Referrers() {
		if ex, ok := ref.(*ssa.Extract); ok && ex.Index == idx {
			return ex
		}
	}
	return nil
}
