package main

import (
	"fmt"
	"go/ast"
	"go/constant"
	"go/token"
	"go/types"
	"sort"
	"strings"

	"golang.org/x/tools/go/ssa"
)

const (
	nMatch       = "(*larking.io/larking.state).match"
	nParseQuery  = "(*larking.io/larking.method).parseQueryParams"
	nParamsSet   = "(larking.io/larking.params).set"
	nDecodeArgs  = "(*larking.io/larking.streamHTTP).decodeRequestArgs"
	nFieldPath   = "larking.io/larking.fieldPath"
	nParseParam  = "larking.io/larking.parseParam"
	nPathSearch  = "(*larking.io/larking.path).search"
	nPathMatch   = "(*larking.io/larking.path).match"
	protoreflect = "google.golang.org/protobuf/reflect/protoreflect"
)

func init() {
	register(&Rule{Name: "PARAM-ORDER", Floor: 2,
		Doc: "the parameter list handed to every stream is composed so that path captures come after query parameters (params.set is last-writer-wins)",
		Run: ruleParamOrder})
	register(&Rule{Name: "LAST-WRITER", Floor: 3,
		Doc: "params.set ranges forward over the list and assigns singular fields unconditionally (no test of an already-set field)",
		Run: ruleLastWriter})
	register(&Rule{Name: "DECODE-THEN-PARAMS", Floor: 3,
		Doc: "in every RecvMsg that decodes a body, params.set is called and no decode of the request message can follow it; AsHTTPBodyReader applies params exactly once",
		Run: ruleDecodeThenParams})
	register(&Rule{Name: "KIND-EXHAUSTIVE", Floor: 17,
		Doc: "every protoreflect.Kind except GroupKind has a case in parseParam's kind switch",
		Run: ruleKindExhaustive})
	register(&Rule{Name: "KIND-VALUE-AGREE", Floor: 16,
		Doc: "under each kind, parseParam builds the value with the protoreflect.ValueOf* constructor protoreflect documents for that kind, from an unconverted temporary",
		Run: ruleKindValueAgree})
	register(&Rule{Name: "WKT-TABLE", Floor: 12,
		Doc: "the well-known-type switch lists Timestamp, Duration, FieldMask and every wrapperspb message; under label X the message unmarshalled into is type X (read from the case clauses or from the entries of a table keyed by the type names that parseParam consults)",
		Run: ruleWKTTable})
	register(&Rule{Name: "BYTES-ALPHABETS", Floor: 1,
		Doc: "the bytes arm of parseParam reaches a standard and a URL-safe base64 alphabet and a padded and an unpadded variant",
		Run: ruleBytesAlphabets})
	register(&Rule{Name: "NAME-RESOLUTION", Floor: 1,
		Doc: "fieldPath resolves each name by JSON name and, on a nil result, by proto name",
		Run: ruleNameResolution})
}

// flattenAppend lists, in element order, the root sources of a slice value built with append.
func (p *Program) flattenAppend(v ssa.Value, depth int) []ssa.Value {
	if depth > 8 {
		return []ssa.Value{v}
	}
	var out []ssa.Value
	for _, o := range p.origins(v, originOpts{throughConvert: true, throughAssert: true}) {
		if c, ok := o.(*ssa.Call); ok {
			if b, ok := c.Call.Value.(*ssa.Builtin); ok && b.Name() == "append" && len(c.Call.Args) == 2 {
				out = append(out, p.flattenAppend(c.Call.Args[0], depth+1)...)
				out = append(out, p.flattenAppend(c.Call.Args[1], depth+1)...)
				continue
			}
		}
		if sl, ok := o.(*ssa.Slice); ok {
			out = append(out, p.flattenAppend(sl.X, depth+1)...)
			continue
		}
		if elems := variadicElems(o); elems != nil {
			for _, e := range elems {
				out = append(out, p.flattenAppend(e, depth+1)...)
			}
			continue
		}
		out = append(out, o)
	}
	return out
}

// variadicElems: v is the `new [n]T` array go/ssa allocates to pack variadic arguments (append(s, a, b)); returns the packed values.
func variadicElems(v ssa.Value) []ssa.Value {
	al, ok := v.(*ssa.Alloc)
	if !ok {
		return nil
	}
	pt, ok := al.Type().Underlying().(*types.Pointer)
	if !ok {
		return nil
	}
	if _, isArr := pt.Elem().Underlying().(*types.Array); !isArr {
		return nil
	}
	var out []ssa.Value
	for _, ref := range *al.Referrers() {
		ia, ok := ref.(*ssa.IndexAddr)
		if !ok {
			continue
		}
		for _, r2 := range *ia.Referrers() {
			if st, ok := r2.(*ssa.Store); ok && st.Addr == ssa.Value(ia) {
				out = append(out, st.Val)
			}
		}
	}
	return out
}

func sourceCall(v ssa.Value) string {
	switch x := v.(type) {
	case *ssa.Extract:
		if c, ok := x.Tuple.(*ssa.Call); ok {
			return calleeName(c)
		}
	case *ssa.Call:
		return calleeName(x)
	}
	return ""
}

func ruleParamOrder(r *Run) {
	p := r.P
	n := 0
	for _, typ := range []string{"streamHTTP", "streamWS"} {
		f := p.StructField(typ, "params")
		if f == nil {
			r.missing("field " + typ + ".params")
			continue
		}
		for _, fn := range p.ModuleFuncs() {
			eachInstr(fn, func(in ssa.Instruction) {
				st, ok := in.(*ssa.Store)
				if !ok {
					return
				}
				fa, ok := st.Addr.(*ssa.FieldAddr)
				if !ok || fieldOfAddr(fa) != f {
					return
				}
				n++
				key := fmt.Sprintf("%s/%s.params", shortFunc(fn), typ)
				seq := p.flattenAppend(st.Val, 0)
				var names []string
				lastQuery, firstPath := -1, -1
				for i, s := range seq {
					switch sourceCall(s) {
					case nParseQuery:
						lastQuery = i
						names = append(names, "query")
					case nMatch, nPathMatch, nPathSearch:
						if firstPath < 0 {
							firstPath = i
						}
						names = append(names, "path")
					default:
						if isNilConst(s) {
							continue
						}
						names = append(names, describeValue(s))
					}
				}
				order := strings.Join(names, ", ")
				switch {
				case firstPath < 0:
					r.bad(key, in.Pos(), "the stream's parameter list contains no path captures (sources: %s): path-bound fields are never set", order)
				case lastQuery < 0:
					r.bad(key, in.Pos(), "the stream's parameter list contains no query parameters (sources: %s)", order)
				case lastQuery > firstPath:
					r.bad(key, in.Pos(), "parameter list order is [%s]: params.set is last-writer-wins, so a query parameter naming a path-bound field overrides the value captured from the URL path", order)
				default:
					r.ok(key, in.Pos(), "parameter list order is [%s]: path captures are applied last and win", order)
				}
			})
		}
	}
	if n == 0 {
		r.undecided("stream.params", token.NoPos, "no store to a stream's params field found")
	}
}

func ruleLastWriter(r *Run) {
	p := r.P
	fn := p.Method("params", "set")
	if fn == nil {
		r.missing("method (params).set")
		return
	}
	key := shortFunc(fn)
	// forward iteration over the receiver
	recv := fn.Params[0]
	fwd, nIdx := true, 0
	eachInstr(fn, func(in ssa.Instruction) {
		ia, ok := in.(*ssa.IndexAddr)
		if !ok || ia.X != ssa.Value(recv) {
			return
		}
		nIdx++
		// go/ssa lowers `for _, p := range ps` to  i = phi[-1, i+1]; i+1 < len ; &ps[i+1]
		bo, ok := ia.Index.(*ssa.BinOp)
		if ok && bo.Op == token.ADD {
			if k, isC := constInt(bo.Y); isC && k == 1 {
				if ph, ok := bo.X.(*ssa.Phi); ok {
					for _, e := range ph.Edges {
						if e == ssa.Value(bo) {
							return
						}
					}
				}
			}
		}
		if ph, ok := ia.Index.(*ssa.Phi); ok {
			inc := false
			for _, e := range ph.Edges {
				if b2, ok := e.(*ssa.BinOp); ok && b2.Op == token.ADD && b2.X == ssa.Value(ph) {
					if k, isC := constInt(b2.Y); isC && k > 0 {
						inc = true
					}
				}
			}
			if inc {
				return
			}
		}
		fwd = false
	})
	if nIdx == 0 {
		r.undecided(key+"/forward", fn.Pos(), "no indexed iteration over the receiver found")
	} else {
		r.check(fwd, key+"/forward", fn.Pos(), "iterates the list front to back (later entries overwrite earlier ones)",
			"does not iterate the list front to back: the precedence established by the list order is reversed")
	}
	// Set is unconditional w.r.t. Has
	nSet := 0
	p.eachInstrRegion(fn, func(_ *ssa.Function, in ssa.Instruction) {
		c, ok := in.(ssa.CallInstruction)
		if !ok || !c.Common().IsInvoke() || c.Common().Method.Name() != "Set" || c.Common().Method.Pkg() == nil || c.Common().Method.Pkg().Path() != protoreflect {
			return
		}
		nSet++
		guarded := false
		for _, ctx := range p.guardContexts(in.Block()) {
			for _, g := range ctx {
				if gc, ok := g.Cond.(*ssa.Call); ok && gc.Common().IsInvoke() && gc.Common().Method.Name() == "Has" {
					guarded = true
				}
				if u, ok := g.Cond.(*ssa.UnOp); ok && u.Op == token.NOT {
					if gc, ok := u.X.(*ssa.Call); ok && gc.Common().IsInvoke() && gc.Common().Method.Name() == "Has" {
						guarded = true
					}
				}
			}
		}
		r.check(!guarded, key+"/set-unconditional", in.Pos(), "singular fields are assigned unconditionally (last writer wins)",
			"Set is guarded by a Has test: an earlier writer (query/body) wins over the later path capture")
	})
	if nSet == 0 {
		r.bad(key+"/set-unconditional", fn.Pos(), "no protoreflect Message.Set call: parameters are never applied to singular fields")
		return
	}
	// must-pass-through: once the field is known to be singular (neither list nor map), every path to the next
	// parameter / the return passes Set. Any condition on that path (Has, "value is the default", …) lets an
	// earlier writer win for some value.
	isSet := func(in ssa.Instruction) bool {
		c, ok := in.(ssa.CallInstruction)
		return ok && c.Common().IsInvoke() && c.Common().Method.Name() == "Set" && c.Common().Method.Pkg() != nil && c.Common().Method.Pkg().Path() == protoreflect
	}
	var setCall ssa.CallInstruction
	p.eachInstrRegion(fn, func(_ *ssa.Function, in ssa.Instruction) {
		if isSet(in) {
			setCall = in.(ssa.CallInstruction)
		}
	})
	fd := setCall.Common().Args[0]
	// the write may live in a transparent helper of params.set (one parameter applied per call):
	// the path condition is then checked inside that helper, whose nil return is "next parameter"
	setFn := setCall.Parent()
	// outer loop header: the block of the receiver-range index phi
	var header *ssa.BasicBlock
	eachInstr(setFn, func(in ssa.Instruction) {
		if ia, ok := in.(*ssa.IndexAddr); ok && ia.X == ssa.Value(recv) {
			if ph := indexPhi(ia.Index); ph != nil {
				header = ph.Block()
			}
		}
	})
	checked := false
	for _, b := range setFn.Blocks {
		ifi := blockIf(b)
		if ifi == nil || p.knownSingular(fd, b) {
			continue
		}
		for succ := 0; succ < 2; succ++ {
			sb := b.Succs[succ]
			if !p.knownSingular(fd, sb) {
				continue
			}
			checked = true
			q := pathQuery{fn: setFn, start: ifi, barrier: isSet,
				edgeOK: func(bb *ssa.BasicBlock, ss int) bool { return bb != b || ss == succ },
				target: func(x ssa.Instruction) bool {
					if isReturn(x) {
						// an error return (map fields unsupported …) is not "skipping the write"
						rt := x.(*ssa.Return)
						for _, o := range p.origins(rt.Results[0], originOpts{}) {
							if !isNilConst(o) {
								return false
							}
						}
						return true
					}
					return header != nil && x.Block() == header
				}}
			if w, _ := q.find(); w != nil {
				r.bad(key+"/set-on-every-path", ifi.Pos(), "for a singular field there is a path to the next parameter that skips Message.Set (%s): for some values the later (path) writer does not overwrite what the query or body put there", p.describePath(w))
			} else {
				r.ok(key+"/set-on-every-path", ifi.Pos(), "once the field is known singular every path to the next parameter passes Message.Set")
			}
		}
	}
	if !checked {
		r.undecided(key+"/set-on-every-path", fn.Pos(), "could not locate the edge after which the field is known to be singular")
	}
}

func isDecodeCall(c ssa.CallInstruction) bool {
	n := calleeName(c)
	if n == nDecodeArgs {
		return true
	}
	if c.Common().IsInvoke() && c.Common().Method.Name() == "Unmarshal" {
		return true
	}
	return strings.HasSuffix(n, "protojson.Unmarshal") || strings.HasSuffix(n, "proto.Unmarshal") || strings.HasSuffix(n, "UnmarshalOptions).Unmarshal")
}

// isDecodeCallDeep: a decode call, or a call of a transparent helper that performs one.
func (p *Program) isDecodeCallDeep(c ssa.CallInstruction) bool {
	if isDecodeCall(c) {
		return true
	}
	if callee := c.Common().StaticCallee(); callee != nil && !c.Common().IsInvoke() && p.isTransparent(callee) {
		return p.callMay(c, func(in ssa.Instruction) bool {
			cc, ok := in.(ssa.CallInstruction)
			return ok && isDecodeCall(cc)
		})
	}
	return false
}

func ruleDecodeThenParams(r *Run) {
	p := r.P
	for _, typ := range []string{"streamHTTP", "streamWS"} {
		fn := p.Method(typ, "RecvMsg")
		if fn == nil {
			r.missing("method (*" + typ + ").RecvMsg")
			continue
		}
		key := shortFunc(fn)
		// the URL parameters are applied once, to the first message, and "first" is told by a per-stream counter
		// RecvMsg bumps on entry: a RecvMsg that calls itself (to skip a frame, say) bumps it twice for one
		// message and the parameters are never applied
		selfCall := false
		p.eachInstrRegion(fn, func(_ *ssa.Function, in ssa.Instruction) {
			if c, ok := in.(ssa.CallInstruction); ok && c.Common().StaticCallee() == fn {
				selfCall = true
			}
		})
		r.check(!selfCall, key+"/not-reentrant", fn.Pos(), "RecvMsg does not call itself", "RecvMsg calls itself: every call bumps the received-message counter, so after one inner call the first real message is no longer the 'first' and path and query parameters are not applied to it (a body value for a path-bound field wins)")
		sets := callsIn(fn, nParamsSet)
		if len(sets) == 0 {
			r.bad(key+"/params-applied", fn.Pos(), "RecvMsg never calls params.set: path and query parameters are not applied to the request message")
			continue
		}
		for i, s := range sets {
			si := s.(ssa.Instruction)
			var hit ssa.Instruction
			q := pathQuery{fn: fn, start: si, target: func(x ssa.Instruction) bool {
				c, ok := x.(ssa.CallInstruction)
				if ok && p.isDecodeCallDeep(c) {
					hit = x
					return true
				}
				return false
			}}
			k := fmt.Sprintf("%s/no-decode-after-params#%d", key, i+1)
			if w, _ := q.find(); w != nil {
				r.bad(k, hit.Pos(), "the body is decoded into the request message after params.set ran: a body value overwrites the path-bound field (%s)", p.describePath(w))
			} else {
				r.ok(k, si.Pos(), "no decode of the request message is reachable after params.set")
			}
			// params.set runs under the first-message test
			first := false
			for _, g := range guardsOf(si.Block()) {
				// count == 0 (or == 1, < 1, <= 0), on whichever edge and in whichever form it is written
				if _, y, op, ok := g.cmp(); ok {
					if k, isC := constInt(y); isC && ((op == token.EQL && (k == 0 || k == 1)) || (op == token.LSS && k == 1) || (op == token.LEQ && k == 0)) {
						first = true
					}
				}
			}
			r.check(first, fmt.Sprintf("%s/params-on-first-message#%d", key, i+1), si.Pos(), "params.set runs under the first-message test",
				"params.set is not guarded by a first-message test: repeated fields are appended again on every message of a stream")
		}
		// a decode must be able to precede set (i.e. decode is not placed on a disjoint path only)
		nDec := 0
		eachInstr(fn, func(in ssa.Instruction) {
			if c, ok := in.(ssa.CallInstruction); ok && p.isDecodeCallDeep(c) {
				nDec++
				reaches := false
				for _, s := range sets {
					if w, _ := (pathQuery{fn: fn, start: in, target: func(x ssa.Instruction) bool { return x == s.(ssa.Instruction) }}).find(); w != nil {
						reaches = true
					}
				}
				r.check(reaches, key+"/decode-before-params", in.Pos(), "the decode is followed by params.set on the first message",
					"params.set is not reachable after the body decode: body requests never get their path parameters")
			}
		})
		if nDec == 0 {
			r.undecided(key+"/decode-before-params", fn.Pos(), "no body decode call found in RecvMsg")
		}
	}
	// AsHTTPBodyReader applies params exactly once
	fn := p.Func("AsHTTPBodyReader")
	if fn == nil {
		r.missing("func AsHTTPBodyReader")
		return
	}
	n := len(callsIn(fn, nParamsSet))
	r.check(n == 1, "AsHTTPBodyReader/params-once", fn.Pos(), "applies params.set exactly once", fmt.Sprintf("calls params.set %d times (want exactly once)", n))
}

// ---------------------------------------------------------------------------
// parseParam tables (AST)
// ---------------------------------------------------------------------------

// kindSwitch returns the `switch kind := fd.Kind(); kind {…}` of parseParam.
func (p *Program) kindSwitch() (*ast.FuncDecl, *ast.SwitchStmt) {
	fd := p.FuncDecl("", "parseParam")
	if fd == nil {
		return nil, nil
	}
	var out *ast.SwitchStmt
	ast.Inspect(fd.Body, func(n ast.Node) bool {
		sw, ok := n.(*ast.SwitchStmt)
		if !ok || sw.Tag == nil || out != nil {
			return true
		}
		if t := p.Lark.TypesInfo.TypeOf(sw.Tag); t != nil && isNamed(t, protoreflect, "Kind") {
			out = sw
			return false
		}
		return true
	})
	return fd, out
}

func (p *Program) kindConsts() map[string]string { // exact value -> name
	out := map[string]string{}
	pk := p.ByPath[protoreflect]
	if pk == nil {
		return out
	}
	sc := pk.Types.Scope()
	for _, n := range sc.Names() {
		c, ok := sc.Lookup(n).(*types.Const)
		if !ok || !isNamed(c.Type(), protoreflect, "Kind") {
			continue
		}
		out[c.Val().ExactString()] = n
	}
	return out
}

func ruleKindExhaustive(r *Run) {
	p := r.P
	fd, sw := p.kindSwitch()
	if sw == nil {
		r.missing("parseParam's switch over protoreflect.Kind")
		return
	}
	kinds := p.kindConsts()
	if len(kinds) < 18 {
		r.undecided("protoreflect.Kind", fd.Pos(), "only %d Kind constants found in protoreflect", len(kinds))
		return
	}
	have := map[string]bool{}
	for _, c := range sw.Body.List {
		for _, e := range c.(*ast.CaseClause).List {
			if v := constOf(p.Lark, e); v != nil {
				have[v.ExactString()] = true
			}
		}
	}
	var names []string
	for v, n := range kinds {
		_ = v
		names = append(names, n)
	}
	sort.Strings(names)
	byName := map[string]string{}
	for v, n := range kinds {
		byName[n] = v
	}
	for _, n := range names {
		key := "parseParam/case:" + n
		if n == "GroupKind" {
			r.info(key, sw.Pos(), "proto2 groups cannot be carried in a URL; falls to the error default")
			continue
		}
		r.check(have[byName[n]], key, sw.Pos(), "has a case", "protoreflect."+n+" has no case and falls to the 'unknown param type' error: fields of this kind cannot be bound from path or query")
	}
}

var kindCtor = map[string]string{
	"BoolKind": "ValueOfBool", "Int32Kind": "ValueOfInt32", "Sint32Kind": "ValueOfInt32", "Sfixed32Kind": "ValueOfInt32",
	"Int64Kind": "ValueOfInt64", "Sint64Kind": "ValueOfInt64", "Sfixed64Kind": "ValueOfInt64",
	"Uint32Kind": "ValueOfUint32", "Fixed32Kind": "ValueOfUint32", "Uint64Kind": "ValueOfUint64", "Fixed64Kind": "ValueOfUint64",
	"FloatKind": "ValueOfFloat32", "DoubleKind": "ValueOfFloat64", "StringKind": "ValueOfString", "BytesKind": "ValueOfBytes",
	"EnumKind": "ValueOfEnum", "MessageKind": "ValueOfMessage",
}

func ruleKindValueAgree(r *Run) {
	p := r.P
	_, sw := p.kindSwitch()
	if sw == nil {
		r.missing("parseParam's switch over protoreflect.Kind")
		return
	}
	kinds := p.kindConsts()
	info := p.Lark.TypesInfo
	for _, c := range sw.Body.List {
		cc := c.(*ast.CaseClause)
		if cc.List == nil {
			continue
		}
		// constructors used in this clause (not descending into nested kind-independent helpers)
		ctors := map[string][]ast.Expr{}
		seenHelper := map[*types.Func]bool{}
		var collect func(root ast.Node, depth int)
		collect = func(root ast.Node, depth int) {
			ast.Inspect(root, func(n ast.Node) bool {
				call, ok := n.(*ast.CallExpr)
				if !ok {
					return true
				}
				// a helper of the package that builds the parameter for this clause (wellKnownParam(fds, raw, msg))
				if id, ok := call.Fun.(*ast.Ident); ok && depth < 2 {
					if fo, ok := info.Uses[id].(*types.Func); ok && fo.Pkg() == p.Lark.Types && !seenHelper[fo] && fo.Name() != "parseParam" {
						seenHelper[fo] = true
						for _, f := range p.Lark.Syntax {
							for _, d := range f.Decls {
								if fd, ok := d.(*ast.FuncDecl); ok && fd.Body != nil && info.Defs[fd.Name] == types.Object(fo) {
									collect(fd.Body, depth+1)
								}
							}
						}
					}
					return true
				}
				sel, ok := call.Fun.(*ast.SelectorExpr)
				if !ok || !strings.HasPrefix(sel.Sel.Name, "ValueOf") {
					return true
				}
				if fnObj, ok := info.Uses[sel.Sel].(*types.Func); !ok || fnObj.Pkg() == nil || fnObj.Pkg().Path() != protoreflect {
					return true
				}
				ctors[sel.Sel.Name] = append(ctors[sel.Sel.Name], call.Args...)
				return true
			})
		}
		for _, st := range cc.Body {
			collect(st, 0)
		}
		for _, e := range cc.List {
			v := constOf(p.Lark, e)
			if v == nil {
				continue
			}
			kn := kinds[v.ExactString()]
			want := kindCtor[kn]
			key := "parseParam/" + kn
			if want == "" {
				r.undecided(key, e.Pos(), "no documented constructor known for %s", kn)
				continue
			}
			var got []string
			for k := range ctors {
				got = append(got, k)
			}
			sort.Strings(got)
			if len(ctors) != 1 || ctors[want] == nil {
				r.bad(key, e.Pos(), "under %s the value is built with %v; protoreflect documents %s for this kind (Message.Set panics on a mismatched Go type)", kn, got, want)
				continue
			}
			// the argument must not be a narrowing/widening numeric conversion of a differently sized temporary
			conv := false
			for _, a := range ctors[want] {
				if call, ok := ast.Unparen(a).(*ast.CallExpr); ok && len(call.Args) == 1 {
					if tv, ok := info.Types[call.Fun]; ok && tv.IsType() {
						src := info.TypeOf(call.Args[0])
						dst := tv.Type
						sb, ok1 := src.Underlying().(*types.Basic)
						db, ok2 := dst.Underlying().(*types.Basic)
						if ok1 && ok2 && sb.Kind() != db.Kind() && sb.Info()&types.IsNumeric != 0 && db.Info()&types.IsNumeric != 0 {
							// EnumNumber(int32) is the documented form for enums
							if kn == "EnumKind" && sb.Kind() == types.Int32 {
								continue
							}
							conv = true
						}
					}
				}
			}
			r.check(!conv, key, e.Pos(), "built with "+want+" from an unconverted temporary of the matching width",
				"the temporary is converted to another numeric type before "+want+": values outside the narrower range are silently truncated instead of rejected")
		}
	}
}

var wktLabels = []string{"Timestamp", "Duration", "FieldMask"}

func ruleWKTTable(r *Run) {
	p := r.P
	fd := p.FuncDecl("", "parseParam")
	if fd == nil {
		r.missing("func parseParam")
		return
	}
	info := p.Lark.TypesInfo
	// the inner switch with string-constant labels
	var inner *ast.SwitchStmt
	ast.Inspect(fd.Body, func(n ast.Node) bool {
		sw, ok := n.(*ast.SwitchStmt)
		if !ok || sw.Tag == nil {
			return true
		}
		for _, c := range sw.Body.List {
			for _, e := range c.(*ast.CaseClause).List {
				if v := constOf(p.Lark, e); v != nil && v.ExactString() == `"Timestamp"` {
					inner = sw
				}
			}
		}
		return true
	})
	// … or a package-level table keyed by the same labels that parseParam (or a function it calls) consults
	var tableEntries map[string]ast.Node
	if inner == nil {
		tableEntries = p.wktTable(fd)
		if tableEntries == nil {
			r.missing("parseParam's well-known-type switch (or a table keyed by the type names that parseParam consults)")
			return
		}
	}
	want := map[string]bool{}
	for _, l := range wktLabels {
		want[l] = true
	}
	if pk := p.ByPath["google.golang.org/protobuf/types/known/wrapperspb"]; pk != nil {
		pm := p.lookupIface("google.golang.org/protobuf/reflect/protoreflect", "ProtoMessage")
		sc := pk.Types.Scope()
		for _, n := range sc.Names() {
			tn, ok := sc.Lookup(n).(*types.TypeName)
			if !ok || !tn.Exported() {
				continue
			}
			if _, ok := tn.Type().Underlying().(*types.Struct); !ok {
				continue
			}
			if pm != nil && !types.Implements(types.NewPointer(tn.Type()), pm) {
				continue
			}
			want[n] = true
		}
	} else {
		r.undecided("wrapperspb", fd.Pos(), "package wrapperspb not loaded")
	}
	// label -> the syntax that handles it (a case clause, or the value of a table entry)
	have := map[string][]ast.Node{}
	var where token.Pos = fd.Pos()
	if inner != nil {
		where = inner.Pos()
		for _, c := range inner.Body.List {
			cc := c.(*ast.CaseClause)
			for _, e := range cc.List {
				if v := constOf(p.Lark, e); v != nil {
					var body []ast.Node
					for _, st := range cc.Body {
						body = append(body, st)
					}
					if len(body) == 0 {
						body = []ast.Node{cc}
					}
					have[strings.Trim(v.ExactString(), `"`)] = body
				}
			}
		}
	} else {
		for l, n := range tableEntries {
			have[l] = []ast.Node{n}
			where = n.Pos()
		}
	}
	var labels []string
	for l := range want {
		labels = append(labels, l)
	}
	sort.Strings(labels)
	for _, l := range labels {
		key := "parseParam/wkt:" + l
		nodes := have[l]
		if nodes == nil {
			r.bad(key, where, "google.protobuf.%s has no case: fields of this well-known type cannot be bound from path or query", l)
			continue
		}
		// the message built or declared under the label has the type named l
		good := false
		var gotT string
		for _, st := range nodes {
			ast.Inspect(st, func(n ast.Node) bool {
				var t types.Type
				switch x := n.(type) {
				case *ast.ValueSpec:
					if x.Type != nil {
						t = info.TypeOf(x.Type)
					}
				case *ast.CallExpr: // new(T)
					if id, ok := x.Fun.(*ast.Ident); ok && id.Name == "new" && len(x.Args) == 1 {
						t = info.TypeOf(x.Args[0])
					}
				case *ast.CompositeLit: // &T{} / T{}
					t = info.TypeOf(x)
				}
				if t == nil {
					return true
				}
				if nm := namedOf(t); nm != nil && nm.Obj().Pkg() != nil && strings.HasPrefix(nm.Obj().Pkg().Path(), "google.golang.org/protobuf/types/known/") {
					gotT = nm.Obj().Name()
					if nm.Obj().Name() == l {
						good = true
					}
				}
				return true
			})
		}
		r.check(good, key, nodes[0].Pos(), "unmarshals into "+l, fmt.Sprintf("under label %q the text is unmarshalled into %s: a %s field would be set with a message of another type (Set panics)", l, gotT, l))
	}
	for l, nodes := range have {
		if !want[l] {
			r.info("parseParam/wkt:"+l, nodes[0].Pos(), "extra label not in the well-known-type table")
		}
	}
}

// wktTable: a package-level composite literal keyed by string constants that include "Timestamp", whose variable is
// referenced from parseParam or a package function it calls; label -> value expression of the entry.
func (p *Program) wktTable(fd *ast.FuncDecl) map[string]ast.Node {
	info := p.Lark.TypesInfo
	used := map[types.Object]bool{}
	p.inspectDeep(fd.Body, func(n ast.Node) bool {
		if id, ok := n.(*ast.Ident); ok {
			if v, ok := info.Uses[id].(*types.Var); ok && v.Parent() == p.Lark.Types.Scope() {
				used[v] = true
			}
		}
		return true
	})
	for _, file := range p.Lark.Syntax {
		for _, d := range file.Decls {
			gd, ok := d.(*ast.GenDecl)
			if !ok || gd.Tok != token.VAR {
				continue
			}
			for _, sp := range gd.Specs {
				vs := sp.(*ast.ValueSpec)
				for i, name := range vs.Names {
					if !used[info.Defs[name]] || i >= len(vs.Values) {
						continue
					}
					cl, ok := vs.Values[i].(*ast.CompositeLit)
					if !ok {
						continue
					}
					entries := map[string]ast.Node{}
					for _, el := range cl.Elts {
						kv, ok := el.(*ast.KeyValueExpr)
						if !ok {
							continue
						}
						if v := constOf(p.Lark, kv.Key); v != nil && v.Kind() == constant.String {
							entries[constant.StringVal(v)] = kv.Value
						}
					}
					if _, ok := entries["Timestamp"]; ok {
						return entries
					}
				}
			}
		}
	}
	return nil
}

// inspectDeep is ast.Inspect over n and, transitively (depth 3), over the bodies of the larking-package
// functions and methods called from it, each visited once.
func (p *Program) inspectDeep(n ast.Node, f func(ast.Node) bool) {
	seen := map[*ast.FuncDecl]bool{}
	var visit func(n ast.Node, depth int)
	visit = func(n ast.Node, depth int) {
		ast.Inspect(n, func(x ast.Node) bool {
			if x == nil {
				return true
			}
			if !f(x) {
				return false
			}
			call, ok := x.(*ast.CallExpr)
			if !ok || depth >= 3 {
				return true
			}
			var id *ast.Ident
			switch fun := call.Fun.(type) {
			case *ast.Ident:
				id = fun
			case *ast.SelectorExpr:
				id = fun.Sel
			}
			if id == nil {
				return true
			}
			fobj, ok := p.Lark.TypesInfo.Uses[id].(*types.Func)
			if !ok || fobj.Pkg() != p.Lark.Types {
				return true
			}
			for _, file := range p.Lark.Syntax {
				for _, d := range file.Decls {
					if fd, ok := d.(*ast.FuncDecl); ok && fd.Body != nil && p.Lark.TypesInfo.Defs[fd.Name] == types.Object(fobj) && !seen[fd] {
						seen[fd] = true
						visit(fd.Body, depth+1)
					}
				}
			}
			return true
		})
	}
	visit(n, 0)
}

func ruleBytesAlphabets(r *Run) {
	p := r.P
	_, sw := p.kindSwitch()
	if sw == nil {
		r.missing("parseParam's switch over protoreflect.Kind")
		return
	}
	kinds := p.kindConsts()
	info := p.Lark.TypesInfo
	for _, c := range sw.Body.List {
		cc := c.(*ast.CaseClause)
		isBytes := false
		for _, e := range cc.List {
			if v := constOf(p.Lark, e); v != nil && kinds[v.ExactString()] == "BytesKind" {
				isBytes = true
			}
		}
		if !isBytes {
			continue
		}
		uses := map[string]bool{}
		for _, st := range cc.Body {
			// the arm's statements and the bodies of the module functions they call (the decoding may be a helper)
			p.inspectDeep(st, func(n ast.Node) bool {
				id, ok := n.(*ast.Ident)
				if !ok {
					return true
				}
				obj := info.Uses[id]
				if obj == nil || obj.Pkg() == nil || obj.Pkg().Path() != "encoding/base64" {
					return true
				}
				uses[obj.Name()] = true
				return true
			})
		}
		std := uses["StdEncoding"] || uses["RawStdEncoding"]
		url := uses["URLEncoding"] || uses["RawURLEncoding"]
		padded := uses["StdEncoding"] || uses["URLEncoding"]
		unpadded := uses["RawStdEncoding"] || uses["RawURLEncoding"] || (uses["WithPadding"] && uses["NoPadding"])
		var miss []string
		if !std {
			miss = append(miss, "standard alphabet")
		}
		if !url {
			miss = append(miss, "URL-safe alphabet")
		}
		if !padded {
			miss = append(miss, "padded variant")
		}
		if !unpadded {
			miss = append(miss, "unpadded variant")
		}
		r.check(len(miss) == 0, "parseParam/BytesKind/alphabets", cc.Pos(), "reaches standard and URL-safe alphabets, padded and unpadded (proto3 JSON accepts all four)",
			"the bytes arm never uses: "+strings.Join(miss, ", ")+" (proto3 JSON accepts standard and URL-safe base64, with or without padding)")
		return
	}
	r.bad("parseParam/BytesKind/alphabets", sw.Pos(), "no BytesKind case")
}

func ruleNameResolution(r *Run) {
	p := r.P
	fn := p.Func("fieldPath")
	if fn == nil {
		r.missing("func fieldPath")
		return
	}
	var byJSON, byName ssa.Instruction
	// (the two lookups may sit in a helper of fieldPath: findField(fieldDescs, name))
	p.eachInstrR(fn, func(in ssa.Instruction) {
		c, ok := in.(ssa.CallInstruction)
		if !ok || !c.Common().IsInvoke() {
			return
		}
		switch c.Common().Method.Name() {
		case "ByJSONName":
			byJSON = in
		case "ByName":
			byName = in
		case "ByTextName":
			byName = in
		}
	})
	key := "fieldPath/json-then-proto-name"
	if byJSON == nil || byName == nil {
		r.bad(key, fn.Pos(), "fieldPath does not look names up both by JSON name and by proto name (ByJSONName: %v, ByName: %v): query keys / template fields in one of the two spellings stop resolving", byJSON != nil, byName != nil)
		return
	}
	// one of the lookups runs on the nil edge of the other
	nilEdge := func(first, second ssa.Instruction) bool {
		fv := first.(ssa.Value)
		for _, g := range guardsOf(second.Block()) {
			bo, ok := g.Cond.(*ssa.BinOp)
			if !ok {
				continue
			}
			if (bo.X == fv && isNilConst(bo.Y)) || (bo.Y == fv && isNilConst(bo.X)) {
				if (bo.Op == token.EQL && g.True) || (bo.Op == token.NEQ && !g.True) {
					return true
				}
			}
		}
		return false
	}
	r.check(nilEdge(byJSON, byName) || nilEdge(byName, byJSON), key, byJSON.Pos(), "the second lookup runs exactly when the first returned nil",
		"the two name lookups are not chained (second on the nil edge of the first)")
}
